"""ROOT-module twin of the HTTP checks: C02 (end-to-end call fidelity), C08 (error and status propagation) and the HTTP-level
parts of C04 (mode c04http) and C06 (mode c06http).  The properties' anchors name the root copies (/repo/restli/*.go,
/repo/codegen/resources/): the v2 parts of these checks run harness/httpdrv against the bindings of the v2 generator only.

    roothttp.run_root(run, mode, tier, seed)         mode in c02 c08 c04http c06http c07http

is called by a check AFTER its v2 part with the check's own lib.Run (same contract as rootmode.run_root).  It
  1. converts the resource family (family.TYPES + RES_TYPES + RESOURCES) to the spec format of the ROOT spec parser
     ({"dataTypes":[...],"Resources":[...]}: included records flattened as in checks/rootcodec.py; a method's paging support is not
     a flag but two leading parameters start / count with includedFrom = restlidata.PagingContext, spec-parser MethodParser.java
     toFieldList) and pushes it through the REAL root generator of the current tree (harness/cmd/rootgen = cmd.GenerateCode);
  2. builds the root HTTP driver in the scratch module `verifgenroot`: the sources of harness/httpdrv copied with CHECKED rewrites
     (REWRITES / CUTS below; a rewrite that no longer matches is a broken build) + harness/roothttp/*.go (root main, the two
     functions that name the fields of ErrorResponse) + a registry generated from the family, against the fresh root bindings
     (generated Client / NewClient / Resource / RegisterResource / <pkg>_test.MockResource - the root generator emits all of
     them, for every resource kind of the family);
  3. runs the driver in mode `mode`: the same request generators and property oracles as the v2 part, on the root implementation;
     oracle failures -> run.fail_input with the signature prefixed `root:`;
  4. c02 / c08: evaluates the cases with the UNCHANGED correspondences Corr/C02Corr.v / Corr/C08Corr.v (models Http/EndToEnd.v,
     Http/Router.v, Http/Status.v written from the v2 files).  That they apply is decided on every run by Corr/RootHttpCorr.v from
     tables regenerated from BOTH modules (Gen/TablesStatusRoot.v, Gen/TablesRootHttp.v, the root_ tables of TablesCodec / TablesRouter /
     TablesTunnel): same status tables, same escaping tables, same method inference, and every declaration of the HTTP runtime
     textually the same after the package renaming except a listed set (client-side envelope readers, the missing
     partial-update-with-return-entity).  When RootHttpCorr no longer compiles the model does not apply: the run is oracle-only and
     a broken correspondence is recorded, naming the declarations that differ;
     c04http / c06http / c07http: oracle only (as in the v2 part);
  5. stores the coverage under run.cov["root_http"].
It never raises: a failure to build or run is recorded in run.broken.

The one place where the family had to be changed for the root module: partial_update with returnEntity (resource `rets`).  The root
runtime has no PartialUpdateWithReturnEntity / RegisterPartialUpdateWithReturnEntity, but the root generator appends
"WithReturnEntity" for ANY method carrying the flag, so the bindings of such a resource do not compile.  build_driver probes this on
every run (the unmodified `rets` resource generated into gen/fam/rets_probe and compiled); while the probe fails the flag is dropped
from the root spec and mode c02 reports the finding root:gen:partial_update-return-entity:bindings-do-not-compile.
"""
import copy, json, os, re, shutil, time
import family, httpdrv, rootcodec
from lib import *

# files of harness/httpdrv reused (after the rewrites below); main.go is replaced by harness/roothttp/root_main.go
SHARED = ["env.go", "dyn.go", "gen.go", "schema.go", "val.go", "c02.go", "c02coq.go", "c08.go", "c04http.go", "c06http.go", "c07http.go"]

V2_COMMON = "github.com/PapaCharlie/go-restli/v2/restlidata/generated/com/linkedin/restli/common"

# (old, new): every one must match somewhere in SHARED, in this order
REWRITES = [
    # root: the envelope types (ErrorResponse, Elements, CreatedEntity, BatchResponse, ...) live in restlidata
    (V2_COMMON, "github.com/PapaCharlie/go-restli/restlidata"),
    ("github.com/PapaCharlie/go-restli/v2/", "github.com/PapaCharlie/go-restli/"),
    ('"verifgen/', '"verifgenroot/'),
    ("common.ErrorResponse", "restlidata.ErrorResponse"),
    # failure sites name the root files
    ('"v2/restli/', '"restli/'),
]
# any other use of the v2 package name would not compile: rewritten too, but not required to occur
OPTIONAL = [(re.compile(r"\bcommon\."), "restlidata.")]

# (file, head of a top-level func): cut from the copy; harness/roothttp/root_err.go supplies the root version (the root ErrorResponse has 4
# fields: status, message, exceptionClass, stackTrace; v2's has 10)
CUTS = [("c08.go", "func fieldsOf("), ("c08.go", "func buildErr(")]

PAGING_CONTEXT = {"name": "PagingContext", "namespace": "github.com/PapaCharlie/go-restli/restlidata"}

RETURN_ENTITY_SIG = "gen:partial_update-return-entity:bindings-do-not-compile"


# ------------------------------------------------------------------------------------------------ family -> root spec

def _flat_fields(kinds, name, top=True):
    """rootcodec.flat_fields over TYPES + RES_TYPES: included records' fields first, tagged with the declaring record"""
    kind, d = kinds[name]
    out = []
    for inc in d.get("includes", []):
        out += _flat_fields(kinds, inc["name"], False)
    for f in d["fields"]:
        g = {"name": f["name"], "doc": f.get("doc", ""), "type": f["type"], "isOptional": f["isOptional"]}
        if "defaultValue" in f:
            g["defaultValue"] = f["defaultValue"]
        if not top:
            g["includedFrom"] = {"name": name, "namespace": family.NS}
        out.append(g)
    seen, uniq = set(), []
    for g in out:
        if g["name"] not in seen:
            seen.add(g["name"])
            uniq.append(g)
    return uniq


def root_types():
    types = family.TYPES + family.RES_TYPES
    kinds = {}
    for t in types:
        (kind, d), = t.items()
        kinds[d["name"]] = (kind, d)
    out = []
    for t in types:
        (kind, d), = t.items()
        base = {"name": d["name"], "namespace": d["namespace"], "sourceFile": d["sourceFile"], "doc": d["doc"]}
        if kind == "record":
            base["fields"] = _flat_fields(kinds, d["name"])
        elif kind == "enum":
            base["Symbols"], base["SymbolToDoc"] = d["Symbols"], d["SymbolToDoc"]
        elif kind == "fixed":
            base["Size"] = d["Size"]
        elif kind == "typeref":
            base["type"] = d["type"]
        elif kind == "standaloneUnion":
            base["Union"] = d["Union"]
        elif kind == "complexKey":
            base["Key"], base["Params"] = d["Key"], d["Params"]
        else:
            raise Broken("build", "checks/roothttp.py: family kind " + kind, "")
        out.append({kind: base})
    # the conversion of the data types must be the one the codec twin uses
    n = len(family.TYPES)
    if out[:n] != rootcodec.root_spec()["dataTypes"]:
        raise Broken("build", "checks/roothttp.py: the data-type conversion differs from checks/rootcodec.py root_spec()", "")
    return out


def root_method(m, keep_return_entity):
    """spec-parser/src/main/java/io/papacharlie/gorestli/MethodParser.java: paging = two leading optional int32 parameters"""
    params = []
    if m.get("isPagingSupported"):
        for name, doc in (("start", "The starting offset"), ("count", "The number of elements to return")):
            params.append({"name": name, "doc": doc, "type": {"primitive": "int32"}, "isOptional": True, "includedFrom": PAGING_CONTEXT})
    params += [dict(p) for p in m["params"]]
    d = {"methodType": m["methodType"], "name": m["name"], "doc": m["doc"], "onEntity": m["onEntity"], "params": params,
         "returnEntity": m["returnEntity"]}
    if m["methodType"] == "REST_METHOD" and m["name"] == "partial_update" and not keep_return_entity:
        d["returnEntity"] = False
    for k in ("return", "metadata"):
        if k in m:
            d[k] = m[k]
    return d


def root_resource(r, keep_return_entity):
    d = {k: r[k] for k in ("namespace", "doc", "sourceFile", "resourcePathSegments", "readOnlyFields", "createOnlyFields")}
    if "resourceSchema" in r:
        d["resourceSchema"] = r["resourceSchema"]
    d["methods"] = [root_method(m, keep_return_entity) for m in r["methods"]]
    return d


def root_spec(keep_return_entity=False, only=None):
    res = [r for r in family.RESOURCES if only is None or only(r)]
    return {"dataTypes": root_types(), "Resources": [root_resource(r, keep_return_entity) for r in res]}


def _has_pu_return_entity(r):
    return any(m["methodType"] == "REST_METHOD" and m["name"] == "partial_update" and m["returnEntity"] for m in r["methods"])


def go_schema(keep_return_entity=False):
    """the driver's view of the family (v2 manifest shape: paging as a flag) with the same adjustment as the spec"""
    s = copy.deepcopy(family.go_schema_with_resources())
    if not keep_return_entity:
        for r in s["resources"]:
            for m in r["methods"]:
                if m["methodType"] == "REST_METHOD" and m["name"] == "partial_update":
                    m["returnEntity"] = False
    return s


def registry_go():
    src = httpdrv.registry_go("verifgenroot/gen")
    a = "github.com/PapaCharlie/go-restli/v2/restli"
    if a not in src:
        raise Broken("build", "checks/roothttp.py: checks/httpdrv.py registry_go no longer imports " + a, "")
    return src.replace(a, "github.com/PapaCharlie/go-restli/restli").replace("checks/httpdrv.py", "checks/roothttp.py (httpdrv.registry_go)")


def _cut_func(src, head, fname):
    i = src.find("\n" + head)
    j = src.find("\n}\n", i) if i >= 0 else -1
    if i < 0 or j < 0:
        raise Broken("build", "checks/roothttp.py: %s of harness/httpdrv/%s not found (the shared driver changed)" % (head, fname), "")
    return src[:i + 1] + src[j + 3:]


# ------------------------------------------------------------------------------------------------ build

def _rootgen(mod, rootgen, spec, spec_name, out_dir):
    json.dump(spec, open(os.path.join(mod, spec_name), "w"))
    return sh([rootgen, "verifgenroot/gen", spec_name, out_dir], cwd=mod, env=env_go(), timeout=300)


def build_driver(work, race=False, name="drv"):
    """returns (driver exe, schema.json path, info); raises Broken when the root generator or the generated code no longer builds.
    info["return_entity_partial_update"]: None when the root bindings of a partial_update with return entity compile, else the
    compiler's message (the flag is then dropped from the root spec)"""
    mod = os.path.join(work, "verifgenroot")
    info_path = os.path.join(mod, "info.json")
    if not os.path.exists(mod):
        os.makedirs(mod)
        rootgen = go_build("rootgen", os.path.join(BUILD, "rootgen"), tags="verif")
        open(os.path.join(mod, "go.mod"), "w").write(
            "module verifgenroot\n\ngo 1.18\n\nrequire github.com/PapaCharlie/go-restli v0.0.0\n\n"
            "replace github.com/PapaCharlie/go-restli => %s\n" % REPO)
        shutil.copy(os.path.join(REPO, "go.sum"), os.path.join(mod, "go.sum"))
        rc, o = _rootgen(mod, rootgen, root_spec(False), "spec.json", "gen")
        if rc != 0:
            raise Broken("correspondence", "the real ROOT generator fails on the resource family spec", o[-4000:])
        # probe: the resources with a return-entity partial_update, unmodified, next to the main bindings (same package prefix, so
        # they import the main gen/fam types)
        info = dict(return_entity_partial_update=None, probed=[])
        probed = [r for r in family.RESOURCES if _has_pu_return_entity(r)]
        if probed:
            rc, o = _rootgen(mod, rootgen, root_spec(True, only=_has_pu_return_entity), "spec_probe.json", "probe")
            if rc != 0:
                raise Broken("correspondence", "the real ROOT generator fails on the return-entity partial_update probe", o[-4000:])
            fails = []
            for r in probed:
                segs = [s["resourceName"] for s in r["resourcePathSegments"]]
                src = os.path.join(mod, "probe", family.NS, *segs)
                dst = os.path.join(mod, "gen", family.NS, *(segs[:-1] + [segs[-1] + "_probe"]))
                os.makedirs(dst)
                for f in os.listdir(src):
                    if f.endswith(".go") and os.path.isfile(os.path.join(src, f)):
                        shutil.copy(os.path.join(src, f), os.path.join(dst, f))
                rc, o = sh(["go", "build", "./" + os.path.relpath(dst, mod)], cwd=mod, env=env_go(), timeout=900)
                info["probed"].append("/".join(segs))
                if rc != 0:
                    und = sorted(set(re.findall(r"undefined: (restli\.\w+)", o)))
                    if not und:
                        raise Broken("correspondence", "the ROOT bindings of resource %s do not build" % "/".join(segs), o[-4000:])
                    fails.append(dict(resource="/".join(segs), undefined=und, compiler=o.strip()[-1200:]))
                shutil.rmtree(dst)
            shutil.rmtree(os.path.join(mod, "probe"))
            if fails:
                info["return_entity_partial_update"] = fails
            else:
                # supported by this tree: keep the flag
                rc, o = _rootgen(mod, rootgen, root_spec(True), "spec.json", "gen")
                if rc != 0:
                    raise Broken("correspondence", "the real ROOT generator fails on the resource family spec", o[-4000:])
        json.dump(go_schema(info["return_entity_partial_update"] is None), open(os.path.join(mod, "schema.json"), "w"))
        json.dump(info, open(info_path, "w"))
        shutil.copytree(os.path.join(HARNESS, "hx"), os.path.join(mod, "hx"))
        drv = os.path.join(mod, "drv")
        os.makedirs(drv)
        hits = [0] * len(REWRITES)
        for f in SHARED:
            src = open(os.path.join(HARNESS, "httpdrv", f)).read()
            for cf, head in CUTS:
                if cf == f:
                    src = _cut_func(src, head, f)
            for i, (a, b) in enumerate(REWRITES):
                hits[i] += src.count(a)
                src = src.replace(a, b)
            for rx, b in OPTIONAL:
                src = rx.sub(b, src)
            open(os.path.join(drv, f), "w").write(src)
        stale = [REWRITES[i][0] for i, h in enumerate(hits) if h == 0]
        if stale:
            raise Broken("build", "checks/roothttp.py: a source rewrite of harness/httpdrv no longer applies (the shared driver changed)",
                         "\n".join(stale))
        for f in sorted(os.listdir(os.path.join(HARNESS, "roothttp"))):
            if f.endswith(".go"):
                shutil.copy(os.path.join(HARNESS, "roothttp", f), os.path.join(drv, f))
        open(os.path.join(drv, "registry.go"), "w").write(registry_go())
    info = json.load(open(info_path))
    exe = os.path.join(mod, name + ".exe")
    cmd = ["go", "build", "-tags", "verif"]
    env = env_go()
    if race:
        cmd.append("-race")
        env["CGO_ENABLED"] = "1"
    rc, o = sh(cmd + ["-o", exe, "./drv"], cwd=mod, env=env, timeout=1200)
    if rc != 0:
        raise Broken("correspondence", "the generated ROOT bindings / root http driver do not build", o[-6000:])
    return exe, os.path.join(mod, "schema.json"), info


# ------------------------------------------------------------------------------------------------ run

MODES = ("c02", "c08", "c04http", "c06http", "c07http")
CORR = dict(c02="Corr/C02Corr.vo", c08="Corr/C08Corr.vo")
ROOT_TABLES = ["TablesCodec", "TablesRouter", "TablesTunnel", "TablesStatus", "TablesStatusRoot", "TablesRootHttp"]

# how many shards of cases the model evaluates (evenly spread over the run; the Go oracles see every case); None = all
QUICK_SHARDS = dict(c02=12, c08=12)
THOROUGH_SHARDS = dict(c02=None, c08=None)

ROOT_CORR = dict(
    c02="corr:root-module request-and-dispatch (Corr/C02Corr.v unchanged: model on_wire / route_mount vs the request the recording transport "
        "saw and the resource method that ran, generated ROOT client over the generated ROOT server)",
    c08="corr:root-module reply (Corr/C08Corr.v unchanged: model call = serve + client vs the generated ROOT client over the generated ROOT "
        "server with a scripted mock resource)")

ROOT_TRUSTED = (
    "root module generation (github.com/PapaCharlie/go-restli, /repo/restli + /repo/codegen/resources): the resource family is pushed "
    "through the REAL root generator (cmd.GenerateCode on the spec format of the root spec parser: included records flattened, paging as "
    "two leading parameters start / count included from restlidata.PagingContext - the conversion checks/roothttp.py stands for the Java "
    "spec parser, which is not run) and the driver harness/httpdrv (copied with checked source rewrites + harness/roothttp) runs the same "
    "request generators and property oracles against the generated root Client / RegisterResource / MockResource of every family "
    "resource.  Modes c02 / c08: the cases are evaluated with the UNCHANGED glue Corr/C02Corr.v / Corr/C08Corr.v, i.e. with the models "
    "written from the v2 files; that they apply to the root module is decided on every run by Corr/RootHttpCorr.v (kernel-checked, from "
    "tables the translator regenerates from both modules): root_status_tables_same (every fact of TablesStatus has the same value when "
    "extracted from /repo/restli; the root module lacks exactly RegisterPartialUpdateWithReturnEntity), root_codec_tables_same, "
    "root_router_tables_same (root_infer = v2_infer), root_tunnel_condition_same, root_http_decls_expected + root_transcribed_unchanged "
    "(every top-level declaration of restli/{handler,server,http,collection,simple,finders,actions,collection_batch_methods,tunnelling,"
    "errors,types}.go is textually the same in both modules after the renaming common. -> restlidata., except 14 listed declarations, none "
    "of which the models transcribe: client-side envelope readers using reader.Skip() instead of NoSuchFieldErr and a []string "
    "RequiredFields, a renamed type parameter, the missing partial-update-with-return-entity, IllegalPartialUpdateError).  The theorems "
    "of Props/C02.v and Props/C08.v are stated for the model; for the root module they apply through these equalities only.  Differences "
    "of the generations that are API, not behaviour: the root ErrorResponse has four fields (status, message, exceptionClass, stackTrace - "
    "the six other fields of the model's error record are None in every root case, so the 64 error objects of the scenarios collapse to 16 "
    "distinct ones); envelope types live in restlidata instead of the generated common package; RequiredFields is passed by value; "
    "partial_update with return entity does not exist in the root runtime (the flag is dropped from the root spec while the probe "
    "described under root_http.return_entity_partial_update fails).  Modes c04http / c06http are decided by the property oracle on the "
    "implementation only, as in the v2 part")


def _pick(n, limit):
    if limit is None or n <= limit:
        return list(range(n))
    step = n / float(limit)
    return sorted(set(int(i * step) for i in range(limit)))


# the differences Corr/RootHttpCorr.v lists (expected_differences); repeated here only to word the report - the Coq file decides
EXPECTED_DECL_DIFFERENCES = {
    "server.go:RegisterPartialUpdate", "server.go:RegisterPartialUpdateWithReturnEntity", "simple.go:PartialUpdateWithReturnEntity",
    "actions.go:DoActionRequestWithResults", "actions.go:actionRequiredResponseFields", "collection_batch_methods.go:BatchCreate",
    "collection_batch_methods.go:BatchCreateWithReturnEntity", "collection_batch_methods.go:SliceBatchQueryParams.DecodeQueryParams",
    "collection_batch_methods.go:batchCreate", "collection_batch_methods.go:batchEntities.UnmarshalRestLi",
    "collection_batch_methods.go:entitiesRequiredResponseFields", "collection_batch_methods.go:entityIdsRequiredResponseFields",
    "errors.go:IllegalPartialUpdateError", "errors.go:IllegalPartialUpdateError.Error"}


def _decl_differences(srcs):
    """lines `TablesRootHttp: decl <cmp> <file:decl> <- <pos>` of the translator's report"""
    out = []
    for l in srcs:
        m = re.match(r"TablesRootHttp: decl (\w+) (\S+) <- (.*)", l)
        if m:
            out.append("%s %s (%s)" % (m.group(2), m.group(1), m.group(3)))
    return out


def run_root(run, mode, tier, seed, timeout=3000, replay=None, race=None):
    """race: also run mode c08race from a -race build (default: mode c08 in the thorough tier)"""
    t0 = time.time()
    cov = dict(mode=mode, generation="root module (github.com/PapaCharlie/go-restli)")
    run.cov["root_http"] = cov
    if mode not in MODES:
        run.broken.append(Broken("build", "checks/roothttp.py: unknown mode " + mode, ""))
        return cov
    if ROOT_TRUSTED not in run.trusted:
        run.trusted.append(ROOT_TRUSTED)
    if race is None:
        race = mode == "c08" and tier == "thorough"
    try:
        work = os.path.join(run.work, "roothttp")
        os.makedirs(work, exist_ok=True)
        exe, schema, info = build_driver(work)
        cov["build_s"] = round(time.time() - t0, 1)
        cov["return_entity_partial_update"] = (
            "supported by the root bindings of this tree" if info["return_entity_partial_update"] is None else
            dict(probe="the unmodified resources %s were generated by the root generator and compiled separately: the bindings do not "
                       "compile; returnEntity was dropped from partial_update in the root spec" % ", ".join(info["probed"]),
                 failures=info["return_entity_partial_update"]))
        if mode == "c02" and info["return_entity_partial_update"]:
            f = info["return_entity_partial_update"][0]
            run.fail_input("root:" + RETURN_ENTITY_SIG,
                           "[root module] the root generator emits calls to %s for a partial_update whose spec says returnEntity (set by "
                           "the root spec parser for every method annotated @ReturnEntity), but the root runtime restli/ has no such "
                           "functions: the generated client and RegisterResource of the resource do not compile, so no call of any "
                           "method of that resource can be made" % " / ".join(f["undefined"]),
                           dict(module="root", resource=f["resource"], method="partial_update", returnEntity=True,
                                undefined=f["undefined"], compiler=f["compiler"]),
                           site="codegen/resources/rest_method.go:178-181,200-203 (f += \"WithReturnEntity\" for every method) vs restli/server.go, "
                                "restli/simple.go (no PartialUpdateWithReturnEntity / RegisterPartialUpdateWithReturnEntity)")
        out = os.path.join(work, "cases_" + mode)
        cmd = [exe, "--out", out, "--tier", tier, "--seed", str(seed)]
        if replay:
            cmd += ["--replay", os.path.abspath(replay)]
        t1 = time.time()
        rc, o = sh(cmd, cwd=work, env=env_go(dict(VERIF_SCHEMA=schema, VERIF_MODE=mode)), timeout=timeout)
        if rc != 0:
            raise Broken("correspondence", "root http driver (mode %s) failed (exit %s)" % (mode, rc), o[-6000:])
        rep = json.load(open(os.path.join(out, "report.json")))
        cov["driver_s"] = round(time.time() - t1, 1)
        run.log("root module: http driver %s: %d evaluations, %d distinct non-trivial, %d oracle failures" %
                (mode, rep["evaluations"], rep["distinct_nontrivial"], len(rep["failures"])))
        for f in rep["failures"]:
            case = f["case"]
            if isinstance(case, dict):
                case = dict(case, module="root")
            run.fail_input("root:" + f["sig"], "[root module] " + f["what"], case, site=f.get("site"), impl=f.get("impl"))
        cov.update(evaluations=rep["evaluations"], distinct_nontrivial=rep["distinct_nontrivial"], rule=rep["rule"],
                   samples=rep["samples"][:3] or ["(none)"], input_distribution=rep["distribution"],
                   oracle_failures=sorted(set(f["sig"] for f in rep["failures"])))
        if mode in CORR and rep.get("shards"):
            _model_part(run, cov, mode, tier, out, rep)
        else:
            cov["model"] = "none: decided by the property oracle on the implementation only (as the v2 part of this mode)"
        if race:
            _race_part(run, cov, work, tier, seed)
    except Broken as b:
        run.broken.append(b)
        cov["broken"] = "%s: %s" % (b.kind, b.name)
    cov["wall_s"] = round(time.time() - t0, 1)
    return cov


def _model_part(run, cov, mode, tier, out, rep):
    t2 = time.time()
    if any(b.kind in ("translator", "model") for b in run.broken):
        cov["model"] = "not evaluated: the translator / the model of the v2 part is broken"
        return
    try:
        srcs = translate(ROOT_TABLES)
    except Broken as b:
        run.broken.append(b)
        cov["model"] = "not evaluated: the translator fails on the root module (oracle only)"
        return
    cov["translator_sources_root"] = [l for l in srcs if l.startswith(("TablesStatusRoot", "TablesRootHttp"))]
    cov["declarations_differing_from_v2"] = _decl_differences(srcs)
    try:
        coq_make([CORR[mode]])
    except Broken as b:
        b.kind = "model"
        run.broken.append(b)
        return
    try:
        coq_make(["Corr/RootHttpCorr.vo"])
        cov["model_applies"] = "Corr/RootHttpCorr.v checked: root_status_tables_same, root_missing_regfns_exact, root_codec_tables_same, " \
                               "root_router_tables_same, root_tunnel_condition_same, root_http_decls_expected, root_transcribed_unchanged"
    except Broken as b:
        # the v2 model is not known to describe the root module any more: oracle only
        run.broken.append(Broken("correspondence",
                                 "the models of Http/*.v (written from v2/restli) no longer apply to the root module: %s" % b.name,
                                 json.dumps(dict(module="root", coq_error=b.detail[:1500],
                                                 unexpected_differences=[d for d in cov["declarations_differing_from_v2"]
                                                                         if d.split(" ")[0] not in EXPECTED_DECL_DIFFERENCES] or
                                                 "none among the declarations: a regenerated table of the root module differs (see coq_error)",
                                                 declarations_differing_from_v2=cov["declarations_differing_from_v2"],
                                                 note="a table or a declaration of /repo/restli differs from its v2 counterpart in a way "
                                                      "Corr/RootHttpCorr.v does not list; the root run of this mode was decided by the "
                                                      "property oracle only"))))
        cov["model"] = "not evaluated: Corr/RootHttpCorr.v does not check (oracle only)"
        return
    cases = json.load(open(os.path.join(out, "cases.json")))
    limit = (THOROUGH_SHARDS if tier == "thorough" else QUICK_SHARDS).get(mode)
    picked = _pick(len(rep["shards"]), limit)
    res = coq_eval_cases(out, [os.path.join(out, rep["shards"][k]) for k in picked])
    nmis, ncases = 0, 0
    for k in picked:
        idx, rtxt = res[os.path.join(out, rep["shards"][k])]
        ncases += min(cases["per"], len(cases["cases"]) - k * cases["per"])
        for i in idx:
            nmis += 1
            if nmis <= 3:
                c = cases["cases"][k * cases["per"] + i]
                run.broken.append(Broken("correspondence", ROOT_CORR[mode],
                                         json.dumps(dict(module="root", first_disagreeing_case=c,
                                                         model_results_for_shard=rtxt[:2000]), default=str)))
    cov.update(correspondence_cases=ncases, correspondence_cases_total=len(cases["cases"]), correspondence_mismatches=nmis,
               model_s=round(time.time() - t2, 1))
    run.log("root module: model evaluated on %d of %d cases: %d mismatches" % (ncases, len(cases["cases"]), nmis))


def _race_part(run, cov, work, tier, seed):
    """mode c08race of the root driver from a -race build: concurrent requests sharing one error object"""
    exe, schema, _ = build_driver(work, race=True, name="drvrace")
    rout = os.path.join(work, "race")
    rc, o = sh([exe, "--out", rout, "--tier", tier, "--seed", str(seed)], cwd=work,
               env=env_go(dict(VERIF_SCHEMA=schema, VERIF_MODE="c08race", CGO_ENABLED="1", GORACE="halt_on_error=0 exitcode=0")),
               timeout=1800)
    races = o.count("WARNING: DATA RACE")
    cov["race_detector"] = dict(exit=rc, data_races=races)
    if races:
        m = re.search(r"WARNING: DATA RACE.*?={10,}", o, re.S)
        run.fail_input("root:shared-error-object:data-race",
                       "[root module] the race detector reports a data race between concurrent requests that share one error object",
                       dict(module="root", mode="c08race", report=(m.group(0) if m else o)[:3000]), site="restli/handler.go:ServeHTTP")
    if rc != 0 or not os.path.exists(os.path.join(rout, "report.json")):
        if not races:
            raise Broken("correspondence", "root http driver (c08race) failed (exit %s)" % rc, o[-4000:])
        return
    rr = json.load(open(os.path.join(rout, "report.json")))
    cov["race_evaluations"] = rr["evaluations"]
    for f in rr["failures"]:
        run.fail_input("root:" + f["sig"], "[root module] " + f["what"], f["case"], site=f.get("site"))
    run.log("root module: race run: %d concurrent calls, %d data races, %d failures" % (rr["evaluations"], races, len(rr["failures"])))


def post(mode, then=None):
    """a generic.run_check post= callback running the root part (after `then`, another post callback, when given)"""
    def cb(run, rep, out):
        if then:
            then(run, rep, out)
        run_root(run, mode, run.tier, run.seed)
    return cb


# ---------------------------------------------------------------------------------------------------- wiring
# tools/roothttp_wiring.diff.  In words:
# checks/c02.py   import roothttp;  run_check(..., post=roothttp.post("c02"), ...)
# checks/c08.py   import roothttp;  last statement of its own post() in BOTH tiers:  roothttp.run_root(run, "c08", tier, seed)
# checks/c04.py   import roothttp;  last line of its own post():   roothttp.run_root(run, "c04http", tier, seed)
# checks/c06.py   import roothttp;  last line of its own post():   roothttp.run_root(run, "c06http", tier, seed)
# checks/roothttptest.py is the stand-alone runner:  ROOT_PID=C02 ROOT_MODE=c02 ./check roothttptest [--tier thorough]
