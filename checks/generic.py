"""The common shape of a check: prove -> build driver -> run driver -> evaluate model on cases -> verdict."""
import json, os
from lib import *


def run_check(pid, tier, seed, replay, *, tables, model_targets, prop_module, driver, corr_name, trusted, assume,
              driver_args=(), driver_timeout=3000, coqchk_modules=None, race=False, post=None, classify=None,
              driver_env=None, build=None, pre=None):
    run = Run(pid, tier, seed)
    run.trusted = KERNEL_TB + list(trusted)
    run.assume = list(assume)
    proved = run.prove(tables, model_targets, prop_module)
    run.log("proof part:", "ok" if proved else "BROKEN " + "; ".join(b.name for b in run.broken))
    model_ok = not any(b.kind in ("translator", "model") for b in run.broken)
    rep = None
    try:
        if pre:
            pre(run)
        if build:
            exe, benv = build(run.work)
            driver_env = dict(driver_env or {}, **benv)
        else:
            exe = go_build(driver, os.path.join(BUILD, driver), race=race)
        out = os.path.join(run.work, "cases")
        cmd = [exe, "--out", out, "--tier", tier, "--seed", str(seed)] + list(driver_args)
        if replay:
            cmd += ["--replay", os.path.abspath(replay)]
        rc, o = sh(cmd, cwd=run.work, env=env_go(driver_env), timeout=driver_timeout)
        if rc != 0:
            raise Broken("correspondence", "driver %s failed (exit %s)" % (driver, rc), o[-6000:])
        rep = json.load(open(os.path.join(out, "report.json")))
        run.log("driver: %d evaluations, %d distinct non-trivial, %d oracle failures" %
                (rep["evaluations"], rep["distinct_nontrivial"], len(rep["failures"])))
        for f in rep["failures"]:
            run.fail_input(f["sig"], f["what"], f["case"], site=f.get("site"), impl=f.get("impl"))
        if model_ok and rep.get("shards"):
            cases = json.load(open(os.path.join(out, "cases.json")))
            res = coq_eval_cases(out, [os.path.join(out, s) for s in rep["shards"]])
            nmis = 0
            for k, s in enumerate(rep["shards"]):
                idx, rtxt = res[os.path.join(out, s)]
                for i in idx:
                    nmis += 1
                    c = cases["cases"][k * cases["per"] + i]
                    sig = classify(c) if classify else None
                    if sig:
                        run.fail_input(sig[0], sig[1], c, model=rtxt[:2000])
                    elif nmis <= 3:
                        run.broken.append(Broken("correspondence", corr_name,
                                                 json.dumps(dict(first_disagreeing_case=c, model_results_for_shard=rtxt[:2000]),
                                                            default=str)))
            run.cov["correspondence_mismatches"] = nmis
            run.log("model evaluated on %d cases: %d mismatches" % (len(cases["cases"]), nmis))
        if post:
            post(run, rep, out)
    except Broken as b:
        run.broken.append(b)
    cov = {}
    if rep:
        cov = dict(evaluations=rep["evaluations"], distinct_nontrivial=rep["distinct_nontrivial"], rule=rep["rule"],
                   samples=rep["samples"] or ["(none)"], exhaustive=rep.get("exhaustive", False),
                   input_distribution=rep["distribution"], extra=rep.get("extra"))
    if tier == "thorough" and coqchk_modules and proved:
        rc, o = coqchk(coqchk_modules)
        cov["coqchk"] = dict(rc=rc, tail=o[-3000:])
        if rc != 0:
            run.broken.append(Broken("proof", "coqchk " + " ".join(coqchk_modules), o[-3000:]))
    return run.finish(cov)
