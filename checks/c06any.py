"""./check C06any : the untyped-reader part of C06 alone (builder's entry point; checks/c06.py may call anymode.run with base=...)"""
import anymode


def main(tier, seed, replay):
    return anymode.run("C06", tier, seed, replay)
