from codecmode import run


def main(tier, seed, replay):
    return run("C07", "c07", tier, seed, replay, "Props.C07", "corr:exclusion (model writer bytes / reader outcome with PathSpec exclusion vs the implementation)")
