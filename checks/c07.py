"""C07 - read-only / create-only exclusion.

Codec level: Props/C07.v + Props/C11_patch.v, mode c07 and c11p of harness/codecdrv (patchmode), root module (rootmode).
Binding level: mode c07http of harness/httpdrv (harness/httpdrv/c07http.go) - the family resources (checks/family.py RESOURCES:
excluded-field sets read-only only / create-only only / both / none, collection and simple) through the REAL generator, then the
generated clients against the generated RegisterResource; the expected excluded set per method is derived from the restspec
annotations by the driver, independently of the generator.  The same mode runs on the bindings of the ROOT generator
(checks/roothttp.py)."""
import json, os
import httpdrv, patchmode, roothttp, rootmode
from lib import *

HTTP_TRUSTED = (
    "binding level (which specification the generated client / RegisterResource hand to the codec for each method): decided by the "
    "property oracle of harness/httpdrv mode c07http on the implementation (generated client -> recorded wire -> generated server with the "
    "generated MockResource); the expected excluded set is computed from the readOnlyFields / createOnlyFields annotations of "
    "checks/family.py; JSON bodies are compared with encoding/json; no Coq cases at this level")


def http_post(run, rep0, out0):
    """the generated bindings: what the client transmits, what the server accepts (oracle failures only)"""
    try:
        hwork = os.path.join(run.work, "http")
        os.makedirs(hwork, exist_ok=True)
        exe, schema = httpdrv.build_driver(hwork)
        hout = os.path.join(hwork, "out")
        rc, o = sh([exe, "--out", hout, "--tier", run.tier, "--seed", str(run.seed)], cwd=hwork,
                   env=env_go(dict(VERIF_SCHEMA=schema, VERIF_MODE="c07http")), timeout=1800)
        if rc != 0:
            raise Broken("correspondence", "binding-level exclusion driver (httpdrv mode c07http) failed (exit %s)" % rc, o[-4000:])
        hrep = json.load(open(os.path.join(hout, "report.json")))
    except Broken as b:
        run.broken.append(b)
        return
    for f in hrep["failures"]:
        run.fail_input(f["sig"], f["what"], f["case"], site=f.get("site"), impl=f.get("impl"))
    run.cov["generated_bindings"] = dict(evaluations=hrep["evaluations"], distinct_nontrivial=hrep["distinct_nontrivial"],
                                         rule=hrep["rule"], input_distribution=hrep["distribution"], samples=hrep["samples"][:3] or ["(none)"],
                                         oracle_failures=sorted(set(f["sig"] for f in hrep["failures"])))
    if HTTP_TRUSTED not in run.trusted:
        run.trusted.append(HTTP_TRUSTED)
    run.log("generated bindings: %d evaluations, %d oracle failures" % (hrep["evaluations"], len(hrep["failures"])))
    # the same oracle on the bindings of the ROOT generator (codegen/resources): coverage under run.cov["root_http"], signatures root:http:*
    roothttp.run_root(run, "c07http", run.tier, run.seed)


def main(tier, seed, replay):
    return patchmode.run("C07", tier, seed, replay,
                         base=dict(mode="c07", prop=["Props.C07", "Props.C07_decode"],
                                   corr="corr:exclusion (model writer bytes / reader outcome with PathSpec exclusion vs the implementation)"),
                         post=rootmode.post_chain(http_post, rootmode.post("c07")))
