import patchmode, rootmode


def main(tier, seed, replay):
    return patchmode.run("C07", tier, seed, replay,
                         base=dict(mode="c07", prop="Props.C07",
                                   corr="corr:exclusion (model writer bytes / reader outcome with PathSpec exclusion vs the implementation)"),
                         post=rootmode.post("c07"))
