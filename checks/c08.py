"""C08 - error and status propagation from resource code to the calling client.

Model: coq/Http/Status.v over coq/Gen/TablesStatus.v (translator harness/cmd/extract/t_status.go); proofs
coq/Proofs/StatusProofs.v; property coq/Props/C08.v; glue coq/Corr/C08Corr.v; driver harness/httpdrv (mode c08, and mode
c08race from a -race build in the thorough tier) compiled against the bindings the REAL generator emits for the resource
family of checks/family.py (checks/httpdrv.py)."""
import json, os, re
import httpdrv, roothttp
from generic import run_check
from lib import *


def main(tier, seed, replay):
    state = {}

    def build(work):
        exe, schema = httpdrv.build_driver(work)
        state["work"], state["schema"] = work, schema
        return exe, dict(VERIF_SCHEMA=schema, VERIF_MODE="c08")

    def post(run, rep, out):
        if tier != "thorough":
            return
        # concurrent requests sharing one error object, under the race detector
        try:
            exe, schema = httpdrv.build_driver(state["work"], race=True, name="drvrace")
        except Broken as b:
            run.broken.append(b)
            return
        rout = os.path.join(run.work, "race")
        rc, o = sh([exe, "--out", rout, "--tier", tier, "--seed", str(seed)], cwd=run.work,
                   env=env_go(dict(VERIF_SCHEMA=schema, VERIF_MODE="c08race", CGO_ENABLED="1", GORACE="halt_on_error=0 exitcode=0")),
                   timeout=1800)
        races = o.count("WARNING: DATA RACE")
        run.cov["race_detector"] = dict(exit=rc, data_races=races)
        if races:
            m = re.search(r"WARNING: DATA RACE.*?={10,}", o, re.S)
            run.fail_input("shared-error-object:data-race",
                           "the race detector reports a data race between concurrent requests that share one error object",
                           dict(mode="c08race", report=(m.group(0) if m else o)[:3000]),
                           site="v2/restli/handler.go:ServeHTTP")
        if rc != 0 or not os.path.exists(os.path.join(rout, "report.json")):
            if not races:
                run.broken.append(Broken("correspondence", "driver httpdrv (c08race) failed (exit %s)" % rc, o[-4000:]))
            return
        rr = json.load(open(os.path.join(rout, "report.json")))
        run.cov["race_evaluations"] = rr["evaluations"]
        for f in rr["failures"]:
            run.fail_input(f["sig"], f["what"], f["case"], site=f.get("site"))
        run.log("race run: %d concurrent calls, %d data races, %d failures" % (rr["evaluations"], races, len(rr["failures"])))

    return run_check(
        "C08", tier, seed, replay,
        tables=["TablesStatus"],
        model_targets=["Http/Status.vo", "Corr/C08Corr.vo"],
        prop_module="Props.C08",
        driver="httpdrv", build=build, post=roothttp.post("c08", then=post),
        corr_name="corr:reply (model call = serve + client vs the generated client over the generated server with a scripted mock resource: "
                  "invoked or not, wire status, error header, id header, body kind and error-response fields, the client's result / error "
                  "fields, the resource's error object afterwards)",
        trusted=[
            "modelled, not verified: net/http (WriteHeader panics for a code outside 100..999; StatusText copied from GOROOT/src/net/http/status.go by "
            "the translator; http.Error; header handling), fmt (%q of an identifier, %s), the Go runtime's nil-dereference text, restlicodec "
            "marshalling of results (an input of the model: succeeds / panics / fails; its correctness is C01/C04)",
            "the translator extracts from the source, on every run: the constant status each exported Register* function assigns to ctx.ResponseStatus "
            "and the adapter it goes through, status + format of every newErrorResponsef call site the model uses, ServeHTTP's initial / unset / "
            "fall-back statuses, whether the error header is set in the error-response and serialization-failure branches, the fields assigned "
            "through the resource's error pointer (none), the recover() of receive and marshalResponseBody; the control flow between them is "
            "transcribed by hand in Http/Status.v and tied by the correspondence",
            "the resource implementation is the generated MockResource of every family resource with reflect.MakeFunc behaviours; the client is the "
            "generated client; the wire is recorded by an http.RoundTripper (in-process: the serialized request re-read with http.ReadRequest and "
            "served on an httptest.ResponseRecorder; a sample over real sockets with httptest.Server)",
            "filters (PreRequest / PostRequest errors, plain http.Error replies) and routing errors raised before a handler is chosen are C05's subject; "
            "per-key errors of batch responses are checked by the driver only as part of the value outcome (key correlation is C16's subject)",
        ],
        assume=[
            "a status net/http cannot write (outside 100..999: error object's status, overridden ctx.ResponseStatus, CreatedEntity.Status) is answered "
            "with a 500 error response by ServeHTTP's status guard (fix 1d99940; Props/C08.no_crash at full strength, invalid-status theorems); the "
            "'delivered as is' theorems therefore carry valid_code premises",
            "error responses use failure statuses that may carry a body (the driver uses 4xx/5xx); overridden success statuses are 2xx codes that "
            "allow the method's body",
            "method, finder and action names are identifiers (%q adds quotes only)",
        ],
        coqchk_modules=["GR.Props.C08"],
        driver_timeout=3000,
    )
