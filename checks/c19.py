from generic import run_check


def main(tier, seed, replay):
    return run_check(
        "C19", tier, seed, replay,
        tables=[],
        model_targets=["D2/Announce.vo", "D2/Choose.vo", "Corr/C19Corr.vo"],
        prop_module="Props.C19",
        driver="c19",
        corr_name="corr:d2-announce-choose (model run_trace / run_bursts / possible / run_service vs real HandleUriUpdate snapshots "
                  "after every event, the snapshots the real waitForUriUpdates loop publishes after every burst of events, hosts "
                  "returned under injected draws (membership over all iteration orders), service in force)",
        trusted=[
            "modelled, not verified: ZooKeeper and treecache.go (the model starts at the TreeCacheEvent channel: the harness "
            "feeds the REAL loops waitForUriUpdates / waitForServiceUpdates through a channel of its own, with bursts of events "
            "already waiting when the loop runs again and with a back-to-back producer); encoding/json and net/url decoding of "
            "announcement payloads (an event's payload is the OUTCOME of decoding: decoded weights, or error together with the "
            "weights the failed decoding left in the struct - PMalformed partial; which outcome a byte string has is observed "
            "on the real decoder by the harness on every run, for 16 malformed payload shapes - 10 rejected by encoding/json "
            "before the struct is touched, 6 rejected after the weights were stored - and 7 weight-less ones, and compared "
            "with what the text was built to be)",
            "math/rand: the draw of each attempt is a parameter r i with premise 0 <= r i < 1; replayed through an injected rand.Source",
            "Go map iteration order: two universally quantified permutations per attempt; the implementation's result must lie in "
            "the model's set of results over all orders (ChooseProofs.possible_complete)",
            "named gap: weights and the arithmetic of host selection are exact rationals in the model, float64 in Go (rounding of "
            "rng.Float64()*totalWeight and of the running subtraction; can make chooseHost return no host, and then fall through to "
            "a lower-priority scheme, with probability ~2^-53 per draw); the harness uses dyadic weights and draws so that Go's "
            "arithmetic is exact, frequencies over real draws are sampled as supporting statistics only",
            "heap model: a *serviceUris with its map is one cell; *Uri objects are values (never written after decoding)",
            "hooks: /repo/v2/d2/export_verif.go and /repo/d2/export_verif.go (//go:build verif, add-only); the unexported loops "
            "are reached without a hook through go:linkname declarations in harness/cmd/c19/loop_v2.go / loop_root.go (the "
            "driver stops linking when a loop is renamed or its signature changes)",
        ],
        assume=["the starting snapshot is a map (no duplicate znode keys)",
                "every iteration order is a permutation of the announced (host, weight) entries",
                "0 <= r i < 1 for every draw", "weights are not negative",
                "D32 (zero-weight host at r = 0) and D37 (malformed service definition not ignored) are repaired in /repo "
                "(f35562a, 919e882): no_zero_weight and service_malformed_ignored are proved at full strength"],
        coqchk_modules=["GR.Props.C19"],
    )
