"""The UNTYPED reader (restlicodec.NewInterfaceReader) part of C06 / C13 / C04: Props/C06_any.v + mode cany of the codec driver
(harness/codecdrv/any.go) + Corr/AnyCorr.v (model Codec/AnyReader.v).

Two ways to use it (same shape as patchmode.py):

  anymode.run(pid, tier, seed, replay)
      the untyped-reader check alone, as a complete check under property id `pid` (evidence/<pid>.json, known findings of `pid`).

  anymode.run(pid, tier, seed, replay, base=dict(mode="c06", prop="Props.C06", corr="corr:missing-fields (...)"))
      ONE check = the existing codec mode `base` AND the untyped-reader check: one lib.Run, so one evidence file, one verdict, one
      set of replays.  The theorems of both Props files are obligations; the driver is built once and run twice
      (VERIF_MODE=<base mode>, then VERIF_MODE=cany); the cases of the first run are evaluated with Corr/CodecCorr.v, those of the
      second with Corr/AnyCorr.v.  The coverage of the second run is stored under coverage["untyped_reader"].

      checks/c06.py:  return anymode.run("C06", tier, seed, replay, base=dict(mode="c06", prop="Props.C06", corr="corr:missing-fields (...)"))

  anymode.any_post(state) is the run_check post= callback itself (state = {"exe": driver, "env": {VERIF_SCHEMA: ...}}), for a check
  that already has its own flow.
"""
import json, os
import codec
from codecmode import MODELLED
from generic import run_check
from lib import *

ANY_PROP = "Props.C06_any"
ANY_CORR = "corr:untyped-reader (model decA vs NewInterfaceReader + generated unmarshalers: outcome class, missing fields, value)"
ANY_TRUSTED = [
    "untyped reader: the model Codec/AnyReader.v transcribes any_reader.go function by function over a tree of Go values; reflect itself "
    "(kinds, Elem, MapRange, Index) and encoding/json.Unmarshal into `any` (of_jdoc) are modelled, not verified; the value handed to the "
    "reader is written for the model by a reflect walk in the driver (any.go toGval) that shares no code with the reader; map entries are "
    "given to the model sorted by key (with no excluded fields the observables do not depend on Go's map iteration order)",
    "float->int conversions whose result does not fit are implementation-defined in Go: the model returns a parameter [unspec]; the "
    "theorems hold for every [unspec]; the correspondence does not compare the value of a case in which it occurs (class and missing "
    "fields still are); the model's own IEEE-754 functions (int->float64/float32, float64->float32, round to nearest even) are compared "
    "with the hardware's conversions on every case",
    "maps / slices with a CONCRETE element type (map[string]int32, []string, map[string]map[string]T ...) are GMap / GArr terms whose members "
    "are not interfaces (reflect boxes each member on access): the model needs no extra constructor, the driver's toGval walk writes them; "
    "CYCLIC Go values (var p any; p = &p; type loop *loop; pointers leading into a cycle) and a 64-level pointer chain cannot be / are not "
    "written as finite gval terms: that stream is decided by the property oracle on the implementation only (every read under a 3 s "
    "deadline: the call must return an error or a value; a read that does not return is the failing input `any:hang`); SELF-CONTAINING maps / "
    "slices (a map that is its own member, directly or through maps, slices, pointers) under the recursive record of the family, with acyclic "
    "controls (shared sub-values, prefix slices) that must decode as their tree copies, are read in a CHILD process of the driver - an "
    "unbounded recursion overflows the goroutine stack, which is fatal and cannot be recovered - oracle only: the child must exit normally "
    "with an error (else `any:stack-overflow` / `any:hang` / `any:crash`)",
]
ANY_ASSUME = [
    "readers_agree and its corollaries: strconv.ParseFloat(s, 64) of the decimal text of an integer |z| <= 2^53 is exactly z "
    "(parseF_int_exact), and mode 2 of the float oracle is float32(ParseFloat(s, 64)) (parseF_f32_via_f64); documents restricted by "
    "untyped_exact (no string where an int/bool is expected, integer texts of the field's width and |z| <= 2^53, no JSON null as the "
    "document or as an array item where a container is expected): outside it the two reader kinds genuinely differ "
    "(Props/C06_any.v reader_differences, long_agreement_full_refuted)",
]


def any_post(state, timeout=3000):
    """returns a run_check post= callback that runs mode cany with the driver built by `state['exe']`"""
    def post(run, rep0, out0):
        exe, benv = state["exe"], state["env"]
        out = os.path.join(run.work, "cases_any")
        cmd = [exe, "--out", out, "--tier", run.tier, "--seed", str(run.seed)]
        rc, o = sh(cmd, cwd=run.work, env=env_go(dict(benv, VERIF_MODE="cany")), timeout=timeout)
        if rc != 0:
            raise Broken("correspondence", "driver codecdrv (mode cany) failed (exit %s)" % rc, o[-6000:])
        rep = json.load(open(os.path.join(out, "report.json")))
        run.log("untyped-reader driver: %d evaluations, %d distinct non-trivial, %d oracle failures" %
                (rep["evaluations"], rep["distinct_nontrivial"], len(rep["failures"])))
        for f in rep["failures"]:
            run.fail_input(f["sig"], f["what"], f["case"], site=f.get("site"), impl=f.get("impl"))
        nmis = 0
        if not any(b.kind in ("translator", "model") for b in run.broken) and rep.get("shards"):
            cases = json.load(open(os.path.join(out, "cases.json")))
            res = coq_eval_cases(out, [os.path.join(out, s) for s in rep["shards"]])
            for k, s in enumerate(rep["shards"]):
                idx, rtxt = res[os.path.join(out, s)]
                for i in idx:
                    nmis += 1
                    if nmis <= 3:
                        c = cases["cases"][k * cases["per"] + i]
                        run.broken.append(Broken("correspondence", ANY_CORR,
                                                 json.dumps(dict(first_disagreeing_case=c, model_results_for_shard=rtxt[:2000]),
                                                            default=str)))
            run.log("untyped-reader model evaluated on %d cases: %d mismatches" % (len(cases["cases"]), nmis))
        run.cov["untyped_reader"] = dict(evaluations=rep["evaluations"], distinct_nontrivial=rep["distinct_nontrivial"], rule=rep["rule"],
                                         samples=rep["samples"][:3] or ["(none)"], input_distribution=rep["distribution"],
                                         correspondence_mismatches=nmis)
    return post


def run(pid, tier, seed, replay, base=None, timeout=3000):
    state = {}

    def build(work):
        exe, schema = codec.build_driver(work)
        state["exe"] = exe
        state["env"] = dict(VERIF_SCHEMA=schema)
        return exe, dict(VERIF_SCHEMA=schema, VERIF_MODE=base["mode"] if base else "cany")

    codec.write_fam_env()
    if base is None:
        # the untyped-reader check alone: the generic flow with AnyCorr
        return run_check(
            pid, tier, seed, replay,
            tables=["TablesCodec"],
            model_targets=["Corr/AnyCorr.vo"],
            prop_module=ANY_PROP,
            driver="codecdrv", build=build,
            corr_name=ANY_CORR,
            trusted=MODELLED + ANY_TRUSTED,
            assume=ANY_ASSUME,
            coqchk_modules=["GR." + ANY_PROP],
            driver_timeout=timeout,
        )
    props = [base["prop"]] if isinstance(base["prop"], str) else list(base["prop"])
    return run_check(
        pid, tier, seed, replay,
        tables=["TablesCodec"],
        model_targets=["Corr/CodecCorr.vo", "Corr/AnyCorr.vo"],
        prop_module=props + [ANY_PROP],
        driver="codecdrv", build=build,
        corr_name=base["corr"],
        trusted=MODELLED + ANY_TRUSTED + list(base.get("extra_trusted", ())),
        assume=ANY_ASSUME + list(base.get("assume", ())),
        coqchk_modules=base.get("coqchk") or ["GR." + m for m in props + [ANY_PROP]],
        driver_timeout=timeout,
        post=any_post(state, timeout),
    )
