from generic import run_check
import lib


def classify(case):
    # a registry case on which model and implementation disagree has no property-level meaning by itself
    return None


def main(tier, seed, replay):
    return run_check(
        "C12", tier, seed, replay,
        tables=["TablesGen"],
        model_targets=["Gen2/Ident.vo", "Gen2/Registry.vo", "Corr/C12Corr.vo"],
        prop_module="Props.C12",
        driver="c12",
        driver_args=["--harness", lib.HARNESS],
        driver_timeout=7200,
        corr_name="corr:generator-registry (model finalize / register_manifests / exported_identifier / package_path / package_name vs "
                  "the real TypeRegistry.Finalize, cmd.RegisterManifests, ExportedIdentifier, FqcpToPackagePath, PackageName: status, "
                  "package root, package path and type name of every registered type, over every explored map-iteration order and "
                  "every order in which several manifests are read)",
        trusted=[
            "PARTIAL PROPERTY: 'the output compiles and type-checks against the runtime', 'byte-identical output on every run' and "
            "'the checked-in bindings equal what the generator produces' are NOT decided by proof (no formal Go type checker, no "
            "model of jennifer's rendering): they are decided only by the generator runs of this check - 3 fresh processes per "
            "manifest of the seeded grammar, go build + go vet + go test of the output in a scratch module, byte diff of the "
            "regenerated checked-in bindings (then declared API by go/ast); every method of every resource is looked up in its "
            "generated package by go/parser, independently of file names (client method, interface entries, parameter struct; "
            "the family method-name-spaces uses one wire name in several of the finder / action / REST-method name spaces); "
            "a set of four projects is generated one after the other against each other's EMITTED manifests (which carry "
            "dependencyDataTypes copies of foreign types), the dependency manifests being read in every order",
            "decided by proof (for all inputs): identifier validity, termination / absence of panics of the registry, "
            "the characterisation of duplicates, that a type is filed under the package root of the manifest that owns it "
            "whatever copies other manifests carry and in whatever order the manifests are read (owner_wins, "
            "registration_total, registration_order_independent), and - under the stated side conditions - order "
            "independence and acyclicity; "
            "the unrestricted versions of order independence, acyclicity and name uniqueness are REFUTED (witness manifests, "
            "replayed on the real generator on every run)",
            "modelled, not verified: Go map iteration (a fixed but arbitrary order per map: the order of the type list and of each "
            "reference list), regexp (namespaceEscape and importsRegex are transcribed by hand; their source text is pinned by "
            "table obligations), unicode tables (the identifier model is exact on ASCII, other input is outside the model), "
            "filepath.Join on clean paths, jennifer, the Go tool chain",
            "ReferencedTypes() of every type is taken from the real code (cmd/rungen dumps it), not recomputed by the harness",
            "the root module's generator (cmd.GenerateCode(specBytes, outputDir), 'dataTypes' format) is NOT covered by this check",
        ],
        assume=["wf_manifest (decidable, evaluated on every manifest of the run): identifiers unique, references known, names and "
                "namespace components legal ([A-Za-z0-9_$]+), no namespace called conflictResolution, package paths injective, "
                "references stay in their package root or go to an earlier registered root, types of one root whose names are "
                "equal up to case have distinct fully qualified Go names",
                "several manifests: every type is an input type of exactly one manifest (NoDup over init ++ input_entries); for a "
                "type that is ONLY a dependency copy (no owner among the manifests read) the first manifest read wins - left "
                "unspecified, as the comment in cmd/json.go says"],
        coqchk_modules=["GR.Props.C12"],
        classify=classify,
    )
