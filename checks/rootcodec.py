"""ROOT-module pipeline for the schema-quantified codec checks (the v2 pipeline is checks/codec.py):

  family (checks/family.py, the SAME types) -> root spec format ({"dataTypes":[...],"Resources":[]}: what the root module's
  spec parser hands to cmd.GenerateCode; included records arrive FLATTENED: every field of an included record is repeated in
  the including record with `includedFrom` = the record that declares it) -> REAL root generator of the current tree
  (harness/cmd/rootgen, own process) -> scratch Go module `verifgenroot` -> driver built against the fresh root bindings.

The driver source is harness/codecdrv (copied at build time, import paths rewritten to the root module) plus the root-specific
files of harness/rootdrv (registry, value <-> struct conversion for flattened includes, main).  See harness/rootdrv/README
comment in root_main.go for the list of differences."""
import json, os, re, shutil
import family
from lib import *

# files of harness/codecdrv reused verbatim (after the rewrites below)
SHARED = ["main.go", "val.go", "gen.go", "schema.go", "defaults.go", "refdoc.go",
          "c01.go", "c04.go", "c06.go", "c07.go", "c11.go", "c13.go", "c10.go", "c16.go"]

REWRITES = [
    ("github.com/PapaCharlie/go-restli/v2/", "github.com/PapaCharlie/go-restli/"),
    ('"verifgen/', '"verifgenroot/'),
    # root: RequiredFields is a plain []string passed by value (v2: *RequiredFields built by NewRequiredFields().Add)
    ('restlicodec.NewRequiredFields().Add("p")', 'restlicodec.RequiredFields{"p"}'),
    # the correspondence glue of the root module
    ("Corr.CodecCorr", "Corr.RootCorr"),
    ('"CodecCorr"', '"RootCorr"'),
    # failure sites name the root files
    ('"v2/restlicodec', '"restlicodec'),
    ('"v2/codegen', '"codegen'),
    # value <-> generated struct: the root bindings embed every DECLARING record directly (flattened includes); the
    # root-specific toGo / fromGo (harness/rootdrv/root_val.go) handle records and delegate everything else to these
    ("func (s *Schema) toGo(", "func (s *Schema) toGoShared("),
    ("func (s *Schema) fromGo(", "func (s *Schema) fromGoShared("),
    # C10 / C16: the cases-file headers are root-specific (harness/rootdrv/root_hash.go: RootHashCorr / RootKeySetCorr, complex-key list)
    ("func c10Header(", "func c10HeaderShared("),
    ("func c16Header(", "func c16HeaderShared("),
    # root: BatchResponse lives in restlidata (v2: restlidata/generated/com/linkedin/restli/common); applied after the v2/ rewrite
    ('"github.com/PapaCharlie/go-restli/restlidata/generated/com/linkedin/restli/common"', 'common "github.com/PapaCharlie/go-restli/restlidata"'),
]

# cosmetic (failure sites name the root files); not required to match
COSMETIC = [
    ("(v2/codegen/types/", "(codegen/types/"), (" v2/fnv1a/", " fnv1a/"), ('"v2/restli/', '"restli/'),
    ('"v2/restlidata/generated/com/linkedin/restli/common/structs.go:136-176"', '"restlidata/structs.go:112-152"'),
]


def root_type(t):
    return t  # {"primitive"|"reference"|"array"|"map"} has the same shape in both generations


def flat_fields(name, top=True):
    """fields of record `name` as the root spec parser emits them: included records' fields first (recursively, in include
    order), each tagged with the record that DECLARES it (RecordDataSchema.Field.getRecord()), then the own fields"""
    kind, d = family.named_kind()[name]
    out = []
    for inc in d.get("includes", []):
        out += flat_fields(inc["name"], False)
    for f in d["fields"]:
        g = {"name": f["name"], "doc": f.get("doc", ""), "type": root_type(f["type"]), "isOptional": f["isOptional"]}
        if "defaultValue" in f:
            g["defaultValue"] = f["defaultValue"]
        if not top:
            g["includedFrom"] = {"name": name, "namespace": family.NS}
        out.append(g)
    # a field inherited through two paths is listed once (Pegasus rejects duplicates; the family has none)
    seen, uniq = set(), []
    for g in out:
        if g["name"] not in seen:
            seen.add(g["name"])
            uniq.append(g)
    return uniq


def root_spec():
    types = []
    for t in family.TYPES:
        (kind, d), = t.items()
        base = {"name": d["name"], "namespace": d["namespace"], "sourceFile": d["sourceFile"], "doc": d["doc"]}
        if kind == "record":
            base["fields"] = flat_fields(d["name"])
        elif kind == "enum":
            base["Symbols"] = d["Symbols"]
            base["SymbolToDoc"] = d["SymbolToDoc"]
        elif kind == "fixed":
            base["Size"] = d["Size"]
        elif kind == "typeref":
            base["type"] = d["type"]
        elif kind == "standaloneUnion":
            base["Union"] = d["Union"]
        elif kind == "complexKey":
            base["Key"] = d["Key"]
            base["Params"] = d["Params"]
        else:
            raise RuntimeError("family kind " + kind)
        types.append({kind: base})
    return {"dataTypes": types, "Resources": []}


def go_schema():
    s = family.go_schema()
    # which generated records carry a New<T>WithDefaultValues constructor in the root bindings: those with a default among
    # their FLATTENED fields (codegen/types/record.go hasDefaultValue over r.Fields)
    s["rootCtors"] = [d["name"] for k, d in family.env_defs()
                      if k == "record" and any("defaultValue" in f for f in flat_fields(d["name"]))]
    return s


def registry_go():
    """harness/rootdrv's registry: generated from the family (type names and constructors)"""
    kinds = family.named_kind()
    lines = ["// generated by checks/rootcodec.py from checks/family.py - do not edit", "package main", "",
             'import (', '\t"reflect"', "", '\t"verifgenroot/gen/fam"', ")", "",
             "// the generated Go types of the family (root bindings), by schema name",
             "var registry = map[string]reflect.Type{"]
    zero = {"enum": "fam.%s(0)", "fixed": "fam.%s{}", "record": "fam.%s{}", "standaloneUnion": "fam.%s{}", "complexKey": "fam.%s{}"}
    for name in family.type_names():
        kind, d = kinds[name]
        if kind == "typeref":
            z = "fam.%s(%s)" % (name, '""' if d["type"] == "string" else ("false" if d["type"] == "bool" else ("nil" if d["type"] == "bytes" else "0")))
        else:
            z = zero[kind] % name
        lines.append('\t"%s": reflect.TypeOf(%s),' % (name, z))
    lines += ["}", "", "// generated New...WithDefaultValues constructors (root: every record with a default among its flattened fields)",
              "var constructors = map[string]interface{}{"]
    for name in go_schema()["rootCtors"]:
        lines.append('\t"%s": fam.New%sWithDefaultValues,' % (name, name))
    lines += ["}", "", "// generated X_PartialUpdate structs, by record name", "var patchRegistry = map[string]reflect.Type{"]
    for name in family.type_names():
        if kinds[name][0] == "record":
            lines.append('\t"%s": reflect.TypeOf(fam.%s_PartialUpdate{}),' % (name, name))
    lines += ["}", ""]
    return "\n".join(lines)


def build_driver(work):
    """returns (driver exe, schema.json path); raises Broken when the root generator or the generated code no longer builds"""
    mod = os.path.join(work, "verifgenroot")
    os.makedirs(mod)
    rootgen = go_build("rootgen", os.path.join(BUILD, "rootgen"), tags="verif")
    open(os.path.join(mod, "go.mod"), "w").write(
        "module verifgenroot\n\ngo 1.18\n\nrequire github.com/PapaCharlie/go-restli v0.0.0\n\n"
        "replace github.com/PapaCharlie/go-restli => %s\n" % REPO)
    shutil.copy(os.path.join(REPO, "go.sum"), os.path.join(mod, "go.sum"))
    json.dump(root_spec(), open(os.path.join(mod, "spec.json"), "w"))
    json.dump(go_schema(), open(os.path.join(mod, "schema.json"), "w"))
    rc, o = sh([rootgen, "verifgenroot/gen", "spec.json", "gen"], cwd=mod, env=env_go(), timeout=300)
    if rc != 0:
        raise Broken("correspondence", "the real ROOT generator fails on the family spec", o[-4000:])
    shutil.copytree(os.path.join(HARNESS, "hx"), os.path.join(mod, "hx"))
    drv = os.path.join(mod, "drv")
    os.makedirs(drv)
    hits = [0] * len(REWRITES)
    for f in SHARED:
        src = open(os.path.join(HARNESS, "codecdrv", f)).read()
        for i, (a, b) in enumerate(REWRITES):
            hits[i] += src.count(a)
            src = src.replace(a, b)
        for a, b in COSMETIC:
            src = src.replace(a, b)
        open(os.path.join(drv, f), "w").write(src)
    stale = [REWRITES[i][0] for i, h in enumerate(hits) if h == 0]
    if stale:
        raise Broken("build", "checks/rootcodec.py: a source rewrite of harness/codecdrv no longer applies (the shared driver changed)",
                     "\n".join(stale))
    for f in sorted(os.listdir(os.path.join(HARNESS, "rootdrv"))):
        if f.endswith(".go"):
            shutil.copy(os.path.join(HARNESS, "rootdrv", f), os.path.join(drv, f))
    open(os.path.join(drv, "root_registry.go"), "w").write(registry_go())
    exe = os.path.join(mod, "drv.exe")
    rc, o = sh(["go", "build", "-tags", "verif", "-o", exe, "./drv"], cwd=mod, env=env_go(), timeout=900)
    if rc != 0:
        raise Broken("correspondence", "the generated ROOT bindings / driver do not build", o[-6000:])
    return exe, os.path.join(mod, "schema.json")


if __name__ == "__main__":
    import sys
    json.dump(root_spec(), sys.stdout, indent=1)
