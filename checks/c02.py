"""C02 - end-to-end call fidelity: generated client -> HTTP -> generated server and back.

Model: coq/Http/EndToEnd.v (composition over Codec/Render.v, Http/Router.v, Gen/TablesCodec.v, Gen/TablesRouter.v); proofs
coq/Proofs/EndToEndProofs.v; property coq/Props/C02.v; glue coq/Corr/C02Corr.v; driver harness/httpdrv (mode c02) compiled
against the bindings the REAL generator emits for the resource family of checks/family.py (checks/httpdrv.py)."""
import httpdrv, roothttp
from generic import run_check


def main(tier, seed, replay):
    def build(work):
        exe, schema = httpdrv.build_driver(work)
        return exe, dict(VERIF_SCHEMA=schema, VERIF_MODE="c02")

    return run_check(
        "C02", tier, seed, replay,
        tables=["TablesCodec", "TablesRouter"],
        model_targets=["Http/EndToEnd.vo", "Corr/C02Corr.vo"],
        prop_module="Props.C02",
        driver="httpdrv", build=build, post=roothttp.post("c02"),
        corr_name="corr:request-and-dispatch (model on_wire = verb, request URI with the ROR2-encoded keys and the sorted query, X-RestLi-Method, "
                  "X-HTTP-Method-Override vs the request the recording transport saw; Router.route_mount of as_served on the family's registration "
                  "tree vs the resource method that ran)",
        trusted=[
            "modelled, not verified: net/http and net/url (that the escaped path the client built is what req.URL.EscapedPath() yields on the server "
            "is C15's encoder_output_accepted_by_net_url plus this correspondence; ServeMux path cleaning is Router.mux_clean, C05), header "
            "sanitization of net/http on the reply (observed only), mime/multipart (C14)",
            "query tunnelling: the composition is stated on the request after DecodeTunnelledQuery (as_served); that this view is the untunnelled "
            "request for every threshold is Props/C14.tunnel_transparent_end_to_end; the bytes sent (on_wire: POST + override header, no query) "
            "are compared by the correspondence for thresholds 0, 1 and 100000",
            "keys and parameter values enter the model as documents (what Codec/Encode.v's enc yields; the driver builds them from the Go values by "
            "the schema: records and maps with sorted entries, enums by symbol); the codec round trip of typed values is C01's subject",
            "the reply direction (entity, elements + paging + metadata, action result, created id + status, batch results / statuses / errors) is "
            "checked by the property oracle on the implementation for every call; statuses and errors are modelled in Props/C08; it has no Coq "
            "statement of its own here",
            "the resource implementation is the generated MockResource with reflect.MakeFunc behaviours recording its arguments; values compared "
            "in a canonical form (nil = empty collections, map entries by key, complex keys identified by their key part)",
        ],
        assume=[
            "arguments are valid for their schema (one union member, known enum constants), strings in JSON bodies are valid UTF-8 (keys and query "
            "parameters: arbitrary bytes), batch keys are distinct, read-only / create-only fields are left unset where the client must not send them",
            "parameter names differ from the reserved q / action / ids (a finder parameter named q shadows the finder name: the generator accepts "
            "such a specification and the call is then answered 400 'Finder ... not defined')",
            "through a ServeMux, keys whose decoded form makes the decoded path unclean are known findings (dot segments, '/' inside a key)",
            "created ids that net/http cannot carry unchanged in a header (control bytes, leading / trailing blanks) are known findings",
            "optional fields with a schema default are filled on decode (CollectionMetadata.total): the driver always sets them",
        ],
        coqchk_modules=["GR.Props.C02"],
        driver_timeout=3000,
    )
