"""ROOT-module part of the codec checks C01 C04 C06 C07 C10 C11 C13 C16 (the properties quantify over "both module generations").

    rootmode.run_root(run, mode, tier, seed)

is called by a check AFTER its v2 part, with the check's own lib.Run: it
  1. pushes the family (checks/family.py) through the REAL root generator of the current tree and builds the root driver
     (checks/rootcodec.py: harness/codecdrv's source + harness/rootdrv against the fresh root bindings),
  2. runs the driver in mode `mode` (c01 c04 c06 c07 c11 c13: the same value generators, reference renderer and property oracles
     as the v2 part, evaluated on the root implementation),
  3. feeds every oracle failure into run.fail_input with the signature prefixed `root:` (known findings of the root module are
     listed in known_findings.json under the check's property id with that prefix),
  4. evaluates the cases with Corr/RootCorr.v (model on the flattened family environment, root tables of Gen/TablesCodec.v;
     encoders modulo the order of object members, decoders exactly; modes c10 / c16: Corr/RootHashCorr.v / Corr/RootKeySetCorr.v,
     the hash / equality / key-set models on the flattened environment with the root fnv parameters) - a disagreement is a broken
     correspondence,
  5. stores the coverage under run.cov["root_module"].
It never raises: a failure to build or run is recorded in run.broken (verdict: VIOLATION ... no-failing-input-found unless an
oracle failure was found too).

Wiring (tools/rootmode_wiring.diff; summary at the end of this file): every codec check passes `post=rootmode.post("<mode>")` to
generic.run_check (through codecmode.run / patchmode.run); C04 and C06, which have their own post callback, call run_root at its end.
For c11 and c07 the root part also runs the partial-update mode c11p of the root driver (EXTRA_MODES): property oracle on the
implementation AND the cases evaluated with Corr/RootPatchCorr.v (model Codec/RootPatch.v of the root generator's X_PartialUpdate
code on the flattened family environment; theorems Props/C11_rootpatch.v, an obligation of C11 and C07 through checks/patchmode.py).
"""
import json, os, time
import rootcodec
from lib import *

ROOT_CORR = "corr:root-module (model on the flattened family environment vs the bindings of the ROOT generator: encoders modulo " \
            "member order, decoders exactly)"

ROOT_CORR_BY_MODE = dict(
    c10="corr:root-module hash+equals (Hash/Fnv.v, Hash/Equals.v on the flattened environment with the root fnv parameters vs the generated "
        "ComputeHash / Equals of the ROOT generator)",
    c16="corr:root-module keyset (Hash/KeySet.v with the root hash / equality / ROR2 key texts vs the root batchkeyset and "
        "restlidata.BatchResponse.UnmarshalWithKeyLocator)")

ROOT_TRUSTED = (
    "root module generation (github.com/PapaCharlie/go-restli): the same family is pushed through the REAL root generator "
    "(cmd.GenerateCode on the spec format of the root spec parser: included records flattened, includedFrom = declaring record - the "
    "conversion checks/rootcodec.py stands for the Java spec parser, which is not run); the model is the v2 model instantiated on the "
    "flattened environment (Corr/RootCorr.v flat_env / flat_value) with the root tables of Gen/TablesCodec.v; encoders are compared "
    "modulo the order of object members (root WriteMap streams), decoders exactly (the root readers are the v2 readers up to "
    "RequiredFields by value and NoSuchFieldErr, checked by diff when this was built, not on every run); the theorems of the Props "
    "files are stated for the v2 model: for the root module they apply through this instantiation only")

# quick tier: how many shards of cases are evaluated by the model (evenly spread over the run; the Go oracles see every case)
# driver modes run after the main mode: partial updates through the root X_PartialUpdate bindings (harness/rootdrv/root_patch.go)
# belong to C11 and C07, as mode c11p does in the v2 part (checks/patchmode.py); their cases are evaluated with EXTRA_CORR
EXTRA_MODES = dict(c11=["c11p"], c07=["c11p"])
EXTRA_CORR = dict(c11p=dict(
    vo=["Corr/RootPatchCorr.vo"],
    name="corr:root-module partial-update (model Codec/RootPatch.v: root_enc_patch / root_dec_patch on the flattened family environment vs the "
         "X_PartialUpdate bindings of the ROOT generator: encoders modulo member order, decoders exactly)"))

QUICK_SHARDS = dict(c01=12, c04=120, c06=12, c07=9, c11=9, c13=6, c10=22, c16=36, c11p=20)
THOROUGH_SHARDS = dict(c01=150, c04=1200, c06=200, c07=160, c11=120, c13=100, c10=200, c16=300, c11p=300)

ROOT_TRUSTED_PATCH = (
    "root module, partial updates: the model Codec/RootPatch.v transcribes the code the ROOT generator emits (codegen/types/"
    "record_partial_update.go: checkAllFields, MarshalRestLiPatch / MarshalRestLi, UnmarshalRestLiPatch / UnmarshalRestLi, "
    "X_PartialUpdate_Delete_Fields.(Un)MarshalRestLi, the all-optional Set_Fields record) and restli/partial_update_utils.go CheckField, "
    "function by function, on the flattened environment; it is compared with the generated root bindings of the family on every run "
    "(mode c11p of the root driver, JSON; the ROR2 reading of the same documents is decided by the property oracle alone); set values are "
    "encoded / decoded by the codec model (enc / decJ); the theorems of Props/C11_rootpatch.v are stated for this model and, the root spec "
    "parser flattening included records, cover records with includes")

# the correspondence glue of each mode (default Corr/RootCorr.vo): C10 and C16 have their own case formats (Corr/HashCorr.v,
# Corr/KeySetCorr.v), read for the root module by Corr/RootHashCorr.v / Corr/RootKeySetCorr.v
# (c16: the cases files also import Corr/RootCorr.vo for the flattened codec environment, which depends on Gen/FamEnv.v)
CORR_VO = dict(c10=["Corr/RootHashCorr.vo"], c16=["Corr/RootCorr.vo", "Corr/RootKeySetCorr.vo"])

ROOT_TRUSTED_HASH = (
    "root module, C10 / C16: fnv1a/hasher.go, restli/equals/*.go and restli/batchkeyset/{generic,primitive}.go of the root module are the v2 "
    "files (the translator compares the fnv1a and equals sources on every run and reads the root constants: Hash.Fnv.root_params; "
    "batchkeyset and restlidata.BatchResponse.UnmarshalWithKeyLocator were diffed when this was built: set.go assembles the ids parameter "
    "with NewRestLiQueryParamsWriter+WriteParams instead of BuildQueryParams, unknown reply members are skipped directly instead of through "
    "NoSuchFieldErr); the root generator's ComputeHash / Equals fold / compare ALL flattened fields of a record in spec order (no "
    "hash.Add(included.ComputeHash())) and its complex key is the record [$params, key fields...]: the models Hash/Fnv.v, Hash/Equals.v, "
    "Hash/KeySet.v are instantiated on the flattened environment with the complex-key order (Corr/RootHashCorr.v hflat_env / hflat_value, "
    "Corr/RootKeySetCorr.v); the theorems of Props/C10.v and Props/C16.v quantify over ALL schemas (henv) and both parameter sets are "
    "proved equal by the translator flags, so they cover the flattened environment as an instance")


def _pick(shards, limit):
    if limit is None or len(shards) <= limit:
        return list(range(len(shards)))
    step = len(shards) / float(limit)
    return sorted(set(int(i * step) for i in range(limit)))


def run_root(run, mode, tier, seed, timeout=3000, replay=None):
    t0 = time.time()
    cov = dict(mode=mode, generation="root module (github.com/PapaCharlie/go-restli)")
    run.cov["root_module"] = cov
    # the evidence's trusted base: the v2 sentence "root module not exercised" is no longer true for this run
    run.trusted = [t.replace("(v2 module); the root module generation is not exercised by this check",
                             "(v2 module); the root module generation: see the root-module entry below") for t in run.trusted]
    if ROOT_TRUSTED not in run.trusted:
        run.trusted.append(ROOT_TRUSTED)
    if mode in ("c10", "c16"):
        run.trusted = [t.replace("the root module's generated code (its fnv1a and equals packages are compared textually by the translator / are identical)",
                                 "the root module's generated code: see the root-module entries below") for t in run.trusted]
        if ROOT_TRUSTED_HASH not in run.trusted:
            run.trusted.append(ROOT_TRUSTED_HASH)
    try:
        work = os.path.join(run.work, "rootmod")
        os.makedirs(work, exist_ok=True)
        exe, schema = rootcodec.build_driver(work)
        out = os.path.join(work, "cases")
        cmd = [exe, "--out", out, "--tier", tier, "--seed", str(seed)]
        if replay:
            cmd += ["--replay", os.path.abspath(replay)]
        rc, o = sh(cmd, cwd=work, env=env_go(dict(VERIF_SCHEMA=schema, VERIF_MODE=mode)), timeout=timeout)
        if rc != 0:
            raise Broken("correspondence", "root driver (mode %s) failed (exit %s)" % (mode, rc), o[-6000:])
        rep = json.load(open(os.path.join(out, "report.json")))
        run.log("root module: driver %s: %d evaluations, %d distinct non-trivial, %d oracle failures" %
                (mode, rep["evaluations"], rep["distinct_nontrivial"], len(rep["failures"])))
        for f in rep["failures"]:
            case = f["case"]
            if isinstance(case, dict):
                case = dict(case, module="root")
            run.fail_input("root:" + f["sig"], "[root module] " + f["what"], case, site=f.get("site"), impl=f.get("impl"))
        cov.update(evaluations=rep["evaluations"], distinct_nontrivial=rep["distinct_nontrivial"], rule=rep["rule"],
                   samples=rep["samples"][:3] or ["(none)"], input_distribution=rep["distribution"],
                   oracle_failures=sorted(set(f["sig"] for f in rep["failures"])))
        model_ok = not any(b.kind in ("translator", "model") for b in run.broken)
        if model_ok and rep.get("shards"):
            try:
                coq_make(CORR_VO.get(mode, ["Corr/RootCorr.vo"]))
            except Broken as b:
                b.kind = "model"
                raise
            cases = json.load(open(os.path.join(out, "cases.json")))
            limit = (THOROUGH_SHARDS if tier == "thorough" else QUICK_SHARDS).get(mode)
            picked = _pick(rep["shards"], limit)
            res = coq_eval_cases(out, [os.path.join(out, rep["shards"][k]) for k in picked])
            nmis, ncases = 0, 0
            for k in picked:
                idx, rtxt = res[os.path.join(out, rep["shards"][k])]
                ncases += min(cases["per"], len(cases["cases"]) - k * cases["per"])
                for i in idx:
                    nmis += 1
                    if nmis <= 3:
                        c = cases["cases"][k * cases["per"] + i]
                        run.broken.append(Broken("correspondence", ROOT_CORR_BY_MODE.get(mode, ROOT_CORR),
                                                 json.dumps(dict(module="root", first_disagreeing_case=c,
                                                                 model_results_for_shard=rtxt[:2000]), default=str)))
            cov.update(correspondence_cases=ncases, correspondence_cases_total=len(cases["cases"]),
                       correspondence_mismatches=nmis)
            run.log("root module: model evaluated on %d of %d cases: %d mismatches" % (ncases, len(cases["cases"]), nmis))
        for xm in EXTRA_MODES.get(mode, []):
            xout = os.path.join(work, "cases_" + xm)
            xcmd = [exe, "--out", xout, "--tier", tier, "--seed", str(seed)]
            if replay:
                xcmd += ["--replay", os.path.abspath(replay)]
            rc, o = sh(xcmd, cwd=work, env=env_go(dict(VERIF_SCHEMA=schema, VERIF_MODE=xm)), timeout=timeout)
            if rc != 0:
                raise Broken("correspondence", "root driver (mode %s) failed (exit %s)" % (xm, rc), o[-6000:])
            xrep = json.load(open(os.path.join(xout, "report.json")))
            run.log("root module: driver %s: %d evaluations, %d distinct non-trivial, %d oracle failures" %
                    (xm, xrep["evaluations"], xrep["distinct_nontrivial"], len(xrep["failures"])))
            for f in xrep["failures"]:
                run.fail_input("root:" + f["sig"], "[root module] " + f["what"], f["case"], site=f.get("site"), impl=f.get("impl"))
            cov[xm] = dict(evaluations=xrep["evaluations"], distinct_nontrivial=xrep["distinct_nontrivial"], rule=xrep["rule"],
                           samples=xrep["samples"][:3] or ["(none)"], input_distribution=xrep["distribution"],
                           oracle_failures=sorted(set(f["sig"] for f in xrep["failures"])))
            xc = EXTRA_CORR.get(xm)
            if not xc or not xrep.get("shards"):
                cov[xm]["note"] = "decided by the property oracle on the implementation only (no cases for a model)"
                continue
            if any(b.kind in ("translator", "model") for b in run.broken):
                cov[xm]["note"] = "the model was not evaluated (translator / model broken, see above)"
                continue
            if ROOT_TRUSTED_PATCH not in run.trusted:
                run.trusted.append(ROOT_TRUSTED_PATCH)
            try:
                coq_make(xc["vo"])
            except Broken as b:
                b.kind = "model"
                raise
            xcases = json.load(open(os.path.join(xout, "cases.json")))
            xpicked = _pick(xrep["shards"], (THOROUGH_SHARDS if tier == "thorough" else QUICK_SHARDS).get(xm))
            xres = coq_eval_cases(xout, [os.path.join(xout, xrep["shards"][k]) for k in xpicked])
            xmis, xn = 0, 0
            for k in xpicked:
                idx, rtxt = xres[os.path.join(xout, xrep["shards"][k])]
                xn += min(xcases["per"], len(xcases["cases"]) - k * xcases["per"])
                for i in idx:
                    xmis += 1
                    if xmis <= 3:
                        c = xcases["cases"][k * xcases["per"] + i]
                        run.broken.append(Broken("correspondence", xc["name"],
                                                 json.dumps(dict(module="root", first_disagreeing_case=c,
                                                                 model_results_for_shard=rtxt[:2000]), default=str)))
            cov[xm].update(correspondence_cases=xn, correspondence_cases_total=len(xcases["cases"]), correspondence_mismatches=xmis)
            run.log("root module: %s model evaluated on %d of %d cases: %d mismatches" % (xm, xn, len(xcases["cases"]), xmis))
    except Broken as b:
        run.broken.append(b)
        cov["broken"] = "%s: %s" % (b.kind, b.name)
    cov["wall_s"] = round(time.time() - t0, 1)
    return cov


def post(mode, then=None):
    """a generic.run_check post= callback running the root part (after `then`, another post callback, when given)"""
    def cb(run, rep, out):
        if then:
            then(run, rep, out)
        run_root(run, mode, run.tier, run.seed)
    return cb


# ---------------------------------------------------------------------------------------------------- wiring (for the lead)
# The exact edits are in tools/rootmode_wiring.diff (`git apply tools/rootmode_wiring.diff` in /verif).  In words:
# checks/codecmode.py   def run(..., timeout=3000, post=None):   and pass   post=post,   to run_check(...)
# checks/patchmode.py   import rootmode;  def run(pid, tier, seed, replay, base=None, timeout=3000, post=None):
#                       base is None branch:  run_check(..., post=post)
#                       base branch:          post=rootmode.post_chain(patch_post(state, timeout), post)
# checks/c01.py         import rootmode;  run("C01", "c01", ..., post=rootmode.post("c01"))
# checks/c13.py         import rootmode;  run("C13", "c13", ..., post=rootmode.post("c13"))
# checks/c07.py         import rootmode;  patchmode.run("C07", ..., base=dict(...), post=rootmode.post("c07"))   (also runs root mode c11p)
# checks/c11.py         import rootmode;  patchmode.run("C11", ..., base=dict(...), post=rootmode.post("c11"))   (also runs root mode c11p)
# checks/c04.py         import rootmode;  last line of its own post():   rootmode.run_root(run, "c04", tier, seed)
# checks/c06.py         import rootmode;  last line of its own post():   rootmode.run_root(run, "c06", tier, seed)
# checks/c10.py         import rootmode;  c10.run(..., post=None) passes post=post to run_check;  main: post=rootmode.post("c10")
# checks/c16.py         import rootmode;  c10.run("C16", "c16", ..., post=rootmode.post("c16"))
# checks/roottest.py is the stand-alone runner used while this was built (ROOT_PID=C01 ./check roottest); delete it once wired.
def post_chain(*posts):
    def cb(run, rep, out):
        for p in posts:
            if p:
                p(run, rep, out)
    return cb
