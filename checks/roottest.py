"""TEMPORARY (root-builder's own testing): the root part of a codec check alone.
   ROOT_PID=C01 ROOT_MODE=c01 ./check roottest [--tier thorough]"""
import os
import codec, rootmode
from lib import *


def main(tier, seed, replay):
    pid = os.environ.get("ROOT_PID", "C01")
    mode = os.environ.get("ROOT_MODE", pid.lower())
    run = Run(pid, tier, seed)
    run.trusted = list(KERNEL_TB)
    try:
        translate(["TablesCodec", "TablesFnv"])
        codec.write_fam_env()
    except Broken as b:
        run.broken.append(b)
    rootmode.run_root(run, mode, tier, seed, replay=replay)
    return run.finish()
