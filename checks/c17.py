"""C17 - shared objects are safe for concurrent use and requests do not interfere (PARTIAL: DESIGN.md section 7).

Proof part: Props/C17.v over Conc/Footprint.v (non-interference of the MODELLED accesses, for all trees / requests /
histories / interleavings).  Test part: harness/cmd/c17 built with `-tags verif -race`; every run of a scenario is a
child process whose race-detector reports and per-request result mismatches become failing inputs.  Data-race freedom
of the real Go program is decided by the race-detector runs, not by proof.

Fresh-state bursts (harness/cmd/c17/burst.go; scenarios burst-server, burst-client, burst-d2): children that serve nothing
serially before N goroutines, released by one barrier, make the FIRST uses of newly constructed shared objects; expected
answers come from a separate serial child process (scenario expect).  A child that dies (fatal error: concurrent map
writes, panic, unexpected exit code) is a failing input (crash:<kind>:<scenario>:<module>), not a harness error.

Client configuration surface (harness/cmd/c17/client.go): client kinds simple / d2 / shared / nilmap / bare (what the
ExtraRequestHeaders callback returns: a new map per call, ONE shared static http.Header, nil, no callback) in the storm, the
bursts and scenario history-client (serial histories on one client); every request's WIRE form (method, URL, all headers,
body, as seen by the transport) is part of its observation and compared with a brand-new client's (scenario expect makes a
new client for every request); signatures client-config:{header-leak,callers-map-mutated,built-request-rewritten,wire-differs}.
Registry histories (harness/cmd/c17/trhist.go, scenario history-typeref, v2 only): register / register again / hit / miss /
the same through a server, sequential and concurrent, every step under a deadline: hang:history-typeref:<step-kind>.

harness/cmd/c17/srv_root.go and d2_root.go are srv_v2.go / d2_v2.go for the root module; regenerate them after editing with
  for f in srv d2; do sed -e 's#go-restli/v2/#go-restli/#g' \
      -e 's#common "github.com/PapaCharlie/go-restli/restlidata/generated/com/linkedin/restli/common"#"github.com/PapaCharlie/go-restli/restlidata"#' \
      -e 's/common\\./restlidata./g' -e 's/v2/root/g' -e 's/modV2/modRoot/' -e 's/d2V2/d2Root/' ${f}_v2.go > ${f}_root.go; done && gofmt -w .
req_v2.go / req_root.go (how a RequiredFields object is constructed in each module) are hand-written, not generated.
"""
from generic import run_check


def main(tier, seed, replay):
    return run_check(
        "C17", tier, seed, replay,
        tables=["TablesRouter"],
        model_targets=["Conc/Footprint.vo", "Corr/C17Corr.vo"],
        prop_module="Props.C17",
        driver="c17",
        race=True,
        driver_timeout=3300,
        corr_name="corr:shared-cell-table (the driver's static table of shared cells per operation kind vs the summary of "
                  "Conc/Footprint.v's footprints; THE TIE BETWEEN MODEL AND CODE IS THE RACE DETECTOR, not this table)",
        trusted=[
            "PARTIAL PROPERTY: data-race freedom of the real Go program is NOT decided by proof.  Decided by proof: "
            "non-interference of the modelled footprints (handler_steps_request_local, no_conflict, serial_equivalence, "
            "d2_snapshots_cow, rng_locked, registry_atomic) and race freedom GIVEN adequacy (race_free_given_adequacy).  Decided "
            "only by test: that the real code's accesses are the modelled ones - race-detector runs (go build -race, "
            "GORACE=halt_on_error=0) of N concurrent mixed requests / client calls / resolutions / registry operations under "
            "varying GOMAXPROCS with injected runtime.Gosched() yields, each compared with its serial run",
            "FIRST USE OF SHARED OBJECTS (state that an object completes lazily when it is first used: an index, a cache, a memoised "
            "table) is decided ONLY BY TEST, by the fresh-state bursts of harness/cmd/c17/burst.go: the model's footprints describe "
            "objects that are complete when they are published (Footprint.v: every access to a RequiredFields object, the method "
            "table, a Handler() copy, a client is a read - required_fields_read_only; lazy_required_index_would_conflict shows the "
            "model refutes an in-place lazy index, but that the real code has none is what the bursts test).  Shape of a burst: a child "
            "process that serves NOTHING serially beforehand; R rounds (quick 12, thorough 60), each on newly constructed objects "
            "(NewServer + Register* + Handler(), the RequiredFields / PathSpec objects of the driver's generated-style records - one "
            "with 320 required fields, decoded from JSON bodies, query parameters and URL-encoded record parameters -, the resource's "
            "shared values, a restli.Client with http.Client and resolver, a d2 client and snapshot); per round 1-3 phases (round 0: "
            "one phase per request template / client operation, the first use of go-restli's package-level objects in the life of the "
            "process); in a phase N goroutines (quick 8, thorough 16) wait on one closed-channel barrier with their request already "
            "built and then send it - all the same request in a lead phase, each its own in a mixed phase; GOMAXPROCS 1, 2, 8 (thorough "
            "1..16).  Verdict per burst: race-detector reports, every answer compared with the answer a SEPARATE serial child process "
            "gave to the same template (any other answer, e.g. a spurious 4xx/5xx, is burst:wrong-answer:...), and the death of the "
            "child (crash:...: fatal error: concurrent map writes / read and map write, panic, unexpected exit).  Bounded by N "
            "goroutines x R rounds x children x what the Go scheduler happens to interleave; the race detector (happens-before, not "
            "timing) is what makes a single overlap-free round sufficient for an unsynchronised first-use write to be reported.  The "
            "typeref scenario is itself a first-use burst (the registry is per process and nothing is looked up serially before the "
            "goroutines start); objects that only a real ZooKeeper connection creates (d2 LazySyncMap loads from the network) are not "
            "constructed here (C18 covers LazySyncMap)",
            "TEST-ONLY (no counterpart in the Coq model): (1) the client's configuration surface.  Footprint.v says a call reads the "
            "restli.Client and its resolver and writes only cells of the call; what the caller hands in through the context "
            "(the ExtraRequestHeaders callback and the http.Header it returns, possibly ONE static map for all requests) is not a cell "
            "of the model.  That the library never writes that map, that no header of one request shows up in another, and that a "
            "request built earlier is not rewritten by building another is decided by harness/cmd/c17/client.go alone: the transport "
            "records every request as it arrives (method, URL, ALL headers, body; multipart boundary and d2 host canonicalised) and the "
            "record is part of the request's observation in the storm (5 kinds of client: callback returning a new map per call / one "
            "shared static map / nil / no callback, simple or d2 resolver), in the fresh-state bursts and in scenario history-client "
            "(quick 16, thorough 80 serial histories of 6-10 steps per child on ONE client: tunnelled then plain, plain then tunnelled, "
            "build A / build B / send A / send B), each compared with the same request on a BRAND-NEW client (the serial child makes a "
            "new client per request); the caller's map is compared with a copy after every request.  (2) HISTORIES ON THE CUSTOM TYPEREF "
            "REGISTRY AND LIVENESS: the model has the registry as one atomic cell (registry_atomic: a lookup or a registration is ONE "
            "sync.Map step) and says nothing about termination; that a lookup which FAILS (panic 'Unregistered', recovered by the "
            "server) leaves the registry usable - no lock held on any path - is an assumption of the model, tested by "
            "harness/cmd/c17/trhist.go (v2 only; the root module has no registry): in child processes, a fixed sequential history with "
            "every step kind (register, register again, hit, miss, hit / miss through a server action) after every other, seeded random "
            "histories, 3 concurrent phases (N goroutines x 12 lookups while one goroutine registers 2 types) and a tail; expected results "
            "from the API contract and the set of types registered so far; every step under a 25 s deadline (35 s for a concurrent "
            "phase): a step that does not finish is the failing input hang:history-typeref:<step kind> with the history and the index of "
            "the stuck step.  A hang anywhere else is only caught by the 10 minute deadline of a child (run-failed)",
            "modelled, not verified: the Go memory model and scheduler; sync.Map and sync.Mutex (Atomic / Locked accesses are "
            "ordered BY DEFINITION of [synced]); net/http (http.Client is one atomic cell; each request owns its *http.Request and "
            "ResponseWriter); the race detector's happens-before analysis",
            "cell granularity: a pathNode with its maps is one cell; a serviceUris with its map is one cell (Announce.v); cells of "
            "different Handler() copies are distinct by construction of the model, justified at heap level by "
            "handler_copies_disjoint_from_live (RouterHeap.v)",
            "out of scope: races inside user code (a Filter, a resource method, a custom marshaler) on its own state; two "
            "concurrent updaters of one cluster (go-restli runs one waitForUriUpdates goroutine per cluster); concurrent Register* "
            "calls on one live server; LazySyncMap itself (C18)",
            "the client scenario serves requests in-process through an http.RoundTripper that calls the handler (no sockets in the "
            "sandbox): net/http's connection handling is not exercised",
            "Conc/Footprint.v contains three decidable-equality definitions built with `decide equality` (Defined): needed to define "
            "memory update; no other proof script in model files",
            "hooks: /repo/v2/d2/export_verif.go and /repo/d2/export_verif.go (//go:build verif, add-only); no yield hooks were added to "
            "the served code: yields are injected from the filters / resource methods / transport the driver supplies",
        ],
        assume=[
            "D24 (in-place defaulting of the error message) and D31 (unlocked rand.Rand) are repaired in /repo (87c1506, fbdfee7): the "
            "theorems are proved for the repaired code; shared_error_inplace_would_conflict / unlocked_rng_would_conflict show the "
            "model refutes the pinned variants",
            "a host selection considered concurrent with a URI update reads a snapshot published before that update started (a reader "
            "of the NEW snapshot is ordered after its initialisation by the sync.Map store/load - Go memory model, not modelled)",
        ],
        coqchk_modules=["GR.Props.C17"],
    )
