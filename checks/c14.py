from generic import run_check


def main(tier, seed, replay):
    return run_check(
        "C14", tier, seed, replay,
        tables=["TablesTunnel"],
        model_targets=["Http/UrlModel.vo", "Http/Tunnel.vo", "Corr/C14Corr.vo"],
        prop_module="Props.C14",
        driver="c14",
        corr_name="corr:tunnel (model client_request vs the request the real client put on the wire - method, path, query, "
                  "Content-Type, override header, Rest.li headers, body bytes incl. the exact multipart framing for the "
                  "boundary the real writer chose; model decode_tunnelled_query vs the real DecodeTunnelledQuery on "
                  "client-built and hand-crafted wire requests)",
        trusted=[
            "modelled, not verified: mime/multipart Reader/Writer framing (CRLF mode; no continuation lines, no "
            "Content-Transfer-Encoding), mime.FormatMediaType/ParseMediaType for 'type; boundary=...' values, "
            "textproto header canonicalisation (ASCII case folding), net/http request serialisation (Request.Write / "
            "http.ReadRequest: the driver compares at the level of the *http.Request a server gets)",
            "the threshold test of newRequest is transcribed mechanically by the translator (Gen/TablesTunnel.v: "
            "tunnel_condition, tunnel_condition_root); header names and content types are re-read from http.go",
            "routing after de-tunnelling is C05's model; here 'reaches routing' = DecodeTunnelledQuery returned nil "
            "(handler.go:97-101), checked against a real server with a recording stub resource",
        ],
        assume=[
            "the multipart boundary is what multipart.randomBoundary produces (non-empty lower-case hex) and does not occur in "
            "the query or the body (premise `fresh`); the real one is 30 random bytes",
            "the HTTP verb is not empty; the body is absent or non-empty (an empty non-nil body is the refuted case)",
        ],
        coqchk_modules=["GR.Props.C14"],
    )
