"""C10: Equals / hash contract of generated and key types (mode c10 of the codec driver, own Corr file and tables)."""
import codec, rootmode
from generic import run_check

TRUSTED = [
    "schema-quantified theorems (all schemas, all values) are instantiated, for the correspondence, on the family of checks/family.py pushed "
    "through the REAL generator of the current tree (v2 module): the driver prints the family as a Hash.Fnv.henv term from the same schema.json",
    "the translator copies from fnv1a/hasher.go of BOTH modules: offset basis, multiplier, mask, the shift sequences of addUint32/addUint64, "
    "whether AddFloat32/64 normalise zeros, whether AddMap sorts entry hashes that start from the zero hash; the remaining statements of "
    "hasher.go, restli/equals/*.go and the Equals/ComputeHash emitters of codegen/types are transcribed by hand (Hash/Fnv.v, Hash/Equals.v) "
    "and tied by the differential correspondence",
    "not represented in the model: pointer identity shortcuts of the generated Equals / equals.GenericPointer (abstract values have no identity: "
    "the driver always compares separately built objects, and checks x.Equals(x) by the oracle only); nil elements inside arrays/maps of records; "
    "custom typerefs; the root module's generated code (its fnv1a and equals packages are compared textually by the translator / are identical)",
]

ASSUME = [
    "values are well-formed for their type (wfV: shape enforced by Go's type system, map keys distinct, enum constants valid, no NaN) where the "
    "theorem statements say so; Equal-implies-same-hash additionally needs the three translator-read flags (zero normalisation x2, sorted map "
    "entries) which are proved to hold for the current tree by reflexivity",
]


def run(pid, mode, tier, seed, replay, prop_module, corr_vo, corr_name, tables, timeout=3000, post=None):
    def build(work):
        exe, schema = codec.build_driver(work)
        return exe, dict(VERIF_SCHEMA=schema, VERIF_MODE=mode)
    return run_check(
        pid, tier, seed, replay,
        tables=tables,
        model_targets=[corr_vo],
        prop_module=prop_module,
        driver="codecdrv", build=build,
        corr_name=corr_name,
        trusted=TRUSTED,
        assume=ASSUME,
        coqchk_modules=["GR." + m for m in ([prop_module] if isinstance(prop_module, str) else prop_module)],
        driver_timeout=timeout,
        post=post,
    )


def main(tier, seed, replay):
    return run("C10", "c10", tier, seed, replay, "Props.C10", "Corr/HashCorr.vo",
               "corr:hash+equals (model hashV/equalsV vs the generated ComputeHash/Equals on value pools of the family)", ["TablesFnv"],
               post=rootmode.post("c10"))
