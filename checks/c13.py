import rootmode
from codecmode import run


def main(tier, seed, replay):
    return run("C13", "c13", tier, seed, replay, "Props.C13", "corr:defaults (model decoders vs the readers on documents omitting defaulted fields)",
               post=rootmode.post("c13"))
