"""C16: batch calls correlate every response entry with the caller's original key (mode c16 of the codec driver)."""
import codec, rootmode
import c10


TRUSTED = c10.TRUSTED + [
    "the key texts (ids items, JSON object keys of the reply) are produced / read by the C01 models of the ROR2 query writer and header reader "
    "(Codec/Encode.v, Render.v, Decode.v) - strconv float text and parsing are recorded by the driver (oracle); the JSON layer of the reply "
    "(easyjson lexer) is exercised on the real code only, the model receives the object keys after JSON unescaping",
    "the batch methods of the client (collection_batch_methods.go BatchGet / BatchDelete / BatchUpdate / BatchPartialUpdate) are driven on a real "
    "*restli.Client whose transport counts the requests and answers an empty batch response: observed are rejection-before-anything-is-sent and "
    "the ids parameter of the one request; the correlation of a reply is exercised through the steps the methods perform - NewBatchKeySet + "
    "AddAllKeys / AddAllMapKeys, EncodeQueryParams, BatchResponse.UnmarshalWithKeyLocator - called directly (request construction itself: C02/C15)",
]
ASSUME = c10.ASSUME + [
    "response theorems: the reply does not list two keys that are equal under key equality inside one map (a Go map keeps the later entry); "
    "decodable keys are well-formed (no NaN)",
]


def main(tier, seed, replay):
    codec.write_fam_env()
    c10.TRUSTED, c10.ASSUME = TRUSTED, ASSUME
    return c10.run("C16", "c16", tier, seed, replay, ["Props.C16", "Props.C16_defaults"], "Corr/KeySetCorr.vo",
                   "corr:keyset (model key set / re-keying vs the real batchkeyset and BatchResponse.UnmarshalWithKeyLocator)",
                   ["TablesFnv", "TablesCodec"], post=rootmode.post("c16"))
