"""Shared machinery for ./check <Cxx>: translator, Coq build, assumption capture, correspondence via cases.v,
known-findings matching, replay and evidence writing.  See DESIGN.md section 2.5."""
import fcntl, glob, hashlib, json, os, re, shutil, subprocess, sys, tempfile, time

VERIF = os.path.dirname(os.path.dirname(os.path.abspath(__file__)))
REPO = os.environ.get("VERIF_REPO", "/repo")
COQ = os.path.join(VERIF, "coq")
HARNESS = os.path.join(VERIF, "harness")
BUILD = os.path.join(VERIF, "build")
NCPU = os.cpu_count() or 4

GOENV = dict(GOFLAGS="-mod=mod", GOPROXY="off", GOSUMDB="off", GOTOOLCHAIN="local", CGO_ENABLED="0",
             GONOSUMDB="*", GONOSUMCHECK="1", GOWORK="off")

FORBIDDEN = re.compile(r"\b(Admitted|admit|Axiom|Axioms|Parameter|Parameters|Conjecture|Conjectures|"
                       r"Admit Obligations|bypass_check)\b|Unset Guard|Unset Positivity|Unset Universe|"
                       r"-type-in-type|-impredicative-set|native_compute")


def env_go(extra=None):
    e = dict(os.environ)
    e.update(GOENV)
    if extra:
        e.update(extra)
    return e


def sh(cmd, cwd=None, env=None, timeout=None, check=False, stdin=None):
    """Run a command (list or string); returns (rc, stdout+stderr)."""
    t0 = time.time()
    try:
        p = subprocess.run(cmd, cwd=cwd, env=env, shell=isinstance(cmd, str), stdout=subprocess.PIPE,
                           stderr=subprocess.STDOUT, timeout=timeout, input=stdin)
        out = p.stdout.decode("utf-8", "replace")
        rc = p.returncode
    except subprocess.TimeoutExpired as ex:
        out = (ex.stdout or b"").decode("utf-8", "replace") + "\n[timeout after %ss]" % timeout
        rc = 124
    if check and rc != 0:
        raise RuntimeError("command failed (%s): %s\n%s" % (rc, cmd, out[-4000:]))
    return rc, out


class Lock:
    def __init__(self, name):
        os.makedirs(BUILD, exist_ok=True)
        self.path = os.path.join(BUILD, name + ".lock")

    def __enter__(self):
        self.f = open(self.path, "w")
        fcntl.flock(self.f, fcntl.LOCK_EX)
        return self

    def __exit__(self, *a):
        fcntl.flock(self.f, fcntl.LOCK_UN)
        self.f.close()


class Broken(Exception):
    """A proof obligation, the translator or the build of the model no longer checks."""

    def __init__(self, kind, name, detail):
        super().__init__("%s: %s" % (kind, name))
        self.kind, self.name, self.detail = kind, name, detail


# ------------------------------------------------------------------------------------------------ build tools

def tree_hash(paths):
    h = hashlib.sha256()
    for p in sorted(paths):
        if os.path.isdir(p):
            for root, dirs, files in sorted(os.walk(p)):
                dirs.sort()
                for f in sorted(files):
                    fp = os.path.join(root, f)
                    h.update(fp.encode())
                    try:
                        h.update(open(fp, "rb").read())
                    except OSError:
                        pass
        elif os.path.exists(p):
            h.update(p.encode())
            h.update(open(p, "rb").read())
    return h.hexdigest()


def harness_sync():
    """go.sum for the harness module = union of the repo's (offline: no sumdb)."""
    sums = set()
    for f in (os.path.join(REPO, "go.sum"), os.path.join(REPO, "v2", "go.sum")):
        if os.path.exists(f):
            sums.update(l for l in open(f).read().splitlines() if l.strip())
    extra = os.path.join(HARNESS, "go.sum.extra")
    if os.path.exists(extra):
        sums.update(l for l in open(extra).read().splitlines() if l.strip())
    gomod = ("module verif/harness\n\ngo 1.18\n\nrequire (\n\tgithub.com/PapaCharlie/go-restli v0.0.0\n"
             "\tgithub.com/PapaCharlie/go-restli/v2 v2.0.0\n)\n\n"
             "replace github.com/PapaCharlie/go-restli => %s\n\nreplace github.com/PapaCharlie/go-restli/v2 => %s/v2\n" % (REPO, REPO))
    gm = os.path.join(HARNESS, "go.mod")
    if not os.path.exists(gm) or open(gm).read() != gomod:
        open(gm, "w").write(gomod)
    want = "\n".join(sorted(sums)) + "\n"
    dst = os.path.join(HARNESS, "go.sum")
    if not os.path.exists(dst) or open(dst).read() != want:
        open(dst, "w").write(want)


def go_build(pkg, out, tags="verif", race=False):
    """Build harness/cmd/<pkg> against /repo's current working tree (replace directives), hooks enabled."""
    os.makedirs(BUILD, exist_ok=True)
    with Lock("go"):
        harness_sync()
        cmd = ["go", "build", "-tags", tags]
        env = env_go()
        if race:
            cmd.append("-race")
            env["CGO_ENABLED"] = "1"
        cmd += ["-o", out, "./cmd/" + pkg]
        rc, o = sh(cmd, cwd=HARNESS, env=env, timeout=900)
    if rc != 0:
        raise Broken("build", "go build harness/cmd/%s against /repo" % pkg, o[-6000:])
    return out


def translate(tables=None):
    """Regenerate coq/Gen/*.v from /repo (translator). Returns the list of 'name <- source position' lines."""
    exe = os.path.join(BUILD, "extract")
    with Lock("go"):
        harness_sync()
        rc, o = sh(["go", "build", "-o", exe, "./cmd/extract"], cwd=HARNESS, env=env_go(), timeout=600)
    if rc != 0:
        raise RuntimeError("cannot build translator:\n" + o)
    with Lock("coq"):
        rc, o = sh([exe, REPO, os.path.join(COQ, "Gen")] + list(tables or []), timeout=120)
    if rc != 0:
        raise Broken("translator", "harness/cmd/extract", o.strip())
    return [l for l in o.splitlines() if "<-" in l]


def coq_sources():
    out = []
    for root, dirs, files in os.walk(COQ):
        dirs.sort()
        for f in sorted(files):
            if f.endswith(".v") and not f.startswith("_tmp_") and not f.startswith("."):
                out.append(os.path.relpath(os.path.join(root, f), COQ))
    return out


def coq_project():
    lines = ["-Q . GR",
             "-arg -w -arg -notation-overridden,-deprecated-hint-without-locality,-deprecated-instance-without-locality,"
             "-deprecated-hint-rewrite-without-locality,-ambiguous-paths,-deprecated-syntactic-definition"]
    lines += coq_sources()
    want = "\n".join(lines) + "\n"
    p = os.path.join(COQ, "_CoqProject")
    changed = not os.path.exists(p) or open(p).read() != want
    if changed:
        open(p, "w").write(want)
    if changed or not os.path.exists(os.path.join(COQ, "Makefile")):
        sh(["coq_makefile", "-f", "_CoqProject", "-o", "Makefile"], cwd=COQ, check=True)


def coq_scan():
    """Forbidden tokens anywhere in the development (comments stripped)."""
    bad = []
    for rel in coq_sources():
        src = open(os.path.join(COQ, rel)).read()
        src = strip_comments(src)
        for i, line in enumerate(src.splitlines(), 1):
            m = FORBIDDEN.search(line)
            if m:
                bad.append("%s:%d: %s" % (rel, i, m.group(0)))
    return bad


def strip_comments(src):
    out, depth, i, n = [], 0, 0, len(src)
    instr = False
    while i < n:
        if not instr and src.startswith("(*", i):
            depth += 1
            i += 2
            continue
        if not instr and depth > 0 and src.startswith("*)", i):
            depth -= 1
            i += 2
            continue
        c = src[i]
        if depth == 0:
            if c == '"':
                instr = not instr
            out.append(c)
        elif c == "\n":
            out.append(c)
        i += 1
    return "".join(out)


def coq_make(targets, timeout=1800):
    """Full .vo build of the given targets (relative .vo paths). Raises Broken with the failing file/lemma."""
    with Lock("coq"):
        coq_project()
        rc, o = sh(["make", "-j%d" % NCPU, "-k"] + list(targets), cwd=COQ, timeout=timeout,
                   env=dict(os.environ, TIMED=""))
    if rc != 0:
        m = re.search(r'File "\./?([^"]+)", line (\d+), characters [\d-]+:\s*\n(Error:.*?)(?:\n\n|\nmake|\Z)', o, re.S)
        if m:
            name = "%s:%s" % (m.group(1), m.group(2))
            lemma = enclosing_lemma(os.path.join(COQ, m.group(1)), int(m.group(2)))
            if lemma:
                name += " (%s)" % lemma
            raise Broken("proof", name, m.group(3)[:3000])
        raise Broken("proof", "make " + " ".join(targets), o[-4000:])
    return o


def enclosing_lemma(path, line):
    try:
        lines = open(path).read().splitlines()
    except OSError:
        return None
    for i in range(min(line, len(lines)) - 1, -1, -1):
        m = re.match(r"\s*(?:Local |Global |#\[[^\]]*\]\s*)?(Theorem|Lemma|Corollary|Example|Definition|Fixpoint|Fact|Remark|Proposition|Instance)\s+([\w']+)", lines[i])
        if m:
            return m.group(2)
    return None


def theorems_of(rel):
    src = strip_comments(open(os.path.join(COQ, rel)).read())
    return re.findall(r"^\s*(?:Theorem|Corollary)\s+([\w']+)", src, re.M)


def examples_of(rel):
    src = strip_comments(open(os.path.join(COQ, rel)).read())
    return re.findall(r"^\s*Example\s+([\w']+)", src, re.M)


def print_assumptions(module, names, workdir):
    """Returns {theorem: assumptions text}. module e.g. 'Props.C20'."""
    f = os.path.join(workdir, "PA_%s.v" % module.replace(".", "_"))
    with open(f, "w") as fh:
        fh.write("From GR Require Import %s.\n" % module)
        for n in names:
            fh.write('Goal True. idtac "@@PA %s". Abort.\nPrint Assumptions %s.%s.\n' % (n, module.split(".")[-1], n))
    rc, o = sh(["coqc", "-Q", COQ, "GR", "-w", "none", f], cwd=workdir, timeout=600)
    if rc != 0:
        raise Broken("proof", "Print Assumptions " + module, o[-3000:])
    res = {}
    parts = re.split(r"@@PA (\S+)\n", o)
    for i in range(1, len(parts), 2):
        res[parts[i]] = " ".join(parts[i + 1].split())
    return res


# ------------------------------------------------------------------------------------------------ cases.v runner

def coq_eval_cases(workdir, shards, timeout=1800):
    """shards: list of .v files (already written, each ends with 'Print M.' and optionally 'Print R.').
    Returns {shard: (mismatch indices, raw R text)}.  Runs them NCPU at a time."""
    procs, res = [], {}
    pending = list(shards)
    running = []
    t0 = time.time()
    while pending or running:
        while pending and len(running) < NCPU:
            s = pending.pop(0)
            p = subprocess.Popen(["coqc", "-Q", COQ, "GR", "-w", "none", s], cwd=workdir, stdout=open(s + ".out", "wb"),
                                 stderr=subprocess.STDOUT)
            running.append((s, p))
        for s, p in list(running):
            if p.poll() is not None:
                out = open(s + ".out", "rb").read().decode("utf-8", "replace")
                running.remove((s, p))
                if p.returncode != 0:
                    for _, q in running:
                        q.kill()
                    raise Broken("model", "coqc " + os.path.basename(s), out[-4000:])
                res[s] = parse_M(out)
        if time.time() - t0 > timeout:
            for _, q in running:
                q.kill()
            raise Broken("model", "coqc cases", "timeout evaluating the model on the cases")
        time.sleep(0.02)
    return res


def parse_M(out):
    flat = " ".join(out.split())
    m = re.search(r"M = (\[.*?\])\s*: list", flat)
    if not m:
        raise Broken("model", "cases.v output", out[-2000:])
    body = m.group(1).strip()[1:-1].strip()
    idx = [int(re.sub(r"%\w+", "", x)) for x in body.split(";")] if body else []
    r = re.search(r"R = (.*?) : list", flat)
    return idx, (r.group(1) if r else "")


def coq_bytes(b):
    if isinstance(b, str):
        b = b.encode("utf-8", "surrogateescape")
    return "[" + ";".join("x%02x" % c for c in b) + "]"


# ------------------------------------------------------------------------------------------------ findings / verdict

def load_known(pid):
    p = os.path.join(VERIF, "known_findings.json")
    if not os.path.exists(p):
        return []
    data = json.load(open(p))
    return [e for e in data.get("findings", []) if e.get("property") == pid]


class Run:
    """One check run: collects obligations, correspondence stats, failures; writes evidence and replays."""

    def __init__(self, pid, tier, seed):
        self.pid, self.tier, self.seed = pid, tier, seed
        self.t0 = time.time()
        self.work = tempfile.mkdtemp(prefix="verif-%s-" % pid)
        self.obligations, self.discharged = [], []
        self.assumptions_out = {}
        self.trusted = []
        self.assume = []
        self.cov = {}
        self.samples = []
        self.violations = []      # (replay path, suffix)
        self.known_hits = []
        self.broken = []          # Broken instances (proof/translator/model/correspondence)
        self.failing = []         # dicts: failing inputs of the property {sig, what, case, ...}
        self.notes = []
        self.replay_n = 0
        os.makedirs(os.path.join(VERIF, "replays"), exist_ok=True)
        os.makedirs(os.path.join(VERIF, "evidence"), exist_ok=True)
        for f in glob.glob(os.path.join(VERIF, "replays", pid + "-*.json")):
            os.remove(f)

    def log(self, *a):
        print("[%s %6.1fs]" % (self.pid, time.time() - self.t0), *a, flush=True)

    # -- proof part
    def prove(self, tables, model_targets, prop_module, extra_obligation_modules=()):
        """translator -> scan -> make -> Print Assumptions.  Records Broken instead of raising, so that the
        correspondence and the search for a failing input still run."""
        ok = True
        try:
            srcs = translate(tables)
            self.cov["translator_sources"] = srcs
        except Broken as b:
            self.broken.append(b)
            return False
        bad = coq_scan()
        if bad:
            self.broken.append(Broken("proof", "forbidden token in development", "\n".join(bad)))
            ok = False
        # the model first (so that the correspondence can run even when a proof is broken)
        try:
            coq_make(model_targets)
        except Broken as b:
            b.kind = "model"
            self.broken.append(b)
            return False
        modules = [prop_module] if isinstance(prop_module, str) else list(prop_module)
        self.cov["examples_nonvacuity"] = []
        for pm in modules:
            rel = pm.replace(".", "/") + ".v"
            names = theorems_of(rel)
            self.obligations += [pm + "." + n for n in names]
            try:
                coq_make([rel + "o"])
                pa = print_assumptions(pm, names, self.work)
                self.assumptions_out.update({pm + "." + k: v for k, v in pa.items()})
                self.discharged += [pm + "." + n for n in names if n in pa]
            except Broken as b:
                self.broken.append(b)
                ok = False
            self.cov["examples_nonvacuity"] += examples_of(rel)
        return ok and len(self.discharged) == len(self.obligations)

    # -- failing inputs and verdict
    def fail_input(self, sig, what, case, site=None, model=None, impl=None):
        self.failing.append(dict(sig=sig, what=what, case=case, site=site, model=model, impl=impl))

    def write_replay(self, obj):
        self.replay_n += 1
        p = os.path.join(VERIF, "replays", "%s-%d.json" % (self.pid, self.replay_n))
        obj = dict(obj)
        obj.setdefault("property", self.pid)
        obj.setdefault("replay_cmd", "./check %s --replay %s" % (self.pid, os.path.relpath(p, VERIF)))
        json.dump(obj, open(p, "w"), indent=1, default=str)
        return os.path.relpath(p, VERIF)

    def finish(self, extra_cov=None):
        known = load_known(self.pid)
        lines = []
        unknown = {}
        seen_known = {}
        for f in self.failing:
            k = next((e for e in known if e.get("signature") == f["sig"]), None)
            if k is not None:
                seen_known.setdefault(f["sig"], (k, f))
            else:
                unknown.setdefault(f["sig"], f)
        for sig, (k, f) in sorted(seen_known.items()):
            lines.append("KNOWN-FINDING: property=%s %s [%s] e.g. %s" % (self.pid, k.get("what", f["what"]), sig,
                                                                        json.dumps(f["case"], default=str)[:300]))
        nviol = 0
        for sig, f in sorted(unknown.items()):
            rp = self.write_replay(dict(kind="impl-violation", signature=sig, what=f["what"], case=f["case"],
                                        site=f.get("site"), model_result=f.get("model"), impl_result=f.get("impl"),
                                        broken=[dict(kind=b.kind, name=b.name, detail=b.detail) for b in self.broken]))
            lines.append("VIOLATION property=%s replay=%s" % (self.pid, rp))
            nviol += 1
        if self.broken and nviol == 0:
            # a proof obligation or the correspondence no longer checks and no failing input was found
            b = self.broken[0]
            rp = self.write_replay(dict(kind="%s-broken" % b.kind, name=b.name, detail=b.detail,
                                        all_broken=[dict(kind=x.kind, name=x.name, detail=x.detail) for x in self.broken],
                                        note="the property is no longer shown to hold: the named theorem / correspondence "
                                             "does not check on the current tree; no concrete failing input was found by "
                                             "the search on the model and the implementation"))
            lines.append("VIOLATION property=%s replay=%s no-failing-input-found" % (self.pid, rp))
            nviol += 1
        cov = dict(self.cov)
        if extra_cov:
            cov.update(extra_cov)
        cov["obligations"] = len(self.obligations)
        cov["discharged"] = len(self.discharged)
        cov["obligation_names"] = self.obligations
        cov["print_assumptions"] = self.assumptions_out
        cov["checker_cmd"] = "coq_makefile -f _CoqProject -o Makefile && make (coqc 8.16.1, full .vo) in /verif/coq; " \
                             "then coqc on the generated cases_*.v (vm_compute) for the correspondence"
        cov["trusted_base"] = self.trusted
        cov.setdefault("samples", self.samples[:6] if self.samples else ["(none)"])
        cov["known_findings_seen"] = sorted(seen_known.keys())
        ev = dict(property_id=self.pid, tier=self.tier, seed=self.seed, level="proof", coverage=cov,
                  assumptions=self.assume, wall_s=round(time.time() - self.t0, 2), violations=nviol,
                  notes=self.notes)
        json.dump(ev, open(os.path.join(VERIF, "evidence", self.pid + ".json"), "w"), indent=1, default=str)
        for l in lines:
            print(l, flush=True)
        shutil.rmtree(self.work, ignore_errors=True)
        self.log("done: %d obligations, %d discharged, %d violations, %d known findings" %
                 (len(self.obligations), len(self.discharged), nviol, len(seen_known)))
        return 1 if nviol else 0


KERNEL_TB = [
    "Coq 8.16.1 kernel (coqc, full .vo builds; vm_compute used for finite sweeps and for evaluating the model on cases; "
    "native_compute not used); coqchk re-check in the thorough tier",
    "no axioms declared; source scan rejects Admitted/admit/Axiom/Parameter/Conjecture/guard switches on every run; Print Assumptions "
    "of every property theorem: Closed under the global context; coqchk -o lists one axiom of the LOADED standard library context, "
    "Coq.Logic.Eqdep.Eq_rect_eq.eq_rect_eq (declared by Coq.Logic.Eqdep, pulled in by an imported stdlib module; no theorem depends on it)",
    "translator harness/cmd/extract (go/parser): copies constants/tables from /repo into coq/Gen/*.v on every run",
    "correspondence harness: Go drivers in /verif/harness built against /repo's working tree, the generated cases_*.v "
    "files and their evaluation by coqc (vm_compute) - no extraction is used",
]


def coqchk(modules, timeout=3000):
    rc, o = sh(["coqchk", "-silent", "-o", "-Q", COQ, "GR"] + list(modules), cwd=COQ, timeout=timeout)
    return rc, o
