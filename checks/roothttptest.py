"""Stand-alone runner of the ROOT-module HTTP twin (checks/roothttp.py): the root part of one check alone.
   ROOT_PID=C02 ROOT_MODE=c02 ./check roothttptest [--tier thorough]      (ROOT_MODE in c02 c08 c04http c06http)
   Known findings are matched under ROOT_PID; evidence and replays are written under the id RH<ROOT_PID> so that the real check's
   files are left alone."""
import os
import lib, roothttp
from lib import *


def main(tier, seed, replay):
    pid = os.environ.get("ROOT_PID", "C02")
    mode = os.environ.get("ROOT_MODE", pid.lower())
    run = Run("RH" + pid, tier, seed)
    run.trusted = list(KERNEL_TB)
    known = lib.load_known
    lib.load_known = lambda _p: known(pid)
    roothttp.run_root(run, mode, tier, seed, replay=replay)
    return run.finish()
