// roothttp: the HTTP driver of harness/httpdrv compiled against the bindings of the ROOT-module generator
// (github.com/PapaCharlie/go-restli, /repo/restli + /repo/codegen/resources).  checks/roothttp.py copies env.go dyn.go gen.go
// schema.go val.go c02.go c02coq.go c08.go c04http.go c06http.go c07http.go of harness/httpdrv with checked source rewrites (import
// paths; the envelope package common -> restlidata; failure sites), cuts fieldsOf / buildErr out of c08.go (root_err.go) and adds
// this main and a registry generated from checks/family.py.
//
// What differs between the generations, as far as this driver is concerned:
//   - the generated API is the same: <pkg>.NewClient, <pkg>.Client, <pkg>.Resource, <pkg>.RegisterResource(restli.Server, Resource),
//     <pkg>_test.MockResource with one Mock<Method> func field per method, <Method>Params structs embedding restlidata.PagingContext,
//     X_PartialUpdate with Set_Fields / Delete_Fields; restli.NewServer / NewPrefixedServer / AddToMux / Filter / Client are the
//     same declarations (Gen/TablesRootHttp.v compares them on every run);
//   - envelope types (ErrorResponse, Elements, CreatedEntity, CreatedAndReturnedEntity, BatchResponse, BatchEntityUpdateResponse,
//     EmptyRecord, PagingContext) live in the hand-maintained package restlidata (v2: generated package common);
//   - ErrorResponse has four fields (root_err.go);
//   - no partial_update with return entity (checks/roothttp.py probes it and drops the flag from the root spec);
//   - records with includes are flattened in the root bindings; the resource family uses none as entity, key or parameter, so
//     val.go's toGo / fromGo are used unchanged (they would panic on a missing field otherwise).
package main

import (
	"fmt"
	"io"
	"log"
	"os"

	"verifgenroot/hx"
)

var schema *Schema

func main() {
	cfg := hx.ParseFlags()
	schema = loadSchema(os.Getenv("VERIF_SCHEMA"))
	log.SetOutput(io.Discard) // receive logs every recovered panic with its stack
	mode := os.Getenv("VERIF_MODE")
	switch mode {
	case "c08":
		runC08(cfg)
	case "c08race":
		runC08Race(cfg)
	case "c02":
		runC02(cfg)
	case "c04http":
		runC04HTTP(cfg)
	case "c06http":
		runC06HTTP(cfg)
	case "c07http":
		runC07HTTP(cfg)
	default:
		fmt.Fprintln(os.Stderr, "unknown VERIF_MODE (root http driver)", mode)
		os.Exit(2)
	}
}
