package main

// ROOT-module glue of the HTTP driver (checks/roothttp.py copies harness/httpdrv with checked rewrites and adds this file).
//
// The root module's ErrorResponse (restlidata/ErrorResponse.gr.go) has FOUR fields: status, message, exceptionClass, stackTrace.
// v2's generated common.ErrorResponse has ten (serviceErrorCode, code, docUrl, requestId, errorDetailType, errorDetails in
// addition).  An API difference of the generations, not a defect: the two functions of harness/httpdrv/c08.go that name the
// fields are replaced by these.  The model's error record (Http/Status.v mkErr) keeps ten fields; the six that the root type
// cannot hold are None / false in every root case.

import (
	"strconv"

	"github.com/PapaCharlie/go-restli/restli"
	"github.com/PapaCharlie/go-restli/restlidata"
)

func fieldsOf(e *restlidata.ErrorResponse) *errFields {
	if e == nil {
		return nil
	}
	f := &errFields{Message: cp(e.Message), Exc: cp(e.ExceptionClass), Stack: cp(e.StackTrace)}
	if e.Status != nil {
		v := int64(*e.Status)
		f.Status = &v
	}
	return f
}

// the error objects of the scenarios: bit 1 status, bit 2 message, bit 8 exceptionClass, bit 32 stackTrace; bits 4 and 16
// (serviceErrorCode + code, errorDetails) and the other fields of bit 32 have no counterpart in the root type: those subsets
// collapse onto the objects without them (the scenario loop still runs 64 objects; 16 are distinct)
func buildErr(bits int, status int32) *restlidata.ErrorResponse {
	e := &restlidata.ErrorResponse{}
	if bits&1 != 0 {
		e.Status = restli.Int32Pointer(status)
	}
	if bits&2 != 0 {
		e.Message = restli.StringPointer("boom " + strconv.Itoa(bits))
	}
	if bits&8 != 0 {
		e.ExceptionClass = restli.StringPointer("com.example.Boom")
	}
	if bits&32 != 0 {
		e.StackTrace = restli.StringPointer("S")
	}
	return e
}
