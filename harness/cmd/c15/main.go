// C15 driver: request URL construction.  For every base URL of the context-path grammar x encoded resource paths x
// queries it asks the REAL client code (restli.NewGetRequest / NewDeleteRequest / NewJsonRequest, both module
// generations) for the *http.Request and records its URL; it evaluates the property's own predicate on the implementation
// (scheme and host kept, escaped path = context + resource path with the root segment once at the junction, path and
// query byte-identical to the encoders' output) and writes the cases for the Coq model (Corr/C15Corr.v).
//
// Requests are made in HISTORIES on long-lived clients (type session): one *Client, one resolver (the real
// SimpleHostnameResolver handing out one *url.URL for the client's lifetime; a table resolver keeping one long-lived
// *url.URL per base, several bases behind one client; a resolver answering a fresh *url.URL each time; the client's
// HostnameResolver field REPLACED by another SimpleHostnameResolver between requests), one QueryTunnellingThreshold.  Every request of a history is a case of its own: its URL must be what the property says of
// that request ALONE (and what the model computes for it alone), and it must equal the URL a brand-new client builds for
// the same request (signature history-dependent).  The description of a case lists the earlier requests of its client, so
// that a replay re-issues the whole history.  Tunnelled requests (threshold > 0, query longer): C14 owns method, headers
// and body; the URL - same scheme, host and escaped path, no query - is checked here.
package main

import (
	"context"
	"encoding/json"
	"fmt"
	"net/http"
	"net/url"
	"os"
	"strings"

	rootrestli "github.com/PapaCharlie/go-restli/restli"
	rootcodec "github.com/PapaCharlie/go-restli/restlicodec"
	v2restli "github.com/PapaCharlie/go-restli/v2/restli"
	v2codec "github.com/PapaCharlie/go-restli/v2/restlicodec"
	"verif/harness/hx"
)

// ---- the two module generations behind one interface

type rpV2 struct{ root, path string }

func (r rpV2) RootResource() string           { return r.root }
func (r rpV2) ResourcePath() (string, error) { return r.path, nil }

type emptyRecordV2 struct{}

func (emptyRecordV2) MarshalRestLi(w v2codec.Writer) error {
	return w.WriteMap(func(func(string) v2codec.Writer) error { return nil })
}

type emptyRecordRoot struct{}

func (emptyRecordRoot) MarshalRestLi(w rootcodec.Writer) error {
	return w.WriteMap(func(func(string) rootcodec.Writer) error { return nil })
}

// what the driver's own resolvers answer: the *url.URL chosen by the session for the request at hand
type drvResolver struct {
	next  *url.URL
	calls int
	root  string
}

func (r *drvResolver) ResolveHostnameAndContextForQuery(root string, _ *url.URL) (*url.URL, error) {
	r.calls++
	r.root = root
	return r.next, nil
}

// one request on an existing client
type clientFn func(root, rpath string, hasQuery bool, query string, entry int) (*http.Request, error)

type module struct {
	name string
	v2   bool
	// simple != nil: the real SimpleHostnameResolver{Hostname: simple}; otherwise the driver's resolver dr.  The second result
	// REPLACES the HostnameResolver of the same client by a new SimpleHostnameResolver (resolver kind "swap")
	newClient  func(simple *url.URL, dr *drvResolver, threshold int) (clientFn, func(*url.URL))
	pathEscape func(string) string
	qEscape    func(string) string
}

var modules = []module{
	{"v2", true, func(simple *url.URL, dr *drvResolver, threshold int) (clientFn, func(*url.URL)) {
		c := &v2restli.Client{Client: http.DefaultClient, QueryTunnellingThreshold: threshold}
		if simple != nil {
			c.HostnameResolver = &v2restli.SimpleHostnameResolver{Hostname: simple}
		} else {
			c.HostnameResolver = dr
		}
		return func(root, rpath string, hasQuery bool, query string, entry int) (*http.Request, error) {
			var q v2restli.QueryParamsEncoder
			if hasQuery {
				q = v2restli.QueryParamsString(query)
			}
			rp := rpV2{root, rpath}
			switch entry {
			case 1:
				return v2restli.NewDeleteRequest(c, context.Background(), rp, q, v2restli.Method_delete)
			case 2:
				return v2restli.NewJsonRequest(c, context.Background(), rp, q, http.MethodPut, v2restli.Method_update, emptyRecordV2{}, nil)
			}
			return v2restli.NewGetRequest(c, context.Background(), rp, q, v2restli.Method_get)
		}, func(b *url.URL) { c.HostnameResolver = &v2restli.SimpleHostnameResolver{Hostname: b} }
	}, v2codec.Ror2PathEscape, v2codec.Ror2QueryEscape},
	{"root", false, func(simple *url.URL, dr *drvResolver, threshold int) (clientFn, func(*url.URL)) {
		c := &rootrestli.Client{Client: http.DefaultClient, QueryTunnellingThreshold: threshold}
		if simple != nil {
			c.HostnameResolver = &rootrestli.SimpleHostnameResolver{Hostname: simple}
		} else {
			c.HostnameResolver = dr
		}
		return func(root, rpath string, hasQuery bool, query string, entry int) (*http.Request, error) {
			var q rootrestli.QueryParamsEncoder
			if hasQuery {
				q = rootrestli.QueryParamsString(query)
			}
			rp := rpV2{root, rpath}
			switch entry {
			case 1:
				return rootrestli.NewDeleteRequest(c, context.Background(), rp, q, rootrestli.Method_delete)
			case 2:
				return rootrestli.NewJsonRequest(c, context.Background(), rp, q, http.MethodPut, rootrestli.Method_update, emptyRecordRoot{}, nil)
			}
			return rootrestli.NewGetRequest(c, context.Background(), rp, q, rootrestli.Method_get)
		}, func(b *url.URL) { c.HostnameResolver = &rootrestli.SimpleHostnameResolver{Hostname: b} }
	}, rootcodec.Ror2PathEscape, rootcodec.Ror2QueryEscape},
}

// ---- the case

// the inputs of one request (what a history lists)
type ReqIn struct {
	Scheme    string   `json:"scheme"`
	Host      string   `json:"host"`
	Bp        string   `json:"bp"`                // escaped context path text
	Segs      []string `json:"segs,omitempty"`    // how Bp was rendered (grammar renderer)
	Rendered  bool     `json:"rendered"`          // Bp == render(Segs, Trailing)
	Trailing  bool     `json:"trailing"`
	HandBuilt bool     `json:"hand_built"`        // base is &url.URL{Scheme,Host,Path:HbPath,RawPath:HbRaw} instead of url.Parse
	HbPath    string   `json:"hb_path,omitempty"`
	HbRaw     string   `json:"hb_raw,omitempty"`
	Root      string   `json:"root"`
	Rpath     string   `json:"rpath"`
	HasQuery  bool     `json:"has_query"`
	Query     string   `json:"query"`
	Entry     int      `json:"entry"` // 0 NewGetRequest, 1 NewDeleteRequest, 2 NewJsonRequest(PUT)
}

type caseDesc struct {
	Module string `json:"module"`
	// the long-lived client this request was made on
	Threshold int     `json:"threshold"`          // Client.QueryTunnellingThreshold
	Resolver  string  `json:"resolver,omitempty"` // simple (default) | table | fresh | swap
	History   []ReqIn `json:"history,omitempty"`  // the requests made EARLIER on the same client, in order
	ReqIn
	// results
	InGrammar  bool   `json:"in_grammar"`
	CtxSpec    string `json:"ctx_spec"`
	TunnelSpec bool   `json:"tunnel_spec"` // threshold > 0 and the query is longer
	Obs
}

// the observables of the request that was built
type Obs struct {
	Ok       bool   `json:"ok"`
	String   string `json:"string,omitempty"`
	EPath    string `json:"escaped_path,omitempty"`
	RawQuery string `json:"raw_query,omitempty"`
	OScheme  string `json:"o_scheme,omitempty"`
	OHost    string `json:"o_host,omitempty"`
	OPath    string `json:"o_path,omitempty"`
	Force    bool   `json:"force_query,omitempty"`
	Method   string `json:"http_method,omitempty"` // informative (C14 owns it)
	Panicked bool   `json:"panicked,omitempty"`
}

// ---- the oracle's own predicates (independent of the code under test)

func isLower(c byte) bool { return 'a' <= c && c <= 'z' }
func isDigit(c byte) bool { return '0' <= c && c <= '9' }
func isAlnum(c byte) bool { return isLower(c) || 'A' <= c && c <= 'Z' || isDigit(c) }
func isHex(c byte) bool   { return isDigit(c) || 'a' <= c && c <= 'f' || 'A' <= c && c <= 'F' }

// RFC 3986 pchar without pct-encoded, plus '/', '[' and ']' (what Go's validEncoded lets through)
func pathByteOk(c byte) bool {
	return isAlnum(c) || strings.IndexByte("-_.~$&+,/:;=@!'()*[]%", c) >= 0
}
func pctOk(s string) bool {
	for i := 0; i < len(s); i++ {
		if s[i] == '%' {
			if i+2 >= len(s) || !isHex(s[i+1]) || !isHex(s[i+2]) {
				return false
			}
			i += 2
		}
	}
	return true
}
func allBytes(s string, f func(byte) bool) bool {
	for i := 0; i < len(s); i++ {
		if !f(s[i]) {
			return false
		}
	}
	return true
}
func segOk(s string) bool {
	return s != "" && allBytes(s, pathByteOk) && !strings.Contains(s, "/") && pctOk(s)
}
func schemeOk(s string) bool {
	if s == "" {
		return true
	}
	return isLower(s[0]) && allBytes(s[1:], func(c byte) bool { return isLower(c) || isDigit(c) || c == '+' || c == '-' || c == '.' })
}
func hostOk(h string) bool {
	name, port, hasPort := strings.Cut(h, ":")
	if name == "" || !allBytes(name, func(c byte) bool { return isAlnum(c) || strings.IndexByte("-_.~", c) >= 0 }) {
		return false
	}
	return !hasPort || (port != "" && allBytes(port, isDigit))
}
func render(segs []string, trailing bool) string {
	var sb strings.Builder
	for _, s := range segs {
		sb.WriteByte('/')
		sb.WriteString(s)
	}
	if trailing {
		sb.WriteByte('/')
	}
	return sb.String()
}

// the specification of the context: drop one trailing slash, cut at the last segment equal to root
func ctxSpec(bp, root string) string {
	p := strings.TrimSuffix(bp, "/") // TrimSuffix removes at most one occurrence
	l := strings.Split(p, "/")
	for i := len(l) - 1; i >= 0; i-- {
		if l[i] == root {
			l = l[:i]
			break
		}
	}
	return strings.Join(l, "/")
}

type alphabets struct{ path, query [256]bool }

func alphabetsOf(m *module) *alphabets {
	a := &alphabets{}
	for b := 0; b < 256; b++ {
		s := string([]byte{byte(b)})
		a.path[b] = m.pathEscape(s) == s
		a.query[b] = m.qEscape(s) == s
	}
	for _, c := range []byte("(),:'/%") {
		a.path[c] = true
	}
	for _, c := range []byte("(),:'&=%") {
		a.query[c] = true
	}
	return a
}

func inGrammar(a *alphabets, d *ReqIn) bool {
	if !d.Rendered || d.HandBuilt {
		return false
	}
	if !schemeOk(d.Scheme) || !(d.Host == "" || hostOk(d.Host)) {
		return false
	}
	for i, s := range d.Segs {
		if !segOk(s) || (s == d.Root && i != len(d.Segs)-1) {
			return false
		}
	}
	if d.Root == "" || strings.Contains(d.Root, "/") {
		return false
	}
	// encoded path: "/root" then nothing or "/..."; encoder alphabet; well-formed %XX
	if !strings.HasPrefix(d.Rpath, "/"+d.Root) {
		return false
	}
	if rest := d.Rpath[len(d.Root)+1:]; rest != "" && rest[0] != '/' {
		return false
	}
	if !allBytes(d.Rpath, func(c byte) bool { return a.path[c] }) || !pctOk(d.Rpath) {
		return false
	}
	if d.HasQuery && !allBytes(d.Query, func(c byte) bool { return a.query[c] }) {
		return false
	}
	return true
}

const site = "restli/http.go:formatQueryUrl"

func coqOptBytes(present bool, s string) string { return hx.CoqOpt(present, hx.CoqBytes(s)) }

func coqURL(u *url.URL) string {
	return fmt.Sprintf("{| u_scheme := %s; u_host := %s; u_path := %s; u_rawpath := %s; u_forcequery := %s; u_rawquery := %s; u_omithost := %s |}",
		hx.CoqBytes(u.Scheme), hx.CoqBytes(u.Host), hx.CoqBytes(u.Path), hx.CoqBytes(u.RawPath), hx.CoqBool(u.ForceQuery),
		hx.CoqBytes(u.RawQuery), hx.CoqBool(u.OmitHost))
}

func baseText(d *ReqIn) string {
	t := ""
	if d.Scheme != "" {
		t += d.Scheme + ":"
	}
	if d.Scheme != "" || d.Host != "" {
		t += "//" + d.Host
	}
	return t + d.Bp
}

// builds the *url.URL value a resolver hands out for this request ("" = fine)
func buildBase(d *ReqIn) (*url.URL, string) {
	if d.HandBuilt {
		return &url.URL{Scheme: d.Scheme, Host: d.Host, Path: d.HbPath, RawPath: d.HbRaw}, ""
	}
	base, err := url.Parse(baseText(d))
	if err != nil || base.User != nil || base.Opaque != "" || base.Fragment != "" || base.RawQuery != "" {
		return nil, "skipped:base-not-parseable"
	}
	if base.Scheme != d.Scheme || base.Host != d.Host || (d.Scheme == "" && d.Host == "" && strings.HasPrefix(d.Bp, "//") && !strings.HasPrefix(d.Bp, "///")) {
		return nil, "skipped:base-parsed-differently"
	}
	return base, ""
}

func baseKey(d *ReqIn) string {
	k, _ := json.Marshal([]interface{}{d.Scheme, d.Host, d.Bp, d.HandBuilt, d.HbPath, d.HbRaw})
	return string(k)
}

func issue(f clientFn, d *ReqIn) (o Obs) {
	var req *http.Request
	var err error
	func() {
		defer func() {
			if r := recover(); r != nil {
				o.Panicked = true
			}
		}()
		req, err = f(d.Root, d.Rpath, d.HasQuery, d.Query, d.Entry)
	}()
	if o.Panicked {
		return
	}
	o.Ok = err == nil
	if err == nil {
		u := req.URL
		o.String, o.EPath, o.RawQuery, o.OScheme, o.OHost, o.OPath, o.Force, o.Method = u.String(), u.EscapedPath(), u.RawQuery, u.Scheme, u.Host, u.Path, u.ForceQuery, req.Method
	}
	return
}

// ---- a long-lived client and the history of requests made on it
type session struct {
	m         *module
	a         *alphabets
	threshold int
	resolver  string // simple | table | fresh | swap
	client    clientFn
	setSimple func(*url.URL)
	dr        *drvResolver
	simpleKey string
	pool      map[string]*url.URL // table: the long-lived *url.URL of each base
	history   []ReqIn
}

func newSession(m *module, a *alphabets, resolver string, threshold int) *session {
	if resolver == "" {
		resolver = "simple"
	}
	s := &session{m: m, a: a, threshold: threshold, resolver: resolver, pool: map[string]*url.URL{}}
	if resolver == "table" || resolver == "fresh" {
		s.dr = &drvResolver{}
		s.client, s.setSimple = m.newClient(nil, s.dr, threshold)
	}
	return s
}

// the *url.URL the session's resolver answers for this request
func (s *session) baseFor(d *ReqIn) (*url.URL, string) {
	key := baseKey(d)
	switch s.resolver {
	case "simple":
		if s.client != nil {
			if key != s.simpleKey {
				panic("c15 driver: a session on a SimpleHostnameResolver has ONE base URL")
			}
			return s.pool[key], ""
		}
		base, skip := buildBase(d)
		if base == nil {
			return nil, skip
		}
		s.simpleKey, s.pool[key] = key, base
		s.client, s.setSimple = s.m.newClient(base, nil, s.threshold)
		return base, ""
	case "swap":
		// the SAME client gets another SimpleHostnameResolver (on a new *url.URL) before every request
		base, skip := buildBase(d)
		if base == nil {
			return nil, skip
		}
		if s.client == nil {
			s.client, s.setSimple = s.m.newClient(base, nil, s.threshold)
		} else {
			s.setSimple(base)
		}
		return base, ""
	case "table":
		if b, ok := s.pool[key]; ok {
			s.dr.next = b
			return b, ""
		}
		base, skip := buildBase(d)
		if base == nil {
			return nil, skip
		}
		s.pool[key] = base
		s.dr.next = base
		return base, ""
	default: // fresh
		base, skip := buildBase(d)
		if base != nil {
			s.dr.next = base
		}
		return base, skip
	}
}

func (s *session) run(in ReqIn, rep *hx.Report, sh *hx.Shards) {
	m, a := s.m, s.a
	d := caseDesc{Module: m.name, Threshold: s.threshold, Resolver: s.resolver, ReqIn: in}
	d.History = append([]ReqIn{}, s.history...)
	base, skip := s.baseFor(&d.ReqIn)
	if base == nil {
		rep.Count(skip)
		return
	}
	before := *base
	d.InGrammar = inGrammar(a, &d.ReqIn)
	d.CtxSpec = ctxSpec(d.Bp, d.Root)
	d.TunnelSpec = d.Threshold > 0 && d.HasQuery && len(d.Query) > d.Threshold

	if s.dr != nil {
		s.dr.calls, s.dr.root = 0, ""
	}
	d.Obs = issue(s.client, &d.ReqIn)
	s.history = append(s.history, in)
	rep.Evaluations++
	if d.Panicked {
		rep.Fail("panic", "building the request panicked", site, d, nil)
		return
	}
	if *base != before {
		rep.Fail("resolver-url-mutated", "the *url.URL returned by the hostname resolver was modified", site, d, nil)
	}
	if s.dr != nil && d.Ok && (s.dr.calls != 1 || s.dr.root != d.Root) {
		rep.Fail("resolver-asked-wrongly", "the hostname resolver is not asked exactly once, for the root resource of the resource path", site, d,
			map[string]interface{}{"calls": s.dr.calls, "root": s.dr.root})
	}
	err := !d.Ok

	// ---- history independence, evaluated on the implementation: a brand-new client with a brand-new base URL value builds
	// the same URL for this request (inside and outside the grammar)
	if len(d.History) > 0 {
		if fb, _ := buildBase(&d.ReqIn); fb != nil {
			nc, _ := m.newClient(fb, nil, s.threshold)
			alone := issue(nc, &d.ReqIn)
			if alone != d.Obs {
				rep.Fail("history-dependent", "the URL of a request depends on the requests made earlier on the same client: a new client builds another URL for the same request", site, d,
					map[string]interface{}{"after_the_history": d.Obs, "alone_on_a_new_client": alone})
			}
		}
	}

	// ---- the property's own predicate, evaluated on the implementation
	if d.InGrammar {
		want := d.CtxSpec + d.Rpath
		wantString := ""
		if d.Scheme != "" {
			wantString += d.Scheme + ":"
		}
		if d.Scheme != "" || d.Host != "" {
			wantString += "//" + d.Host
		}
		wantString += want
		wantQuery := d.HasQuery && !d.TunnelSpec // the encoder's query is expected in the URL
		if wantQuery {
			wantString += "?" + d.Query
		}
		tun := ""
		if d.TunnelSpec {
			tun = "tunnelled:"
		}
		switch {
		case err:
			rep.Fail("error", "a request for a base URL / resource path of the grammar could not be built", site, d, nil)
		default:
			if d.OScheme != d.Scheme {
				rep.Fail(tun+"scheme-changed", "the request URL does not keep the resolver's scheme", site, d, d.String)
			}
			if d.OHost != d.Host {
				rep.Fail(tun+"host-changed", "the request URL does not keep the resolver's host", site, d, d.String)
			}
			if d.EPath != want {
				sig, what := "path-wrong", "the escaped path is not context + resource path"
				switch {
				case strings.HasSuffix(d.EPath, d.Rpath) && strings.HasSuffix(strings.TrimSuffix(d.EPath, d.Rpath), "/"+d.Root):
					sig, what = "root-duplicated", "the root resource segment appears twice at the junction"
				case strings.HasSuffix(d.EPath, d.Rpath):
					sig, what = "context-wrong", "the context path is not the resolver's context path with the trailing root segment removed"
				case strings.HasPrefix(d.EPath, d.CtxSpec) && len(d.EPath) > len(want):
					sig, what = "path-reencoded", "the encoded resource path was encoded again on its way to the wire"
				case strings.HasPrefix(d.EPath, d.CtxSpec) && len(d.EPath) < len(want):
					sig, what = "path-normalised", "the encoded resource path was decoded or normalised (dot segments, slashes) on its way to the wire"
				}
				if d.TunnelSpec {
					what += " (tunnelled request: the query is in the body, the URL must still be the resource's)"
				}
				rep.Fail(tun+sig, what, site, d, d.EPath)
			}
			if wantQuery && d.RawQuery != d.Query {
				sig := "query-changed"
				if d.RawQuery == "" {
					sig = "query-lost"
				}
				rep.Fail(sig, "the encoded query does not reach the wire byte for byte", site, d, d.RawQuery)
			}
			if d.TunnelSpec && (d.RawQuery != "" || d.Force) {
				rep.Fail("tunnelled:query-left-in-url", "a request whose query is longer than the tunnelling threshold still carries a query in its URL", site, d, d.RawQuery)
			}
			if !d.HasQuery && (d.RawQuery != "" || d.Force) {
				rep.Fail("query-invented", "a request without query parameters got a query", site, d, d.RawQuery)
			}
			queryOk := (wantQuery && d.RawQuery == d.Query) || (!wantQuery && d.RawQuery == "" && !d.Force)
			if d.String != wantString && d.OScheme == d.Scheme && d.OHost == d.Host && d.EPath == want && queryOk {
				rep.Fail(tun+"string-wrong", "URL.String() is not scheme://host + context + path + ?query", site, d, d.String)
			}
			// root exactly once at the junction: no complete root segment in the context that was kept
			for _, s := range strings.Split(d.CtxSpec, "/") {
				if s == d.Root {
					rep.Fail("oracle-bug", "the specified context still holds the root segment", site, d, nil)
				}
			}
		}
	}

	// ---- distribution
	rep.Count("module=" + m.name)
	rep.Count(fmt.Sprintf("in_grammar=%v", d.InGrammar))
	rep.Count(fmt.Sprintf("ok=%v", d.Ok))
	rep.Count(fmt.Sprintf("ctx_segments=%d", len(d.Segs)))
	rep.Count(fmt.Sprintf("trailing_slash=%v", d.Trailing))
	rep.Count(fmt.Sprintf("scheme=%v,host=%v", d.Scheme != "", d.Host != ""))
	rep.Count(fmt.Sprintf("entry=%d", d.Entry))
	rep.Count("resolver=" + s.resolver)
	rep.Count(fmt.Sprintf("history_length=%d", imin(len(d.History), 6)))
	switch {
	case d.Threshold <= 0:
		rep.Count("tunnelling=off")
	case d.TunnelSpec:
		rep.Count("tunnelling=on,tunnelled")
		if d.InGrammar && strings.ContainsAny(strings.TrimPrefix(d.Rpath, "/"+d.Root), "()'*!%") {
			rep.Count("tunnelled:path-needs-rawpath")
		}
	default:
		rep.Count("tunnelling=on,not-tunnelled")
	}
	if n := len(d.History); n > 0 {
		prev := d.History[n-1]
		if prev.Root != d.Root {
			rep.Count("history:previous-request-other-root")
			if baseKey(&prev) == baseKey(&d.ReqIn) && ctxSpec(d.Bp, d.Root) != ctxSpec(d.Bp, prev.Root) {
				rep.Count("history:previous-request-other-root,same-base,other-context")
			}
		}
		if baseKey(&prev) != baseKey(&d.ReqIn) {
			rep.Count("history:previous-request-other-base")
		}
	}
	switch {
	case !d.HasQuery:
		rep.Count("query=none")
	case d.Query == "":
		rep.Count("query=empty")
	case len(d.Query) > 80:
		rep.Count("query=long")
	default:
		rep.Count("query=short")
	}
	if strings.Contains(d.Rpath, "%") {
		rep.Count("rpath:has-pct")
	}
	if strings.Contains(d.Rpath, "/.") {
		rep.Count("rpath:dot-segment-like")
	}
	if d.Bp != d.CtxSpec && strings.TrimSuffix(d.Bp, "/") != d.CtxSpec {
		rep.Count("ctx:root-stripped")
	}
	if d.HandBuilt {
		rep.Count("base:hand-built")
	}
	key, _ := json.Marshal([]interface{}{m.name, d.Threshold, d.Scheme, d.Host, d.Bp, d.HandBuilt, d.HbPath, d.HbRaw, d.Root, d.Rpath, d.HasQuery, d.Query})
	nontrivial := d.InGrammar && len(d.Segs) > 0 && len(d.Rpath) > len(d.Root)+1
	rep.Distinct(string(key), nontrivial)
	if nontrivial && d.HasQuery && strings.Contains(d.Rpath, "%") && d.Bp != d.CtxSpec {
		rep.Sample(d)
	}

	// ---- model case
	segs := "None"
	if d.Rendered {
		segs = "(Some (" + hx.CoqBytesList(d.Segs) + ", " + hx.CoqBool(d.Trailing) + "))"
	}
	obs := fmt.Sprintf("{| o_ok := %s; o_string := %s; o_epath := %s; o_rawquery := %s; o_scheme := %s; o_host := %s; o_path := %s; o_force := %s |}",
		hx.CoqBool(d.Ok), hx.CoqBytes(d.String), hx.CoqBytes(d.EPath), hx.CoqBytes(d.RawQuery), hx.CoqBytes(d.OScheme), hx.CoqBytes(d.OHost),
		hx.CoqBytes(d.OPath), hx.CoqBool(d.Force))
	sh.Add(fmt.Sprintf("{| c_v2 := %s; c_threshold := %s; c_tunnel_spec := %s; c_base := %s; c_parsed := %s; c_bp := %s; c_segs := %s; c_root := %s; c_rpath := %s; c_query := %s; c_in_grammar := %s; c_ctx_spec := %s; c_obs := %s |}",
		hx.CoqBool(m.v2), hx.CoqZ(int64(d.Threshold)), hx.CoqBool(d.TunnelSpec), coqURL(&before), hx.CoqBool(!d.HandBuilt), hx.CoqBytes(d.Bp), segs, hx.CoqBytes(d.Root), hx.CoqBytes(d.Rpath),
		coqOptBytes(d.HasQuery, d.Query), hx.CoqBool(d.InGrammar), hx.CoqBytes(d.CtxSpec), obs), d)
}

// ---- generators

const root = "coll"

type hostCombo struct{ scheme, host string }

var hostCombos = []hostCombo{{"http", "example.com"}, {"https", "h-1.x_y~z:8080"}, {"", ""}, {"", "localhost"}, {"s3+x.y-z", ""}}

// segment kinds of the property's grammar (relative to the root name "coll")
var segKinds = []struct{ name, seg string }{{"root", "coll"}, {"root-with-suffix", "collx"}, {"prefix-of-root", "col"}, {"other", "api"}}

// further segments (thorough tier / random): encoded bytes, sub-delims, dots
var extraSegs = []string{"a%2Fb", "v(1)", ".", "..", "coll%2F", "%63oll", "coll;v=1", "COLL", "c", "collcoll", "a:b@c", "!$&'()*+,;=~_-"}

func contexts(maxSegs int, kinds []string) [][]string {
	out := [][]string{{}}
	var rec func(acc []string)
	rec = func(acc []string) {
		if len(acc) >= maxSegs {
			return
		}
		for _, k := range kinds {
			n := append(append([]string{}, acc...), k)
			out = append(out, n)
			rec(n)
		}
	}
	rec(nil)
	return out
}

func resourcePaths(m *module, thorough bool) []string {
	keys := []string{"1", "abc", ".", "..", "...", "a/b", "//", ";", "?", "#", "%", "%2E", "a b", "é", "a+b", "a&b=c", "coll", "x:y", "(a)", "a,b", "'",
		"!$&*+-.0123456789=@ABCXYZ_abcxyz~", "\x00\x1f\x7f\xff", "[]{}|\\^`\"<>"}
	var out []string
	out = append(out, "/"+root)
	for _, k := range keys {
		out = append(out, "/"+root+"/"+m.pathEscape(k))
	}
	out = append(out,
		"/"+root+"/''",                       // the empty string as a ROR2 key
		"/"+root+"/(a:1,b:'')",               // complex keys
		"/"+root+"/(k:(x:1,y:List(a,b)),$params:(p:%2E))",
		"/"+root+"/1/sub/2",
		"/"+root+"/./sub",
		"/"+root+"/../sub/..",
		"/"+root+"/..//..",
		"/"+root+"//sub",
		"/"+root+"/1/",
		"/"+root+"/%252E%252E",
		"/"+root+"/a%2F..%2Fb/"+root+"/"+root,
		"/"+root+"/%2e%2E/%2f",
	)
	if thorough {
		for b := 0; b < 256; b++ {
			out = append(out, "/"+root+"/"+m.pathEscape(string([]byte{byte(b)})))
		}
	}
	return out
}

// resource paths outside the premise (not encoder output): correspondence only
var foreignPaths = []string{"/coll/a b", "/coll/{x}", "/coll/%zz", "/coll/%2", "/coll/a?b", "/coll?", "/collx/1", "/other/1", "/coll/\"q\"", "/coll/\xc3\xa9",
	"/coll/a\x01b", "//coll/1", "/coll#", "/coll/*", "coll/1", "/col"}

func queries(m *module) []struct {
	has bool
	q   string
} {
	long := "fields=" + strings.Repeat("abcdefghij,", 6) + "z&ids=List(" + strings.Repeat("(a:1,b:"+m.qEscape("x y")+"),", 4) + "(a:2,b:''))"
	return []struct {
		has bool
		q   string
	}{{false, ""}, {true, ""}, {true, "q=" + m.qEscape("(a)") + "&x=%28"}, {true, "a=" + m.qEscape("1+1") + "&b=2+2&c=a?b/c;d"}, {true, long}}
}

var foreignQueries = []string{"a=b c", "a=\"x\"", "?", "??", "a=é", "a=%zz"}

func imin(a, b int) int {
	if a < b {
		return a
	}
	return b
}

// roots of the history scenarios: exactly the segment kinds of the context grammar, so that a context ending in one of them
// ends in the name of a root resource the same client also serves
var histRoots = []string{"coll", "collx", "col", "api"}

// key classes in the path of the history / tunnelling scenarios (after "/root")
func keyTails(m *module) []string {
	return []string{"", "/1", "/(a:1,b:'')", "/''", "/" + m.pathEscape("a/b"), "/..", "/a*b!", "/1/sub/2", "/" + m.pathEscape("x y"), "/(k:(x:1,y:List(a,b)),$params:(p:%2E))/sub"}
}

func main() {
	cfg := hx.ParseFlags()
	rep := hx.NewReport("requests are made in HISTORIES on long-lived clients (one *Client per session: real SimpleHostnameResolver / table resolver with one long-lived *url.URL per base / " +
		"fresh *url.URL per request / the client's resolver replaced between requests; QueryTunnellingThreshold rotating over off, 1, 12, 40, 150); every request is checked alone and against a new client. " +
		"base URLs: exhaustive over contexts of 0-3 segments drawn from {root, root-with-suffix, prefix-of-root, other} (root in a non-final position included: " +
		"outside the grammar, model comparison only), x trailing slash x 5 scheme/host combinations, plus contexts with encoded / sub-delim / dot segments, " +
		"plus hand-built and non-grammar bases; resource paths: keys through the real Ror2PathEscape (%XX, '.', '..', '//', ';', '?', '#', every byte class) and complex keys; " +
		"queries: none, empty, with %28, with '+', '?', long; both module generations; three entry points. quick: every base with a rotating 2-element slice of (path, query) " +
		"plus the full product on every 211th base; thorough: 8-element slices (incl. one path per byte value) and the full product on every 29th base. " +
		"histories over SEVERAL root resources {coll, collx, col, api} on one client: every context of 0-2 (thorough 0-3) segments over the same four names x trailing slash, " +
		"each root first once, the others in seeded order, the first again (bases ending or not in the name of a root resource the client serves; same base / one base per root / fresh base). " +
		"tunnelling: every resource path x every non-empty query x thresholds {len-1, len, 1} and {-1, 0, len+1, huge} on a subset. " +
		"non-trivial = inside the grammar AND the context has >= 1 segment AND the resource path has a key; distinct by all inputs")
	header := "From Coq Require Import List ZArith. Import ListNotations.\nFrom Coq.Strings Require Import Byte.\nFrom GR Require Import Base.Bytes Http.UrlModel Http.Url Corr.C15Corr.\n"
	sh := hx.NewShards(cfg.Out, header, "C15Corr", 400)

	if cfg.Replay != "" {
		b, err := os.ReadFile(cfg.Replay)
		if err != nil {
			panic(err)
		}
		var rp struct {
			Case caseDesc `json:"case"`
		}
		if err := json.Unmarshal(b, &rp); err != nil {
			panic(err)
		}
		for i := range modules {
			if modules[i].name == rp.Case.Module {
				// the whole history on one client, then the request itself
				s := newSession(&modules[i], alphabetsOf(&modules[i]), rp.Case.Resolver, rp.Case.Threshold)
				for _, h := range rp.Case.History {
					s.run(h, rep, sh)
				}
				s.run(rp.Case.ReqIn, rep, sh)
			}
		}
		sh.Close()
		rep.Shards = sh.Files
		rep.Write(cfg.Out)
		return
	}

	r := hx.NewRand(cfg.Seed)
	kinds := []string{}
	for _, k := range segKinds {
		kinds = append(kinds, k.seg)
	}
	ctxs := contexts(3, kinds)
	n := 0
	thresholds := []int{0, 0, 12, 0, 1, 0, 40, 0, 150}
	const sessionLen = 6 // requests per client in the sweeps (the history of a case is listed in its description)
	for mi := range modules {
		m := &modules[mi]
		a := alphabetsOf(m)
		rps := resourcePaths(m, cfg.Thorough())
		qs := queries(m)
		type pq struct {
			rp  string
			has bool
			q   string
		}
		var pairs []pq
		for _, p := range rps {
			for _, q := range qs {
				pairs = append(pairs, pq{p, q.has, q.q})
			}
		}
		rot := 0
		perBase := 2
		if cfg.Thorough() {
			perBase = 8
		}
		nsess := 0
		open := func(resolver string) *session {
			nsess++
			return newSession(m, a, resolver, thresholds[nsess%len(thresholds)])
		}
		// one client per base (a new one every sessionLen requests): the requests to one base form a history
		runBase := func(d ReqIn, full bool) {
			s := open("simple")
			k := 0
			one := func(p pq) {
				if k > 0 && k%sessionLen == 0 {
					s = open("simple")
				}
				k++
				d2 := d
				d2.Root, d2.Rpath, d2.HasQuery, d2.Query, d2.Entry = root, p.rp, p.has, p.q, n%3
				n++
				s.run(d2, rep, sh)
			}
			if full {
				for _, p := range pairs {
					one(p)
				}
				return
			}
			for j := 0; j < perBase; j++ {
				one(pairs[rot%len(pairs)])
				rot += 7 // co-prime with the number of pairs often enough; coverage of all pairs is counted below
			}
		}
		// 1. the grammar
		bi := 0
		fullEvery := 211
		if cfg.Thorough() {
			fullEvery = 29
		}
		for _, hc := range hostCombos {
			for _, segs := range ctxs {
				for _, tr := range []bool{false, true} {
					d := ReqIn{Scheme: hc.scheme, Host: hc.host, Segs: segs, Trailing: tr, Rendered: true, Bp: render(segs, tr)}
					full := bi%fullEvery == 0
					bi++
					runBase(d, full)
				}
			}
		}
		// 2. contexts with encoded / sub-delim / dot segments (still inside the grammar unless root is non-final)
		nx := 100
		if cfg.Thorough() {
			nx = 1500
		}
		all := append(append([]string{}, kinds...), extraSegs...)
		for k := 0; k < nx; k++ {
			ns := r.Intn(5)
			segs := []string{}
			for i := 0; i < ns; i++ {
				segs = append(segs, all[r.Intn(len(all))])
			}
			hc := hostCombos[r.Intn(len(hostCombos))]
			tr := r.Bool()
			runBase(ReqIn{Scheme: hc.scheme, Host: hc.host, Segs: segs, Trailing: tr, Rendered: true, Bp: render(segs, tr)}, false)
		}
		// 3. bases outside the grammar: model comparison only
		for _, bp := range []string{"//", "///", "/a//b", "/a//", "/coll//", "/a b", "/a%2", "/caf\xc3\xa9", "/a/{x}/coll", "/coll/coll", "/coll/x/coll/"} {
			for _, hc := range hostCombos[:3] {
				runBase(ReqIn{Scheme: hc.scheme, Host: hc.host, Bp: bp}, false)
			}
		}
		for _, hb := range []struct{ p, raw string }{{"ctx", ""}, {"ctx/coll", ""}, {"/a b/coll", ""}, {"/a/b", "/a%2Fb"}, {"/a/b", "/a%2fb"}, {"/x", "/y"}, {"*", ""}} {
			for _, hc := range []hostCombo{{"http", "example.com"}, {"", ""}, {"HTTP", "Example.COM"}, {"http", "h:"}} {
				bp := hb.raw
				if bp == "" {
					bp = hb.p
				}
				runBase(ReqIn{Scheme: hc.scheme, Host: hc.host, Bp: bp, HandBuilt: true, HbPath: hb.p, HbRaw: hb.raw}, false)
			}
		}
		// 4. resource paths / queries / roots outside the premise on a few bases: model comparison only (one client per base)
		for _, bp := range [][]string{{}, {"api", "coll"}, {"collx"}} {
			for _, hc := range hostCombos[:3] {
				s := open("simple")
				for _, fp := range foreignPaths {
					if fp == "coll/1" {
						continue // a relative resource path: url.Parse("coll/1") is fine but the model's grammar starts with '/'; kept below with root only
					}
					d := ReqIn{Scheme: hc.scheme, Host: hc.host, Segs: bp, Rendered: true, Bp: render(bp, false), Root: root, Rpath: fp, HasQuery: n%2 == 0 && !strings.Contains(fp, "#"), Query: "a=1", Entry: n % 3}
					n++
					s.run(d, rep, sh)
				}
				for _, fq := range foreignQueries {
					d := ReqIn{Scheme: hc.scheme, Host: hc.host, Segs: bp, Rendered: true, Bp: render(bp, false), Root: root, Rpath: "/coll/1", HasQuery: true, Query: fq, Entry: n % 3}
					n++
					s.run(d, rep, sh)
				}
				s = open("simple")
				for _, rt := range []string{"", "col", "coll/1", "api", "c%6Fll"} {
					d := ReqIn{Scheme: hc.scheme, Host: hc.host, Segs: bp, Rendered: true, Bp: render(bp, true), Root: rt, Rpath: "/coll/1", HasQuery: true, Query: "a=1", Entry: n % 3}
					n++
					s.run(d, rep, sh)
				}
			}
		}
		// 5. histories over several root resources on ONE client.  The context segments are the names of the roots the client
		// serves: every non-empty context ends in (and may hold earlier) the name of a root resource.  Each root is the FIRST
		// request of one session; then the three others in seeded order; then the first again.
		tails := keyTails(m)
		hq := []struct {
			has bool
			q   string
		}{{false, ""}, {true, "a=1"}, {true, ""}, {true, "ids=List(1,2,3)&fields=x"}}
		hctx := contexts(2, kinds)
		if cfg.Thorough() {
			hctx = append(append([][]string{}, ctxs...), [][]string{{"a%2Fb", "coll"}, {"coll;v=1"}, {"COLL"}, {"%63oll"}, {"..", "api"}, {"collcoll"}}...)
		}
		resolvers := []string{"simple", "table", "simple", "fresh", "table", "swap"}
		hi := 0
		for _, segs := range hctx {
			for _, tr := range []bool{false, true} {
				hc := hostCombos[hi%len(hostCombos)]
				base := ReqIn{Scheme: hc.scheme, Host: hc.host, Segs: segs, Trailing: tr, Rendered: true, Bp: render(segs, tr)}
				// the table resolver's other base: the same authority, one more context segment in front and the other trailing-slash choice
				alt := base
				alt.Segs = append([]string{"v2"}, segs...)
				alt.Trailing = !tr
				alt.Bp = render(alt.Segs, alt.Trailing)
				orders := [][]int{}
				for first := range histRoots {
					rest := []int{}
					for j := range histRoots {
						if j != first {
							rest = append(rest, j)
						}
					}
					for j := len(rest) - 1; j > 0; j-- {
						k := r.Intn(j + 1)
						rest[j], rest[k] = rest[k], rest[j]
					}
					orders = append(orders, append(append([]int{first}, rest...), first))
				}
				if cfg.Thorough() {
					for x := 0; x < 2; x++ {
						o := []int{}
						for j := 0; j < 7; j++ {
							o = append(o, r.Intn(len(histRoots)))
						}
						orders = append(orders, o)
					}
				}
				for _, order := range orders {
					res := resolvers[hi%len(resolvers)]
					hi++
					s := open(res)
					for pos, ri := range order {
						rt := histRoots[ri]
						d := base
						if (res == "table" || res == "swap") && hi%2 == 0 && ri%2 == 1 {
							d = alt // this root resource lives behind another base of the same client
						}
						q := hq[(hi+pos)%len(hq)]
						d.Root, d.Rpath, d.HasQuery, d.Query, d.Entry = rt, "/"+rt+tails[(hi+2*pos)%len(tails)], q.has, q.q, n%3
						n++
						s.run(d, rep, sh)
					}
				}
			}
		}
		// 6. tunnelling: every resource path (every key class) x every non-empty query, threshold just below / at the length
		// of the query on a base whose context needs the root stripped, threshold 1 on a bare host; other thresholds on a subset
		tb := []ReqIn{
			{Scheme: "http", Host: "example.com", Segs: []string{"api", "coll"}, Rendered: true, Bp: "/api/coll"},
			{Scheme: "", Host: "localhost", Segs: []string{}, Rendered: true, Bp: ""},
			{Scheme: "https", Host: "h-1.x_y~z:8080", Segs: []string{"collx", "v(1)"}, Trailing: true, Rendered: true, Bp: "/collx/v(1)/"},
		}
		type tcase struct {
			base int
			th   func(l int) int
		}
		sweep := []tcase{{0, func(l int) int { return l - 1 }}, {0, func(l int) int { return l }}, {1, func(int) int { return 1 }}}
		extra := []tcase{{2, func(int) int { return -1 }}, {2, func(l int) int { return l + 1 }}, {2, func(int) int { return 1 << 40 }}, {2, func(l int) int { return l / 2 }}}
		// sessions by (base, threshold): a client has ONE threshold
		tsess := map[string]*session{}
		tcount := map[string]int{}
		trun := func(tc tcase, rp string, q string) {
			th := tc.th(len(q))
			key := fmt.Sprint(tc.base, ":", th)
			if tsess[key] == nil || tcount[key]%sessionLen == 0 {
				tsess[key] = newSession(m, a, []string{"simple", "table", "fresh"}[tc.base], th)
			}
			tcount[key]++
			d := tb[tc.base]
			d.Root, d.Rpath, d.HasQuery, d.Query, d.Entry = root, rp, true, q, n%3
			n++
			tsess[key].run(d, rep, sh)
		}
		trps := resourcePaths(m, false)
		for _, t := range tails[1:] {
			trps = append(trps, "/"+root+t)
		}
		for pi, rp := range trps {
			for qi, q := range qs {
				if !q.has || q.q == "" {
					continue
				}
				for _, tc := range sweep {
					trun(tc, rp, q.q)
				}
				if cfg.Thorough() || (pi+qi)%6 == 0 {
					for _, tc := range extra {
						trun(tc, rp, q.q)
					}
				}
			}
		}
		rep.Extra["pairs_"+m.name] = len(pairs)
	}
	rep.Exhaustive = false
	sh.Close()
	rep.Shards = sh.Files
	rep.Write(cfg.Out)
}
