// C15 driver: request URL construction.  For every base URL of the context-path grammar x encoded resource paths x
// queries it asks the REAL client code (restli.NewGetRequest / NewDeleteRequest / NewJsonRequest with a
// SimpleHostnameResolver, both module generations) for the *http.Request and records its URL; it evaluates the
// property's own predicate on the implementation (scheme and host kept, escaped path = context + resource path with the
// root segment once at the junction, path and query byte-identical to the encoders' output) and writes the cases for the
// Coq model (Corr/C15Corr.v).
package main

import (
	"context"
	"encoding/json"
	"fmt"
	"net/http"
	"net/url"
	"os"
	"strings"

	rootrestli "github.com/PapaCharlie/go-restli/restli"
	rootcodec "github.com/PapaCharlie/go-restli/restlicodec"
	v2restli "github.com/PapaCharlie/go-restli/v2/restli"
	v2codec "github.com/PapaCharlie/go-restli/v2/restlicodec"
	"verif/harness/hx"
)

// ---- the two module generations behind one interface

type rpV2 struct{ root, path string }

func (r rpV2) RootResource() string           { return r.root }
func (r rpV2) ResourcePath() (string, error) { return r.path, nil }

type emptyRecordV2 struct{}

func (emptyRecordV2) MarshalRestLi(w v2codec.Writer) error {
	return w.WriteMap(func(func(string) v2codec.Writer) error { return nil })
}

type emptyRecordRoot struct{}

func (emptyRecordRoot) MarshalRestLi(w rootcodec.Writer) error {
	return w.WriteMap(func(func(string) rootcodec.Writer) error { return nil })
}

type module struct {
	name       string
	v2         bool
	request    func(base *url.URL, root, rpath string, hasQuery bool, query string, entry int) (*http.Request, error)
	pathEscape func(string) string
	qEscape    func(string) string
}

var modules = []module{
	{"v2", true, func(base *url.URL, root, rpath string, hasQuery bool, query string, entry int) (*http.Request, error) {
		c := &v2restli.Client{Client: http.DefaultClient, HostnameResolver: &v2restli.SimpleHostnameResolver{Hostname: base}}
		var q v2restli.QueryParamsEncoder
		if hasQuery {
			q = v2restli.QueryParamsString(query)
		}
		rp := rpV2{root, rpath}
		switch entry {
		case 1:
			return v2restli.NewDeleteRequest(c, context.Background(), rp, q, v2restli.Method_delete)
		case 2:
			return v2restli.NewJsonRequest(c, context.Background(), rp, q, http.MethodPut, v2restli.Method_update, emptyRecordV2{}, nil)
		}
		return v2restli.NewGetRequest(c, context.Background(), rp, q, v2restli.Method_get)
	}, v2codec.Ror2PathEscape, v2codec.Ror2QueryEscape},
	{"root", false, func(base *url.URL, root, rpath string, hasQuery bool, query string, entry int) (*http.Request, error) {
		c := &rootrestli.Client{Client: http.DefaultClient, HostnameResolver: &rootrestli.SimpleHostnameResolver{Hostname: base}}
		var q rootrestli.QueryParamsEncoder
		if hasQuery {
			q = rootrestli.QueryParamsString(query)
		}
		rp := rpV2{root, rpath}
		switch entry {
		case 1:
			return rootrestli.NewDeleteRequest(c, context.Background(), rp, q, rootrestli.Method_delete)
		case 2:
			return rootrestli.NewJsonRequest(c, context.Background(), rp, q, http.MethodPut, rootrestli.Method_update, emptyRecordRoot{}, nil)
		}
		return rootrestli.NewGetRequest(c, context.Background(), rp, q, rootrestli.Method_get)
	}, rootcodec.Ror2PathEscape, rootcodec.Ror2QueryEscape},
}

// ---- the case

type caseDesc struct {
	Module    string   `json:"module"`
	Scheme    string   `json:"scheme"`
	Host      string   `json:"host"`
	Bp        string   `json:"bp"`                // escaped context path text
	Segs      []string `json:"segs,omitempty"`    // how Bp was rendered (grammar renderer)
	Rendered  bool     `json:"rendered"`          // Bp == render(Segs, Trailing)
	Trailing  bool     `json:"trailing"`
	HandBuilt bool     `json:"hand_built"`        // base is &url.URL{Scheme,Host,Path:HbPath,RawPath:HbRaw} instead of url.Parse
	HbPath    string   `json:"hb_path,omitempty"`
	HbRaw     string   `json:"hb_raw,omitempty"`
	Root      string   `json:"root"`
	Rpath     string   `json:"rpath"`
	HasQuery  bool     `json:"has_query"`
	Query     string   `json:"query"`
	Entry     int      `json:"entry"` // 0 NewGetRequest, 1 NewDeleteRequest, 2 NewJsonRequest(PUT)
	// results
	InGrammar bool   `json:"in_grammar"`
	CtxSpec   string `json:"ctx_spec"`
	Ok        bool   `json:"ok"`
	String    string `json:"string,omitempty"`
	EPath     string `json:"escaped_path,omitempty"`
	RawQuery  string `json:"raw_query,omitempty"`
	OScheme   string `json:"o_scheme,omitempty"`
	OHost     string `json:"o_host,omitempty"`
	OPath     string `json:"o_path,omitempty"`
	Force     bool   `json:"force_query,omitempty"`
}

// ---- the oracle's own predicates (independent of the code under test)

func isLower(c byte) bool { return 'a' <= c && c <= 'z' }
func isDigit(c byte) bool { return '0' <= c && c <= '9' }
func isAlnum(c byte) bool { return isLower(c) || 'A' <= c && c <= 'Z' || isDigit(c) }
func isHex(c byte) bool   { return isDigit(c) || 'a' <= c && c <= 'f' || 'A' <= c && c <= 'F' }

// RFC 3986 pchar without pct-encoded, plus '/', '[' and ']' (what Go's validEncoded lets through)
func pathByteOk(c byte) bool {
	return isAlnum(c) || strings.IndexByte("-_.~$&+,/:;=@!'()*[]%", c) >= 0
}
func pctOk(s string) bool {
	for i := 0; i < len(s); i++ {
		if s[i] == '%' {
			if i+2 >= len(s) || !isHex(s[i+1]) || !isHex(s[i+2]) {
				return false
			}
			i += 2
		}
	}
	return true
}
func allBytes(s string, f func(byte) bool) bool {
	for i := 0; i < len(s); i++ {
		if !f(s[i]) {
			return false
		}
	}
	return true
}
func segOk(s string) bool {
	return s != "" && allBytes(s, pathByteOk) && !strings.Contains(s, "/") && pctOk(s)
}
func schemeOk(s string) bool {
	if s == "" {
		return true
	}
	return isLower(s[0]) && allBytes(s[1:], func(c byte) bool { return isLower(c) || isDigit(c) || c == '+' || c == '-' || c == '.' })
}
func hostOk(h string) bool {
	name, port, hasPort := strings.Cut(h, ":")
	if name == "" || !allBytes(name, func(c byte) bool { return isAlnum(c) || strings.IndexByte("-_.~", c) >= 0 }) {
		return false
	}
	return !hasPort || (port != "" && allBytes(port, isDigit))
}
func render(segs []string, trailing bool) string {
	var sb strings.Builder
	for _, s := range segs {
		sb.WriteByte('/')
		sb.WriteString(s)
	}
	if trailing {
		sb.WriteByte('/')
	}
	return sb.String()
}

// the specification of the context: drop one trailing slash, cut at the last segment equal to root
func ctxSpec(bp, root string) string {
	p := strings.TrimSuffix(bp, "/") // TrimSuffix removes at most one occurrence
	l := strings.Split(p, "/")
	for i := len(l) - 1; i >= 0; i-- {
		if l[i] == root {
			l = l[:i]
			break
		}
	}
	return strings.Join(l, "/")
}

type alphabets struct{ path, query [256]bool }

func alphabetsOf(m *module) *alphabets {
	a := &alphabets{}
	for b := 0; b < 256; b++ {
		s := string([]byte{byte(b)})
		a.path[b] = m.pathEscape(s) == s
		a.query[b] = m.qEscape(s) == s
	}
	for _, c := range []byte("(),:'/%") {
		a.path[c] = true
	}
	for _, c := range []byte("(),:'&=%") {
		a.query[c] = true
	}
	return a
}

func inGrammar(a *alphabets, d *caseDesc) bool {
	if !d.Rendered || d.HandBuilt {
		return false
	}
	if !schemeOk(d.Scheme) || !(d.Host == "" || hostOk(d.Host)) {
		return false
	}
	for i, s := range d.Segs {
		if !segOk(s) || (s == d.Root && i != len(d.Segs)-1) {
			return false
		}
	}
	if d.Root == "" || strings.Contains(d.Root, "/") {
		return false
	}
	// encoded path: "/root" then nothing or "/..."; encoder alphabet; well-formed %XX
	if !strings.HasPrefix(d.Rpath, "/"+d.Root) {
		return false
	}
	if rest := d.Rpath[len(d.Root)+1:]; rest != "" && rest[0] != '/' {
		return false
	}
	if !allBytes(d.Rpath, func(c byte) bool { return a.path[c] }) || !pctOk(d.Rpath) {
		return false
	}
	if d.HasQuery && !allBytes(d.Query, func(c byte) bool { return a.query[c] }) {
		return false
	}
	return true
}

const site = "restli/http.go:formatQueryUrl"

func coqOptBytes(present bool, s string) string { return hx.CoqOpt(present, hx.CoqBytes(s)) }

func coqURL(u *url.URL) string {
	return fmt.Sprintf("{| u_scheme := %s; u_host := %s; u_path := %s; u_rawpath := %s; u_forcequery := %s; u_rawquery := %s; u_omithost := %s |}",
		hx.CoqBytes(u.Scheme), hx.CoqBytes(u.Host), hx.CoqBytes(u.Path), hx.CoqBytes(u.RawPath), hx.CoqBool(u.ForceQuery),
		hx.CoqBytes(u.RawQuery), hx.CoqBool(u.OmitHost))
}

func baseText(d *caseDesc) string {
	t := ""
	if d.Scheme != "" {
		t += d.Scheme + ":"
	}
	if d.Scheme != "" || d.Host != "" {
		t += "//" + d.Host
	}
	return t + d.Bp
}

func runCase(m *module, a *alphabets, d caseDesc, rep *hx.Report, sh *hx.Shards) {
	d.Module = m.name
	var base *url.URL
	if d.HandBuilt {
		base = &url.URL{Scheme: d.Scheme, Host: d.Host, Path: d.HbPath, RawPath: d.HbRaw}
	} else {
		var err error
		base, err = url.Parse(baseText(&d))
		if err != nil || base.User != nil || base.Opaque != "" || base.Fragment != "" || base.RawQuery != "" {
			rep.Count("skipped:base-not-parseable")
			return
		}
		if base.Scheme != d.Scheme || base.Host != d.Host || (d.Scheme == "" && d.Host == "" && strings.HasPrefix(d.Bp, "//") && !strings.HasPrefix(d.Bp, "///")) {
			rep.Count("skipped:base-parsed-differently")
			return
		}
	}
	before := *base
	d.InGrammar = inGrammar(a, &d)
	d.CtxSpec = ctxSpec(d.Bp, d.Root)

	var req *http.Request
	var err error
	panicked := false
	func() {
		defer func() {
			if r := recover(); r != nil {
				panicked = true
			}
		}()
		req, err = m.request(base, d.Root, d.Rpath, d.HasQuery, d.Query, d.Entry)
	}()
	rep.Evaluations++
	if panicked {
		rep.Fail("panic", "building the request panicked", site, d, nil)
		return
	}
	if *base != before {
		rep.Fail("resolver-url-mutated", "the *url.URL returned by the hostname resolver was modified", site, d, nil)
	}
	d.Ok = err == nil
	if err == nil {
		u := req.URL
		d.String, d.EPath, d.RawQuery, d.OScheme, d.OHost, d.OPath, d.Force = u.String(), u.EscapedPath(), u.RawQuery, u.Scheme, u.Host, u.Path, u.ForceQuery
	}

	// ---- the property's own predicate, evaluated on the implementation
	if d.InGrammar {
		want := d.CtxSpec + d.Rpath
		wantString := ""
		if d.Scheme != "" {
			wantString += d.Scheme + ":"
		}
		if d.Scheme != "" || d.Host != "" {
			wantString += "//" + d.Host
		}
		wantString += want
		if d.HasQuery {
			wantString += "?" + d.Query
		}
		switch {
		case err != nil:
			rep.Fail("error", "a request for a base URL / resource path of the grammar could not be built", site, d, nil)
		default:
			if d.OScheme != d.Scheme {
				rep.Fail("scheme-changed", "the request URL does not keep the resolver's scheme", site, d, d.String)
			}
			if d.OHost != d.Host {
				rep.Fail("host-changed", "the request URL does not keep the resolver's host", site, d, d.String)
			}
			if d.EPath != want {
				sig, what := "path-wrong", "the escaped path is not context + resource path"
				switch {
				case strings.HasSuffix(d.EPath, d.Rpath) && strings.HasSuffix(strings.TrimSuffix(d.EPath, d.Rpath), "/"+d.Root):
					sig, what = "root-duplicated", "the root resource segment appears twice at the junction"
				case strings.HasSuffix(d.EPath, d.Rpath):
					sig, what = "context-wrong", "the context path is not the resolver's context path with the trailing root segment removed"
				case strings.HasPrefix(d.EPath, d.CtxSpec) && len(d.EPath) > len(want):
					sig, what = "path-reencoded", "the encoded resource path was encoded again on its way to the wire"
				case strings.HasPrefix(d.EPath, d.CtxSpec) && len(d.EPath) < len(want):
					sig, what = "path-normalised", "the encoded resource path was decoded or normalised (dot segments, slashes) on its way to the wire"
				}
				rep.Fail(sig, what, site, d, d.EPath)
			}
			if d.RawQuery != d.Query && d.HasQuery {
				sig := "query-changed"
				if d.RawQuery == "" {
					sig = "query-lost"
				}
				rep.Fail(sig, "the encoded query does not reach the wire byte for byte", site, d, d.RawQuery)
			}
			if !d.HasQuery && (d.RawQuery != "" || d.Force) {
				rep.Fail("query-invented", "a request without query parameters got a query", site, d, d.RawQuery)
			}
			if d.String != wantString && d.OScheme == d.Scheme && d.OHost == d.Host && d.EPath == want && (d.RawQuery == d.Query || !d.HasQuery) {
				rep.Fail("string-wrong", "URL.String() is not scheme://host + context + path + ?query", site, d, d.String)
			}
			// root exactly once at the junction: no complete root segment in the context that was kept
			for _, s := range strings.Split(d.CtxSpec, "/") {
				if s == d.Root {
					rep.Fail("oracle-bug", "the specified context still holds the root segment", site, d, nil)
				}
			}
		}
	}

	// ---- distribution
	rep.Count("module=" + m.name)
	rep.Count(fmt.Sprintf("in_grammar=%v", d.InGrammar))
	rep.Count(fmt.Sprintf("ok=%v", d.Ok))
	rep.Count(fmt.Sprintf("ctx_segments=%d", len(d.Segs)))
	rep.Count(fmt.Sprintf("trailing_slash=%v", d.Trailing))
	rep.Count(fmt.Sprintf("scheme=%v,host=%v", d.Scheme != "", d.Host != ""))
	rep.Count(fmt.Sprintf("entry=%d", d.Entry))
	switch {
	case !d.HasQuery:
		rep.Count("query=none")
	case d.Query == "":
		rep.Count("query=empty")
	case len(d.Query) > 80:
		rep.Count("query=long")
	default:
		rep.Count("query=short")
	}
	if strings.Contains(d.Rpath, "%") {
		rep.Count("rpath:has-pct")
	}
	if strings.Contains(d.Rpath, "/.") {
		rep.Count("rpath:dot-segment-like")
	}
	if d.Bp != d.CtxSpec && strings.TrimSuffix(d.Bp, "/") != d.CtxSpec {
		rep.Count("ctx:root-stripped")
	}
	if d.HandBuilt {
		rep.Count("base:hand-built")
	}
	key, _ := json.Marshal([]interface{}{m.name, d.Scheme, d.Host, d.Bp, d.HandBuilt, d.HbPath, d.HbRaw, d.Root, d.Rpath, d.HasQuery, d.Query})
	nontrivial := d.InGrammar && len(d.Segs) > 0 && len(d.Rpath) > len(d.Root)+1
	rep.Distinct(string(key), nontrivial)
	if nontrivial && d.HasQuery && strings.Contains(d.Rpath, "%") && d.Bp != d.CtxSpec {
		rep.Sample(d)
	}

	// ---- model case
	segs := "None"
	if d.Rendered {
		segs = "(Some (" + hx.CoqBytesList(d.Segs) + ", " + hx.CoqBool(d.Trailing) + "))"
	}
	obs := fmt.Sprintf("{| o_ok := %s; o_string := %s; o_epath := %s; o_rawquery := %s; o_scheme := %s; o_host := %s; o_path := %s; o_force := %s |}",
		hx.CoqBool(d.Ok), hx.CoqBytes(d.String), hx.CoqBytes(d.EPath), hx.CoqBytes(d.RawQuery), hx.CoqBytes(d.OScheme), hx.CoqBytes(d.OHost),
		hx.CoqBytes(d.OPath), hx.CoqBool(d.Force))
	sh.Add(fmt.Sprintf("{| c_v2 := %s; c_base := %s; c_parsed := %s; c_bp := %s; c_segs := %s; c_root := %s; c_rpath := %s; c_query := %s; c_in_grammar := %s; c_ctx_spec := %s; c_obs := %s |}",
		hx.CoqBool(m.v2), coqURL(&before), hx.CoqBool(!d.HandBuilt), hx.CoqBytes(d.Bp), segs, hx.CoqBytes(d.Root), hx.CoqBytes(d.Rpath),
		coqOptBytes(d.HasQuery, d.Query), hx.CoqBool(d.InGrammar), hx.CoqBytes(d.CtxSpec), obs), d)
}

// ---- generators

const root = "coll"

type hostCombo struct{ scheme, host string }

var hostCombos = []hostCombo{{"http", "example.com"}, {"https", "h-1.x_y~z:8080"}, {"", ""}, {"", "localhost"}, {"s3+x.y-z", ""}}

// segment kinds of the property's grammar (relative to the root name "coll")
var segKinds = []struct{ name, seg string }{{"root", "coll"}, {"root-with-suffix", "collx"}, {"prefix-of-root", "col"}, {"other", "api"}}

// further segments (thorough tier / random): encoded bytes, sub-delims, dots
var extraSegs = []string{"a%2Fb", "v(1)", ".", "..", "coll%2F", "%63oll", "coll;v=1", "COLL", "c", "collcoll", "a:b@c", "!$&'()*+,;=~_-"}

func contexts(maxSegs int, kinds []string) [][]string {
	out := [][]string{{}}
	var rec func(acc []string)
	rec = func(acc []string) {
		if len(acc) >= maxSegs {
			return
		}
		for _, k := range kinds {
			n := append(append([]string{}, acc...), k)
			out = append(out, n)
			rec(n)
		}
	}
	rec(nil)
	return out
}

func resourcePaths(m *module, thorough bool) []string {
	keys := []string{"1", "abc", ".", "..", "...", "a/b", "//", ";", "?", "#", "%", "%2E", "a b", "é", "a+b", "a&b=c", "coll", "x:y", "(a)", "a,b", "'",
		"!$&*+-.0123456789=@ABCXYZ_abcxyz~", "\x00\x1f\x7f\xff", "[]{}|\\^`\"<>"}
	var out []string
	out = append(out, "/"+root)
	for _, k := range keys {
		out = append(out, "/"+root+"/"+m.pathEscape(k))
	}
	out = append(out,
		"/"+root+"/''",                       // the empty string as a ROR2 key
		"/"+root+"/(a:1,b:'')",               // complex keys
		"/"+root+"/(k:(x:1,y:List(a,b)),$params:(p:%2E))",
		"/"+root+"/1/sub/2",
		"/"+root+"/./sub",
		"/"+root+"/../sub/..",
		"/"+root+"/..//..",
		"/"+root+"//sub",
		"/"+root+"/1/",
		"/"+root+"/%252E%252E",
		"/"+root+"/a%2F..%2Fb/"+root+"/"+root,
		"/"+root+"/%2e%2E/%2f",
	)
	if thorough {
		for b := 0; b < 256; b++ {
			out = append(out, "/"+root+"/"+m.pathEscape(string([]byte{byte(b)})))
		}
	}
	return out
}

// resource paths outside the premise (not encoder output): correspondence only
var foreignPaths = []string{"/coll/a b", "/coll/{x}", "/coll/%zz", "/coll/%2", "/coll/a?b", "/coll?", "/collx/1", "/other/1", "/coll/\"q\"", "/coll/\xc3\xa9",
	"/coll/a\x01b", "//coll/1", "/coll#", "/coll/*", "coll/1", "/col"}

func queries(m *module) []struct {
	has bool
	q   string
} {
	long := "fields=" + strings.Repeat("abcdefghij,", 6) + "z&ids=List(" + strings.Repeat("(a:1,b:"+m.qEscape("x y")+"),", 4) + "(a:2,b:''))"
	return []struct {
		has bool
		q   string
	}{{false, ""}, {true, ""}, {true, "q=" + m.qEscape("(a)") + "&x=%28"}, {true, "a=" + m.qEscape("1+1") + "&b=2+2&c=a?b/c;d"}, {true, long}}
}

var foreignQueries = []string{"a=b c", "a=\"x\"", "?", "??", "a=é", "a=%zz"}

func main() {
	cfg := hx.ParseFlags()
	rep := hx.NewReport("base URLs: exhaustive over contexts of 0-3 segments drawn from {root, root-with-suffix, prefix-of-root, other} (root in a non-final position included: " +
		"outside the grammar, model comparison only), x trailing slash x 5 scheme/host combinations, plus contexts with encoded / sub-delim / dot segments, " +
		"plus hand-built and non-grammar bases; resource paths: keys through the real Ror2PathEscape (%XX, '.', '..', '//', ';', '?', '#', every byte class) and complex keys; " +
		"queries: none, empty, with %28, with '+', '?', long; both module generations; three entry points. quick: every base with a rotating 2-element slice of (path, query) " +
		"plus the full product on every 211th base; thorough: 8-element slices (incl. one path per byte value) and the full product on every 29th base. non-trivial = inside the grammar AND the context has >= 1 segment AND the resource path has a key; " +
		"distinct by all inputs")
	header := "From Coq Require Import List. Import ListNotations.\nFrom Coq.Strings Require Import Byte.\nFrom GR Require Import Base.Bytes Http.UrlModel Http.Url Corr.C15Corr.\n"
	sh := hx.NewShards(cfg.Out, header, "C15Corr", 400)

	if cfg.Replay != "" {
		b, err := os.ReadFile(cfg.Replay)
		if err != nil {
			panic(err)
		}
		var rp struct {
			Case caseDesc `json:"case"`
		}
		if err := json.Unmarshal(b, &rp); err != nil {
			panic(err)
		}
		for i := range modules {
			if modules[i].name == rp.Case.Module {
				runCase(&modules[i], alphabetsOf(&modules[i]), rp.Case, rep, sh)
			}
		}
		sh.Close()
		rep.Shards = sh.Files
		rep.Write(cfg.Out)
		return
	}

	r := hx.NewRand(cfg.Seed)
	kinds := []string{}
	for _, k := range segKinds {
		kinds = append(kinds, k.seg)
	}
	ctxs := contexts(3, kinds)
	n := 0
	for mi := range modules {
		m := &modules[mi]
		a := alphabetsOf(m)
		rps := resourcePaths(m, cfg.Thorough())
		qs := queries(m)
		type pq struct {
			rp  string
			has bool
			q   string
		}
		var pairs []pq
		for _, p := range rps {
			for _, q := range qs {
				pairs = append(pairs, pq{p, q.has, q.q})
			}
		}
		rot := 0
		perBase := 2
		if cfg.Thorough() {
			perBase = 8
		}
		runBase := func(d caseDesc, full bool) {
			if full {
				for _, p := range pairs {
					d2 := d
					d2.Root, d2.Rpath, d2.HasQuery, d2.Query, d2.Entry = root, p.rp, p.has, p.q, n%3
					n++
					runCase(m, a, d2, rep, sh)
				}
				return
			}
			for k := 0; k < perBase; k++ {
				p := pairs[rot%len(pairs)]
				rot += 7 // co-prime with the number of pairs often enough; coverage of all pairs is counted below
				d2 := d
				d2.Root, d2.Rpath, d2.HasQuery, d2.Query, d2.Entry = root, p.rp, p.has, p.q, n%3
				n++
				runCase(m, a, d2, rep, sh)
			}
		}
		// 1. the grammar
		bi := 0
		fullEvery := 211
		if cfg.Thorough() {
			fullEvery = 29
		}
		for _, hc := range hostCombos {
			for _, segs := range ctxs {
				for _, tr := range []bool{false, true} {
					d := caseDesc{Scheme: hc.scheme, Host: hc.host, Segs: segs, Trailing: tr, Rendered: true, Bp: render(segs, tr)}
					full := bi%fullEvery == 0
					bi++
					runBase(d, full)
				}
			}
		}
		// 2. contexts with encoded / sub-delim / dot segments (still inside the grammar unless root is non-final)
		nx := 100
		if cfg.Thorough() {
			nx = 1500
		}
		all := append(append([]string{}, kinds...), extraSegs...)
		for k := 0; k < nx; k++ {
			ns := r.Intn(5)
			segs := []string{}
			for i := 0; i < ns; i++ {
				segs = append(segs, all[r.Intn(len(all))])
			}
			hc := hostCombos[r.Intn(len(hostCombos))]
			tr := r.Bool()
			runBase(caseDesc{Scheme: hc.scheme, Host: hc.host, Segs: segs, Trailing: tr, Rendered: true, Bp: render(segs, tr)}, false)
		}
		// 3. bases outside the grammar: model comparison only
		for _, bp := range []string{"//", "///", "/a//b", "/a//", "/coll//", "/a b", "/a%2", "/caf\xc3\xa9", "/a/{x}/coll", "/coll/coll", "/coll/x/coll/"} {
			for _, hc := range hostCombos[:3] {
				runBase(caseDesc{Scheme: hc.scheme, Host: hc.host, Bp: bp}, false)
			}
		}
		for _, hb := range []struct{ p, raw string }{{"ctx", ""}, {"ctx/coll", ""}, {"/a b/coll", ""}, {"/a/b", "/a%2Fb"}, {"/a/b", "/a%2fb"}, {"/x", "/y"}, {"*", ""}} {
			for _, hc := range []hostCombo{{"http", "example.com"}, {"", ""}, {"HTTP", "Example.COM"}, {"http", "h:"}} {
				bp := hb.raw
				if bp == "" {
					bp = hb.p
				}
				runBase(caseDesc{Scheme: hc.scheme, Host: hc.host, Bp: bp, HandBuilt: true, HbPath: hb.p, HbRaw: hb.raw}, false)
			}
		}
		// 4. resource paths / queries / roots outside the premise on a few bases: model comparison only
		for _, bp := range [][]string{{}, {"api", "coll"}, {"collx"}} {
			for _, hc := range hostCombos[:3] {
				for _, fp := range foreignPaths {
					if fp == "coll/1" {
						continue // a relative resource path: url.Parse("coll/1") is fine but the model's grammar starts with '/'; kept below with root only
					}
					d := caseDesc{Scheme: hc.scheme, Host: hc.host, Segs: bp, Rendered: true, Bp: render(bp, false), Root: root, Rpath: fp, HasQuery: n%2 == 0 && !strings.Contains(fp, "#"), Query: "a=1", Entry: n % 3}
					n++
					runCase(m, a, d, rep, sh)
				}
				for _, fq := range foreignQueries {
					d := caseDesc{Scheme: hc.scheme, Host: hc.host, Segs: bp, Rendered: true, Bp: render(bp, false), Root: root, Rpath: "/coll/1", HasQuery: true, Query: fq, Entry: n % 3}
					n++
					runCase(m, a, d, rep, sh)
				}
				for _, rt := range []string{"", "col", "coll/1", "api", "c%6Fll"} {
					d := caseDesc{Scheme: hc.scheme, Host: hc.host, Segs: bp, Rendered: true, Bp: render(bp, true), Root: rt, Rpath: "/coll/1", HasQuery: true, Query: "a=1", Entry: n % 3}
					n++
					runCase(m, a, d, rep, sh)
				}
			}
		}
		rep.Extra["pairs_"+m.name] = len(pairs)
	}
	rep.Exhaustive = false
	sh.Close()
	rep.Shards = sh.Files
	rep.Write(cfg.Out)
}
