package main

import (
	_ "unsafe" // for go:linkname

	d2 "github.com/PapaCharlie/go-restli/d2"
)

// Doors onto the UNEXPORTED event loops of github.com/PapaCharlie/go-restli/d2 (client.go: waitForUriUpdates,
// waitForServiceUpdates).  go:linkname binds these body-less declarations to the real methods, so the harness runs the
// loops of the tree under test themselves - not a re-implementation and not a hook - with a channel of its own: it can
// therefore decide which events are already waiting when the loop runs again (bursts), which no route through the
// exported API allows (the loops' channels are created inside getServiceUris and fed by the tree cache over a live
// ZooKeeper connection).  If a loop is renamed or its signature changes, the driver no longer links and the check reports
// a broken correspondence.
//
//go:linkname rootWaitForUriUpdates github.com/PapaCharlie/go-restli/d2.(*Client).waitForUriUpdates
func rootWaitForUriUpdates(c *d2.Client, clusterName string, events chan d2.TreeCacheEvent)

//go:linkname rootWaitForServiceUpdates github.com/PapaCharlie/go-restli/d2.(*Client).waitForServiceUpdates
func rootWaitForServiceUpdates(c *d2.Client, serviceName string, events chan d2.TreeCacheEvent)

// rootFeed hands the events to a loop through a channel the way [mode] says and runs the loop in the calling goroutine
// until the channel is closed:
//
//	buffered: every event of the burst is already waiting in the channel before the loop starts (deterministic burst)
//	producer: an unbuffered channel and one producer goroutine sending back to back, as the tree cache does
func rootFeed(evs []rawEv, mode string, loop func(chan d2.TreeCacheEvent)) {
	switch mode {
	case "producer":
		ch := make(chan d2.TreeCacheEvent)
		go func() {
			for _, e := range evs {
				ch <- d2.TreeCacheEvent{Path: e.path, Data: e.data}
			}
			close(ch)
		}()
		loop(ch)
	default:
		ch := make(chan d2.TreeCacheEvent, len(evs))
		for _, e := range evs {
			ch <- d2.TreeCacheEvent{Path: e.path, Data: e.data}
		}
		close(ch)
		loop(ch)
	}
}
