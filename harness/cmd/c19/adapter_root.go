package main

import (
	"encoding/json"
	"math/rand"
	"net/url"

	d2 "github.com/PapaCharlie/go-restli/d2"
)

// adapter onto the verif-tagged exports of github.com/PapaCharlie/go-restli/d2 (root module)
func moduleRoot() *module {
	inspect := func(w interface{}) snap {
		out := snap{}
		for k, ws := range w.(*d2.ServiceUris).Inspect() {
			hm := map[string]float64{}
			for u, x := range ws {
				hm[u.String()] = x
			}
			out[k] = hm
		}
		return out
	}
	svc := func(s *d2.Service) *svcView {
		if s == nil {
			return nil
		}
		return &svcView{Cluster: s.ClusterName, Schemes: append([]string{}, s.PrioritizedSchemes...)}
	}
	return &module{
		name: "root", site: "d2",
		newWatcher: func(zk string) interface{} { return d2.NewServiceUris(zk, map[string]*d2.Uri{}) },
		handle: func(w interface{}, path string, data *[]byte) interface{} {
			return new(d2.Client).HandleUriUpdate(w.(*d2.ServiceUris), d2.TreeCacheEvent{Path: path, Data: data})
		},
		inspect: inspect,
		same:    func(a, b interface{}) bool { return a.(*d2.ServiceUris) == b.(*d2.ServiceUris) },
		choose:  func(w interface{}, schemes []string) *url.URL { return w.(*d2.ServiceUris).ChooseHost(schemes) },
		setRand: func(src rand.Source) func() { return d2.SetRandSource(src) },
		decode: func(data []byte) (map[string]float64, bool) {
			u := new(d2.Uri)
			err := json.Unmarshal(data, u)
			left := map[string]float64{}
			for h, w := range u.Weights {
				left[h.String()] = w
			}
			return left, err == nil
		},
		urisPath:     d2.UrisPath,
		servicesPath: d2.ServicesPath,
		handleService: func(name, path string, data *[]byte) *svcView {
			return svc(new(d2.Client).HandleServiceUpdate(name, d2.TreeCacheEvent{Path: path, Data: data}))
		},
		newClient: func(cluster string) *client {
			c := d2.NewOfflineClient(nil, map[string]*d2.ServiceUris{cluster: d2.NewServiceUris(d2.UrisPath(cluster), map[string]*d2.Uri{})})
			return &client{
				applyService: func(name, path string, data *[]byte) {
					c.ApplyServiceEvent(name, d2.TreeCacheEvent{Path: path, Data: data})
				},
				applyUri: func(cl, path string, data *[]byte) {
					c.ApplyUriEvent(cl, d2.TreeCacheEvent{Path: path, Data: data})
				},
				currentService: func(name string) *svcView { return svc(c.CurrentService(name)) },
				currentUris: func(cl string) interface{} {
					u := c.CurrentUris(cl)
					if u == nil {
						return nil
					}
					return u
				},
				uriLoop: func(cl string, evs []rawEv, mode string) {
					rootFeed(evs, mode, func(ch chan d2.TreeCacheEvent) { rootWaitForUriUpdates(c, cl, ch) })
				},
				svcLoop: func(name string, evs []rawEv, mode string) {
					rootFeed(evs, mode, func(ch chan d2.TreeCacheEvent) { rootWaitForServiceUpdates(c, name, ch) })
				},
				resolve: func(name string) (*url.URL, error) { return c.ResolveHostnameAndContextForQuery(name, nil) },
			}
		},
	}
}
