// C19 driver: D2 announcement tracking and host selection (both module generations, through the verif-tagged exports).
//
//  1. histories: znode event histories (3 znodes x {add, update, delete, malformed, weight-less}, plus events for the
//     root path and for paths outside the prefix) through the real HandleUriUpdate.  After EVERY event the current
//     snapshot is compared with an independent fold of the history, captured, and ALL previously captured snapshots
//     are re-inspected (they must be unchanged).  Exhaustive by depth-first enumeration (prefixes shared: a published
//     snapshot is reused by all its continuations, which is exactly the situation copy-on-write must survive).
//  2. selection: announcement sets x prioritized scheme lists x draws injected through rand.Source (0, interval
//     boundaries, seeded) through ResolveHostnameAndContextForQuery / ChooseHost on an offline client; the
//     property's predicates are evaluated on the result, and the model decides membership in the set of results
//     possible under some map iteration order.  Frequencies over many real draws are sampled (5 sigma band).
//  3. service definitions through HandleServiceUpdate.
//  4. the event-delivery layer: the REAL loops waitForUriUpdates / waitForServiceUpdates (reached through go:linkname,
//     loop_v2.go / loop_root.go) are fed through a channel of the harness with BURSTS of events - several events already
//     waiting in the channel when the loop runs again - and with a back-to-back producer; the snapshot published once a
//     burst is consumed is compared with the fold over ALL events delivered so far (and by the model: CLoop).
//  5. payloads: every payload text of the event alphabet is given to the real decoder first (json.Unmarshal into d2.Uri):
//     whether it is rejected, and which weights a rejected payload LEAVES in the struct (none for the errors encoding/json
//     raises itself; all of them for an unparsable host key in uriSpecificProperties / partitionDesc) - both are
//     recorded in the event (PMalformed partial) and compared with what the text was built to be.
package main

import (
	"encoding/json"
	"fmt"
	"math"
	"math/rand"
	"net/url"
	"os"
	"sort"
	"strconv"
	"strings"
	"sync"
	"time"

	"verif/harness/hx"
)

// ------------------------------------------------------------------------------------------------ module adapters

type snap = map[string]map[string]float64 // znode key -> host URL -> weight

type svcView struct {
	Cluster string   `json:"cluster"`
	Schemes []string `json:"schemes"`
}

type client struct {
	applyService   func(name, path string, data *[]byte)
	applyUri       func(cluster, path string, data *[]byte)
	currentService func(name string) *svcView
	currentUris    func(cluster string) interface{}
	resolve        func(name string) (*url.URL, error)
	// the real waitForUriUpdates / waitForServiceUpdates fed with these events (mode: buffered | producer); returns when
	// the loop has consumed them all and seen the channel closed
	uriLoop func(cluster string, evs []rawEv, mode string)
	svcLoop func(name string, evs []rawEv, mode string)
}

type rawEv struct {
	path string
	data *[]byte
}

type module struct {
	name, site    string
	newWatcher    func(zk string) interface{}
	handle        func(w interface{}, path string, data *[]byte) interface{}
	inspect       func(w interface{}) snap
	same          func(a, b interface{}) bool
	choose        func(w interface{}, schemes []string) *url.URL
	setRand       func(src rand.Source) func()
	decode        func(data []byte) (left map[string]float64, ok bool) // the real decoder: weights left in the Uri, err == nil
	urisPath      func(string) string
	servicesPath  func(string) string
	handleService func(name, path string, data *[]byte) *svcView
	newClient     func(cluster string) *client
}

// ------------------------------------------------------------------------------------------------ values

// a dyadic rational (exact in float64 and in Q)
type dy struct {
	Num int64 `json:"n"`
	Den int64 `json:"d"` // power of two
}

func dyOf(f float64) dy {
	d := int64(1)
	for f != math.Floor(f) {
		f *= 2
		d *= 2
		if d > 1<<60 {
			panic("not dyadic")
		}
	}
	return dy{int64(f), d}
}
func (q dy) f() float64   { return float64(q.Num) / float64(q.Den) }
func (q dy) coq() string  { return fmt.Sprintf("(Qmake (%d)%%Z %d%%positive)", q.Num, q.Den) }
func (q dy) text() string { return strconv.FormatFloat(q.f(), 'g', -1, 64) }

type hw struct {
	Scheme string `json:"scheme"`
	Rest   string `json:"rest"`
	W      dy     `json:"w"`
}

func (h hw) url() string { return h.Scheme + "://" + h.Rest }

// interned byte strings (defined once in the header of every shard, to keep the case terms small)
var names = map[string]string{}
var nameDefs []string

func intern(name, s string) {
	names[s] = name
	nameDefs = append(nameDefs, "Definition "+name+" : bytes := "+hx.CoqBytes(s)+".")
}
func bs(s string) string {
	if n, ok := names[s]; ok {
		return n
	}
	return hx.CoqBytes(s)
}

func coqAnn(l []hw) string {
	items := make([]string, len(l))
	for i, h := range l {
		items[i] = "(Host " + bs(h.Scheme) + " " + bs(h.Rest) + ", " + h.W.coq() + ")"
	}
	return "[" + strings.Join(items, ";") + "]"
}

func weightsJSON(l []hw, extra string) string {
	items := make([]string, len(l))
	for i, h := range l {
		items[i] = strconv.Quote(h.url()) + ":" + h.W.text()
	}
	return `{"weights":{` + strings.Join(items, ",") + `}` + extra + `}`
}

func annMap(l []hw) map[string]float64 {
	m := map[string]float64{}
	for _, h := range l {
		m[h.url()] = h.W.f()
	}
	return m
}

func snapEqual(a, b snap) bool {
	if len(a) != len(b) {
		return false
	}
	for k, x := range a {
		y, ok := b[k]
		if !ok || len(x) != len(y) {
			return false
		}
		for h, w := range x {
			if w2, ok := y[h]; !ok || w2 != w {
				return false
			}
		}
	}
	return true
}

func snapCopy(a snap) snap {
	out := make(snap, len(a))
	for k, x := range a {
		out[k] = x // inner maps of the expected fold are never mutated (replaced wholesale)
	}
	return out
}

// Coq term of an observed snapshot (keys and hosts sorted)
func coqSnap(s snap) string {
	keys := make([]string, 0, len(s))
	for k := range s {
		keys = append(keys, k)
	}
	sort.Strings(keys)
	items := make([]string, len(keys))
	for i, k := range keys {
		hosts := make([]string, 0, len(s[k]))
		for h := range s[k] {
			hosts = append(hosts, h)
		}
		sort.Strings(hosts)
		hs := make([]string, len(hosts))
		for j, h := range hosts {
			sc, rest := splitURL(h)
			hs[j] = "(Host " + bs(sc) + " " + bs(rest) + ", " + dyOf(s[k][h]).coq() + ")"
		}
		items[i] = "(" + bs(k) + ", [" + strings.Join(hs, ";") + "])"
	}
	return "[" + strings.Join(items, ";") + "]"
}

func splitURL(u string) (string, string) {
	i := strings.Index(u, "://")
	if i < 0 {
		return "", u
	}
	return u[:i], u[i+3:]
}

// ------------------------------------------------------------------------------------------------ histories

type event struct {
	Path    string  `json:"path"`
	Kind    string  `json:"kind"` // add | update | delete | malformed | weightless
	Data    *string `json:"data"` // payload text; null for delete
	Weights []hw    `json:"weights,omitempty"`
	Partial []hw    `json:"partial,omitempty"` // malformed: the weights the failed decoding left in the struct (observed)
}

func (e *event) bytes() *[]byte {
	if e.Data == nil {
		return nil
	}
	b := []byte(*e.Data)
	return &b
}

func (e *event) coq() string {
	p := bs(e.Path)
	switch e.Kind {
	case "add":
		return "Added " + p + " (PDecoded " + coqAnn(e.Weights) + ")"
	case "update":
		return "Updated " + p + " (PDecoded " + coqAnn(e.Weights) + ")"
	case "delete":
		return "Removed " + p
	case "malformed":
		return "Updated " + p + " (PMalformed " + coqAnn(e.Partial) + ")"
	case "weightless":
		return "Updated " + p + " (PDecoded [])"
	}
	panic("kind")
}

// the property's fold, written independently of the implementation: last write per znode wins, deletions remove,
// malformed / weight-less payloads and events for the root path are ignored
func applyExpected(zk string, exp snap, e *event) snap {
	key := strings.TrimPrefix(e.Path, zk)
	if key == "" {
		return exp
	}
	switch e.Kind {
	case "add", "update":
		out := snapCopy(exp)
		out[key] = annMap(e.Weights)
		return out
	case "delete":
		out := snapCopy(exp)
		delete(out, key)
		return out
	}
	return exp
}

const cluster = "C"
const svcName = "svc"

// Payloads the decoder must reject.  "early": encoding/json itself fails, Uri.UnmarshalJSON returns before it touches
// its receiver.  "late": the JSON is fine and the weights are non-empty and valid, but a host key of a LATER section
// (or another key of the weights) does not parse as a URL: UnmarshalJSON has filled u.Weights by then.  The two
// classes alternate in the list (late ones at 1, 3, 7, 9, 13, 15) so that the short exhaustive histories meet both.
var malformedTexts = []string{
	/* 0 early */ `{"weights":{"http://h:80":1}`, // truncated
	/* 1 late  */ `{"weights":{"http://ghost:80":1},"uriSpecificProperties":{"http://bad host:80":{"com.linkedin.app.name":"a"}}}`, // blank in a host name
	/* 2 early */ `not json`,
	/* 3 late  */ `{"weights":{"http://ghost:80":2,"https://ghost:443":1},"partitionDesc":{"http://h:80/%zz":{"0":{"weight":1}}}}`, // bad percent escape
	/* 4 early */ `{"weights":5}`, // wrong type
	/* 5 early */ `{"weights":{"http://[::1":1}}`, // the only weight key does not parse
	/* 6 early */ `{"weights":{"http://h:80":"x"}}`, // weight is not a number
	/* 7 late  */ `{"weights":{"https://ghost:443":1},"partitionDesc":{"http://h:port":{"0":{"weight":1}}}}`, // non-numeric port
	/* 8 early */ `[1,2]`,
	/* 9 late  */ `{"weights":{"http://ghost:80":1,"http://[::1":1}}`, // a bad key next to a good one (what is left depends on map order)
	/* 10 early */ ``, // empty data (not nil)
	/* 11 early */ `{"weights":{"http://h:80":1}} xyz`, // trailing garbage
	/* 12 early */ `{"weights":{"http://h:80":1},"partitionDesc":{"http://h:80":{"x":{"weight":1}}}}`, // partition number is not an int
	/* 13 late  */ `{"weights":{"http://ghost:80":1},"uriSpecificProperties":{":":{}}}`, // missing scheme
	/* 14 early */ `{"weights":{"http://h:80":1},"uriSpecificProperties":7}`,
	/* 15 late  */ "{\"weights\":{\"http://ghost:80\":0.5},\"clusterName\":\"C\",\"uriSpecificProperties\":{\"http://ghost:80\":{\"com.linkedin.app.version\":\"1\"}}," +
		"\"partitionDesc\":{\"http://ghost:80\":{\"0\":{\"weight\":1}},\"http://gh\\u007fost:80\":{\"0\":{\"weight\":1}}}}", // control character in a host
}

// late[i]: malformedTexts[i] was built to fail only after the weights are in place
var malformedLate = map[int]bool{1: true, 3: true, 7: true, 9: true, 13: true, 15: true}

var weightlessTexts = []string{
	`{}`,
	`{"weights":{}}`,
	`{"partitionDesc":{"http://h:80":{"0":{"weight":1}}}}`, // partition-only announcement
	`null`,
	`{"uriSpecificProperties":{"http://h:80":{"com.linkedin.app.name":"a"}},"clusterName":"C"}`,
	`{"weights":null}`,
	`{"weights":{},"uriSpecificProperties":{"http://h:80":{}},"partitionDesc":{"http://h:80":{"1":{"weight":2}}}}`,
}

// sections a well-formed announcement may carry besides its weights
var goodExtras = []string{
	``,
	`,"clusterName":"C"`,
	`,"uriSpecificProperties":{"http://h1:80":{"com.linkedin.app.name":"a","com.linkedin.app.version":"2"}}`,
	`,"partitionDesc":{"http://h1:80":{"0":{"weight":1},"1":{"weight":0.5}}},"clusterName":"C"`,
}

type histGen struct {
	zk    string
	nodes []string
	addA  [][]hw // per node: the "add" announcement
	updB  [][]hw // per node: the "update" announcement
	left  [][]hw // per malformed text: the weights the REAL decoder leaves in the struct when it rejects the text
}

func newHistGen(m *module) *histGen {
	g := &histGen{zk: m.urisPath(cluster)}
	for i := 1; i <= 3; i++ {
		g.nodes = append(g.nodes, fmt.Sprintf("%s/n%d", g.zk, i))
		g.addA = append(g.addA, []hw{{"http", fmt.Sprintf("h%d:80", i), dy{1, 1}}, {"https", fmt.Sprintf("h%d:443", i), dy{int64(i), 2}}})
		g.updB = append(g.updB, []hw{{"https", fmt.Sprintf("h%d:443", i), dy{int64(2 + i), 1}}})
	}
	for _, t := range malformedTexts {
		left, _ := m.decode([]byte(t))
		g.left = append(g.left, hwOfMap(left))
	}
	return g
}

func hwOfMap(m map[string]float64) []hw {
	out := []hw{}
	for u, w := range m {
		sc, rest := splitURL(u)
		out = append(out, hw{sc, rest, dyOf(w)})
	}
	sort.Slice(out, func(i, j int) bool { return out[i].url() < out[j].url() })
	return out
}

func (g *histGen) malformed(path string, i int) event {
	s := malformedTexts[i]
	return event{Path: path, Kind: "malformed", Data: &s, Partial: g.left[i]}
}

// event number k (0..14) at depth d: node k/5, kind k%5
func (g *histGen) ev(k, d int) event {
	n := k / 5
	switch k % 5 {
	case 0:
		s := weightsJSON(g.addA[n], "")
		return event{Path: g.nodes[n], Kind: "add", Data: &s, Weights: g.addA[n]}
	case 1:
		s := weightsJSON(g.updB[n], `,"clusterName":"C"`)
		return event{Path: g.nodes[n], Kind: "update", Data: &s, Weights: g.updB[n]}
	case 2:
		return event{Path: g.nodes[n], Kind: "delete"}
	case 3:
		return g.malformed(g.nodes[n], (n*7+d*3)%len(malformedTexts)) // (node, depth) 1..5 meet 12 of the 16 texts, both classes at depth 1
	default:
		s := weightlessTexts[(n+d)%len(weightlessTexts)]
		return event{Path: g.nodes[n], Kind: "weightless", Data: &s}
	}
}

// random event with extras: root path, path outside the prefix, random payload variants and random weights
func (g *histGen) randomEv(r *hx.Rand) event {
	var path string
	switch x := r.Intn(20); {
	case x == 0:
		path = g.zk // the cluster node itself: ignored
	case x == 1:
		path = "elsewhere" // no prefix to trim: tracked under the whole path (the pinned tests rely on it)
	case x == 2:
		path = g.zk + "/n1/child"
	default:
		path = g.nodes[r.Intn(3)]
	}
	switch r.Intn(6) {
	case 0, 1:
		ws := randomAnn(r, 1+r.Intn(2))
		s := weightsJSON(ws, goodExtras[r.Intn(len(goodExtras))])
		kind := "add"
		if r.Bool() {
			kind = "update"
		}
		return event{Path: path, Kind: kind, Data: &s, Weights: ws}
	case 2, 3:
		return event{Path: path, Kind: "delete"}
	case 4:
		return g.malformed(path, r.Intn(len(malformedTexts)))
	default:
		s := weightlessTexts[r.Intn(len(weightlessTexts))]
		return event{Path: path, Kind: "weightless", Data: &s}
	}
}

var hostNames = []string{"a:80", "b:80", "c:443", "d:443", "e:8080"}
var weightChoices = []dy{{0, 1}, {0, 1}, {1, 4}, {1, 2}, {1, 1}, {1, 1}, {2, 1}, {3, 1}, {5, 2}}

func randomAnn(r *hx.Rand, n int) []hw {
	var out []hw
	seen := map[string]bool{}
	for len(out) < n {
		sc := "http"
		if r.Bool() {
			sc = "https"
		}
		h := hw{sc, hostNames[r.Intn(len(hostNames))], weightChoices[r.Intn(len(weightChoices))]}
		if seen[h.url()] {
			continue
		}
		seen[h.url()] = true
		out = append(out, h)
	}
	sort.Slice(out, func(i, j int) bool { return out[i].url() < out[j].url() })
	return out
}

type histDesc struct {
	Type   string  `json:"type"`
	Module string  `json:"module"`
	Zk     string  `json:"zk"`
	Events []event `json:"events"`
	Snaps  []snap  `json:"snapshots,omitempty"`
}

type capture struct {
	w       interface{}
	content snap
	at      int
}

// one step of the oracle: apply the event on the implementation, compare with the fold, re-inspect every snapshot
// captured so far.  Returns the new watcher, its content and the new expected fold.
func stepOracle(m *module, zk string, w interface{}, exp snap, e *event, caps []capture, depth int,
	fail func(sig, what string, impl interface{})) (interface{}, snap, snap) {
	nw, pv := safeHandle(m, w, e)
	if pv != nil {
		fail("handler-panic", "handleUriUpdate panicked", fmt.Sprint(pv))
		return w, m.inspect(w), exp
	}
	cur := m.inspect(nw)
	nexp := applyExpected(zk, exp, e)
	if !snapEqual(cur, nexp) {
		fail("fold-mismatch:"+e.Kind, "after a "+e.Kind+" event the announced set differs from the fold of the history",
			map[string]interface{}{"snapshot": cur, "fold": nexp})
	}
	for _, c := range caps {
		if now := m.inspect(c.w); !snapEqual(now, c.content) {
			fail("snapshot-mutated", fmt.Sprintf("the snapshot handed out after event %d changed after event %d (%s)", c.at, depth, e.Kind),
				map[string]interface{}{"captured": c.content, "now": now})
		}
	}
	return nw, cur, nexp
}

func safeHandle(m *module, w interface{}, e *event) (nw interface{}, pv interface{}) {
	defer func() {
		if r := recover(); r != nil {
			pv = r
		}
	}()
	return m.handle(w, e.Path, e.bytes()), nil
}

func safeChoose(f func() *url.URL) (u *url.URL, pv interface{}) {
	defer func() {
		if r := recover(); r != nil {
			pv = r
		}
	}()
	return f(), nil
}

func runHistory(m *module, zk string, evs []event, rep *hx.Report, sh *hx.Shards) {
	d := histDesc{Type: "hist", Module: m.name, Zk: zk, Events: evs}
	w := m.newWatcher(zk)
	exp := snap{}
	caps := []capture{{w, m.inspect(w), 0}}
	var snaps []snap
	effective, ignored := 0, 0
	for i := range evs {
		e := &evs[i]
		var cur snap
		w, cur, exp = stepOracle(m, zk, w, exp, e, caps, i+1, func(sig, what string, impl interface{}) {
			rep.Fail(sig, what, m.site+"/client.go:handleUriUpdate", d, impl)
		})
		caps = append(caps, capture{w, cur, i + 1})
		snaps = append(snaps, cur)
		if e.Kind == "add" || e.Kind == "update" {
			effective++
		} else {
			ignored++
		}
		rep.Count("hist-event=" + e.Kind)
	}
	rep.Evaluations++
	rep.Count(fmt.Sprintf("hist-len=%d", len(evs)))
	rep.Count("module=" + m.name)
	key, _ := json.Marshal(evs)
	rep.Distinct(m.name+string(key), effective > 0 && ignored > 0)
	if effective > 1 && ignored > 1 {
		rep.Sample(d)
	}
	if sh != nil {
		d.Snaps = snaps
		es := make([]string, len(evs))
		for i := range evs {
			es[i] = evs[i].coq()
		}
		ss := make([]string, len(snaps))
		for i := range snaps {
			ss[i] = coqSnap(snaps[i])
		}
		sh.Add("CHist "+bs(zk)+" ["+strings.Join(es, ";")+"] ["+strings.Join(ss, ";")+"]", d)
	}
}

// exhaustive depth-first enumeration with shared prefixes; one goroutine per first event
type dfsStats struct {
	nodes, nontrivial int
	kinds             map[string]int
	lens              map[int]int
}

func dfs(m *module, g *histGen, maxDepth int, rep *hx.Report) {
	var mu sync.Mutex
	var wg sync.WaitGroup
	total := dfsStats{kinds: map[string]int{}, lens: map[int]int{}}
	for first := 0; first < 15; first++ {
		wg.Add(1)
		go func(first int) {
			defer wg.Done()
			st := dfsStats{kinds: map[string]int{}, lens: map[int]int{}}
			w0 := m.newWatcher(g.zk)
			caps := make([]capture, 0, maxDepth+1)
			caps = append(caps, capture{w0, m.inspect(w0), 0})
			path := make([]event, 0, maxDepth)
			var rec func(w interface{}, exp snap, depth int, k int, eff, ign int)
			rec = func(w interface{}, exp snap, depth int, k int, eff, ign int) {
				e := g.ev(k, depth)
				path = append(path, e)
				nw, cur, nexp := stepOracle(m, g.zk, w, exp, &e, caps, depth, func(sig, what string, impl interface{}) {
					mu.Lock()
					evs := append([]event{}, path...)
					rep.Fail(sig, what, m.site+"/client.go:handleUriUpdate", histDesc{Type: "hist", Module: m.name, Zk: g.zk, Events: evs}, impl)
					mu.Unlock()
				})
				if e.Kind == "add" || e.Kind == "update" {
					eff++
				} else {
					ign++
				}
				st.nodes++
				st.kinds[e.Kind]++
				st.lens[depth]++
				if eff > 0 && ign > 0 {
					st.nontrivial++
				}
				if depth < maxDepth {
					caps = append(caps, capture{nw, cur, depth})
					for k2 := 0; k2 < 15; k2++ {
						rec(nw, nexp, depth+1, k2, eff, ign)
					}
					caps = caps[:len(caps)-1]
				}
				path = path[:len(path)-1]
			}
			rec(w0, snap{}, 1, first, 0, 0)
			mu.Lock()
			total.nodes += st.nodes
			total.nontrivial += st.nontrivial
			for k, v := range st.kinds {
				total.kinds[k] += v
			}
			for k, v := range st.lens {
				total.lens[k] += v
			}
			mu.Unlock()
		}(first)
	}
	wg.Wait()
	rep.Evaluations += total.nodes
	rep.DistinctNontrivial += total.nontrivial
	for k, v := range total.kinds {
		rep.CountN("dfs-event="+k, v)
	}
	for k, v := range total.lens {
		rep.CountN(fmt.Sprintf("dfs-hist-len=%d", k), v)
	}
	rep.CountN("module="+m.name, total.nodes)
}

// ------------------------------------------------------------------------------------------------ payloads

type payloadDesc struct {
	Type   string `json:"type"`
	Module string `json:"module"`
	Class  string `json:"class"` // malformed-early | malformed-late | weightless | good
	Text   string `json:"text"`
}

// every payload text of the event alphabet through the REAL decoder: is it what it was built to be?
func runPayload(m *module, d payloadDesc, rep *hx.Report) {
	left, ok := m.decode([]byte(d.Text))
	site := m.site + "/defs.go:Uri.UnmarshalJSON"
	rep.Evaluations++
	switch d.Class {
	case "malformed-early", "malformed-late":
		if ok {
			rep.Fail("payload-outcome-differs:malformed-accepted", "a payload built to be malformed is accepted by the decoder", site, d, left)
			return
		}
		if len(left) > 0 {
			rep.Count("payload:rejected:weights-left-in-struct")
		} else {
			rep.Count("payload:rejected:struct-untouched")
		}
		if d.Class == "malformed-early" && len(left) > 0 {
			rep.Fail("payload-outcome-differs:early-error-leaves-weights", "a payload encoding/json rejects left weights in the struct", site, d, left)
		}
	case "weightless":
		if !ok || len(left) != 0 {
			rep.Fail("payload-outcome-differs:weightless", "a weight-less payload is rejected or decodes to weights", site, d, left)
		}
		rep.Count("payload:decoded:no-weights")
	default:
		if !ok || len(left) == 0 {
			rep.Fail("payload-outcome-differs:good-rejected", "a well-formed announcement is rejected or decodes to no weights", site, d, left)
		}
		rep.Count("payload:decoded:weights")
	}
}

func payloadCases(m *module, g *histGen, rep *hx.Report) {
	lateSeen := 0
	for i, t := range malformedTexts {
		cl := "malformed-early"
		if malformedLate[i] {
			cl = "malformed-late"
		}
		runPayload(m, payloadDesc{"payload", m.name, cl, t}, rep)
		if len(g.left[i]) > 0 {
			lateSeen++
		}
	}
	if lateSeen == 0 {
		// the class of rejected payloads that leave weights behind must be exercised (otherwise "malformed updates are
		// ignored" is only checked on payloads that are indistinguishable from weight-less ones)
		rep.Fail("payload-class-missing:rejected-with-weights", "no malformed payload of the alphabet leaves weights in the struct any more: "+
			"the harness no longer exercises that class", m.site+"/defs.go:Uri.UnmarshalJSON", payloadDesc{"payload", m.name, "malformed-late", malformedTexts[1]}, nil)
	}
	for _, t := range weightlessTexts {
		runPayload(m, payloadDesc{"payload", m.name, "weightless", t}, rep)
	}
	for n := range g.addA {
		for _, x := range goodExtras {
			runPayload(m, payloadDesc{"payload", m.name, "good", weightsJSON(g.addA[n], x)}, rep)
			runPayload(m, payloadDesc{"payload", m.name, "good", weightsJSON(g.updB[n], x)}, rep)
		}
	}
}

// ------------------------------------------------------------------------------------------------ the event loops

type loopDesc struct {
	Type   string    `json:"type"`
	Module string    `json:"module"`
	Zk     string    `json:"zk"`
	Mode   string    `json:"mode"`   // buffered: a burst is waiting in the channel before the loop runs; producer: back-to-back sends
	Bursts [][]event `json:"bursts"` // the event history, cut into the bursts the loop receives
	Snaps  []snap    `json:"published,omitempty"`
}

const loopDeadline = 60 // seconds; the loop handles a burst in microseconds

// run fn in its own goroutine; false when it has not returned within the deadline (a loop that no longer terminates
// when its channel is closed must not hang the check)
func withDeadline(fn func()) (finished bool, pv interface{}) {
	done := make(chan interface{}, 1)
	go func() {
		defer func() { done <- recover() }()
		fn()
	}()
	select {
	case pv = <-done:
		return true, pv
	case <-time.After(loopDeadline * time.Second):
		return false, nil
	}
}

func rawOf(evs []event) []rawEv {
	out := make([]rawEv, len(evs))
	for i := range evs {
		out[i] = rawEv{evs[i].Path, evs[i].bytes()}
	}
	return out
}

// the bursts through the real waitForUriUpdates; after each burst the published snapshot must be the fold of ALL events
// delivered so far, and every snapshot published earlier must still read as it did
func runLoop(m *module, d loopDesc, rep *hx.Report, sh *hx.Shards) {
	c := m.newClient(cluster)
	site := m.site + "/client.go:waitForUriUpdates"
	exp := snap{}
	w0 := c.currentUris(cluster)
	caps := []capture{{w0, m.inspect(w0), 0}}
	var snaps []snap
	delivered, maxBurst := 0, 0
	d.Snaps = nil
	failed := false
	for bi, burst := range d.Bursts {
		fin, pv := withDeadline(func() { c.uriLoop(cluster, rawOf(burst), d.Mode) })
		if !fin {
			rep.Fail("loop-hangs", "waitForUriUpdates did not return after its channel was closed", site, d, nil)
			return
		}
		if pv != nil {
			rep.Fail("loop-panic", "waitForUriUpdates panicked", site, d, fmt.Sprint(pv))
			return
		}
		for i := range burst {
			exp = applyExpected(d.Zk, exp, &burst[i])
			rep.Count("loop-event=" + burst[i].Kind)
		}
		delivered += len(burst)
		if len(burst) > maxBurst {
			maxBurst = len(burst)
		}
		w := c.currentUris(cluster)
		if w == nil {
			rep.Fail("loop-unpublished", "no snapshot is published for the cluster after a burst", site, d, nil)
			return
		}
		cur := m.inspect(w)
		if !snapEqual(cur, exp) && !failed {
			failed = true
			sig := "loop-fold-mismatch:one-event-at-a-time"
			if len(burst) > 1 {
				sig = "loop-fold-mismatch:burst"
			}
			rep.Fail(sig, fmt.Sprintf("after burst %d (%d events, %d delivered in all) the published announcements are not the fold of all delivered events",
				bi+1, len(burst), delivered), site, d, map[string]interface{}{"published": cur, "fold": exp})
		}
		for _, cp := range caps {
			if now := m.inspect(cp.w); !snapEqual(now, cp.content) {
				rep.Fail("loop-snapshot-mutated", fmt.Sprintf("the snapshot published after burst %d changed while burst %d was consumed", cp.at, bi+1), site, d,
					map[string]interface{}{"captured": cp.content, "now": now})
			}
		}
		caps = append(caps, capture{w, cur, bi + 1})
		snaps = append(snaps, cur)
		rep.Count(fmt.Sprintf("loop-burst-len=%d", len(burst)))
	}
	rep.Evaluations++
	rep.Count("module=" + m.name)
	rep.Count("loop-mode=" + d.Mode)
	rep.Count(fmt.Sprintf("loop-bursts=%d", len(d.Bursts)))
	key, _ := json.Marshal([]interface{}{d.Mode, d.Bursts})
	rep.Distinct(m.name+"loop"+string(key), maxBurst > 1 && delivered > maxBurst)
	if maxBurst > 2 && len(d.Bursts) > 1 {
		rep.Sample(d)
	}
	if sh != nil {
		d.Snaps = snaps
		bs2 := make([]string, len(d.Bursts))
		for i, b := range d.Bursts {
			es := make([]string, len(b))
			for j := range b {
				es[j] = b[j].coq()
			}
			bs2[i] = "[" + strings.Join(es, ";") + "]"
		}
		ss := make([]string, len(snaps))
		for i := range snaps {
			ss[i] = coqSnap(snaps[i])
		}
		sh.Add("CLoop "+bs(d.Zk)+" ["+strings.Join(bs2, ";")+"] ["+strings.Join(ss, ";")+"]", d)
	}
}

// all ways of cutting a history into consecutive non-empty bursts
func compositions(evs []event) [][][]event {
	n := len(evs)
	if n == 0 {
		return nil
	}
	var out [][][]event
	for mask := 0; mask < 1<<uint(n-1); mask++ {
		var bursts [][]event
		start := 0
		for i := 1; i < n; i++ {
			if mask&(1<<uint(i-1)) != 0 {
				bursts = append(bursts, evs[start:i])
				start = i
			}
		}
		bursts = append(bursts, evs[start:])
		out = append(out, bursts)
	}
	return out
}

func loopCases(m *module, g *histGen, r *hx.Rand, exhLen, exhModel, nRand int, rep *hx.Report, sh *hx.Shards) {
	// (4a) exhaustive: every history over the 15-event alphabet up to exhLen, cut into bursts in every way, each burst
	// waiting in the channel before the loop runs; shortest first.  The model sees those up to exhModel.
	for n := 1; n <= exhLen; n++ {
		var rec func(acc []event)
		rec = func(acc []event) {
			if len(acc) == n {
				evs := append([]event{}, acc...)
				for _, bursts := range compositions(evs) {
					s := sh
					if n > exhModel {
						s = nil
					}
					runLoop(m, loopDesc{Type: "loop", Module: m.name, Zk: g.zk, Mode: "buffered", Bursts: bursts}, rep, s)
				}
				return
			}
			for k := 0; k < 15; k++ {
				rec(append(acc, g.ev(k, len(acc)+1)))
			}
		}
		rec(nil)
	}
	// (4b) seeded longer histories with the extras, random cuts; one in five through an unbuffered channel with a
	// back-to-back producer (what the tree cache does)
	for i := 0; i < nRand; i++ {
		n := 3 + r.Intn(8)
		evs := make([]event, n)
		for j := range evs {
			if r.Chance(50) {
				evs[j] = g.ev(r.Intn(15), 1+r.Intn(5))
			} else {
				evs[j] = g.randomEv(r)
			}
		}
		var bursts [][]event
		start := 0
		for j := 1; j < n; j++ {
			if r.Chance(35) {
				bursts = append(bursts, evs[start:j])
				start = j
			}
		}
		bursts = append(bursts, evs[start:])
		mode := "buffered"
		if r.Chance(20) {
			mode = "producer"
		}
		runLoop(m, loopDesc{Type: "loop", Module: m.name, Zk: g.zk, Mode: mode, Bursts: bursts}, rep, sh)
	}
}

// ------------------------------------------------------------------------------------------------ selection

type nodeAnn struct {
	Node  string `json:"node"`
	Hosts []hw   `json:"hosts"`
}

type selDesc struct {
	Type    string    `json:"type"`
	Module  string    `json:"module"`
	Nodes   []nodeAnn `json:"nodes"`
	Schemes []string  `json:"schemes"`
	Draws   []dy      `json:"draws"`
	Reps    int       `json:"reps"`
	Results []string  `json:"results,omitempty"` // chosen URL per repetition, "" = none (error)
}

// a rand.Source handing out prescribed values: Float64() = Int63()/2^63
type seqSource struct {
	vals []int64
	i    int
}

func (s *seqSource) Int63() int64 {
	v := s.vals[len(s.vals)-1]
	if s.i < len(s.vals) {
		v = s.vals[s.i]
	}
	s.i++
	return v
}
func (s *seqSource) Seed(int64) {}

func drawInt63(q dy) int64 { // q = k/2^m, 0 <= q < 1, m <= 53  ->  k * 2^(63-m)
	m := 0
	for d := q.Den; d > 1; d >>= 1 {
		m++
	}
	return q.Num << uint(63-m)
}

func bestScheme(schemes []string, flat []hw) (int, bool) {
	for i, s := range schemes {
		for _, h := range flat {
			if h.Scheme == s {
				return i, true
			}
		}
	}
	return -1, false
}

func runSelection(m *module, d selDesc, rep *hx.Report, sh *hx.Shards) {
	c := m.newClient(cluster)
	sj, _ := json.Marshal(map[string]interface{}{"serviceName": svcName, "clusterName": cluster, "prioritizedSchemes": d.Schemes})
	c.applyService(svcName, m.servicesPath(svcName), &sj)
	var flat []hw
	for _, n := range d.Nodes {
		b := []byte(weightsJSON(n.Hosts, ""))
		c.applyUri(cluster, m.urisPath(cluster)+n.Node, &b)
		flat = append(flat, n.Hosts...)
	}
	w := c.currentUris(cluster)
	site := m.site + "/serviceUris.go:chooseHost"
	// what the property allows, computed here independently of the model
	var eligible []hw
	attempt := 0
	if len(d.Schemes) == 0 {
		eligible = flat
	} else if bi, ok := bestScheme(d.Schemes, flat); ok {
		attempt = bi
		for _, h := range flat {
			if h.Scheme == d.Schemes[bi] {
				eligible = append(eligible, h)
			}
		}
	}
	positive := false
	for _, h := range eligible {
		if h.W.Num > 0 {
			positive = true
		}
	}
	usedDraw := d.Draws[len(d.Draws)-1]
	if attempt < len(d.Draws) {
		usedDraw = d.Draws[attempt]
	}
	vals := make([]int64, len(d.Draws))
	for i, q := range d.Draws {
		vals[i] = drawInt63(q)
	}
	d.Results = nil
	for k := 0; k < d.Reps; k++ {
		src := &seqSource{vals: vals}
		restore := m.setRand(src)
		u, pv := safeChoose(func() *url.URL {
			if k == 0 { // the public path once, the selection itself for the other repetitions
				u, err := c.resolve(svcName)
				if (err != nil) != (u == nil) {
					rep.Fail("resolve-error-and-host", "ResolveHostnameAndContextForQuery returned both or neither of host and error", site, d, fmt.Sprint(u, err))
				}
				return u
			}
			return m.choose(w, d.Schemes)
		})
		restore()
		if pv != nil {
			rep.Fail("selection-panic", "host selection panicked", site, d, fmt.Sprint(pv))
			continue
		}
		res := ""
		if u != nil {
			res = u.String()
		}
		d.Results = append(d.Results, res)
		rep.Count(fmt.Sprintf("sel-draws-consumed=%d", src.i))
		// ---- the property's predicates on the implementation's answer
		if u == nil {
			if len(eligible) > 0 {
				rep.Fail("eligible-but-no-host", "an eligible host exists but none was returned", site, d, res)
			}
			continue
		}
		var entries []hw
		for _, h := range flat {
			if h.url() == res {
				entries = append(entries, h)
			}
		}
		if len(entries) == 0 {
			rep.Fail("host-not-announced", "the returned host is not announced", site, d, res)
			continue
		}
		if len(eligible) == 0 {
			rep.Fail("host-though-none-eligible", "a host was returned although none is eligible", site, d, res)
			continue
		}
		if len(d.Schemes) > 0 && u.Scheme != d.Schemes[attempt] {
			rep.Fail("scheme-not-highest-priority", "the returned host's scheme is not the highest-priority scheme for which a host exists", site, d, res)
		}
		allZero := true
		for _, h := range entries {
			if h.W.Num > 0 {
				allZero = false
			}
		}
		if allZero && positive {
			sig := "zero-weight-host-chosen:r>0"
			if usedDraw.Num == 0 {
				sig = "zero-weight-host-chosen:r=0" // D32, repaired in /repo (f35562a)
			}
			rep.Fail(sig, "a zero-weight host was returned while an eligible host with positive weight exists", m.site+"/serviceUris.go:filterAndChooseHost", d, res)
		}
	}
	rep.Evaluations++
	rep.Count("module=" + m.name)
	rep.Count(fmt.Sprintf("sel-schemes=%s", strings.Join(d.Schemes, ",")))
	rep.Count(fmt.Sprintf("sel-entries=%d", len(flat)))
	rep.Count(fmt.Sprintf("sel-eligible=%d", len(eligible)))
	switch {
	case usedDraw.Num == 0:
		rep.Count("sel-draw=0")
	case usedDraw.Den > 1<<30:
		rep.Count("sel-draw=extreme")
	default:
		rep.Count("sel-draw=interior-or-boundary")
	}
	zeros := 0
	for _, h := range flat {
		if h.W.Num == 0 {
			zeros++
		}
	}
	rep.Count(fmt.Sprintf("sel-zero-weight-entries=%d", zeros))
	key, _ := json.Marshal([]interface{}{d.Nodes, d.Schemes, d.Draws})
	rep.Distinct(m.name+string(key), len(eligible) >= 2)
	if len(eligible) >= 2 && len(d.Schemes) > 0 && zeros > 0 {
		rep.Sample(d)
	}
	if sh != nil {
		ns := make([]string, len(d.Nodes))
		for i, n := range d.Nodes {
			ns[i] = "(" + bs(n.Node) + ", " + coqAnn(n.Hosts) + ")"
		}
		ds := make([]string, len(d.Draws))
		for i, q := range d.Draws {
			ds[i] = q.coq()
		}
		rs := make([]string, len(d.Results))
		for i, r := range d.Results {
			if r == "" {
				rs[i] = "None"
			} else {
				sc, rest := splitURL(r)
				rs[i] = "(Some (Host " + bs(sc) + " " + bs(rest) + "))"
			}
		}
		sh.Add("CSel ["+strings.Join(ns, ";")+"] "+coqBsList(d.Schemes)+" ["+strings.Join(ds, ";")+"] ["+strings.Join(rs, ";")+"]", d)
	}
}

func coqBsList(l []string) string {
	items := make([]string, len(l))
	for i, s := range l {
		items[i] = bs(s)
	}
	return "[" + strings.Join(items, ";") + "]"
}

var schemeLists = [][]string{
	{}, {"https", "http"}, {"http", "https"}, {"https"}, {"http"}, {"ftp"}, {"ftp", "http"}, {"ftp", "gopher", "https", "http"}, {"https", "https", "http"},
}

// the draws worth trying for an announcement set: 0, every boundary between hosts under any order (subset sums / total)
// when it is a short dyadic number, its neighbours, the largest Float64, and seeded ones
func drawsFor(r *hx.Rand, eligible []hw, thorough bool) []dy {
	out := []dy{{0, 1}}
	var total float64
	for _, h := range eligible {
		total += h.W.f()
	}
	eps := dy{1, 1 << 20}
	add := func(f float64) {
		if f >= 0 && f < 1 {
			out = append(out, dyOf(f))
		}
	}
	if total > 0 {
		n := len(eligible)
		seen := map[float64]bool{}
		for mask := 1; mask < 1<<uint(n); mask++ {
			var s float64
			for i := 0; i < n; i++ {
				if mask&(1<<uint(i)) != 0 {
					s += eligible[i].W.f()
				}
			}
			b := s / total
			if seen[b] || b*total != s || b*float64(1<<20) != math.Floor(b*float64(1<<20)) {
				continue // not exactly representable with 20 binary digits: r*total would round
			}
			seen[b] = true
			add(b)
			add(b + eps.f())
			add(b - eps.f())
		}
	}
	out = append(out, dy{1<<53 - 1, 1 << 53})
	out = append(out, dy{1, 1 << 53})
	ns := 2
	if thorough {
		ns = 6
	}
	for i := 0; i < ns; i++ {
		out = append(out, dy{int64(r.Intn(1 << 20)), 1 << 20})
	}
	return out
}

func randomNodes(r *hx.Rand) []nodeAnn {
	n := 1 + r.Intn(3)
	var out []nodeAnn
	total := 0
	for i := 0; i < n; i++ {
		k := 1 + r.Intn(2)
		if total+k > 5 {
			k = 1
		}
		total += k
		out = append(out, nodeAnn{Node: fmt.Sprintf("/n%d", i+1), Hosts: randomAnn(r, k)})
	}
	return out
}

func selectionCases(m *module, r *hx.Rand, nSets int, thorough bool, rep *hx.Report, sh *hx.Shards) {
	reps := 3
	// the input that used to refute no_zero_weight (D32, repaired): http://a weight 0, http://b weight 1, no priorities,
	// r = 0.  Which of the two Go iterates first is not controllable: repeat.
	runSelection(m, selDesc{Type: "sel", Module: m.name, Nodes: []nodeAnn{{"/n1", []hw{{"http", "a", dy{0, 1}}}}, {"/n2", []hw{{"http", "b", dy{1, 1}}}}},
		Schemes: []string{}, Draws: []dy{{0, 1}}, Reps: 64}, rep, sh)
	runSelection(m, selDesc{Type: "sel", Module: m.name, Nodes: []nodeAnn{{"/n1", []hw{{"http", "a", dy{0, 1}}, {"http", "b", dy{1, 1}}}}},
		Schemes: []string{"http"}, Draws: []dy{{0, 1}}, Reps: 64}, rep, sh)
	// fixed small sets: nothing announced, one host, only zero weights, same host announced by two znodes
	fixed := [][]nodeAnn{
		{},
		{{"/n1", []hw{{"http", "a:80", dy{1, 1}}}}},
		{{"/n1", []hw{{"http", "a:80", dy{0, 1}}}}},
		{{"/n1", []hw{{"http", "a:80", dy{0, 1}}}}, {"/n2", []hw{{"https", "b:443", dy{0, 1}}}}},
		{{"/n1", []hw{{"http", "a:80", dy{0, 1}}}}, {"/n2", []hw{{"http", "a:80", dy{2, 1}}}}},
		{{"/n1", []hw{{"https", "a:443", dy{1, 1}}, {"http", "a:80", dy{1, 1}}}}},
		{{"/n1", []hw{{"https", "a:443", dy{1, 1}}}}, {"/n2", []hw{{"http", "b:80", dy{1, 1}}}}},
		{{"/n1", []hw{{"https", "a:443", dy{1, 1}}}}, {"/n2", []hw{{"https", "b:443", dy{3, 1}}}}, {"/n3", []hw{{"https", "c:443", dy{0, 1}}}}},
	}
	sets := fixed
	for i := 0; i < nSets; i++ {
		sets = append(sets, randomNodes(r))
	}
	for si, nodes := range sets {
		var flat []hw
		for _, n := range nodes {
			flat = append(flat, n.Hosts...)
		}
		for li, schemes := range schemeLists {
			if si >= len(fixed) && !thorough && (si+li)%3 != 0 {
				continue // quick tier: a third of the scheme lists per random set
			}
			var eligible []hw
			attempt := 0
			if len(schemes) == 0 {
				eligible = flat
			} else if bi, ok := bestScheme(schemes, flat); ok {
				attempt = bi
				for _, h := range flat {
					if h.Scheme == schemes[bi] {
						eligible = append(eligible, h)
					}
				}
			}
			for _, q := range drawsFor(r, eligible, thorough) {
				// earlier attempts (schemes nobody announces) consume draws of their own: give them different values
				draws := make([]dy, 0, attempt+1)
				for a := 0; a < attempt; a++ {
					draws = append(draws, dy{int64(1 + 2*r.Intn(1<<19)), 1 << 20})
				}
				draws = append(draws, q)
				runSelection(m, selDesc{Type: "sel", Module: m.name, Nodes: nodes, Schemes: schemes, Draws: draws, Reps: reps}, rep, sh)
			}
		}
	}
}

// frequencies over many real draws (supporting evidence: statistics)
type freqDesc struct {
	Type    string             `json:"type"`
	Module  string             `json:"module"`
	Nodes   []nodeAnn          `json:"nodes"`
	Schemes []string           `json:"schemes"`
	Seed    int64              `json:"seed"`
	N       int                `json:"n"`
	Freq    map[string]float64 `json:"freq,omitempty"`
}

func runFrequency(m *module, d freqDesc, rep *hx.Report) {
	c := m.newClient(cluster)
	sj, _ := json.Marshal(map[string]interface{}{"serviceName": svcName, "clusterName": cluster, "prioritizedSchemes": d.Schemes})
	c.applyService(svcName, m.servicesPath(svcName), &sj)
	var flat []hw
	for _, n := range d.Nodes {
		b := []byte(weightsJSON(n.Hosts, ""))
		c.applyUri(cluster, m.urisPath(cluster)+n.Node, &b)
		flat = append(flat, n.Hosts...)
	}
	eligible := flat
	if len(d.Schemes) > 0 {
		eligible = nil
		if bi, ok := bestScheme(d.Schemes, flat); ok {
			for _, h := range flat {
				if h.Scheme == d.Schemes[bi] {
					eligible = append(eligible, h)
				}
			}
		}
	}
	var total float64
	share := map[string]float64{}
	for _, h := range eligible {
		total += h.W.f()
	}
	for _, h := range flat {
		share[h.url()] += 0
	}
	for _, h := range eligible {
		share[h.url()] += h.W.f() / total
	}
	w := c.currentUris(cluster)
	restore := m.setRand(rand.NewSource(d.Seed))
	counts := map[string]int{}
	for i := 0; i < d.N; i++ {
		u := m.choose(w, d.Schemes)
		if u == nil {
			counts[""]++
		} else {
			counts[u.String()]++
		}
	}
	restore()
	d.Freq = map[string]float64{}
	for h, p := range share {
		got := float64(counts[h])
		d.Freq[h] = got / float64(d.N)
		band := 5*math.Sqrt(float64(d.N)*p*(1-p)) + 1
		if math.Abs(got-float64(d.N)*p) > band {
			rep.Fail("frequency-out-of-band", fmt.Sprintf("host %s chosen %d times out of %d, its share of the eligible weight is %.4f (5 sigma band +-%.0f)", h, counts[h], d.N, p, band),
				m.site+"/serviceUris.go:filterAndChooseHost", d, d.Freq)
		}
	}
	if counts[""] > 0 {
		rep.Fail("eligible-but-no-host", "an eligible host exists but none was returned", m.site+"/serviceUris.go:chooseHost", d, counts[""])
	}
	rep.Evaluations += d.N
	rep.CountN("freq-draws", d.N)
	rep.Extra["frequencies:"+m.name+":"+fmt.Sprint(len(rep.Extra))] = d
}

func frequencyCases(m *module, seed uint64, n int, rep *hx.Report) {
	sets := [][]nodeAnn{
		{{"/n1", []hw{{"http", "a:80", dy{1, 1}}}}, {"/n2", []hw{{"https", "b:443", dy{1, 1}}}}},
		{{"/n1", []hw{{"https", "a:443", dy{1, 1}}}}, {"/n2", []hw{{"https", "b:443", dy{99, 1}}}}},
		{{"/n1", []hw{{"https", "a:443", dy{1, 2}}, {"http", "a:80", dy{5, 1}}}}, {"/n2", []hw{{"https", "b:443", dy{3, 2}}}}, {"/n3", []hw{{"https", "c:443", dy{0, 1}}, {"http", "c:80", dy{1, 1}}}}},
	}
	for i, s := range sets {
		for _, sch := range [][]string{{}, {"https", "http"}} {
			runFrequency(m, freqDesc{Type: "freq", Module: m.name, Nodes: s, Schemes: sch, Seed: int64(seed)*1000 + int64(i), N: n}, rep)
		}
	}
}

// ------------------------------------------------------------------------------------------------ services

type svcEvent struct {
	Kind    string   `json:"kind"` // good | malformed | delete | other-path
	Path    string   `json:"path"`
	Data    *string  `json:"data"`
	Decoded *svcView `json:"decoded,omitempty"` // what the decoder leaves in the struct (also for malformed payloads)
}

type svcDesc struct {
	Type   string     `json:"type"`
	Module string     `json:"module"`
	Events []svcEvent `json:"events"`
	Final  *svcView   `json:"final"`
	Cuts   []bool     `json:"cuts,omitempty"` // svcloop: a new burst starts before event i
	Mode   string     `json:"mode,omitempty"`
}

func svcEvents(m *module) []svcEvent {
	p := m.servicesPath(svcName)
	s := func(x string) *string { return &x }
	return []svcEvent{
		{"good", p, s(`{"serviceName":"svc","clusterName":"C","prioritizedSchemes":["https","http"]}`), &svcView{"C", []string{"https", "http"}}},
		{"good", p, s(`{"serviceName":"svc","clusterName":"C2","prioritizedSchemes":["http"]}`), &svcView{"C2", []string{"http"}}},
		{"good", p, s(`{"serviceName":"svc","clusterName":"C"}`), &svcView{"C", []string{}}},
		{"malformed", p, s(`{"serviceName":"svc","clusterName":`), &svcView{"", []string{}}},                          // syntax error (Decoded: what is left in the struct; ignored)
		{"malformed", p, s(`{"clusterName":"C3","prioritizedSchemes":7}`), &svcView{"C3", []string{}}},                 // type error: the rest is decoded
		{"delete", p, nil, nil},
		{"other-path", m.servicesPath("other"), s(`{"serviceName":"other","clusterName":"X","prioritizedSchemes":["ftp"]}`), nil},
	}
}

func coqSvc(v *svcView) string {
	return "(Service " + bs(v.Cluster) + " " + coqBsList(v.Schemes) + ")"
}

func runService(m *module, evs []svcEvent, rep *hx.Report, sh *hx.Shards) {
	c := m.newClient(cluster)
	d := svcDesc{Type: "svc", Module: m.name, Events: evs}
	var lastGood *svcView
	for _, e := range evs {
		var data *[]byte
		if e.Data != nil {
			b := []byte(*e.Data)
			data = &b
		}
		before := c.currentService(svcName)
		c.applyService(svcName, e.Path, data)
		after := c.currentService(svcName)
		if e.Kind == "good" {
			lastGood = e.Decoded
		}
		if e.Kind == "malformed" && !svcEqual(before, after) {
			rep.Fail("service-malformed-update-not-ignored", "a service definition payload that does not decode replaced the definition in force",
				m.site+"/client.go:handleServiceUpdate", d, map[string]interface{}{"before": before, "after": after})
		} else if !svcEqual(after, lastGood) {
			rep.Fail("service-not-last-write", "the service definition in force is not the last well-formed one", m.site+"/client.go:handleServiceUpdate", d, after)
		}
		rep.Count("svc-event=" + e.Kind)
	}
	d.Final = c.currentService(svcName)
	rep.Evaluations++
	rep.Count("module=" + m.name)
	rep.Count(fmt.Sprintf("svc-len=%d", len(evs)))
	key, _ := json.Marshal(evs)
	rep.Distinct(m.name+"svc"+string(key), len(evs) >= 2)
	addSvcCase(m, evs, d, sh)
}

func addSvcCase(m *module, evs []svcEvent, d svcDesc, sh *hx.Shards) {
	if sh == nil {
		return
	}
	es := make([]string, len(evs))
	for i, e := range evs {
		switch {
		case e.Data == nil:
			es[i] = "Stce " + bs(e.Path) + " None"
		case e.Kind == "malformed":
			es[i] = "Stce " + bs(e.Path) + " (Some (SMalformed " + coqSvc(e.Decoded) + "))"
		default:
			dec := e.Decoded
			if dec == nil {
				dec = &svcView{"X", []string{"ftp"}}
			}
			es[i] = "Stce " + bs(e.Path) + " (Some (SDecoded " + coqSvc(dec) + "))"
		}
	}
	fin := "None"
	if d.Final != nil {
		fin = "(Some " + coqSvc(d.Final) + ")"
	}
	sh.Add("CSvc "+bs(m.servicesPath(svcName))+" ["+strings.Join(es, ";")+"] "+fin, d)
}

// the same histories through the REAL waitForServiceUpdates, cut into bursts (cuts[i]: a new burst starts before event i)
func runServiceLoop(m *module, evs []svcEvent, cuts []bool, mode string, rep *hx.Report, sh *hx.Shards) {
	c := m.newClient(cluster)
	d := svcDesc{Type: "svcloop", Module: m.name, Events: evs, Cuts: cuts, Mode: mode}
	site := m.site + "/client.go:waitForServiceUpdates"
	var lastGood *svcView
	var burst []rawEv
	flush := func() bool {
		if len(burst) == 0 {
			return true
		}
		b := burst
		burst = nil
		fin, pv := withDeadline(func() { c.svcLoop(svcName, b, mode) })
		if !fin {
			rep.Fail("service-loop-hangs", "waitForServiceUpdates did not return after its channel was closed", site, d, nil)
			return false
		}
		if pv != nil {
			rep.Fail("service-loop-panic", "waitForServiceUpdates panicked", site, d, fmt.Sprint(pv))
			return false
		}
		if after := c.currentService(svcName); !svcEqual(after, lastGood) {
			rep.Fail("service-loop-not-last-write", "after a burst of service events the definition in force is not the last well-formed one of all delivered events",
				site, d, after)
			return false
		}
		return true
	}
	for i, e := range evs {
		if i < len(cuts) && cuts[i] && !flush() {
			return
		}
		var data *[]byte
		if e.Data != nil {
			b := []byte(*e.Data)
			data = &b
		}
		burst = append(burst, rawEv{e.Path, data})
		if e.Kind == "good" {
			lastGood = e.Decoded
		}
		rep.Count("svcloop-event=" + e.Kind)
	}
	if !flush() {
		return
	}
	d.Final = c.currentService(svcName)
	rep.Evaluations++
	rep.Count("module=" + m.name)
	rep.Count("svcloop-mode=" + mode)
	key, _ := json.Marshal([]interface{}{evs, cuts, mode})
	rep.Distinct(m.name+"svcloop"+string(key), len(evs) >= 2)
	addSvcCase(m, evs, d, sh)
}

func svcEqual(a, b *svcView) bool {
	if a == nil || b == nil {
		return a == nil && b == nil
	}
	if a.Cluster != b.Cluster || len(a.Schemes) != len(b.Schemes) {
		return false
	}
	for i := range a.Schemes {
		if a.Schemes[i] != b.Schemes[i] {
			return false
		}
	}
	return true
}

func serviceCases(m *module, maxLen int, rep *hx.Report, sh *hx.Shards) {
	evs := svcEvents(m)
	runService(m, []svcEvent{evs[0], evs[3]}, rep, sh) // the former D37 witness first (good definition, then a payload that does not decode)
	for n := 1; n <= maxLen; n++ { // shortest first, so that the first reported failing history is a shortest one
		var rec func(acc []svcEvent)
		rec = func(acc []svcEvent) {
			if len(acc) == n {
				runService(m, append([]svcEvent{}, acc...), rep, sh)
				// the event-delivery layer: the whole history as one burst, and cut before every / every other event
				h := append([]svcEvent{}, acc...)
				one, each, alt := make([]bool, n), make([]bool, n), make([]bool, n)
				for i := range h {
					each[i], alt[i] = true, i%2 == 0
				}
				runServiceLoop(m, h, one, "buffered", rep, sh)
				if n > 1 {
					runServiceLoop(m, h, each, "buffered", rep, nil)
					runServiceLoop(m, h, alt, "producer", rep, nil)
				}
				return
			}
			for _, e := range evs {
				rec(append(acc, e))
			}
		}
		rec(nil)
	}
}

// ------------------------------------------------------------------------------------------------ main

func must(err error) {
	if err != nil {
		panic(err)
	}
}

func main() {
	cfg := hx.ParseFlags()
	rep := hx.NewReport("(1) znode event histories over 3 znodes x {add, update, delete, malformed, weight-less}: exhaustive depth-first up to the stated length " +
		"(every prefix is an evaluation; old snapshots re-inspected after every event), plus exhaustive short and seeded longer histories (with root-path and " +
		"outside-prefix events, random payload variants) that are also given to the model; (2) selections: announcement sets (1-3 znodes, 1-2 hosts each, http/https, dyadic " +
		"weights incl. 0) x 9 prioritized-scheme lists x injected draws (0, all interval boundaries and their neighbours, extremes, seeded), 3 repetitions each " +
		"(Go map order varies); frequencies over many real draws; (3) service-definition histories; (4) the REAL loops waitForUriUpdates / waitForServiceUpdates fed " +
		"through a channel with bursts: every history over the event alphabet up to the stated length cut into bursts in every way (each burst waiting in the channel " +
		"before the loop runs again), seeded longer histories with random cuts, one in five through an unbuffered channel with a back-to-back producer; (5) every " +
		"payload text through the real decoder (malformed payloads: 10 that encoding/json rejects, 6 that fail after the weights were stored). Both module generations. " +
		"non-trivial = history with at least one effective write and at least one ignored or delete event / selection with at least 2 eligible entries / service history of length >= 2 / " +
		"loop run with a burst of at least 2 events and at least one more burst; " +
		"distinct by (module, full input)")
	mods := []*module{moduleV2(), moduleRoot()}
	for _, sc := range []string{"http", "https", "ftp", "gopher"} {
		intern("s_"+sc, sc)
	}
	g0 := newHistGen(mods[0])
	intern("zk", g0.zk)
	for i, n := range g0.nodes {
		intern(fmt.Sprintf("p%d", i+1), n)
		intern(fmt.Sprintf("k%d", i+1), strings.TrimPrefix(n, g0.zk))
		intern(fmt.Sprintf("h%d", i+1), fmt.Sprintf("h%d:80", i+1))
		intern(fmt.Sprintf("hs%d", i+1), fmt.Sprintf("h%d:443", i+1))
	}
	for i, h := range hostNames {
		intern(fmt.Sprintf("hn%d", i), h)
	}
	intern("svcp", mods[0].servicesPath(svcName))
	header := "From Coq Require Import List QArith. Import ListNotations.\nFrom Coq.Strings Require Import Byte.\n" +
		"From GR Require Import Base.Bytes D2.Announce D2.Choose Corr.C19Corr.\n" + strings.Join(nameDefs, "\n") + "\n"
	sh := hx.NewShards(cfg.Out, header, "C19Corr", 400)

	if cfg.Replay != "" {
		b, err := os.ReadFile(cfg.Replay)
		must(err)
		var rp struct {
			Case json.RawMessage `json:"case"`
		}
		must(json.Unmarshal(b, &rp))
		var head struct {
			Type, Module string
		}
		must(json.Unmarshal(rp.Case, &head))
		for _, m := range mods {
			if m.name != head.Module {
				continue
			}
			switch head.Type {
			case "hist":
				var d histDesc
				must(json.Unmarshal(rp.Case, &d))
				runHistory(m, d.Zk, d.Events, rep, sh)
			case "sel":
				var d selDesc
				must(json.Unmarshal(rp.Case, &d))
				runSelection(m, d, rep, sh)
			case "svc":
				var d svcDesc
				must(json.Unmarshal(rp.Case, &d))
				runService(m, d.Events, rep, sh)
			case "freq":
				var d freqDesc
				must(json.Unmarshal(rp.Case, &d))
				runFrequency(m, d, rep)
			case "loop":
				var d loopDesc
				must(json.Unmarshal(rp.Case, &d))
				runLoop(m, d, rep, sh)
			case "payload":
				var d payloadDesc
				must(json.Unmarshal(rp.Case, &d))
				runPayload(m, d, rep)
			case "svcloop":
				var d svcDesc
				must(json.Unmarshal(rp.Case, &d))
				runServiceLoop(m, d.Events, d.Cuts, d.Mode, rep, sh)
			}
		}
		sh.Close()
		rep.Shards = sh.Files
		rep.Write(cfg.Out)
		return
	}

	r := hx.NewRand(cfg.Seed)
	dfsDepth, exhModel, nRandHist, nSets, nFreq, svcLen := 5, 3, 6000, 150, 20000, 3
	loopExh, loopExhModel, nRandLoop := 3, 2, 1500
	if cfg.Thorough() {
		dfsDepth, exhModel, nRandHist, nSets, nFreq, svcLen = 6, 4, 30000, 400, 200000, 4
		loopExh, loopExhModel, nRandLoop = 4, 3, 8000
	}
	for _, m := range mods {
		g := newHistGen(m)
		// (5) the payload texts of the event alphabet through the real decoder
		payloadCases(m, g, rep)
		// (1a) exhaustive short histories, shortest first (so that the first failing histories reported are shortest ones),
		// also given to the model
		for n := 1; n <= exhModel; n++ {
			var rec func(acc []event)
			rec = func(acc []event) {
				if len(acc) == n {
					runHistory(m, g.zk, append([]event{}, acc...), rep, sh)
					return
				}
				for k := 0; k < 15; k++ {
					rec(append(acc, g.ev(k, len(acc)+1)))
				}
			}
			rec(nil)
		}
		// (1b) exhaustive on the implementation alone, prefixes shared
		dfs(m, g, dfsDepth, rep)
		// (1c) seeded longer histories with the extras
		for i := 0; i < nRandHist; i++ {
			n := 4 + r.Intn(5)
			evs := make([]event, n)
			for j := range evs {
				if r.Chance(50) {
					evs[j] = g.ev(r.Intn(15), j+1)
				} else {
					evs[j] = g.randomEv(r)
				}
			}
			runHistory(m, g.zk, evs, rep, sh)
		}
		// (4) the event loops, fed with bursts
		loopCases(m, g, r, loopExh, loopExhModel, nRandLoop, rep, sh)
		// (2) selection
		selectionCases(m, r, nSets, cfg.Thorough(), rep, sh)
		frequencyCases(m, cfg.Seed, nFreq, rep)
		// (3) services
		serviceCases(m, svcLen, rep, sh)
	}
	rep.Extra["dfs_depth"] = dfsDepth
	rep.Extra["exhaustive_model_history_length"] = exhModel
	rep.Extra["loop_exhaustive_history_length_all_cuts"] = loopExh
	rep.Extra["loop_exhaustive_model_history_length"] = loopExhModel
	rep.Exhaustive = false
	sh.Close()
	rep.Shards = sh.Files
	rep.Write(cfg.Out)
}
