package main

// The v2 module's server behind the driver's `server` interface: stub resource types and stub methods registered through
// the exported generic Register* functions, recording filters.  impl_root.go is the same file for the root module
// (different import paths and package names only).

import (
	"context"
	"fmt"
	"net/http"

	restli "github.com/PapaCharlie/go-restli/v2/restli"
	"github.com/PapaCharlie/go-restli/v2/restlicodec"
	common "github.com/PapaCharlie/go-restli/v2/restlidata/generated/com/linkedin/restli/common"
)

// resource path: accepts any number of keys and keeps their raw text
type v2rp struct{ keys []string }

func (*v2rp) NewInstance() *v2rp { return &v2rp{} }
func (r *v2rp) UnmarshalResourcePath(segs []restlicodec.Reader) error {
	r.keys = v2readers(segs)
	return nil
}
func v2readers(segs []restlicodec.Reader) []string {
	out := []string{}
	for _, s := range segs {
		// READ the key (consuming the reader's cursor), as generated UnmarshalResourcePath / a key-inspecting filter does: every
		// consumer - each filter hook, the method - must be handed readers positioned at the start of the key
		if b, err := s.ReadRawBytes(); err == nil {
			out = append(out, string(b))
		} else {
			// a reader at the start of a key always yields the whole key (Skip at position 0 cannot fail): an error means the
			// reader was handed over already consumed
			out = append(out, "<key reader not at the start: "+err.Error()+">")
		}
	}
	return out
}

// query parameters: accept anything
type v2qp struct{}

func (*v2qp) NewInstance() *v2qp                                    { return &v2qp{} }
func (*v2qp) DecodeQueryParams(restlicodec.QueryParamsReader) error { return nil }

type v2bqp struct{}

func (*v2bqp) NewInstance() *v2bqp                                               { return &v2bqp{} }
func (*v2bqp) DecodeQueryParams(restlicodec.QueryParamsReader) ([]string, error) { return nil, nil }

// entity / patch / body type: any JSON object
type v2ent struct{}

func (*v2ent) NewInstance() *v2ent { return &v2ent{} }
func (*v2ent) MarshalRestLi(w restlicodec.Writer) error {
	return w.WriteMap(func(func(string) restlicodec.Writer) error { return nil })
}
func (*v2ent) UnmarshalRestLi(r restlicodec.Reader) error {
	return r.ReadMap(func(r restlicodec.Reader, _ string) error { return r.Skip() })
}

type v2tag int

type v2filter struct {
	idx, kind int
	h         *holder
}

func v2seen(ctx context.Context) []int {
	out := []int{}
	for i := 0; i < 4; i++ {
		if ctx.Value(v2tag(i)) != nil {
			out = append(out, i)
		}
	}
	return out
}

// the routing facts the server stored in the context; nil when a Get*FromContext panics (value absent)
func v2facts(ctx context.Context) (t *Target) {
	defer func() {
		if recover() != nil {
			t = nil
		}
	}()
	m := restli.GetMethodFromContext(ctx)
	t = &Target{Method: int(m), Path: []Seg{}, Keys: []string{}}
	for _, s := range restli.GetResourcePathSegmentsFromContext(ctx) {
		var sg Seg
		// ResourcePathSegment has no accessors: {name:alpha isCollection:true}
		if _, err := fmt.Sscanf(fmt.Sprintf("%+v", s), "{name:%s isCollection:%t}", &sg.Name, &sg.Coll); err != nil {
			// an empty name prints as "{name: isCollection:true}"
			if _, err2 := fmt.Sscanf(fmt.Sprintf("%+v", s), "{name: isCollection:%t}", &sg.Coll); err2 != nil {
				panic(err)
			}
			sg.Name = ""
		}
		t.Path = append(t.Path, sg)
	}
	t.Keys = v2readers(restli.GetEntitySegmentsFromContext(ctx))
	name := func(get func(context.Context) string) (s *string) {
		defer func() {
			if recover() != nil {
				s = nil
			}
		}()
		v := get(ctx)
		return &v
	}
	fn, an := name(restli.GetFinderNameFromContext), name(restli.GetActionNameFromContext)
	switch {
	case fn != nil && an != nil:
		both := "finder+action:" + *fn + "+" + *an
		t.Name = &both
	case fn != nil:
		t.Name = fn
	case an != nil:
		t.Name = an
	}
	if (fn != nil) != (m == restli.Method_finder) || (an != nil) != (m == restli.Method_action) {
		bad := "name-presence-inconsistent"
		t.Name = &bad
	}
	return t
}

func (f *v2filter) PreRequest(req *http.Request) (context.Context, error) {
	ctx := req.Context()
	f.h.cur.event("pre", f.idx, v2seen(ctx), v2facts(ctx))
	switch f.kind {
	case FFailPre:
		return nil, errFilter
	case FCtx:
		return context.WithValue(ctx, v2tag(f.idx), true), nil
	}
	return nil, nil
}

func (f *v2filter) PostRequest(ctx context.Context, _ http.Header) error {
	f.h.cur.event("post", f.idx, v2seen(ctx), v2facts(ctx))
	if f.kind == FFailPost {
		return errFilter
	}
	return nil
}

type v2server struct {
	s restli.Server
	h *holder
}

func v2new(prefixArg string, prefixed bool, filters []int, h *holder) server {
	fs := []restli.Filter{}
	for i, k := range filters {
		fs = append(fs, &v2filter{i, k, h})
	}
	if prefixed {
		return &v2server{restli.NewPrefixedServer(prefixArg, fs...), h}
	}
	return &v2server{restli.NewServer(fs...), h}
}

func (s *v2server) Handler() http.Handler       { return s.s.Handler() }
func (s *v2server) AddToMux(mux *http.ServeMux) { s.s.AddToMux(mux) }

func (s *v2server) Register(r Reg, stubFails bool) {
	segs := []restli.ResourcePathSegment{}
	for _, sg := range r.Segs {
		segs = append(segs, restli.NewResourcePathSegment(sg.Name, sg.Coll))
	}
	id := Target{Path: r.Segs, Method: r.Method, Keys: []string{}}
	if r.Kind != "m" {
		n := r.Name
		id.Name = &n
	}
	ran := func(ctx *restli.RequestContext, rp *v2rp) error {
		c := ctx.Request.Context()
		s.h.cur.stubRan(id, rp.keys, v2seen(c), v2facts(c))
		if stubFails {
			return &common.ErrorResponse{Status: restli.Int32Pointer(418)}
		}
		return nil
	}
	type RC = *restli.RequestContext
	none := restlicodec.PathSpec(nil)
	switch r.Kind {
	case "f":
		restli.RegisterFinder(s.s, segs, r.Name, func(ctx RC, rp *v2rp, _ *v2qp) (*common.Elements[*v2ent], error) {
			if err := ran(ctx, rp); err != nil {
				return nil, err
			}
			return &common.Elements[*v2ent]{}, nil
		})
	case "a":
		restli.RegisterAction(s.s, segs, r.Name, func(ctx RC, rp *v2rp, _ common.EmptyRecord) error { return ran(ctx, rp) })
	case "m":
		switch restli.Method(r.Method) {
		case restli.Method_get:
			restli.RegisterGet(s.s, segs, func(ctx RC, rp *v2rp, _ *v2qp) (*v2ent, error) {
				if err := ran(ctx, rp); err != nil {
					return nil, err
				}
				return &v2ent{}, nil
			})
		case restli.Method_create:
			restli.RegisterCreate(s.s, segs, none, func(ctx RC, rp *v2rp, _ *v2ent, _ *v2qp) (*common.CreatedEntity[string], error) {
				if err := ran(ctx, rp); err != nil {
					return nil, err
				}
				return &common.CreatedEntity[string]{Id: "1"}, nil
			})
		case restli.Method_delete:
			restli.RegisterDelete(s.s, segs, func(ctx RC, rp *v2rp, _ *v2qp) error { return ran(ctx, rp) })
		case restli.Method_update:
			restli.RegisterUpdate(s.s, segs, none, func(ctx RC, rp *v2rp, _ *v2ent, _ *v2qp) error { return ran(ctx, rp) })
		case restli.Method_partial_update:
			restli.RegisterPartialUpdate(s.s, segs, none, func(ctx RC, rp *v2rp, _ *v2ent, _ *v2qp) error { return ran(ctx, rp) })
		case restli.Method_batch_get:
			restli.RegisterBatchGet(s.s, segs, func(ctx RC, rp *v2rp, _ []string, _ *v2bqp) (*common.BatchResponse[string, *v2ent], error) {
				if err := ran(ctx, rp); err != nil {
					return nil, err
				}
				return &common.BatchResponse[string, *v2ent]{}, nil
			})
		case restli.Method_batch_create:
			restli.RegisterBatchCreate(s.s, segs, none, func(ctx RC, rp *v2rp, _ []*v2ent, _ *v2qp) ([]*common.CreatedEntity[string], error) {
				if err := ran(ctx, rp); err != nil {
					return nil, err
				}
				return []*common.CreatedEntity[string]{}, nil
			})
		case restli.Method_batch_delete:
			restli.RegisterBatchDelete(s.s, segs, func(ctx RC, rp *v2rp, _ []string, _ *v2bqp) (*common.BatchResponse[string, *common.BatchEntityUpdateResponse], error) {
				if err := ran(ctx, rp); err != nil {
					return nil, err
				}
				return &common.BatchResponse[string, *common.BatchEntityUpdateResponse]{}, nil
			})
		case restli.Method_batch_update:
			restli.RegisterBatchUpdate(s.s, segs, none, func(ctx RC, rp *v2rp, _ map[string]*v2ent, _ *v2bqp) (*common.BatchResponse[string, *common.BatchEntityUpdateResponse], error) {
				if err := ran(ctx, rp); err != nil {
					return nil, err
				}
				return &common.BatchResponse[string, *common.BatchEntityUpdateResponse]{}, nil
			})
		case restli.Method_batch_partial_update:
			restli.RegisterBatchPartialUpdate(s.s, segs, none, func(ctx RC, rp *v2rp, _ map[string]*v2ent, _ *v2bqp) (*common.BatchResponse[string, *common.BatchEntityUpdateResponse], error) {
				if err := ran(ctx, rp); err != nil {
					return nil, err
				}
				return &common.BatchResponse[string, *common.BatchEntityUpdateResponse]{}, nil
			})
		case restli.Method_get_all:
			restli.RegisterGetAll(s.s, segs, func(ctx RC, rp *v2rp, _ *v2qp) (*common.Elements[*v2ent], error) {
				if err := ran(ctx, rp); err != nil {
					return nil, err
				}
				return &common.Elements[*v2ent]{}, nil
			})
		default:
			panic(fmt.Sprint("cannot register method ", r.Method))
		}
	}
}

var implV2 = impl{
	name: "v2",
	new:  v2new,
	tunnel: func(verb, query string, body []byte) ([]byte, http.Header) {
		return restli.EncodeTunnelledQuery(verb, query, body)
	},
	methodName: func(m int) string { return restli.Method(m).String() },
	methodByName: func(n string) int {
		if m, ok := restli.MethodNameMapping[n]; ok {
			return int(m)
		}
		return 0
	},
	nMethods:     int(restli.Method_finder),
	finder:       int(restli.Method_finder),
	action:       int(restli.Method_action),
	methodHeader: restli.MethodHeader,
	errorHeader:  restli.ErrorResponseHeader,
	consts: map[string]int{"get": int(restli.Method_get), "create": int(restli.Method_create), "delete": int(restli.Method_delete),
		"update": int(restli.Method_update), "partial_update": int(restli.Method_partial_update), "batch_get": int(restli.Method_batch_get),
		"batch_create": int(restli.Method_batch_create), "batch_delete": int(restli.Method_batch_delete), "batch_update": int(restli.Method_batch_update),
		"batch_partial_update": int(restli.Method_batch_partial_update), "get_all": int(restli.Method_get_all), "action": int(restli.Method_action),
		"finder": int(restli.Method_finder)},
}
