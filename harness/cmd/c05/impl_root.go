package main

// GENERATED from impl_v2.go by sed (import paths and identifiers only; regenerate with the command in checks/c05.py
// docstring): the root module behind the same interface.

import (
	"context"
	"fmt"
	"net/http"

	restli "github.com/PapaCharlie/go-restli/restli"
	"github.com/PapaCharlie/go-restli/restlicodec"
	"github.com/PapaCharlie/go-restli/restlidata"
)

// resource path: accepts any number of keys and keeps their raw text
type rootrp struct{ keys []string }

func (*rootrp) NewInstance() *rootrp { return &rootrp{} }
func (r *rootrp) UnmarshalResourcePath(segs []restlicodec.Reader) error {
	r.keys = rootreaders(segs)
	return nil
}
func rootreaders(segs []restlicodec.Reader) []string {
	out := []string{}
	for _, s := range segs {
		// READ the key (consuming the reader's cursor), as generated UnmarshalResourcePath / a key-inspecting filter does: every
		// consumer - each filter hook, the method - must be handed readers positioned at the start of the key
		if b, err := s.ReadRawBytes(); err == nil {
			out = append(out, string(b))
		} else {
			// a reader at the start of a key always yields the whole key (Skip at position 0 cannot fail): an error means the
			// reader was handed over already consumed
			out = append(out, "<key reader not at the start: "+err.Error()+">")
		}
	}
	return out
}

// query parameters: accept anything
type rootqp struct{}

func (*rootqp) NewInstance() *rootqp                                  { return &rootqp{} }
func (*rootqp) DecodeQueryParams(restlicodec.QueryParamsReader) error { return nil }

type rootbqp struct{}

func (*rootbqp) NewInstance() *rootbqp                                             { return &rootbqp{} }
func (*rootbqp) DecodeQueryParams(restlicodec.QueryParamsReader) ([]string, error) { return nil, nil }

// entity / patch / body type: any JSON object
type rootent struct{}

func (*rootent) NewInstance() *rootent { return &rootent{} }
func (*rootent) MarshalRestLi(w restlicodec.Writer) error {
	return w.WriteMap(func(func(string) restlicodec.Writer) error { return nil })
}
func (*rootent) UnmarshalRestLi(r restlicodec.Reader) error {
	return r.ReadMap(func(r restlicodec.Reader, _ string) error { return r.Skip() })
}

type roottag int

type rootfilter struct {
	idx, kind int
	h         *holder
}

func rootseen(ctx context.Context) []int {
	out := []int{}
	for i := 0; i < 4; i++ {
		if ctx.Value(roottag(i)) != nil {
			out = append(out, i)
		}
	}
	return out
}

// the routing facts the server stored in the context; nil when a Get*FromContext panics (value absent)
func rootfacts(ctx context.Context) (t *Target) {
	defer func() {
		if recover() != nil {
			t = nil
		}
	}()
	m := restli.GetMethodFromContext(ctx)
	t = &Target{Method: int(m), Path: []Seg{}, Keys: []string{}}
	for _, s := range restli.GetResourcePathSegmentsFromContext(ctx) {
		var sg Seg
		// ResourcePathSegment has no accessors: {name:alpha isCollection:true}
		if _, err := fmt.Sscanf(fmt.Sprintf("%+v", s), "{name:%s isCollection:%t}", &sg.Name, &sg.Coll); err != nil {
			// an empty name prints as "{name: isCollection:true}"
			if _, err2 := fmt.Sscanf(fmt.Sprintf("%+v", s), "{name: isCollection:%t}", &sg.Coll); err2 != nil {
				panic(err)
			}
			sg.Name = ""
		}
		t.Path = append(t.Path, sg)
	}
	t.Keys = rootreaders(restli.GetEntitySegmentsFromContext(ctx))
	name := func(get func(context.Context) string) (s *string) {
		defer func() {
			if recover() != nil {
				s = nil
			}
		}()
		v := get(ctx)
		return &v
	}
	fn, an := name(restli.GetFinderNameFromContext), name(restli.GetActionNameFromContext)
	switch {
	case fn != nil && an != nil:
		both := "finder+action:" + *fn + "+" + *an
		t.Name = &both
	case fn != nil:
		t.Name = fn
	case an != nil:
		t.Name = an
	}
	if (fn != nil) != (m == restli.Method_finder) || (an != nil) != (m == restli.Method_action) {
		bad := "name-presence-inconsistent"
		t.Name = &bad
	}
	return t
}

func (f *rootfilter) PreRequest(req *http.Request) (context.Context, error) {
	ctx := req.Context()
	f.h.cur.event("pre", f.idx, rootseen(ctx), rootfacts(ctx))
	switch f.kind {
	case FFailPre:
		return nil, errFilter
	case FCtx:
		return context.WithValue(ctx, roottag(f.idx), true), nil
	}
	return nil, nil
}

func (f *rootfilter) PostRequest(ctx context.Context, _ http.Header) error {
	f.h.cur.event("post", f.idx, rootseen(ctx), rootfacts(ctx))
	if f.kind == FFailPost {
		return errFilter
	}
	return nil
}

type rootserver struct {
	s restli.Server
	h *holder
}

func rootnew(prefixArg string, prefixed bool, filters []int, h *holder) server {
	fs := []restli.Filter{}
	for i, k := range filters {
		fs = append(fs, &rootfilter{i, k, h})
	}
	if prefixed {
		return &rootserver{restli.NewPrefixedServer(prefixArg, fs...), h}
	}
	return &rootserver{restli.NewServer(fs...), h}
}

func (s *rootserver) Handler() http.Handler       { return s.s.Handler() }
func (s *rootserver) AddToMux(mux *http.ServeMux) { s.s.AddToMux(mux) }

func (s *rootserver) Register(r Reg, stubFails bool) {
	segs := []restli.ResourcePathSegment{}
	for _, sg := range r.Segs {
		segs = append(segs, restli.NewResourcePathSegment(sg.Name, sg.Coll))
	}
	id := Target{Path: r.Segs, Method: r.Method, Keys: []string{}}
	if r.Kind != "m" {
		n := r.Name
		id.Name = &n
	}
	ran := func(ctx *restli.RequestContext, rp *rootrp) error {
		c := ctx.Request.Context()
		s.h.cur.stubRan(id, rp.keys, rootseen(c), rootfacts(c))
		if stubFails {
			return &restlidata.ErrorResponse{Status: restli.Int32Pointer(418)}
		}
		return nil
	}
	type RC = *restli.RequestContext
	none := restlicodec.PathSpec(nil)
	switch r.Kind {
	case "f":
		restli.RegisterFinder(s.s, segs, r.Name, func(ctx RC, rp *rootrp, _ *rootqp) (*restlidata.Elements[*rootent], error) {
			if err := ran(ctx, rp); err != nil {
				return nil, err
			}
			return &restlidata.Elements[*rootent]{}, nil
		})
	case "a":
		restli.RegisterAction(s.s, segs, r.Name, func(ctx RC, rp *rootrp, _ restlidata.EmptyRecord) error { return ran(ctx, rp) })
	case "m":
		switch restli.Method(r.Method) {
		case restli.Method_get:
			restli.RegisterGet(s.s, segs, func(ctx RC, rp *rootrp, _ *rootqp) (*rootent, error) {
				if err := ran(ctx, rp); err != nil {
					return nil, err
				}
				return &rootent{}, nil
			})
		case restli.Method_create:
			restli.RegisterCreate(s.s, segs, none, func(ctx RC, rp *rootrp, _ *rootent, _ *rootqp) (*restlidata.CreatedEntity[string], error) {
				if err := ran(ctx, rp); err != nil {
					return nil, err
				}
				return &restlidata.CreatedEntity[string]{Id: "1"}, nil
			})
		case restli.Method_delete:
			restli.RegisterDelete(s.s, segs, func(ctx RC, rp *rootrp, _ *rootqp) error { return ran(ctx, rp) })
		case restli.Method_update:
			restli.RegisterUpdate(s.s, segs, none, func(ctx RC, rp *rootrp, _ *rootent, _ *rootqp) error { return ran(ctx, rp) })
		case restli.Method_partial_update:
			restli.RegisterPartialUpdate(s.s, segs, none, func(ctx RC, rp *rootrp, _ *rootent, _ *rootqp) error { return ran(ctx, rp) })
		case restli.Method_batch_get:
			restli.RegisterBatchGet(s.s, segs, func(ctx RC, rp *rootrp, _ []string, _ *rootbqp) (*restlidata.BatchResponse[string, *rootent], error) {
				if err := ran(ctx, rp); err != nil {
					return nil, err
				}
				return &restlidata.BatchResponse[string, *rootent]{}, nil
			})
		case restli.Method_batch_create:
			restli.RegisterBatchCreate(s.s, segs, none, func(ctx RC, rp *rootrp, _ []*rootent, _ *rootqp) ([]*restlidata.CreatedEntity[string], error) {
				if err := ran(ctx, rp); err != nil {
					return nil, err
				}
				return []*restlidata.CreatedEntity[string]{}, nil
			})
		case restli.Method_batch_delete:
			restli.RegisterBatchDelete(s.s, segs, func(ctx RC, rp *rootrp, _ []string, _ *rootbqp) (*restlidata.BatchResponse[string, *restlidata.BatchEntityUpdateResponse], error) {
				if err := ran(ctx, rp); err != nil {
					return nil, err
				}
				return &restlidata.BatchResponse[string, *restlidata.BatchEntityUpdateResponse]{}, nil
			})
		case restli.Method_batch_update:
			restli.RegisterBatchUpdate(s.s, segs, none, func(ctx RC, rp *rootrp, _ map[string]*rootent, _ *rootbqp) (*restlidata.BatchResponse[string, *restlidata.BatchEntityUpdateResponse], error) {
				if err := ran(ctx, rp); err != nil {
					return nil, err
				}
				return &restlidata.BatchResponse[string, *restlidata.BatchEntityUpdateResponse]{}, nil
			})
		case restli.Method_batch_partial_update:
			restli.RegisterBatchPartialUpdate(s.s, segs, none, func(ctx RC, rp *rootrp, _ map[string]*rootent, _ *rootbqp) (*restlidata.BatchResponse[string, *restlidata.BatchEntityUpdateResponse], error) {
				if err := ran(ctx, rp); err != nil {
					return nil, err
				}
				return &restlidata.BatchResponse[string, *restlidata.BatchEntityUpdateResponse]{}, nil
			})
		case restli.Method_get_all:
			restli.RegisterGetAll(s.s, segs, func(ctx RC, rp *rootrp, _ *rootqp) (*restlidata.Elements[*rootent], error) {
				if err := ran(ctx, rp); err != nil {
					return nil, err
				}
				return &restlidata.Elements[*rootent]{}, nil
			})
		default:
			panic(fmt.Sprint("cannot register method ", r.Method))
		}
	}
}

var implRoot = impl{
	name: "root",
	new:  rootnew,
	tunnel: func(verb, query string, body []byte) ([]byte, http.Header) {
		return restli.EncodeTunnelledQuery(verb, query, body)
	},
	methodName: func(m int) string { return restli.Method(m).String() },
	methodByName: func(n string) int {
		if m, ok := restli.MethodNameMapping[n]; ok {
			return int(m)
		}
		return 0
	},
	nMethods:     int(restli.Method_finder),
	finder:       int(restli.Method_finder),
	action:       int(restli.Method_action),
	methodHeader: restli.MethodHeader,
	errorHeader:  restli.ErrorResponseHeader,
	consts: map[string]int{"get": int(restli.Method_get), "create": int(restli.Method_create), "delete": int(restli.Method_delete),
		"update": int(restli.Method_update), "partial_update": int(restli.Method_partial_update), "batch_get": int(restli.Method_batch_get),
		"batch_create": int(restli.Method_batch_create), "batch_delete": int(restli.Method_batch_delete), "batch_update": int(restli.Method_batch_update),
		"batch_partial_update": int(restli.Method_batch_partial_update), "get_all": int(restli.Method_get_all), "action": int(restli.Method_action),
		"finder": int(restli.Method_finder)},
}
