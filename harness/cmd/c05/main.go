// C05 driver: builds resource trees on the REAL go-restli servers (v2 and root module) through the exported Register*
// functions with recording stubs and filters, drives them in-process (httptest) over the product of the property's
// quantifier, evaluates the property's own decision table (written here from the property text and the Rest.li protocol
// tables, by method NAME) on every request, and writes a stratified subset of the cases for the Coq model
// (coq/Corr/C05Corr.v).
package main

import (
	"bytes"
	"encoding/json"
	"errors"
	"fmt"
	"net/http"
	"net/http/httptest"
	"os"
	"runtime"
	"sort"
	"strings"
	"sync"

	"verif/harness/hx"
)

// ------------------------------------------------------------------------------------------------ shared types

type Seg struct {
	Name string `json:"n"`
	Coll bool   `json:"c"`
}

// one registration: Kind "m" (method), "f" (finder), "a" (action)
type Reg struct {
	Segs   []Seg  `json:"s"`
	Kind   string `json:"k"`
	Method int    `json:"m,omitempty"`
	Name   string `json:"name,omitempty"`
}

// compact JSON: "alpha+/sub-|m|3|" (segments with + collection / - simple, kind, method number, name)
func (r Reg) MarshalJSON() ([]byte, error) {
	var sb strings.Builder
	for i, s := range r.Segs {
		if i > 0 {
			sb.WriteByte('/')
		}
		sb.WriteString(s.Name)
		if s.Coll {
			sb.WriteByte('+')
		} else {
			sb.WriteByte('-')
		}
	}
	return json.Marshal(fmt.Sprintf("%s|%s|%d|%s", sb.String(), r.Kind, r.Method, r.Name))
}

func (r *Reg) UnmarshalJSON(b []byte) error {
	var s string
	if err := json.Unmarshal(b, &s); err != nil {
		return err
	}
	parts := strings.SplitN(s, "|", 4)
	if len(parts) != 4 {
		return fmt.Errorf("bad registration %q", s)
	}
	r.Segs = nil
	if parts[0] != "" {
		for _, sg := range strings.Split(parts[0], "/") {
			if sg == "" {
				return fmt.Errorf("bad registration %q", s)
			}
			r.Segs = append(r.Segs, Seg{sg[:len(sg)-1], sg[len(sg)-1] == '+'})
		}
	}
	r.Kind = parts[1]
	fmt.Sscanf(parts[2], "%d", &r.Method)
	r.Name = parts[3]
	return nil
}

type Target struct {
	Path   []Seg    `json:"path"`
	Method int      `json:"method"`
	Keys   []string `json:"keys"`
	Name   *string  `json:"name,omitempty"`
}

type Event struct {
	K    string `json:"k"` // pre | stub | post
	I    int    `json:"i"`
	Seen []int  `json:"seen"`
}

type Obs struct {
	Status int     `json:"status"` // 0 = 2xx
	Restli bool    `json:"restli"`
	Events []Event `json:"events"`
	Stub   *Target `json:"stub,omitempty"`
	Seen   *Target `json:"seen,omitempty"`
	Note   string  `json:"note,omitempty"`
}

const (
	FPass = iota
	FCtx
	FFailPre
	FFailPost
)

var fkindCoq = []string{"FPass", "FCtx", "FFailPre", "FFailPost"}
var errFilter = errors.New("filter says no")

type server interface {
	Register(r Reg, stubFails bool)
	Handler() http.Handler
	AddToMux(mux *http.ServeMux)
}

type impl struct {
	name         string
	new          func(prefixArg string, prefixed bool, filters []int, h *holder) server
	tunnel       func(verb, query string, body []byte) ([]byte, http.Header)
	methodName   func(int) string
	methodByName func(string) int
	nMethods     int
	finder       int
	action       int
	methodHeader string
	errorHeader  string
	consts       map[string]int // protocol method name -> the module's Method_<name> constant
}

// ------------------------------------------------------------------------------------------------ recorder (one request at a time)

type recorder struct {
	events []Event
	stub   *Target
	facts  []*Target
	noFact bool
}

// the recorder of the request in flight on one server (servers are driven one request at a time, different servers in
// parallel)
type holder struct{ cur *recorder }

func (r *recorder) event(k string, i int, seen []int, facts *Target) {
	r.events = append(r.events, Event{k, i, seen})
	if facts == nil {
		r.noFact = true
	} else {
		r.facts = append(r.facts, facts)
	}
}

func (r *recorder) stubRan(id Target, keys []string, seen []int, facts *Target) {
	id.Keys = keys
	if r.stub != nil {
		id.Keys = append(id.Keys, "<second stub in one request>")
	}
	r.stub = &id
	r.event("stub", 0, seen, facts)
}

func sameTarget(a, b *Target) bool {
	x, _ := json.Marshal(a)
	y, _ := json.Marshal(b)
	return string(x) == string(y)
}

// ------------------------------------------------------------------------------------------------ trees (the oracle's own view of what was registered)

type Node struct {
	Name    string
	Coll    bool
	Methods map[int]bool
	Finders map[string]bool
	Actions map[string]bool
	Subs    map[string]*Node
}

func newNode(s Seg) *Node {
	return &Node{s.Name, s.Coll, map[int]bool{}, map[string]bool{}, map[string]bool{}, map[string]*Node{}}
}

func apply(roots map[string]*Node, r Reg) {
	sibs := roots
	var n *Node
	for _, s := range r.Segs {
		if sibs[s.Name] == nil {
			sibs[s.Name] = newNode(s)
		}
		n = sibs[s.Name]
		sibs = n.Subs
	}
	switch r.Kind {
	case "m":
		n.Methods[r.Method] = true
	case "f":
		n.Finders[r.Name] = true
	case "a":
		n.Actions[r.Name] = true
	}
}

// ------------------------------------------------------------------------------------------------ configuration and request

type Cfg struct {
	Impl      string `json:"impl"`
	PrefixArg string `json:"prefix_arg"`
	Prefixed  bool   `json:"prefixed"` // NewPrefixedServer(prefix_arg) instead of NewServer()
	Mux       bool   `json:"mux"`
	Filters   []int  `json:"filters"`
	StubFails bool   `json:"stub_fails"`
	Which     int    `json:"which"` // 0: the handler obtained before the late registrations, 1: one obtained after them
}

type Req struct {
	Verb   string `json:"verb"`
	Header string `json:"header"`
	Path   string `json:"path"` // full escaped path
	Query  string `json:"query"`
	Body   bool   `json:"body"`
	Tunnel bool   `json:"tunnel"`
}

type caseDesc struct {
	Cfg    Cfg   `json:"cfg"`
	Regs   []Reg `json:"regs"`
	Late   []Reg `json:"late"`
	Req    Req   `json:"req"`
	Obs    Obs   `json:"obs"`
	Unspec bool  `json:"unspecified,omitempty"`
}

func normPrefix(c Cfg) string {
	if !c.Prefixed {
		return "/"
	}
	p := c.PrefixArg
	if p == "" {
		p = "/"
	}
	if !strings.HasSuffix(p, "/") {
		p += "/"
	}
	return p
}

// ------------------------------------------------------------------------------------------------ the property's decision table (by name)

var protoVerb = map[string]string{"get": "GET", "batch_get": "GET", "get_all": "GET", "finder": "GET",
	"create": "POST", "batch_create": "POST", "partial_update": "POST", "batch_partial_update": "POST", "action": "POST",
	"update": "PUT", "batch_update": "PUT", "delete": "DELETE", "batch_delete": "DELETE"}

// 1: the URI carries an entity key, 0: it must not, 2: either
var protoKey = map[string]int{"get": 1, "update": 1, "partial_update": 1, "delete": 1, "action": 2,
	"create": 0, "batch_get": 0, "batch_create": 0, "batch_delete": 0, "batch_update": 0, "batch_partial_update": 0, "get_all": 0, "finder": 0}

// header-less inference on collection-like resources: verb, key, q (non-empty), ids -> method; * = any
var inferRows = [][5]string{
	{"GET", "1", "*", "*", "get"}, {"GET", "0", "1", "*", "finder"}, {"GET", "0", "0", "1", "batch_get"}, {"GET", "0", "0", "0", "get_all"},
	{"PUT", "1", "*", "0", "update"}, {"PUT", "0", "*", "1", "batch_update"},
	{"DELETE", "1", "*", "0", "delete"}, {"DELETE", "0", "*", "1", "batch_delete"},
}

// 1: needs a JSON body, 0: refuses a body, 2: does not care (stub actions take no parameters)
var bodyRule = map[string]int{"create": 1, "update": 1, "partial_update": 1, "batch_create": 1, "batch_update": 1, "batch_partial_update": 1,
	"get": 0, "delete": 0, "get_all": 0, "batch_get": 0, "batch_delete": 0, "finder": 0, "action": 2}

func b01(b bool) string {
	if b {
		return "1"
	}
	return "0"
}

func validKey(k string) bool {
	depth := 0
	for i := 0; i < len(k); i++ {
		switch k[i] {
		case '(':
			depth++
		case ')':
			depth--
			if depth < 0 {
				return false
			}
		}
	}
	return true
}

func parseQuery(q string) (map[string]string, bool) {
	m := map[string]string{}
	for _, part := range strings.Split(q, "&") {
		if part == "" {
			continue
		}
		k, v := part, ""
		if i := strings.Index(part, "="); i >= 0 {
			k, v = part[:i], part[i+1:]
		}
		if !validKey(v) {
			return nil, false
		}
		m[k] = v
	}
	return m, true
}

func muxClean(p string) bool {
	if !strings.HasPrefix(p, "/") {
		return false
	}
	segs := strings.Split(p[1:], "/")
	for i, s := range segs {
		if s == "." || s == ".." {
			return false
		}
		if s == "" && i != len(segs)-1 {
			return false
		}
	}
	return true
}

func hasEmptySegment(p string) bool {
	segs := strings.Split(strings.TrimPrefix(p, "/"), "/")
	for i, s := range segs {
		if s == "" && i != len(segs)-1 {
			return true
		}
	}
	return false
}

type routeRes struct {
	dotSegment bool
	status     int // 0 = routed
	restli     bool
	target     *Target
	unspec     bool
	class      string
}

// the property, operationally: which method (if any) the request is routed to on the tree as it was when the handler was
// obtained
func oracleRoute(im *impl, roots map[string]*Node, cfg Cfg, rq Req) routeRes {
	prefix := normPrefix(cfg)
	if cfg.Mux && !muxClean(rq.Path) {
		if !hasEmptySegment(rq.Path) {
			// only "." / ".." segments: a legitimate Rest.li path (string key "." or ".."); the property requires it to be
			// routed as by the bare handler
			bare := cfg
			bare.Mux = false
			r := oracleRoute(im, roots, bare, rq)
			r.dotSegment = true
			return r
		}
		return routeRes{status: 301, class: "mux-redirect"} // "//": not a Rest.li path (an empty key is written '')
	}
	if !strings.HasPrefix(rq.Path, prefix) {
		if strings.Contains(rq.Path, prefix) {
			return routeRes{status: 404, class: "outside-prefix:prefix-further-down"}
		}
		return routeRes{status: 404, class: "outside-prefix"}
	}
	segs := strings.Split(rq.Path[len(prefix):], "/")
	sibs := roots
	var n *Node
	path := []Seg{}
	keys := []string{}
	hasKey := false
	for depth := 0; ; depth++ {
		n = sibs[segs[0]]
		if n == nil {
			return routeRes{status: 404, restli: depth > 0, class: "unknown-resource"}
		}
		path = append(path, Seg{n.Name, n.Coll})
		segs = segs[1:]
		hasKey = false
		if n.Coll && len(segs) > 0 {
			if !validKey(segs[0]) {
				if len(segs) > 1 {
					return routeRes{status: 400, restli: true, class: "malformed-key:parent"} // a sub-resource follows
				}
				return routeRes{status: 400, restli: true, class: "malformed-key"}
			}
			keys = append(keys, segs[0])
			segs = segs[1:]
			hasKey = true
		}
		if len(segs) == 0 {
			break
		}
		sibs = n.Subs
	}
	params, ok := parseQuery(rq.Query)
	if !ok {
		return routeRes{status: 400, restli: true, class: "bad-query"}
	}
	q, action := params["q"], params["action"]
	_, hasIds := params["ids"]
	_, named := protoVerb[rq.Header]
	method := ""
	unspec := false
	if n.Coll {
		if named {
			method = rq.Header
			unspec = protoVerb[method] != rq.Verb
		} else {
			for _, r := range inferRows {
				if r[0] == rq.Verb && (r[1] == "*" || r[1] == b01(hasKey)) && (r[2] == "*" || r[2] == b01(q != "")) && (r[3] == "*" || r[3] == b01(hasIds)) {
					method = r[4]
					break
				}
			}
			if method == "" {
				return routeRes{status: 400, restli: true, class: "no-method-inferred"}
			}
		}
		if k := protoKey[method]; (k == 1 && !hasKey) || (k == 0 && hasKey) {
			return routeRes{status: 400, restli: true, class: "entity-presence", unspec: unspec}
		}
	} else {
		switch rq.Verb {
		case "GET":
			method = "get"
		case "PUT":
			method = "update"
		case "DELETE":
			method = "delete"
		case "POST":
			if action != "" {
				method = "action"
			} else {
				method = "partial_update"
			}
		default:
			if named {
				method = rq.Header
				unspec = true
			} else {
				return routeRes{status: 400, restli: true, class: "no-method-for-verb"}
			}
		}
	}
	t := &Target{Path: path, Method: im.consts[method], Keys: keys}
	switch method {
	case "finder":
		if !n.Finders[q] {
			return routeRes{status: 400, restli: true, class: "finder-not-registered", unspec: unspec}
		}
		t.Name = &q
	case "action":
		if !n.Actions[action] {
			return routeRes{status: 400, restli: true, class: "action-not-registered", unspec: unspec}
		}
		t.Name = &action
	default:
		if !n.Methods[im.consts[method]] {
			return routeRes{status: 400, restli: true, class: "method-not-registered", unspec: unspec}
		}
	}
	return routeRes{target: t, unspec: unspec, class: "routed:" + method + ":" + map[bool]string{true: "coll", false: "simple"}[n.Coll] + ":key" + b01(hasKey)}
}

func methodNameOf(im *impl, m int) string {
	for n, v := range im.consts {
		if v == m {
			return n
		}
	}
	return ""
}

// filters run before the method in registration order (stop at the first failure) and, after it succeeds, in reverse order
func oracleObs(im *impl, cfg Cfg, rq Req, r routeRes) Obs {
	if r.target == nil {
		return Obs{Status: r.status, Restli: r.restli, Events: []Event{}}
	}
	o := Obs{Events: []Event{}}
	seen := []int{}
	cp := func() []int { return append([]int{}, seen...) }
	for i, k := range cfg.Filters {
		o.Events = append(o.Events, Event{"pre", i, cp()})
		o.Seen = r.target
		if k == FFailPre {
			o.Status = 500
			return o
		}
		if k == FCtx {
			seen = append(seen, i)
		}
	}
	if br := bodyRule[methodNameOf(im, r.target.Method)]; (br == 1 && !rq.Body) || (br == 0 && rq.Body) {
		o.Status, o.Restli = 400, true
		return o
	}
	o.Events = append(o.Events, Event{"stub", 0, cp()})
	o.Stub, o.Seen = r.target, r.target
	if cfg.StubFails {
		o.Status, o.Restli = 418, true
		return o
	}
	for i := len(cfg.Filters) - 1; i >= 0; i-- {
		o.Events = append(o.Events, Event{"post", i, cp()})
		if cfg.Filters[i] == FFailPost {
			o.Status = 500
			return o
		}
	}
	return o
}

// ------------------------------------------------------------------------------------------------ running the real server

type instance struct {
	im      *impl
	cfg     Cfg
	h       *holder
	handler http.Handler
	roots   map[string]*Node // the oracle's view at the moment the handler was obtained
}

func build(im *impl, cfg Cfg, regs, late []Reg) *instance {
	hd := &holder{}
	s := im.new(cfg.PrefixArg, cfg.Prefixed, cfg.Filters, hd)
	roots := map[string]*Node{}
	for _, r := range regs {
		s.Register(r, cfg.StubFails)
		apply(roots, r)
	}
	get := func() http.Handler {
		if cfg.Mux {
			mux := http.NewServeMux()
			s.AddToMux(mux)
			return mux
		}
		return s.Handler()
	}
	inst := &instance{im: im, cfg: cfg, h: hd}
	if cfg.Which == 0 {
		inst.handler = get()
		inst.roots = roots
		roots = nil
	}
	for _, r := range late {
		s.Register(r, cfg.StubFails)
		if roots != nil {
			apply(roots, r)
		}
	}
	if cfg.Which != 0 {
		_ = s.Handler() // an unrelated handler obtained in between
		inst.handler = get()
		inst.roots = roots
	}
	return inst
}

// "provided ... the body decodes": the JSON body sent is one the method the property routes the request to can decode
// (the batch envelopes refuse unknown fields)
func bodyFor(im *impl, r routeRes) string {
	if r.target != nil {
		switch methodNameOf(im, r.target.Method) {
		case "batch_create":
			return `{"elements":[]}`
		case "batch_update", "batch_partial_update":
			return `{"entities":{}}`
		}
	}
	return `{}`
}

func (in *instance) run(rq Req, jsonBody string) (o Obs) {
	var body []byte
	if rq.Body {
		body = []byte(jsonBody)
	}
	verb, target := rq.Verb, rq.Path
	hdr := http.Header{}
	if rq.Tunnel {
		nb, h := in.im.tunnel(rq.Verb, rq.Query, body)
		body, hdr, verb = nb, h, "POST"
	} else if rq.Query != "" {
		target += "?" + rq.Query
	}
	var rd *bytes.Reader
	if body != nil {
		rd = bytes.NewReader(body)
	}
	var req *http.Request
	func() {
		defer func() {
			if r := recover(); r != nil {
				o.Note = fmt.Sprint("cannot build request: ", r)
			}
		}()
		if rd != nil {
			req = httptest.NewRequest(verb, target, rd)
		} else {
			req = httptest.NewRequest(verb, target, nil)
		}
	}()
	if req == nil {
		return o
	}
	if req.URL.EscapedPath() != rq.Path || (!rq.Tunnel && req.URL.RawQuery != rq.Query) {
		o.Note = "net/url re-encoded the request target"
		return o
	}
	for k, v := range hdr {
		req.Header[k] = v
	}
	if rq.Header != "" {
		req.Header.Set(in.im.methodHeader, rq.Header)
	}
	cur := &recorder{}
	in.h.cur = cur
	rec := httptest.NewRecorder()
	func() {
		defer func() {
			if r := recover(); r != nil {
				o.Note = fmt.Sprint("panic escaped ServeHTTP: ", r)
			}
		}()
		in.handler.ServeHTTP(rec, req)
	}()
	o.Status = rec.Code
	if o.Status >= 200 && o.Status < 300 {
		o.Status = 0
	}
	o.Restli = rec.Header().Get(in.im.errorHeader) == "true"
	o.Events = cur.events
	if o.Events == nil {
		o.Events = []Event{}
	}
	o.Stub = cur.stub
	if len(cur.facts) > 0 {
		o.Seen = cur.facts[0]
		for _, f := range cur.facts[1:] {
			if !sameTarget(f, o.Seen) {
				o.Note = "filters and method saw different routing facts"
			}
		}
	}
	if cur.noFact {
		o.Note = "routing facts missing from the context"
	}
	return o
}

// ------------------------------------------------------------------------------------------------ comparison with the oracle

func evString(es []Event) string {
	var sb strings.Builder
	for _, e := range es {
		fmt.Fprintf(&sb, "%s%d%v;", e.K, e.I, e.Seen)
	}
	return sb.String()
}

func statusClass(s int) string {
	if s == 0 {
		return "2xx"
	}
	return fmt.Sprint(s)
}

const site = "v2/restli/handler.go:ServeHTTP/receive"

func compare(rep *hx.Report, im *impl, d *caseDesc, r routeRes, want Obs) {
	got := d.Obs
	if got.Note != "" {
		rep.Fail("observation:"+strings.SplitN(got.Note, ":", 2)[0], got.Note, site, d, got)
		return
	}
	if r.dotSegment {
		// through a ServeMux: must behave like the bare handler
		if got.Status == 301 || !sameTarget(got.Stub, want.Stub) || got.Status != want.Status {
			rep.Fail("mount:servemux-redirects-dot-segment", "through AddToMux / http.ServeMux a path with a '.' or '..' segment (e.g. the string entity key \".\", which the go-restli client sends unescaped) is not routed as by the bare handler: ServeMux answers 301 to the cleaned path",
				"v2/restli/handler.go:AddToMux (net/http ServeMux path cleaning) + v2/restlicodec/path_writer.go:unescapedPathCharacters", d, map[string]interface{}{"want": want, "got": got})
		}
		return
	}
	if r.unspec {
		// left unspecified by the property: only the invariants that hold regardless
		if got.Stub == nil && len(got.Events) == 0 && !(got.Status >= 400 && got.Status < 500) {
			rep.Fail("unspecified-combination:not-4xx", "a request that ran nothing was not answered 4xx", site, d, got)
		}
		return
	}
	mname := func(t *Target) string {
		if t == nil {
			return "none"
		}
		return methodNameOf(im, t.Method)
	}
	kind := "unrouted"
	if r.target != nil {
		kind = "routed"
	}
	switch {
	case !sameTarget(got.Stub, want.Stub):
		rep.Fail(fmt.Sprintf("routed-to:want=%s,got=%s", mname(want.Stub), mname(got.Stub)),
			"the resource method that ran is not the one the property's table routes the request to ("+r.class+")", site, d, map[string]interface{}{"want": want, "got": got})
	case evString(got.Events) != evString(want.Events):
		rep.Fail("filter-trace:"+kind, "filters / method did not run in the order the property requires (PreRequest in order, method, PostRequest reversed after success; nothing for an unrouted request) ("+r.class+")", site, d, map[string]interface{}{"want": want, "got": got})
	case !sameTarget(got.Seen, want.Seen):
		rep.Fail("routing-facts", "filters / method did not see exactly the routed method, resource path, entity keys and finder/action name ("+r.class+")", site, d, map[string]interface{}{"want": want, "got": got})
	case got.Status != want.Status:
		rep.Fail(fmt.Sprintf("status:want=%s,got=%s,%s", statusClass(want.Status), statusClass(got.Status), kind),
			"wrong status (404 for unknown resources and sub-resources, 400 otherwise for unrouted requests) ("+r.class+")", site, d, map[string]interface{}{"want": want, "got": got})
	case got.Restli != want.Restli:
		rep.Fail(fmt.Sprintf("error-header:want=%v,%s", want.Restli, kind), "X-RestLi-Error-Response header presence differs ("+r.class+")", site, d, map[string]interface{}{"want": want, "got": got})
	}
}

// ------------------------------------------------------------------------------------------------ Coq terms

type interner struct {
	ids   map[string]string
	order []string
}

func (it *interner) s(v string) string {
	if v == "" {
		return "[]"
	}
	if id, ok := it.ids[v]; ok {
		return id
	}
	id := fmt.Sprintf("s%d", len(it.order))
	it.ids[v] = id
	it.order = append(it.order, v)
	return id
}

func (it *interner) segs(l []Seg) string {
	items := make([]string, len(l))
	for i, s := range l {
		items[i] = "(" + it.s(s.Name) + "," + hx.CoqBool(s.Coll) + ")"
	}
	return "[" + strings.Join(items, ";") + "]"
}

func coqMethod(im *impl, m int) string { return "Method_" + im.methodName(m) }

func (it *interner) reg(im *impl, r Reg) string {
	w := ""
	switch r.Kind {
	case "m":
		w = "(RMethod " + coqMethod(im, r.Method) + ")"
	case "f":
		w = "(RFinder " + it.s(r.Name) + ")"
	case "a":
		w = "(RAction " + it.s(r.Name) + ")"
	}
	return "OpRegister " + it.segs(r.Segs) + " " + w
}

func (it *interner) ops(im *impl, regs, late []Reg, which int) string {
	var items []string
	for _, r := range regs {
		items = append(items, it.reg(im, r))
	}
	if which == 0 {
		items = append(items, "OpHandler")
	}
	for _, r := range late {
		items = append(items, it.reg(im, r))
	}
	if which != 0 {
		items = append(items, "OpHandler", "OpHandler")
	}
	return "[" + strings.Join(items, ";\n  ") + "]"
}

func coqNats(l []int) string {
	items := make([]string, len(l))
	for i, n := range l {
		items[i] = fmt.Sprint(n)
	}
	return "[" + strings.Join(items, ";") + "]"
}

func (it *interner) target(im *impl, t *Target) string {
	if t == nil {
		return "None"
	}
	keys := make([]string, len(t.Keys))
	for i, k := range t.Keys {
		keys[i] = it.s(k)
	}
	name := "None"
	if t.Name != nil {
		name = "(Some " + it.s(*t.Name) + ")"
	}
	return "(Some (" + it.segs(t.Path) + "," + coqMethod(im, t.Method) + ",[" + strings.Join(keys, ";") + "]," + name + "))"
}

func coqVerb(v string) string {
	switch v {
	case "GET":
		return "VGet"
	case "POST":
		return "VPost"
	case "PUT":
		return "VPut"
	case "DELETE":
		return "VDelete"
	}
	return "VOther"
}

func (it *interner) caseTerm(im *impl, opsName string, d *caseDesc) string {
	fs := make([]string, len(d.Cfg.Filters))
	for i, k := range d.Cfg.Filters {
		fs[i] = fkindCoq[k]
	}
	evs := make([]string, len(d.Obs.Events))
	for i, e := range d.Obs.Events {
		switch e.K {
		case "pre":
			evs[i] = fmt.Sprintf("EvPre %d %s", e.I, coqNats(e.Seen))
		case "post":
			evs[i] = fmt.Sprintf("EvPost %d %s", e.I, coqNats(e.Seen))
		default:
			evs[i] = "EvStub " + coqNats(e.Seen)
		}
	}
	prefixArg := d.Cfg.PrefixArg
	if !d.Cfg.Prefixed {
		prefixArg = "/"
	}
	which := 0
	if d.Cfg.Which != 0 {
		which = 1
	}
	return fmt.Sprintf("mkc %s [%s] %s %d %s %s (mkr %s %s %s %s %s) (mko %d %s [%s] %s %s)",
		it.s(prefixArg), strings.Join(fs, ";"), opsName, which, map[bool]string{true: "Mux", false: "Bare"}[d.Cfg.Mux], hx.CoqBool(d.Cfg.StubFails),
		coqVerb(d.Req.Verb), it.s(d.Req.Header), it.s(d.Req.Path), it.s(d.Req.Query), hx.CoqBool(d.Req.Body),
		d.Obs.Status, hx.CoqBool(d.Obs.Restli), strings.Join(evs, ";"), it.target(im, d.Obs.Stub), it.target(im, d.Obs.Seen))
}

// ------------------------------------------------------------------------------------------------ generation

type treeSpec struct {
	regs []Reg
	late []Reg
	// node paths (for request paths)
	nodes [][]Seg
	label string
}

var rootNames = []string{"alpha", "beta", "gamma"}
var subNames = []string{"sub", "item"}

const ghostSub, ghostRoot = "ghost", "ghostroot"

// method-set designs (by protocol name); "F:x" finder x, "A:x" action x
var designs = [][]string{
	{"get", "create", "delete", "update", "partial_update", "batch_get", "batch_create", "batch_delete", "batch_update", "batch_partial_update", "get_all", "F:search", "F:byTag", "A:act", "A:other"},
	{},
	{"get", "F:search", "A:act"},
	{"get_all", "batch_get", "create", "update", "delete"},
	{"create", "batch_create", "partial_update", "batch_partial_update", "A:act"},
	{"delete", "batch_delete", "update", "batch_update", "F:search"},
	{"get", "get_all", "batch_get", "F:search", "F:byTag"},
	{"get", "create", "delete", "update", "partial_update", "batch_get", "batch_create", "batch_delete", "batch_update", "batch_partial_update", "get_all"},
	{"update", "partial_update", "get", "delete", "A:act", "A:other"},
	{"F:byTag", "A:other", "batch_update"},
	{"get_all"},
	{"partial_update", "get"},
}

func regsFor(im *impl, segs []Seg, design []string) []Reg {
	var out []Reg
	for _, m := range design {
		cp := append([]Seg{}, segs...)
		switch {
		case strings.HasPrefix(m, "F:"):
			out = append(out, Reg{Segs: cp, Kind: "f", Method: im.finder, Name: m[2:]})
		case strings.HasPrefix(m, "A:"):
			out = append(out, Reg{Segs: cp, Kind: "a", Method: im.action, Name: m[2:]})
		default:
			out = append(out, Reg{Segs: cp, Kind: "m", Method: im.consts[m]})
		}
	}
	return out
}

// shapes with <= 3 nodes: parent index of each node (-1 = root); every {collection,simple} assignment
var shapes = [][]int{{-1}, {-1, -1}, {-1, 0}, {-1, -1, -1}, {-1, 0, -1}, {-1, 0, 0}, {-1, 0, 1}}

// deep shapes: sibling sub-resources below one parent at depth 2..7 (depth = number of path segments), with names sharing
// prefixes (sub / subs / su), children below a sibling, two roots with sibling chains.  Not every {collection,simple}
// assignment (2^8): all collections plus seeded assignments.
var deepShapes = [][]int{
	{-1, 0, 1, 2, 2},           // a/b/c/{x,y}: two siblings at depth 4
	{-1, 0, 1, 2, 2, 2, 3},     // three siblings at depth 4, a child (depth 5) below the first one
	{-1, 0, 0, 1, 1, 2, 2},     // siblings at depth 2 and below each of them at depth 3
	{-1, 0, 1, 2, 3, 4, 5, 5},  // two siblings at depth 7
	{-1, -1, 0, 0, 2, 2, 4, 4}, // two roots; sibling pairs at depth 2, 3 and 4 below the first
}
var deepNames = []string{"sub", "subs", "su", "item", "items"}

type shapeSpec struct {
	parents []int
	masks   []int // collection bit per node
	deep    bool
}

func allShapes(r *hx.Rand, thorough bool) []shapeSpec {
	var out []shapeSpec
	for _, sh := range shapes {
		sp := shapeSpec{parents: sh}
		for k := 0; k < 1<<len(sh); k++ {
			sp.masks = append(sp.masks, k)
		}
		out = append(out, sp)
	}
	for _, sh := range deepShapes {
		all := 1<<len(sh) - 1
		sp := shapeSpec{parents: sh, deep: true, masks: []int{all, r.Intn(all + 1)}}
		if thorough {
			sp.masks = append(sp.masks, 0x55&all, r.Intn(all+1))
		}
		out = append(out, sp)
	}
	return out
}

func makeTrees(im *impl, r *hx.Rand, variants int) []treeSpec {
	var out []treeSpec
	di := 0
	for v := 0; v < variants; v++ {
		for _, spec := range allShapes(r, variants > 1) {
			sh := spec.parents
			if spec.deep && v > 0 {
				continue // the deep shapes once (their request product is 3-4 times that of a 3-node tree)
			}
			for _, kinds := range spec.masks {
				paths := make([][]Seg, len(sh))
				nRoot, nSub := 0, 0
				nKids := make([]int, len(sh))
				var regs []Reg
				label := fmt.Sprintf("shape%v/kinds%0*b/v%d", sh, len(sh), kinds, v)
				for i, p := range sh {
					coll := kinds&(1<<i) != 0
					if p < 0 {
						paths[i] = []Seg{{rootNames[nRoot], coll}}
						nRoot++
					} else if spec.deep {
						// the k-th child of a node: sub, subs, su, ... (siblings whose names are prefixes of each other)
						paths[i] = append(append([]Seg{}, paths[p]...), Seg{deepNames[nKids[p]%len(deepNames)], coll})
						nKids[p]++
					} else {
						paths[i] = append(append([]Seg{}, paths[p]...), Seg{subNames[nSub%2], coll})
						nSub++
					}
					d := designs[di%len(designs)]
					if spec.deep && len(d) < 3 {
						d = designs[(di+2)%len(designs)] // deep nodes always have methods to route to
					}
					if v > 0 && r.Chance(50) {
						// a random subset of the full design
						d = nil
						for _, m := range designs[0] {
							if r.Chance(45) {
								d = append(d, m)
							}
						}
					}
					di++
					regs = append(regs, regsFor(im, paths[i], d)...)
				}
				// registration order is irrelevant to the result: shuffle (a parent may be created by its child's registration)
				for i := len(regs) - 1; i > 0; i-- {
					j := r.Intn(i + 1)
					regs[i], regs[j] = regs[j], regs[i]
				}
				// late registrations (after the handler was obtained): a method / finder / action missing so far on the
				// first node, a new sub-resource, a new root resource
				t := treeSpec{regs: regs, nodes: paths, label: label}
				roots := map[string]*Node{}
				for _, rg := range regs {
					apply(roots, rg)
				}
				first := paths[0]
				n0 := roots[first[0].Name]
				for _, m := range []string{"get", "create", "get_all", "update", "delete"} {
					if n0 == nil || !n0.Methods[im.consts[m]] {
						t.late = append(t.late, regsFor(im, first, []string{m})...)
						break
					}
				}
				if n0 == nil || !n0.Finders["search"] {
					t.late = append(t.late, regsFor(im, first, []string{"F:search"})...)
				}
				if n0 == nil || !n0.Actions["act"] {
					t.late = append(t.late, regsFor(im, first, []string{"A:act"})...)
				}
				t.late = append(t.late, regsFor(im, append(append([]Seg{}, first...), Seg{ghostSub, true}), []string{"get", "get_all"})...)
				if last := paths[len(paths)-1]; len(last) > 2 {
					// a new sibling of the deepest node (must not show through, nor disturb, a handler obtained earlier)
					t.late = append(t.late, regsFor(im, append(append([]Seg{}, last[:len(last)-1]...), Seg{ghostSub, false}), []string{"get", "update"})...)
				}
				t.late = append(t.late, regsFor(im, []Seg{{ghostRoot, false}}, []string{"get"})...)
				out = append(out, t)
			}
		}
	}
	return out
}

func segNames(p []Seg) string {
	names := make([]string, len(p))
	for i, s := range p {
		names[i] = s.Name
	}
	return strings.Join(names, "/")
}

func relPaths(t treeSpec, thorough bool) []string {
	seen := map[string]bool{}
	var out []string
	add := func(p string) {
		if !seen[p] {
			seen[p] = true
			out = append(out, p)
		}
	}
	keyFor := []string{"1", "(a:1,b:x)", "a%20b"}
	badKeys := []string{")bad", "1)"}
	for ni, np := range t.nodes {
		// the path of the node with well-formed parent keys; bad >= 0: the key of the parent at that position is malformed
		build := func(bad int) string {
			b := ""
			for i, s := range np {
				if i > 0 {
					b += "/"
				}
				b += s.Name
				if i < len(np)-1 && s.Coll {
					if i == bad {
						b += "/" + badKeys[(ni+i)%len(badKeys)]
					} else {
						b += "/" + keyFor[(ni+i)%len(keyFor)]
					}
				}
			}
			return b
		}
		base := build(-1)
		// a malformed key at every NON-final position of the nested path (the final one is base/)bad below): the resource
		// itself, and - for the first such position, every position in the thorough tier - its entity
		first := true
		for i := 0; i < len(np)-1; i++ {
			if np[i].Coll {
				add(build(i))
				if first || thorough {
					add(build(i) + "/7")
				}
				first = false
			}
		}
		add(base)
		add(base + "/")
		add(base + "/7")
		add(base + "/7/" + ghostSub)
		add(base + "/" + ghostSub)
		add(base + "/)bad")
		add(base + "/)bad/" + ghostSub) // a malformed key in front of an unknown sub-resource
		add(base + "/.")
		if thorough {
			add(base + "/7/")
			add(base + "/7/" + ghostSub + "/1")
			add(base + "/(k:(x:1))")
			add(base + "/nosuch/1")
		}
	}
	add("")
	add(ghostRoot)
	add(ghostRoot + "/1")
	add("%61lpha")
	add("alpha//")
	add("alpha/./sub")
	if thorough {
		add("alpha/../alpha")
		add("nosuch/1/sub")
		add("/alpha")
	}
	return out
}

var verbsQuick = []string{"GET", "POST", "PUT", "DELETE", "PATCH"}
var queriesQuick = []string{"", "q=search", "q=nosuch", "q=", "ids=List(1,2)", "action=act", "action=nosuch", "q=search&ids=List(1)", "x=)bad", "q=nosuch&q=search"}
var queriesMore = []string{"ids=", "q=search&action=act", "ids=List(1)&action=act", "fields=a", "&&q=search&", "action=", "q=byTag&x=(a:1)"}

func headerValues(thorough bool) []string {
	h := []string{""}
	names := make([]string, 0, len(protoVerb))
	for n := range protoVerb {
		names = append(names, n)
	}
	sort.Strings(names)
	h = append(h, names...)
	h = append(h, "bogus")
	if thorough {
		h = append(h, "Unknown", "GET", "Get")
	}
	return h
}

var filterSets = [][]int{{}, {FPass}, {FCtx, FPass}, {FPass, FCtx, FPass}, {FFailPre}, {FPass, FFailPre, FCtx}, {FCtx, FCtx, FFailPost}, {FFailPost, FPass},
	{FCtx}, {FPass, FPass, FPass}, {FCtx, FFailPre}, {FFailPost, FFailPost, FCtx}, {FCtx, FPass, FFailPre}}

type mountSpec struct {
	prefixArg string
	prefixed  bool
	mux       bool
}

var mounts = []mountSpec{{"/", false, false}, {"/", false, true}, {"/api", true, false}, {"/api/v1/", true, true}, {"", true, false}, {"/p", true, true}}

func mix(a, b uint64) uint64 {
	z := a*0x9E3779B97F4A7C15 + b + 0x632BE59BD9B4E019
	z = (z ^ (z >> 30)) * 0xBF58476D1CE4E5B9
	z = (z ^ (z >> 27)) * 0x94D049BB133111EB
	return z ^ (z >> 31)
}

func main() {
	cfg := hx.ParseFlags()
	rep := hx.NewReport("resource trees: every shape with <= 3 nodes ({1 root},{2 roots},{root>sub},{3 roots},{root>sub, root},{root>sub,sub},{root>sub>sub}) x every {collection,simple} assignment, plus deep shapes (5-8 nodes: two / three sibling sub-resources at depth 4 with a child at depth 5, sibling pairs at depths 2 and 3, at depth 7, two roots with sibling pairs at depths 2-4; sibling names are prefixes of each other: sub, subs, su; all collections and seeded {collection,simple} assignments; late registration of a new sibling of the deepest node) x method/finder/action subsets from a 12-row covering design (thorough: plus seeded random subsets), registered in shuffled order on the REAL v2 and root-module servers; " +
		"requests: verb x X-RestLi-Method value (absent, the 13 names, unknown) x path shape (resource, trailing slash, key, key/sub-resource, unknown sub-resource, malformed key at the final and at every non-final position of a nested path, malformed key before an unknown sub-resource, prefix only, the prefix further down the path / twice / glued to another segment, unknown root, escaped root name, empty and dot segments) x query (q registered/unregistered/empty, ids, action, combinations, duplicate, invalid) - FULL product on every tree for the first configuration, a deterministic 1/8 sample for the others - x tunnelled x body x filter lists (0-3 of passing/context-adding/failing-pre/failing-post) x mount (bare, ServeMux, prefix, prefix+ServeMux) x method failing x handler obtained before/after late registrations. " +
		"non-trivial = the request is routed to a method (a stub ran or was about to run) or is rejected below the root level; distinct by (tree, configuration, request)")
	r := hx.NewRand(cfg.Seed)
	impls := []*impl{&implV2, &implRoot}

	if cfg.Replay != "" {
		replay(cfg, rep, impls)
		return
	}

	var picked []pend
	thorough := cfg.Thorough()
	variants := 1
	if thorough {
		variants = 2
	}
	headers := headerValues(thorough)
	verbs := verbsQuick
	queries := queriesQuick
	if thorough {
		verbs = append(append([]string{}, verbs...), "OPTIONS")
		queries = append(append([]string{}, queries...), queriesMore...)
	}
	stride := uint64(16)
	nCfgs := 6
	coqStride := uint64(211)
	classCap := 1
	if thorough {
		nCfgs = 10
		stride = 12
		coqStride = 307
		classCap = 2
	}
	// the witness of Props/C05.v mount_independent_refuted, replayed on both implementations first: collection a with
	// get, GET /a/. through the bare handler (routed to get with key ".") and through a ServeMux (301)
	for _, im := range impls {
		w := map[string]interface{}{}
		for _, mux := range []bool{false, true} {
			d := &caseDesc{Cfg: Cfg{Impl: im.name, PrefixArg: "/", Mux: mux, Filters: []int{}},
				Regs: regsFor(im, []Seg{{"a", true}}, []string{"get"}), Req: Req{Verb: "GET", Path: "/a/."}}
			evalCase(rep, im, d)
			w[map[bool]string{false: "bare", true: "mux"}[mux]] = d.Obs
			picked = append(picked, pend{im, "witness/" + im.name, d})
		}
		rep.Extra["witness_mount_independent_refuted_"+im.name] = w
	}
	type failRec struct {
		sig, what string
		d         *caseDesc
		info      interface{}
	}
	type result struct {
		counts  map[string]int
		fails   []failRec
		evals   int
		nontriv int
		picked  []pend
		samples []*caseDesc
	}
	type job struct {
		im *impl
		ti int
		t  treeSpec
	}
	var jobs []job
	for ii, im := range impls {
		trees := makeTrees(im, r.Fork(), variants)
		for i, t := range trees {
			if ii == 1 && ((!thorough && i%4 != 0) || (thorough && i%2 != 0)) {
				// the root module runs the same code (see Props/C05.v root_module_same): every fourth tree in the quick
				// tier, every second one in the thorough tier
				continue
			}
			jobs = append(jobs, job{im, i, t})
		}
	}
	results := make([]*result, len(jobs))
	process := func(jb job) *result {
		im, ti, t := jb.im, jb.ti, jb.t
		res := &result{counts: map[string]int{}}
		lrep := hx.NewReport("")
		classSeen := map[string]int{}
		rels := relPaths(t, thorough)
		deepThorough := thorough && len(t.nodes) > 3
		for ci := 0; ci < nCfgs; ci++ {
			if deepThorough && ci >= 6 {
				break // deep trees: the six configurations of the quick tier
			}
			var c Cfg
			c.Impl = im.name
			if ci == 0 {
				c.PrefixArg, c.Prefixed, c.Mux = "/", false, false
				c.Filters = []int{}
			} else {
				h := mix(uint64(ti)*131+uint64(ci), cfg.Seed)
				m := mounts[(ci+ti)%len(mounts)]
				c.PrefixArg, c.Prefixed, c.Mux = m.prefixArg, m.prefixed, m.mux
				c.Filters = filterSets[(ci*5+ti)%len(filterSets)]
				c.StubFails = h%5 == 0
				if h%7 == 0 {
					c.Which = 1
				}
			}
			late := t.late
			if ci%3 == 2 {
				late = nil
			}
			inst := build(im, c, t.regs, late)
			prefix := normPrefix(c)
			var paths []string
			for _, rel := range rels {
				paths = append(paths, prefix+rel)
			}
			if c.Prefixed && prefix != "/" {
				root := t.nodes[0][0].Name
				bare := strings.TrimSuffix(prefix, "/") // "/api"
				paths = append(paths, "/"+root, bare, bare+"x/"+root, "/")
				// the prefix anywhere but at the start: below another segment, below a resource name, twice, glued to the end of
				// another segment
				for _, rel := range []string{rels[0], rels[0] + "/7", rels[len(rels)/2]} {
					paths = append(paths, "/v1"+prefix+rel, "/"+root+prefix+rel, prefix+strings.TrimPrefix(prefix, "/")+rel,
						"/x"+strings.TrimPrefix(prefix, "/")+rel, "/"+root+"/1"+prefix+rel)
				}
			}
			opsKey := fmt.Sprintf("%s/%d/%v/%d", im.name, ti, late != nil, c.Which)
			idx := uint64(0)
			for _, verb := range verbs {
				for _, hv := range headers {
					for _, p := range paths {
						for _, q := range queries {
							idx++
							h := mix(idx, uint64(ti)*1000+uint64(ci)+cfg.Seed*7919)
							if ci != 0 && h%stride != 0 {
								continue
							}
							if ci == 0 && deepThorough && h%4 != 0 {
								continue // thorough tier, deep tree: a quarter of the (much larger) product; the quick tier runs the full one
							}
							rq := Req{Verb: verb, Header: hv, Path: p, Query: q, Body: (h>>8)&1 == 1, Tunnel: (h>>9)&3 == 0}
							if rq.Tunnel && rq.Query == "" && rq.Body {
								rq.Tunnel = false // a client never tunnels an empty query (C14)
							}
							d := &caseDesc{Cfg: c, Regs: t.regs, Late: late, Req: rq}
							rr := oracleRoute(im, inst.roots, c, rq)
							d.Obs = inst.run(rq, bodyFor(im, rr))
							want := oracleObs(im, c, rq, rr)
							d.Unspec = rr.unspec
							res.evals++
							compare(lrep, im, d, rr, want)
							if rr.target != nil || (rr.restli && rr.status != 0) {
								res.nontriv++
							}
							cls := rr.class
							if rr.unspec {
								cls = "unspecified:" + cls
							}
							cnt := func(k string) { res.counts[k]++ }
							cnt("class=" + cls)
							cnt("impl=" + im.name)
							cnt("verb=" + verb)
							cnt(fmt.Sprintf("filters=%d", len(c.Filters)))
							cnt(fmt.Sprintf("mount=mux:%v,prefixed:%v", c.Mux, c.Prefixed))
							cnt(fmt.Sprintf("tunnel=%v,body=%v", rq.Tunnel, rq.Body))
							cnt(fmt.Sprintf("status=%s", statusClass(d.Obs.Status)))
							cnt(fmt.Sprintf("handler=%s,late-registrations=%v", map[bool]string{true: "obtained-before", false: "obtained-after"}[c.Which == 0], late != nil))
							if hv == "" {
								cnt("header=absent")
							} else if _, ok := protoVerb[hv]; ok {
								cnt("header=named")
							} else {
								cnt("header=unknown")
							}
							if rr.target != nil && len(c.Filters) > 1 && rq.Tunnel && len(res.samples) < 1 {
								res.samples = append(res.samples, d)
							}
							if rr.unspec || d.Obs.Note != "" {
								continue
							}
							// cases for the Coq model: every behaviour class of every configuration, plus a stride
							ck := fmt.Sprintf("%d/%s/%s/%d", ci, cls, verb, len(d.Obs.Events))
							nk := ""
							if rr.target != nil && len(rr.target.Path) > 1 {
								// ... once for every routed sub-resource (node identity matters: siblings, depth)
								nk = ck + "/" + segNames(rr.target.Path)
							}
							if classSeen[ck] < classCap || (nk != "" && classSeen[nk] < 1) || h%coqStride == 1 {
								classSeen[ck]++
								if nk != "" {
									classSeen[nk]++
								}
								res.picked = append(res.picked, pend{im, opsKey, d})
							}
						}
					}
				}
			}
		}
		for _, f := range lrep.Failures {
			res.fails = append(res.fails, failRec{f.Sig, f.What, f.Case.(*caseDesc), f.Impl})
		}
		for k, v := range lrep.Distribution {
			res.counts[k] += v
		}
		return res
	}
	var wg sync.WaitGroup
	sem := make(chan struct{}, runtime.NumCPU())
	for i := range jobs {
		wg.Add(1)
		sem <- struct{}{}
		go func(i int) {
			defer wg.Done()
			results[i] = process(jobs[i])
			<-sem
		}(i)
	}
	wg.Wait()
	total := 0
	for _, res := range results {
		total += res.evals
		rep.Evaluations += res.evals
		rep.DistinctNontrivial += res.nontriv
		for k, v := range res.counts {
			if strings.HasPrefix(k, "oracle-failure:") {
				continue
			}
			rep.CountN(k, v)
		}
		for _, f := range res.fails {
			rep.Fail(f.sig, f.what, site, f.d, f.info)
		}
		for _, d := range res.samples {
			rep.Sample(d)
		}
		picked = append(picked, res.picked...)
	}
	rep.Exhaustive = true
	rep.Extra["requests_run_on_the_implementation"] = total
	rep.Extra["cases_for_the_model"] = len(picked)

	writeCases(cfg, rep, picked)
}

type pend struct {
	im     *impl
	opsKey string
	desc   *caseDesc
}

func writeCases(cfg *hx.Config, rep *hx.Report, picked []pend) {
	it := &interner{ids: map[string]string{}}
	opsNames := map[string]string{}
	var opsDefs []string
	terms := make([]string, len(picked))
	for i, p := range picked {
		on, ok := opsNames[p.opsKey]
		if !ok {
			on = fmt.Sprintf("ops%d", len(opsNames))
			opsNames[p.opsKey] = on
			opsDefs = append(opsDefs, "Definition "+on+" : list op :=\n  "+it.ops(p.im, p.desc.Regs, p.desc.Late, p.desc.Cfg.Which)+".\n")
		}
		terms[i] = it.caseTerm(p.im, on, p.desc)
	}
	var hb strings.Builder
	hb.WriteString("From Coq Require Import List NArith. Import ListNotations.\nFrom Coq.Strings Require Import Byte.\nFrom GR Require Import Base.Bytes Gen.TablesRouter Http.Router Corr.C05Corr.\n")
	for i, s := range it.order {
		fmt.Fprintf(&hb, "Definition s%d : bytes := %s. (* %q *)\n", i, hx.CoqBytes(s), s)
	}
	for _, d := range opsDefs {
		hb.WriteString(d)
	}
	per := len(picked)/32 + 1
	if per < 200 {
		per = 200
	}
	if per > 4000 {
		per = 4000 // memory of one coqc process (16 run in parallel): ~0.2 MB per case
	}
	sh := hx.NewShards(cfg.Out, hb.String(), "C05Corr", per)
	for i, p := range picked {
		sh.Add(terms[i], p.desc)
	}
	sh.Close()
	rep.Shards = sh.Files
	rep.Write(cfg.Out)
}

// one case through the real server, the oracle and the report
func evalCase(rep *hx.Report, im *impl, d *caseDesc) routeRes {
	if d.Cfg.Filters == nil {
		d.Cfg.Filters = []int{}
	}
	inst := build(im, d.Cfg, d.Regs, d.Late)
	rr := oracleRoute(im, inst.roots, d.Cfg, d.Req)
	d.Obs = inst.run(d.Req, bodyFor(im, rr))
	want := oracleObs(im, d.Cfg, d.Req, rr)
	d.Unspec = rr.unspec
	rep.Evaluations++
	compare(rep, im, d, rr, want)
	rep.Count("class=" + rr.class)
	rep.Distinct(fmt.Sprintf("single/%s/%v/%s", im.name, d.Cfg.Mux, d.Req.Path), rr.target != nil || (rr.restli && rr.status != 0))
	return rr
}

func replay(cfg *hx.Config, rep *hx.Report, impls []*impl) {
	b, err := os.ReadFile(cfg.Replay)
	if err != nil {
		panic(err)
	}
	var rp struct {
		Case caseDesc `json:"case"`
	}
	if err := json.Unmarshal(b, &rp); err != nil {
		panic(err)
	}
	d := &rp.Case
	var im *impl
	for _, x := range impls {
		if x.name == d.Cfg.Impl {
			im = x
		}
	}
	if im == nil {
		im = impls[0]
	}
	rr := evalCase(rep, im, d)
	rep.Sample(d)
	var picked []pend
	if !rr.unspec && d.Obs.Note == "" {
		picked = append(picked, pend{im, "replay", d})
	}
	writeCases(cfg, rep, picked)
}
