// famgen: runs the REAL v2 generator (cmd.ReadManifest + cmd.GenerateCode) on a manifest, in its own process
// (utils.TypeRegistry is a process-global).  usage: famgen <dependency-manifest.json> <manifest.json> <outDir>
package main

import (
	"fmt"
	"os"

	"github.com/PapaCharlie/go-restli/v2/cmd"
)

func main() {
	if len(os.Args) != 4 {
		fmt.Fprintln(os.Stderr, "usage: famgen <dep-manifest> <manifest> <outDir>")
		os.Exit(2)
	}
	var ms []*cmd.GoRestliManifest
	for _, f := range os.Args[1:3] {
		b, err := os.ReadFile(f)
		if err != nil {
			fmt.Fprintln(os.Stderr, err)
			os.Exit(1)
		}
		m, err := cmd.ReadManifest(b)
		if err != nil {
			fmt.Fprintln(os.Stderr, "manifest", f, err)
			os.Exit(1)
		}
		ms = append(ms, m)
	}
	if err := cmd.GenerateCode(os.Args[3], ms, false); err != nil {
		fmt.Fprintf(os.Stderr, "%+v\n", err)
		os.Exit(1)
	}
}
