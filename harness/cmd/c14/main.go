// C14 driver: query tunnelling.  For the property's grid (verbs x queries x bodies x thresholds, both module
// generations) it builds the request through the REAL client path (restli.Client with QueryTunnellingThreshold,
// NewGetRequest / NewDeleteRequest / NewJsonRequest), writes it to the wire (Request.Write), re-reads it as a server would
// (http.ReadRequest), runs the REAL DecodeTunnelledQuery and compares every field the property names with the same
// request built with tunnelling off.  Hand-crafted malformed tunnelled requests must make DecodeTunnelledQuery fail and
// a real restli server answer 400 without invoking the (stub) resource.  All wire requests and decode results are
// written as cases for the Coq model (Corr/C14Corr.v).
package main

import (
	"bufio"
	"bytes"
	"context"
	"encoding/json"
	"fmt"
	"io"
	"log"
	"mime"
	"net/http"
	"net/http/httptest"
	"net/url"
	"os"
	"sort"
	"strings"

	rootrestli "github.com/PapaCharlie/go-restli/restli"
	rootcodec "github.com/PapaCharlie/go-restli/restlicodec"
	rootdata "github.com/PapaCharlie/go-restli/restlidata"
	v2restli "github.com/PapaCharlie/go-restli/v2/restli"
	v2codec "github.com/PapaCharlie/go-restli/v2/restlicodec"
	v2common "github.com/PapaCharlie/go-restli/v2/restlidata/generated/com/linkedin/restli/common"
	"verif/harness/hx"
)

// ---- module adapters

type rawV2 struct{ data []byte }

func (r rawV2) MarshalRestLi(w v2codec.Writer) error { w.WriteRawBytes(r.data); return nil }

type rawRoot struct{ data []byte }

func (r rawRoot) MarshalRestLi(w rootcodec.Writer) error { w.WriteRawBytes(r.data); return nil }

type rp struct{ root, path string }

func (r rp) RootResource() string          { return r.root }
func (r rp) ResourcePath() (string, error) { return r.path, nil }

// server-side stubs
type srvPathV2 struct{}

func (*srvPathV2) NewInstance() *srvPathV2                      { return &srvPathV2{} }
func (*srvPathV2) UnmarshalResourcePath([]v2codec.Reader) error { return nil }

type anyQueryV2 struct{}

func (*anyQueryV2) NewInstance() *anyQueryV2                          { return &anyQueryV2{} }
func (*anyQueryV2) DecodeQueryParams(v2codec.QueryParamsReader) error { return nil }

type srvPathRoot struct{}

func (*srvPathRoot) NewInstance() *srvPathRoot                      { return &srvPathRoot{} }
func (*srvPathRoot) UnmarshalResourcePath([]rootcodec.Reader) error { return nil }

type anyQueryRoot struct{}

func (*anyQueryRoot) NewInstance() *anyQueryRoot                          { return &anyQueryRoot{} }
func (*anyQueryRoot) DecodeQueryParams(rootcodec.QueryParamsReader) error { return nil }

type stubV2 struct{}

func (*stubV2) NewInstance() *stubV2                 { return &stubV2{} }
func (*stubV2) UnmarshalRestLi(v2codec.Reader) error { return nil }
func (*stubV2) MarshalRestLi(w v2codec.Writer) error {
	return w.WriteMap(func(func(string) v2codec.Writer) error { return nil })
}

type stubRoot struct{}

func (*stubRoot) NewInstance() *stubRoot                 { return &stubRoot{} }
func (*stubRoot) UnmarshalRestLi(rootcodec.Reader) error { return nil }
func (*stubRoot) MarshalRestLi(w rootcodec.Writer) error {
	return w.WriteMap(func(func(string) rootcodec.Writer) error { return nil })
}

type invocation struct {
	Method, Query string
}

type module struct {
	name    string
	root    bool
	request func(th int, verb, path string, query string, hasBody bool, body []byte) (*http.Request, error)
	decode  func(*http.Request) error
	encode  func(verb, query string, body []byte) ([]byte, http.Header)
	handler func(rec *[]invocation) http.Handler
}

const baseURL = "http://localhost:8080"

var modules = []module{
	{"v2", false,
		func(th int, verb, path, query string, hasBody bool, body []byte) (*http.Request, error) {
			u, _ := url.Parse(baseURL)
			c := &v2restli.Client{Client: http.DefaultClient, HostnameResolver: &v2restli.SimpleHostnameResolver{Hostname: u}, QueryTunnellingThreshold: th}
			r := rp{"coll", path}
			var q v2restli.QueryParamsEncoder
			if query != "" {
				q = v2restli.QueryParamsString(query)
			}
			if hasBody {
				return v2restli.NewJsonRequest(c, context.Background(), r, q, verb, v2restli.Method_update, rawV2{body}, nil)
			}
			switch verb {
			case http.MethodGet:
				return v2restli.NewGetRequest(c, context.Background(), r, q, v2restli.Method_get)
			case http.MethodDelete:
				return v2restli.NewDeleteRequest(c, context.Background(), r, q, v2restli.Method_delete)
			}
			return nil, fmt.Errorf("no exported entry point for %s without a body", verb)
		},
		v2restli.DecodeTunnelledQuery,
		v2restli.EncodeTunnelledQuery,
		func(rec *[]invocation) http.Handler {
			s := v2restli.NewServer()
			segs := []v2restli.ResourcePathSegment{v2restli.NewResourcePathSegment("coll", false)}
			v2restli.RegisterGet(s, segs, func(ctx *v2restli.RequestContext, _ *srvPathV2, _ *anyQueryV2) (*v2common.EmptyRecord, error) {
				*rec = append(*rec, invocation{"get", ctx.Request.URL.RawQuery})
				return &v2common.EmptyRecord{}, nil
			})
			v2restli.RegisterUpdate(s, segs, nil, func(ctx *v2restli.RequestContext, _ *srvPathV2, _ *stubV2, _ *anyQueryV2) error {
				*rec = append(*rec, invocation{"update", ctx.Request.URL.RawQuery})
				return nil
			})
			return s.Handler()
		}},
	{"root", true,
		func(th int, verb, path, query string, hasBody bool, body []byte) (*http.Request, error) {
			u, _ := url.Parse(baseURL)
			c := &rootrestli.Client{Client: http.DefaultClient, HostnameResolver: &rootrestli.SimpleHostnameResolver{Hostname: u}, QueryTunnellingThreshold: th}
			r := rp{"coll", path}
			var q rootrestli.QueryParamsEncoder
			if query != "" {
				q = rootrestli.QueryParamsString(query)
			}
			if hasBody {
				return rootrestli.NewJsonRequest(c, context.Background(), r, q, verb, rootrestli.Method_update, rawRoot{body}, nil)
			}
			switch verb {
			case http.MethodGet:
				return rootrestli.NewGetRequest(c, context.Background(), r, q, rootrestli.Method_get)
			case http.MethodDelete:
				return rootrestli.NewDeleteRequest(c, context.Background(), r, q, rootrestli.Method_delete)
			}
			return nil, fmt.Errorf("no exported entry point for %s without a body", verb)
		},
		rootrestli.DecodeTunnelledQuery,
		rootrestli.EncodeTunnelledQuery,
		func(rec *[]invocation) http.Handler {
			s := rootrestli.NewServer()
			segs := []rootrestli.ResourcePathSegment{rootrestli.NewResourcePathSegment("coll", false)}
			rootrestli.RegisterGet(s, segs, func(ctx *rootrestli.RequestContext, _ *srvPathRoot, _ *anyQueryRoot) (*rootdata.EmptyRecord, error) {
				*rec = append(*rec, invocation{"get", ctx.Request.URL.RawQuery})
				return &rootdata.EmptyRecord{}, nil
			})
			rootrestli.RegisterUpdate(s, segs, nil, func(ctx *rootrestli.RequestContext, _ *srvPathRoot, _ *stubRoot, _ *anyQueryRoot) error {
				*rec = append(*rec, invocation{"update", ctx.Request.URL.RawQuery})
				return nil
			})
			return s.Handler()
		}},
}

// ---- observables

type hdr struct{ K, V string }

type wire struct {
	Method   string  `json:"method"`
	Path     string  `json:"path"`
	RawQuery string  `json:"raw_query"`
	CT       *string `json:"content_type"`
	Override *string `json:"override"`
	Other    []hdr   `json:"other"`
	Body     string  `json:"body"`
}

type decoded struct {
	Ok       bool    `json:"ok"`
	Method   string  `json:"method"`
	Path     string  `json:"path"`
	RawQuery string  `json:"raw_query"`
	URI      string  `json:"request_uri"`
	CT       *string `json:"content_type"`
	Override *string `json:"override"`
	Other    []hdr   `json:"other"`
	Body     *string `json:"body"` // nil: req.Body == nil
}

func optHeader(h http.Header, k string) *string {
	v, ok := h[http.CanonicalHeaderKey(k)]
	if !ok || len(v) == 0 {
		return nil
	}
	s := v[0]
	return &s
}

func otherHeaders(h http.Header) []hdr {
	var out []hdr
	for k, v := range h {
		if strings.HasPrefix(k, "X-Restli-") || k == "Accept" {
			out = append(out, hdr{k, strings.Join(v, ",")})
		}
	}
	sort.Slice(out, func(i, j int) bool { return out[i].K < out[j].K })
	return out
}

// the request as a server reads it from the wire
func toServer(req *http.Request) (*http.Request, []byte, error) {
	var buf bytes.Buffer
	if err := req.Write(&buf); err != nil {
		return nil, nil, err
	}
	return readServer(buf.Bytes())
}

func readServer(wireBytes []byte) (*http.Request, []byte, error) {
	sreq, err := http.ReadRequest(bufio.NewReader(bytes.NewReader(wireBytes)))
	if err != nil {
		return nil, nil, err
	}
	body, err := io.ReadAll(sreq.Body)
	if err != nil {
		return nil, nil, err
	}
	sreq.Body = io.NopCloser(bytes.NewReader(body))
	return sreq, body, nil
}

func wireOf(sreq *http.Request, body []byte) wire {
	return wire{sreq.Method, sreq.URL.EscapedPath(), sreq.URL.RawQuery, optHeader(sreq.Header, "Content-Type"),
		optHeader(sreq.Header, "X-HTTP-Method-Override"), otherHeaders(sreq.Header), string(body)}
}

func decodedOf(sreq *http.Request, err error) decoded {
	d := decoded{Ok: err == nil}
	if err != nil {
		return d
	}
	d.Method, d.Path, d.RawQuery, d.URI = sreq.Method, sreq.URL.EscapedPath(), sreq.URL.RawQuery, sreq.RequestURI
	d.CT, d.Override, d.Other = optHeader(sreq.Header, "Content-Type"), optHeader(sreq.Header, "X-HTTP-Method-Override"), otherHeaders(sreq.Header)
	if sreq.Body != nil {
		b, _ := io.ReadAll(sreq.Body)
		s := string(b)
		d.Body = &s
	}
	return d
}

func safeDecode(m *module, sreq *http.Request) (err error, panicked bool) {
	defer func() {
		if r := recover(); r != nil {
			panicked = true
		}
	}()
	return m.decode(sreq), false
}

// ---- Coq terms
func coqOpt(s *string) string {
	if s == nil {
		return "None"
	}
	return "(Some " + hx.CoqBytes(*s) + ")"
}
func coqHdrs(l []hdr) string {
	items := make([]string, len(l))
	for i, h := range l {
		items[i] = "(" + hx.CoqBytes(h.K) + ", " + hx.CoqBytes(h.V) + ")"
	}
	return "[" + strings.Join(items, ";") + "]"
}
func coqWire(w wire) string {
	return fmt.Sprintf("{| w_method := %s; w_path := %s; w_rawquery := %s; w_ct := %s; w_override := %s; w_other := %s; w_body := %s |}",
		hx.CoqBytes(w.Method), hx.CoqBytes(w.Path), hx.CoqBytes(w.RawQuery), coqOpt(w.CT), coqOpt(w.Override), coqHdrs(w.Other), hx.CoqBytes(w.Body))
}
func coqDecoded(d decoded) string {
	if !d.Ok {
		return "DErr"
	}
	return fmt.Sprintf("(DOk {| d_method := %s; d_path := %s; d_rawquery := %s; d_uri := %s; d_ct := %s; d_override := %s; d_other := %s; d_body := %s |})",
		hx.CoqBytes(d.Method), hx.CoqBytes(d.Path), hx.CoqBytes(d.RawQuery), hx.CoqBytes(d.URI), coqOpt(d.CT), coqOpt(d.Override), coqHdrs(d.Other), coqOpt(d.Body))
}

// ---- client cases

type clientCase struct {
	Module    string `json:"module"`
	Kind      string `json:"kind"` // "client": through the client entry points; "direct": EncodeTunnelledQuery called directly (always tunnelled)
	Threshold int    `json:"threshold"`
	Verb      string `json:"verb"`
	Path      string `json:"path"`
	Query     string `json:"query"`
	HasBody   bool   `json:"has_body"`
	Body      string `json:"body"`
	// size cases: the query / body are generated (genQuery / genBody) to this length instead of being spelled out
	BigQueryLen int `json:"generated_query_len,omitempty"`
	BigBodyLen  int `json:"generated_body_len,omitempty"`
	// requests built after this one and before it is written to the wire
	Alive []clientCase `json:"alive,omitempty"`
	// results
	Tunnelled bool     `json:"tunnelled"`
	Boundary  string   `json:"boundary,omitempty"`
	Wire      *wire    `json:"wire,omitempty"`
	Decoded   *decoded `json:"decoded,omitempty"`
	Reference *decoded `json:"reference,omitempty"` // the same request built with tunnelling off, as the server sees it
}

const encSite = "restli/tunnelling.go:EncodeTunnelledQuery/DecodeTunnelledQuery, restli/http.go:newRequest"

func sameDecoded(a, b *decoded) (bool, string) {
	eqOpt := func(x, y *string) bool { return (x == nil) == (y == nil) && (x == nil || *x == *y) }
	switch {
	case a.Ok != b.Ok:
		return false, "ok"
	case a.Method != b.Method:
		return false, "verb"
	case a.Path != b.Path:
		return false, "path"
	case a.RawQuery != b.RawQuery:
		return false, "raw-query"
	case a.URI != b.URI:
		return false, "request-uri"
	case !eqOpt(a.CT, b.CT):
		return false, "content-type"
	case !eqOpt(a.Override, b.Override):
		return false, "override-header-left"
	case fmt.Sprint(a.Other) != fmt.Sprint(b.Other):
		return false, "restli-headers"
	case (a.Body == nil) != (b.Body == nil):
		return false, "body-nil"
	case a.Body != nil && *a.Body != *b.Body:
		return false, "body"
	}
	return true, ""
}

func bodyClass(c *clientCase) string {
	switch {
	case !c.HasBody:
		return "absent"
	case c.Body == "" && c.BigBodyLen == 0:
		return "empty"
	}
	return "present"
}

// generated content for the size cases: only the lengths are kept in the case description
func genQuery(n int) string {
	if n < 2 {
		return strings.Repeat("q", n)
	}
	return "q=" + strings.Repeat("0123456789abcdef", n/16+1)[:n-2]
}
func genBody(n int) string {
	if n < 8 {
		return strings.Repeat("1", n)
	}
	return `{"k":"` + strings.Repeat("0123456789abcdef", n/16+1)[:n-8] + `"}`
}

func (c *clientCase) query() string {
	if c.BigQueryLen > 0 {
		return genQuery(c.BigQueryLen)
	}
	return c.Query
}
func (c *clientCase) body() string {
	if c.BigBodyLen > 0 {
		return genBody(c.BigBodyLen)
	}
	return c.Body
}
func (c *clientCase) big() bool { return c.BigQueryLen > 0 || c.BigBodyLen > 0 }

// a request that has been BUILT by the client (tunnelled and, for reference, with tunnelling off) but not yet written to
// the wire: other requests may be built in between
type built struct {
	c         clientCase
	req, ref  *http.Request
	err, err2 error
}

func buildClient(m *module, c clientCase) *built {
	c.Module, c.Kind = m.name, "client"
	b := &built{c: c}
	b.req, b.err = m.request(c.Threshold, c.Verb, c.Path, c.query(), c.HasBody, []byte(c.body()))
	b.ref, b.err2 = m.request(0, c.Verb, c.Path, c.query(), c.HasBody, []byte(c.body()))
	return b
}

func summary(d *decoded) string {
	if !d.Ok {
		return "decode error"
	}
	bl := -1
	if d.Body != nil {
		bl = len(*d.Body)
	}
	ct := "<none>"
	if d.CT != nil {
		ct = *d.CT
	}
	return fmt.Sprintf("method=%s len(raw_query)=%d len(request_uri)=%d content_type=%s len(body)=%d", d.Method, len(d.RawQuery), len(d.URI), ct, bl)
}

func runClient(m *module, c clientCase, rep *hx.Report, sh *hx.Shards) {
	finishClient(m, buildClient(m, c), rep, sh)
}

// write to the wire, read back as a server, de-tunnel, compare with the untunnelled request
func finishClient(m *module, b *built, rep *hx.Report, sh *hx.Shards) {
	c := b.c
	q := c.query()
	var sreq, ref *http.Request
	var body, refBody []byte
	err, err2 := b.err, b.err2
	if err == nil {
		sreq, body, err = toServer(b.req)
	}
	if err2 == nil {
		ref, refBody, err2 = toServer(b.ref)
	}
	rep.Evaluations++
	prefix := ""
	if len(c.Alive) > 0 {
		prefix = "alive:"
	}
	if err != nil && err2 != nil {
		rep.Count("skipped:query-not-sendable-either-way")
		return
	}
	if err != nil || err2 != nil {
		rep.Fail(prefix+"client-error", "the client could not build / the server could not read the request", encSite, c, fmt.Sprint(err, err2))
		return
	}
	w := wireOf(sreq, body)
	c.Tunnelled = w.Override != nil
	if w.CT != nil {
		if mt, params, err := mime.ParseMediaType(*w.CT); err == nil && mt == "multipart/mixed" {
			c.Boundary = params["boundary"]
		}
	}
	if c.HasBody && !c.big() {
		c.Body = string(refBody) // what the JSON writer really produced (an empty raw write comes out as "null")
	}
	refView := decodedOf(ref, nil)
	rb := string(refBody)
	refView.Body = &rb

	derr, panicked := safeDecode(m, sreq)
	if panicked {
		rep.Fail(prefix+"decode-panic", "DecodeTunnelledQuery panicked", encSite, c, nil)
		return
	}
	d := decodedOf(sreq, derr)
	var implDesc interface{} = d
	if c.big() {
		implDesc = "after de-tunnelling: " + summary(&d) + "; untunnelled: " + summary(&refView)
	} else {
		c.Wire, c.Reference, c.Decoded = &w, &refView, &d
	}

	// ---- the property's own predicates
	want := c.Threshold > 0 && len(q) > c.Threshold
	if c.Tunnelled != want {
		rep.Fail(fmt.Sprintf("threshold:tunnelled=%v,want=%v", c.Tunnelled, want), "a request is tunnelled iff threshold > 0 and len(query) > threshold", "restli/http.go:newRequest", c, nil)
	}
	if !c.Tunnelled {
		// sent untouched: identical on the wire to the request built with tunnelling off
		wr := wireOf(ref, refBody)
		if fmt.Sprint(w.Method, w.Path, w.RawQuery, w.Other, w.Body) != fmt.Sprint(wr.Method, wr.Path, wr.RawQuery, wr.Other, wr.Body) ||
			(w.CT == nil) != (wr.CT == nil) || (w.CT != nil && *w.CT != *wr.CT) {
			rep.Fail(prefix+"untunnelled-differs", "a request whose query does not exceed the threshold was not sent untouched", encSite, c, nil)
		}
	}
	if ok, field := sameDecoded(&d, &refView); !ok {
		sig := prefix + "transparency:" + field + ":body-" + bodyClass(&c)
		what := "after de-tunnelling the request differs from the untunnelled request in " + field
		if c.big() {
			sig += ":large"
			what += " (large query / body)"
		}
		if len(c.Alive) > 0 {
			what += " (other requests were built between building and sending this one)"
		}
		rep.Fail(sig, what, encSite, c, implDesc)
	}

	// ---- distribution
	rep.Count("module=" + m.name)
	rep.Count("verb=" + c.Verb)
	rep.Count("body=" + bodyClass(&c))
	rep.Count(fmt.Sprintf("tunnelled=%v", c.Tunnelled))
	switch {
	case c.Threshold <= 0:
		rep.Count("threshold<=0")
	case c.Threshold == len(q)-1:
		rep.Count("threshold=len-1")
	case c.Threshold == len(q):
		rep.Count("threshold=len")
	case c.Threshold == len(q)+1:
		rep.Count("threshold=len+1")
	case c.Threshold == 1:
		rep.Count("threshold=1")
	default:
		rep.Count("threshold=other")
	}
	if c.Boundary != "" {
		rep.Count("variant=multipart")
	} else if c.Tunnelled {
		rep.Count("variant=form")
	}
	if len(c.Alive) > 0 {
		rep.Count(fmt.Sprintf("alive-with=%d", len(c.Alive)))
	}
	if c.big() {
		for _, n := range []int{c.BigQueryLen, c.BigBodyLen} {
			switch {
			case n == 0:
			case n < 1<<20:
				rep.Count("size<1MiB")
			case n == 1<<20:
				rep.Count("size=1MiB")
			default:
				rep.Count("size>1MiB")
			}
		}
		key, _ := json.Marshal([]interface{}{m.name, "big", c.Threshold, c.Verb, c.Path, c.BigQueryLen, c.BigBodyLen, c.Query, c.HasBody, c.Body})
		rep.Distinct(string(key), c.Tunnelled)
		return // oracle only: a multi-megabyte case is not handed to the Coq evaluation
	}
	special := strings.ContainsAny(c.Query, "\r\n&=%+") || strings.Contains(c.Query, "--") || strings.Contains(c.Body, "--")
	key, _ := json.Marshal([]interface{}{m.name, c.Threshold, c.Verb, c.Path, c.Query, c.HasBody, c.Body, len(c.Alive)})
	rep.Distinct(string(key), c.Tunnelled && (special || len(c.Alive) > 0))
	if c.Tunnelled && special && c.Boundary != "" {
		rep.Sample(c)
	}

	// ---- model case
	bodyTerm := "None"
	if c.HasBody {
		bodyTerm = "(Some " + hx.CoqBytes(c.Body) + ")"
	}
	sh.Add(fmt.Sprintf("{| c_client := Some (%s, (%d)%%Z, %s, %s, %s, %s); c_wire := %s; c_decoded := %s |}",
		hx.CoqBool(m.root), c.Threshold, hx.CoqBytes(c.Verb), hx.CoqBytes(c.Query), bodyTerm, hx.CoqBytes(c.Boundary), coqWire(w), coqDecoded(d)), c)
}

// request A is built, then the requests in A.Alive are built, only then A is written to the wire and decoded
func runAlive(m *module, c clientCase, rep *hx.Report, sh *hx.Shards) {
	b := buildClient(m, c)
	var others []*built
	for _, o := range c.Alive {
		others = append(others, buildClient(m, o))
	}
	finishClient(m, b, rep, sh)
	_ = others // kept alive until here
}

// N requests built first, then sent in reverse order
func runReverse(m *module, cs []clientCase, rep *hx.Report, sh *hx.Shards) {
	bs := make([]*built, len(cs))
	for i := range cs {
		c := cs[i]
		for k := i + 1; k < len(cs); k++ { // what is built after this one and before it is sent
			o := cs[k]
			o.Alive = nil
			c.Alive = append(c.Alive, o)
		}
		bs[i] = buildClient(m, c)
	}
	for i := len(bs) - 1; i >= 0; i-- {
		finishClient(m, bs[i], rep, sh)
	}
}

// EncodeTunnelledQuery called directly (it is exported), for queries / bodies the URL layer would refuse (raw CR/LF, NUL,
// spaces); the request is assembled as newRequest does, the expected result is written down independently.
func runDirect(m *module, c clientCase, rep *hx.Report, sh *hx.Shards) {
	c.Module, c.Kind, c.Threshold = m.name, "direct", 1
	if len(c.Query) < 2 {
		return
	}
	var body []byte
	if c.HasBody {
		body = []byte(c.Body)
	}
	nb, th := m.encode(c.Verb, c.Query, body)
	req, err := http.NewRequest(http.MethodPost, baseURL+c.Path, bytes.NewReader(nb))
	rep.Evaluations++
	if err != nil {
		rep.Count("skipped:direct-request")
		return
	}
	req.Header.Set("X-RestLi-Protocol-Version", "2.0.0")
	req.Header.Set("X-RestLi-Method", "update")
	req.Header.Set("Accept", "application/json")
	if c.HasBody {
		req.Header.Set("Content-Type", "application/json")
	}
	for k := range th {
		req.Header.Set(k, th.Get(k))
	}
	sreq, wbody, err := toServer(req)
	if err != nil {
		rep.Fail("direct-wire-error", "the tunnelled request could not be read back from the wire", encSite, c, fmt.Sprint(err))
		return
	}
	w := wireOf(sreq, wbody)
	c.Wire, c.Tunnelled = &w, w.Override != nil
	if w.CT != nil {
		if mt, params, err := mime.ParseMediaType(*w.CT); err == nil && mt == "multipart/mixed" {
			c.Boundary = params["boundary"]
		}
	}
	js := "application/json"
	want := decoded{Ok: true, Method: c.Verb, Path: c.Path, RawQuery: c.Query, URI: c.Path + "?" + c.Query, Other: w.Other}
	if c.HasBody {
		want.CT = &js
	}
	bs := c.Body
	want.Body = &bs
	c.Reference = &want
	derr, panicked := safeDecode(m, sreq)
	if panicked {
		rep.Fail("decode-panic", "DecodeTunnelledQuery panicked", encSite, c, nil)
		return
	}
	d := decodedOf(sreq, derr)
	c.Decoded = &d
	if ok, field := sameDecoded(&d, &want); !ok {
		rep.Fail("transparency:"+field+":body-"+bodyClass(&c), "after de-tunnelling the request differs from the untunnelled request in "+field, encSite, c, d)
	}
	rep.Count("module=" + m.name)
	rep.Count("direct:body=" + bodyClass(&c))
	if c.Boundary != "" {
		rep.Count("variant=multipart")
	} else {
		rep.Count("variant=form")
	}
	key, _ := json.Marshal([]interface{}{m.name, "direct", c.Verb, c.Path, c.Query, c.HasBody, c.Body})
	rep.Distinct(string(key), true)
	bodyTerm := "None"
	if c.HasBody {
		bodyTerm = "(Some " + hx.CoqBytes(c.Body) + ")"
	}
	sh.Add(fmt.Sprintf("{| c_client := Some (%s, (1)%%Z, %s, %s, %s, %s); c_wire := %s; c_decoded := %s |}",
		hx.CoqBool(m.root), hx.CoqBytes(c.Verb), hx.CoqBytes(c.Query), bodyTerm, hx.CoqBytes(c.Boundary), coqWire(w), coqDecoded(d)), c)
}

// ---- raw (hand-crafted) cases

type rawCase struct {
	Module     string            `json:"module"`
	Kind       string            `json:"kind"` // "raw"
	Name       string            `json:"name"`
	Method     string            `json:"method"`
	Target     string            `json:"target"`
	Headers    map[string]string `json:"headers"`
	Body       string            `json:"body"`
	MustReject bool              `json:"must_reject"` // one of the property's malformed classes
	MustAccept bool              `json:"must_accept"` // well-formed: must decode and reach the resource
	// results
	Wire    *wire        `json:"wire,omitempty"`
	Decoded *decoded     `json:"decoded,omitempty"`
	Status  int          `json:"status,omitempty"`
	Invoked []invocation `json:"invoked,omitempty"`
	Panic   bool         `json:"handler_panic,omitempty"`
}

const srvSite = "restli/tunnelling.go:DecodeTunnelledQuery, restli/handler.go:ServeHTTP"

func rawWireBytes(c *rawCase) []byte {
	var sb strings.Builder
	fmt.Fprintf(&sb, "%s %s HTTP/1.1\r\nHost: localhost\r\n", c.Method, c.Target)
	keys := make([]string, 0, len(c.Headers))
	for k := range c.Headers {
		keys = append(keys, k)
	}
	sort.Strings(keys)
	for _, k := range keys {
		fmt.Fprintf(&sb, "%s: %s\r\n", k, c.Headers[k])
	}
	fmt.Fprintf(&sb, "Content-Length: %d\r\n\r\n%s", len(c.Body), c.Body)
	return []byte(sb.String())
}

func runRaw(m *module, c rawCase, rep *hx.Report, sh *hx.Shards) {
	c.Module, c.Kind = m.name, "raw"
	wb := rawWireBytes(&c)
	sreq, body, err := readServer(wb)
	rep.Evaluations++
	if err != nil {
		rep.Count("skipped:raw-unreadable")
		return
	}
	w := wireOf(sreq, body)
	c.Wire = &w
	derr, panicked := safeDecode(m, sreq)
	if panicked {
		rep.Fail("decode-panic:"+c.Name, "DecodeTunnelledQuery panicked", srvSite, c, nil)
		return
	}
	d := decodedOf(sreq, derr)
	c.Decoded = &d

	// the real server
	var rec []invocation
	h := m.handler(&rec)
	sreq2, _, _ := readServer(wb)
	rr := httptest.NewRecorder()
	func() {
		defer func() {
			if r := recover(); r != nil {
				c.Panic = true
			}
		}()
		h.ServeHTTP(rr, sreq2)
	}()
	c.Status, c.Invoked = rr.Code, rec

	if c.MustReject {
		if derr == nil {
			rep.Fail("malformed-accepted:"+c.Name, "a malformed tunnelled request was not rejected by DecodeTunnelledQuery", srvSite, c, d)
		}
		if c.Panic || rr.Code != http.StatusBadRequest || len(rec) != 0 {
			rep.Fail("malformed-not-400:"+c.Name, "a malformed tunnelled request was not answered with 400 before reaching resource code", srvSite, c, fmt.Sprint(rr.Code, rec, c.Panic))
		}
	}
	if c.MustAccept {
		if derr != nil || c.Panic || len(rec) != 1 || rr.Code >= 400 {
			rep.Fail("wellformed-rejected:"+c.Name, "a well-formed (tunnelled) request did not reach the resource", srvSite, c, fmt.Sprint(derr, rr.Code, rec, c.Panic))
		}
	}
	if !c.MustReject && !c.MustAccept && (c.Panic || (derr == nil && d.Body == nil)) {
		// neither rejected nor usable: the request goes on to routing with a nil Body
		rep.Fail("nil-body-after-decode", "DecodeTunnelledQuery accepted the request but left req.Body nil (resource code that reads the body panics)", srvSite, c, fmt.Sprint(rr.Code, rec, c.Panic))
	}
	rep.Count("raw:" + c.Name)
	rep.Count(fmt.Sprintf("raw-decode-ok=%v", derr == nil))
	rep.Count(fmt.Sprintf("raw-status=%d", rr.Code))
	key, _ := json.Marshal([]interface{}{m.name, c.Method, c.Target, c.Headers, c.Body})
	rep.Distinct(string(key), c.MustReject)
	sh.Add(fmt.Sprintf("{| c_client := None; c_wire := %s; c_decoded := %s |}", coqWire(w), coqDecoded(d)), c)
}

const bnd = "0123456789abcdef0123456789abcdef0123456789abcdef0123456789ab"

func part(ct, body string) string {
	return "--" + bnd + "\r\nContent-Type: " + ct + "\r\n\r\n" + body + "\r\n"
}
func closing() string { return "--" + bnd + "--\r\n" }

func rawCases() []rawCase {
	mp := "multipart/mixed; boundary=" + bnd
	form, js := "application/x-www-form-urlencoded", "application/json"
	h := func(ct, override string) map[string]string {
		m := map[string]string{"X-RestLi-Method": "update", "X-RestLi-Protocol-Version": "2.0.0"}
		if ct != "" {
			m["Content-Type"] = ct
		}
		if override != "" {
			m["X-HTTP-Method-Override"] = override
		}
		return m
	}
	hGet := func(ct, override string) map[string]string {
		m := h(ct, override)
		m["X-RestLi-Method"] = "get"
		return m
	}
	q, b := "param=bar", "{}"
	return []rawCase{
		// the property's malformed classes
		{Name: "missing-query-part", Method: "POST", Target: "/coll", Headers: h(mp, "PUT"), Body: part(js, b) + closing(), MustReject: true},
		{Name: "missing-body-part", Method: "POST", Target: "/coll", Headers: h(mp, "PUT"), Body: part(form, q) + closing(), MustReject: true},
		{Name: "no-parts", Method: "POST", Target: "/coll", Headers: h(mp, "PUT"), Body: closing(), MustReject: true},
		{Name: "unknown-part-type-first", Method: "POST", Target: "/coll", Headers: h(mp, "PUT"), Body: part("text/plain", "x") + part(form, q) + part(js, b) + closing(), MustReject: true},
		{Name: "unknown-part-type-last", Method: "POST", Target: "/coll", Headers: h(mp, "PUT"), Body: part(form, q) + part(js, b) + part("text/plain", "x") + closing(), MustReject: true},
		{Name: "unknown-part-type-json-with-charset", Method: "POST", Target: "/coll", Headers: h(mp, "PUT"), Body: part(form, q) + part(js+"; charset=UTF-8", b) + closing(), MustReject: true},
		{Name: "part-without-content-type", Method: "POST", Target: "/coll", Headers: h(mp, "PUT"), Body: "--" + bnd + "\r\nX-Other: 1\r\n\r\n" + q + "\r\n" + part(js, b) + closing(), MustReject: true},
		{Name: "override-with-url-query-form", Method: "POST", Target: "/coll?x=1", Headers: hGet(form, "GET"), Body: q, MustReject: true},
		{Name: "override-with-url-query-multipart", Method: "POST", Target: "/coll?x=1", Headers: h(mp, "PUT"), Body: part(form, q) + part(js, b) + closing(), MustReject: true},
		{Name: "empty-query-part", Method: "POST", Target: "/coll", Headers: h(mp, "PUT"), Body: part(form, "") + part(js, b) + closing(), MustReject: true},
		{Name: "multipart-without-boundary-param", Method: "POST", Target: "/coll", Headers: h("multipart/mixed", "PUT"), Body: part(form, q) + part(js, b) + closing(), MustReject: true},
		{Name: "multipart-truncated", Method: "POST", Target: "/coll", Headers: h(mp, "PUT"), Body: part(form, q) + "--" + bnd + "\r\nContent-Type: " + js + "\r\n\r\n{}", MustReject: true},
		{Name: "multipart-garbage", Method: "POST", Target: "/coll", Headers: h(mp, "PUT"), Body: "not multipart at all", MustReject: true},
		{Name: "multipart-empty-body", Method: "POST", Target: "/coll", Headers: h(mp, "PUT"), Body: "", MustReject: true},
		{Name: "multipart-wrong-boundary", Method: "POST", Target: "/coll", Headers: h("multipart/mixed; boundary=zzz", "PUT"), Body: part(form, q) + part(js, b) + closing(), MustReject: true},
		// well-formed
		{Name: "ok-multipart", Method: "POST", Target: "/coll", Headers: h(mp, "PUT"), Body: part(form, q) + part(js, b) + closing(), MustAccept: true},
		{Name: "ok-multipart-reversed", Method: "POST", Target: "/coll", Headers: h(mp, "PUT"), Body: part(js, b) + part(form, q) + closing(), MustAccept: true},
		{Name: "ok-multipart-duplicate-query", Method: "POST", Target: "/coll", Headers: h(mp, "PUT"), Body: part(form, "a=1") + part(form, q) + part(js, b) + closing(), MustAccept: true},
		{Name: "ok-multipart-preamble", Method: "POST", Target: "/coll", Headers: h(mp, "PUT"), Body: "preamble line\r\n" + part(form, q) + part(js, b) + closing(), MustAccept: true},
		{Name: "ok-multipart-quoted-boundary", Method: "POST", Target: "/coll", Headers: h("multipart/mixed; boundary=\""+bnd+"\"", "PUT"), Body: part(form, q) + part(js, b) + closing(), MustAccept: true},
		{Name: "ok-multipart-uppercase", Method: "POST", Target: "/coll", Headers: h("Multipart/Mixed; Boundary="+bnd, "PUT"), Body: part(form, q) + strings.Replace(part(js, b), "Content-Type", "content-type", 1) + closing(), MustAccept: true},
		{Name: "ok-multipart-lwsp-after-boundary", Method: "POST", Target: "/coll", Headers: h(mp, "PUT"), Body: "--" + bnd + " \t\r\nContent-Type: " + form + "\r\n\r\n" + q + "\r\n" + part(js, b) + "--" + bnd + "--", MustAccept: true},
		{Name: "ok-multipart-boundary-like-content", Method: "POST", Target: "/coll", Headers: h(mp, "PUT"),
			Body: part(form, "a=--"+bnd[:59]+"&b=\r\n--"+bnd+"x") + part(js, "{\"a\":\"\r\n--"+bnd[:30]+"\"}") + closing(), MustAccept: true},
		{Name: "ok-form", Method: "POST", Target: "/coll", Headers: hGet(form, "GET"), Body: q, MustAccept: true},
		{Name: "ok-form-empty-query", Method: "POST", Target: "/coll", Headers: hGet(form, "GET"), Body: "", MustAccept: true},
		{Name: "ok-form-with-charset", Method: "POST", Target: "/coll", Headers: hGet(form+"; charset=UTF-8", "GET"), Body: q, MustAccept: true},
		{Name: "ok-plain-put", Method: "PUT", Target: "/coll?" + q, Headers: h(js, ""), Body: b, MustAccept: true},
		{Name: "ok-plain-get", Method: "GET", Target: "/coll?" + q, Headers: hGet("", ""), Body: "", MustAccept: true},
		// the override header on a POST without a tunnelled body: rejected since fix ee52010 (used to leave req.Body nil)
		// neither: not a POST / no override header, passed through untouched
		{Name: "override-on-get", Method: "GET", Target: "/coll?" + q, Headers: hGet("", "DELETE"), Body: ""},
		{Name: "override-json-body", Method: "POST", Target: "/coll", Headers: h(js, "PUT"), Body: b, MustReject: true},
		{Name: "override-no-content-type", Method: "POST", Target: "/coll", Headers: h("", "PUT"), Body: b, MustReject: true},
		{Name: "override-text-plain", Method: "POST", Target: "/coll", Headers: h("text/plain", "PUT"), Body: b, MustReject: true},
		{Name: "override-get-no-content-type", Method: "POST", Target: "/coll", Headers: hGet("", "GET"), Body: "", MustReject: true},
		{Name: "multipart-without-override", Method: "POST", Target: "/coll", Headers: h(mp, ""), Body: part(form, q) + part(js, b) + closing()},
	}
}

// ---- override header + every shape of URL query
//
// The rule is on the RAW query (tunnelling.go:58: req.URL.RawQuery != ""; model: w_rawquery r <> []): a method-override POST
// whose request target carries ANY non-empty query is malformed, whether or not net/url can make parameters out of it.
// Fixed shapes (separators only, semicolons - dropped by url.ParseQuery since Go 1.17 -, malformed escapes, keys without
// value, values without key, ordinary parameters, Rest.li syntax) plus seeded random strings over the query alphabet, each
// with a well-formed form-encoded GET tunnel and a well-formed multipart PUT tunnel (must be rejected with 400 before
// resource code), and - as pass-through probes compared with the model only - with the override header on a GET, with an
// empty override header, and without the header.
func rawQueryClass(q string) string {
	switch {
	case strings.Trim(q, "&;") == "":
		return "separators-only"
	case strings.Contains(q, ";"):
		return "semicolon"
	}
	if _, err := url.ParseQuery(q); err != nil {
		return "bad-escape"
	}
	if v, _ := url.ParseQuery(q); len(v) == 0 {
		return "parses-to-nothing"
	}
	if !strings.Contains(q, "=") {
		return "no-equals"
	}
	return "parameters"
}

func rawQueryShapes(r *hx.Rand, thorough bool) []string {
	qs := []string{"&", "&&", "&&&", ";", ";;", "&;&", "=", "==", "=&=", "a;b", "fields=id;x", ";a=1", "a=1;", "%zz", "fields=%zz", "%", "%2", "a=%",
		"a", "a=", "=b", "a=1&", "&a=1", "a=1&b=2", "a=b=c", "?", "+", "%20", "%00", "%26", "a%3Db", "fields=id", "fields=id,name", "q=finder&x=(a:1,b:List(2))",
		"ids=List(1,2)", "/", ":", "(", "'", "~", ".", "a=1&a=2", strings.Repeat("k=v&", 40)}
	n := 60
	if thorough {
		n = 1500
	}
	const alphabet = "a1=&;%z+.,()'~:/?*-_!$@"
	seen := map[string]bool{}
	for _, q := range qs {
		seen[q] = true
	}
	base := len(qs)
	for len(qs) < base+n {
		l := 1 + r.Intn(6)
		b := make([]byte, l)
		for i := range b {
			if r.Chance(55) {
				b[i] = "&;=%a"[r.Intn(5)]
			} else {
				b[i] = alphabet[r.Intn(len(alphabet))]
			}
		}
		if q := string(b); !seen[q] {
			seen[q] = true
			qs = append(qs, q)
		}
	}
	return qs
}

func rawQueryCases(r *hx.Rand, thorough bool) []rawCase {
	mp := "multipart/mixed; boundary=" + bnd
	form, js := "application/x-www-form-urlencoded", "application/json"
	hdr := func(method, ct string, override *string) map[string]string {
		m := map[string]string{"X-RestLi-Method": method, "X-RestLi-Protocol-Version": "2.0.0"}
		if ct != "" {
			m["Content-Type"] = ct
		}
		if override != nil {
			m["X-HTTP-Method-Override"] = *override
		}
		return m
	}
	sp := func(s string) *string { return &s }
	var out []rawCase
	for i, q := range rawQueryShapes(r, thorough) {
		cl := rawQueryClass(q)
		for _, path := range []string{"/coll", "/coll/a%2Fb/sub/(k:1)"}[:1+i%2] {
			t := path + "?" + q
			out = append(out,
				rawCase{Name: "override-with-url-query:" + cl + ":form", Method: "POST", Target: t, Headers: hdr("get", form, sp("GET")), Body: "param=bar", MustReject: true},
				rawCase{Name: "override-with-url-query:" + cl + ":multipart", Method: "POST", Target: t, Headers: hdr("update", mp, sp("PUT")),
					Body: part(form, "param=bar") + part(js, "{}") + closing(), MustReject: true},
				// pass-through probes (the model decides): the header on a GET, an empty header value, no header
				rawCase{Name: "url-query-shape:override-on-get", Method: "GET", Target: t, Headers: hdr("get", "", sp("DELETE"))},
				rawCase{Name: "url-query-shape:empty-override", Method: "POST", Target: t, Headers: hdr("update", js, sp("")), Body: "{}"},
				rawCase{Name: "url-query-shape:no-override", Method: "PUT", Target: t, Headers: hdr("update", js, nil), Body: "{}"})
		}
	}
	// a bare "?" is an EMPTY raw query: a well-formed tunnel
	out = append(out, rawCase{Name: "ok-form-bare-question-mark", Method: "POST", Target: "/coll?", Headers: hdr("get", form, sp("GET")), Body: "param=bar", MustAccept: true})
	return out
}

// ---- the grid

func queriesFor(base string, r *hx.Rand, thorough bool) []string {
	qs := []string{
		"", "a", "param=bar",
		"a=1&b=2=3&c=%28x%29+y%2B",
		"q=line1\r\nline2\n\rend",
		"x=--" + bnd[:20] + "&y=\r\n--" + bnd[:30] + "\r\n--",
		"--" + bnd[:10],
		"f=caf\xc3\xa9\xff\x00\x01",
		"ids=List(" + strings.Repeat("(a:1,b:x%20y),", 10) + "z)",
	}
	nRandom := 8
	if thorough {
		nRandom = 60
	}
	{
		for k := 0; k < nRandom; k++ {
			n := 1 + r.Intn(60)
			var sb strings.Builder
			alphabet := "ab=&%+-\r\n;:'()0123456789\x00\xff\"{}"
			for i := 0; i < n; i++ {
				sb.WriteByte(alphabet[r.Intn(len(alphabet))])
			}
			qs = append(qs, sb.String())
		}
	}
	_ = base
	return qs
}

type bodySpec struct {
	has  bool
	body string
}

func bodies(thorough bool) []bodySpec {
	bs := []bodySpec{
		{false, ""},
		{true, ""},
		{true, "{}"},
		{true, `{"a":"--` + bnd[:25] + `","b":"\r\n--x"}`},
		{true, "{\"k\":\r\n--" + bnd[:40] + "\r\n--\r\n\"v\"}\r\n"},
		{true, "--" + bnd[:12] + "--\r\n"},
	}
	if thorough {
		bs = append(bs, bodySpec{true, strings.Repeat("{\"x\":[1,2,3]}\r\n", 300)}, bodySpec{true, "\r\n"}, bodySpec{true, "-"}, bodySpec{true, "\x00\xff"})
	}
	return bs
}

func thresholds(q string) []int {
	l := len(q)
	set := map[int]bool{}
	var out []int
	for _, t := range []int{0, 1, l - 1, l, l + 1, 1 << 20, -1, 2} {
		if !set[t] {
			set[t] = true
			out = append(out, t)
		}
	}
	return out
}

func main() {
	cfg := hx.ParseFlags()
	log.SetOutput(io.Discard)
	rep := hx.NewReport("client grid: verbs {GET, DELETE without body; PUT, POST, GET, DELETE with body} x queries (empty, 1 byte, around the threshold, with CR/LF, '&', '=', '%', '+', " +
		"boundary-like text, non-ASCII, long) x bodies (absent, empty, JSON, JSON / raw bytes with boundary-like lines) x thresholds {0, 1, len-1, len, len+1, 2^20, -1, 2}, through the real " +
		"client entry points, the wire (Request.Write / http.ReadRequest) and the real DecodeTunnelledQuery, compared with the same request built with tunnelling off; plus hand-crafted wire " +
		"requests (malformed tunnelling of every class the property names, well-formed variants, override header without tunnelled body) through DecodeTunnelledQuery and a real server " +
		"with a recording stub resource; plus the URL-QUERY-SHAPE sweep: the override header (form-encoded GET tunnel and multipart PUT tunnel, both well-formed) with EVERY shape of non-empty raw URL query - separators only (&, &&, ;), " +
		"semicolons (a;b: dropped by url.ParseQuery), malformed escapes (%zz, %), =, keys without value, ordinary and Rest.li parameters, and 60 (thorough: 1500) seeded random strings over the query alphabet - which must all be " +
		"answered 400 before resource code (the rule is on the RAW query), the same targets with the header on a GET / an empty header value / no header as pass-through probes for the model, and a bare '?' (empty raw query: a well-formed tunnel); plus SIZE cases (generated query / body of 64 KiB, 1 MiB - 1, 1 MiB, 1 MiB + 1, 2 MiB, 3 MiB; body-less and with body; ORACLE ONLY: they are compared with the untunnelled request " +
		"on the real code but not handed to the Coq evaluation, whose cost is linear in the bytes with a large constant; the quick tier runs a handful of them) and 'several requests alive' streams (request A built, " +
		"then B built, only then A written to the wire and decoded; N requests built first and sent in reverse order - these also go to the model); both module generations. non-trivial = tunnelled AND query/body hold a separator or boundary-like bytes (client cases), or a must-reject " +
		"case (raw cases); distinct by all inputs")
	header := "From Coq Require Import List ZArith. Import ListNotations.\nFrom Coq.Strings Require Import Byte.\nFrom GR Require Import Base.Bytes Http.UrlModel Http.Tunnel Corr.C14Corr.\n"
	sh := hx.NewShards(cfg.Out, header, "C14Corr", 150)

	if cfg.Replay != "" {
		b, err := os.ReadFile(cfg.Replay)
		if err != nil {
			panic(err)
		}
		var probe struct {
			Case struct {
				Module string `json:"module"`
				Kind   string `json:"kind"`
			} `json:"case"`
		}
		if err := json.Unmarshal(b, &probe); err != nil {
			panic(err)
		}
		for i := range modules {
			if modules[i].name != probe.Case.Module {
				continue
			}
			if probe.Case.Kind == "raw" {
				var rp struct {
					Case rawCase `json:"case"`
				}
				json.Unmarshal(b, &rp)
				rp.Case.Wire, rp.Case.Decoded, rp.Case.Invoked = nil, nil, nil
				runRaw(&modules[i], rp.Case, rep, sh)
			} else {
				var rp struct {
					Case clientCase `json:"case"`
				}
				json.Unmarshal(b, &rp)
				rp.Case.Wire, rp.Case.Decoded, rp.Case.Reference = nil, nil, nil
				if probe.Case.Kind == "direct" {
					runDirect(&modules[i], rp.Case, rep, sh)
				} else if len(rp.Case.Alive) > 0 {
					runAlive(&modules[i], rp.Case, rep, sh)
				} else {
					runClient(&modules[i], rp.Case, rep, sh)
				}
			}
		}
		sh.Close()
		rep.Shards = sh.Files
		rep.Write(cfg.Out)
		return
	}

	r := hx.NewRand(cfg.Seed)
	paths := []string{"/coll", "/coll/a%2Fb/sub/(k:1)"}
	for mi := range modules {
		m := &modules[mi]
		for _, rc := range rawCases() {
			runRaw(m, rc, rep, sh)
		}
		for _, rc := range rawQueryCases(hx.NewRand(cfg.Seed+14), cfg.Thorough()) {
			runRaw(m, rc, rep, sh)
		}
		n := 0
		for _, q := range queriesFor("", r, cfg.Thorough()) {
			for _, b := range bodies(cfg.Thorough()) {
				verbs := []string{"GET", "DELETE"}
				if b.has {
					verbs = []string{"PUT", "POST", "GET", "DELETE"}
				}
				for vi, verb := range verbs {
					if cfg.Thorough() || vi == 0 || (vi+n)%3 == 0 {
						runDirect(m, clientCase{Verb: verb, Path: paths[(n+vi)%len(paths)], Query: q, HasBody: b.has, Body: b.body}, rep, sh)
					}
				}
				for _, th := range thresholds(q) {
					for vi, verb := range verbs {
						if !cfg.Thorough() && b.has && vi >= 2 && n%3 != 0 {
							n++
							continue
						}
						n++
						runClient(m, clientCase{Threshold: th, Verb: verb, Path: paths[n%len(paths)], Query: q, HasBody: b.has, Body: b.body}, rep, sh)
					}
				}
			}
		}
	}
	// ---- size cases (oracle only) and the "several requests alive" streams
	for mi := range modules {
		m := &modules[mi]
		sizes := []int{64 << 10, 1<<20 - 1, 1 << 20, 1<<20 + 1, 2 << 20, 3 << 20}
		quickQ := map[int]bool{64 << 10: true, 1<<20 - 1: true, 1<<20 + 1: true, 2 << 20: true}
		quickB := map[int]bool{64 << 10: true, 1 << 20: true, 2 << 20: true}
		for _, n := range sizes {
			if cfg.Thorough() || quickQ[n] {
				runClient(m, clientCase{Threshold: 128, Verb: "GET", Path: "/coll", BigQueryLen: n}, rep, sh)
			}
			if cfg.Thorough() || quickB[n] {
				runClient(m, clientCase{Threshold: 16, Verb: "PUT", Path: "/coll", Query: "ids=List(1,2,3)&fields=a,b", HasBody: true, BigBodyLen: n}, rep, sh)
			}
			if cfg.Thorough() {
				runClient(m, clientCase{Threshold: n - 1, Verb: "DELETE", Path: "/coll", BigQueryLen: n}, rep, sh)
				runClient(m, clientCase{Threshold: n, Verb: "GET", Path: "/coll", BigQueryLen: n}, rep, sh)
				runClient(m, clientCase{Threshold: 1, Verb: "POST", Path: "/coll/a%2Fb/sub/(k:1)", BigQueryLen: n, HasBody: true, Body: "{}"}, rep, sh)
				runClient(m, clientCase{Threshold: 1, Verb: "PUT", Path: "/coll", BigQueryLen: n / 2, HasBody: true, BigBodyLen: n / 2}, rep, sh)
				runClient(m, clientCase{Threshold: 0, Verb: "PUT", Path: "/coll", Query: "a=1", HasBody: true, BigBodyLen: n}, rep, sh)
			}
		}
		mk := func(i int, hasBody bool) clientCase {
			c := clientCase{Threshold: 4, Verb: "GET", Path: "/coll", Query: fmt.Sprintf("who=request-%c&n=%d", 'A'+i, i)}
			if hasBody {
				c.Verb, c.HasBody, c.Body = []string{"PUT", "POST"}[i%2], true, fmt.Sprintf(`{"owner":"request-%c","payload":"%s"}`, 'A'+i, strings.Repeat(string(rune('a'+i)), 20+7*i))
			}
			return c
		}
		// A built, B built, A sent (A and B with / without body, same and different lengths)
		for _, ab := range [][2]bool{{true, true}, {true, false}, {false, true}, {false, false}} {
			for _, ij := range [][2]int{{0, 1}, {1, 0}, {2, 5}, {5, 2}} {
				a, b := mk(ij[0], ab[0]), mk(ij[1], ab[1])
				a.Alive = []clientCase{b}
				runAlive(m, a, rep, sh)
			}
		}
		// a longer one first, a shorter one in between (and the other way round), untunnelled neighbours
		a := mk(0, true)
		a.Body = `{"owner":"request-A","payload":"` + strings.Repeat("A", 5000) + `"}`
		a.Alive = []clientCase{mk(1, true), mk(2, true)}
		runAlive(m, a, rep, sh)
		a = mk(3, true)
		nb := mk(4, true)
		nb.Threshold = 0
		a.Alive = []clientCase{nb}
		runAlive(m, a, rep, sh)
		// N requests built first, sent in reverse order
		ns := []int{3, 8}
		if cfg.Thorough() {
			ns = []int{2, 3, 5, 8, 16}
		}
		for _, n := range ns {
			for _, withBody := range []bool{true, false} {
				var cs []clientCase
				for i := 0; i < n; i++ {
					cs = append(cs, mk(i%20, withBody || i%3 == 0))
				}
				runReverse(m, cs, rep, sh)
			}
		}
	}
	rep.Exhaustive = false
	sh.Close()
	rep.Shards = sh.Files
	rep.Write(cfg.Out)
}
