// C20 driver, part 2: GENERATOR-LEVEL HISTORIES.  The real cmd.GenerateCode (v2: ReadManifest + GenerateCode, root:
// GenerateCode on a parsed spec) is run in child processes (utils.TypeRegistry is a process global) on a project directory
// that holds foreign files (go.mod, hand-written .go beside generated code, data files, sibling directories, a symbolic
// link, owned-looking files OUTSIDE the output directory): generate; regenerate; regenerate a changed schema set; failing
// generations with an obstacle at every stage; "decorate" steps plant foreign files named like decorations of the generated
// names (<name>.tmp, <name>~, .<name>.swp, #<name>#, <name>.tmp/, ... - see decorate) before the first generation (names
// predicted from the schema set) and after it (every generated file and directory).  After EVERY run, successful or failed:
//   - nothing outside the output directory changed at all;
//   - every file below the output directory whose name the generator does not own is still there, byte-identical;
//   - every new file has a name the generator owns;
//
// and a run without obstacle must succeed and leave exactly the owned files of a generation into a fresh directory.
// This part is ORACLE-ONLY (no Coq model of GenerateCode is evaluated on these histories; Props/C20_history.v proves the
// invariants for the modelled clean + writes of owned names, not that GenerateCode does nothing else).
package main

import (
	"bytes"
	"context"
	"encoding/json"
	"fmt"
	"io"
	"log"
	"os"
	"os/exec"
	"path/filepath"
	"sort"
	"strings"
	"sync"
	"time"

	rootcmd "github.com/PapaCharlie/go-restli/cmd"
	rootutils2 "github.com/PapaCharlie/go-restli/codegen/utils"
	v2cmd "github.com/PapaCharlie/go-restli/v2/cmd"
	"verif/harness/hx"
)

// ---------------------------------------------------------------------------------------------- child process

type childResult struct {
	Status string `json:"status"` // ok | error | read-error | panic | crashed | timeout
	Detail string `json:"detail,omitempty"`
}

// childMain: C20_CHILD=1 <module> <outDir> <withPackageRoot 0|1> <dep manifest | package prefix> <manifest | spec>
func childMain() {
	log.SetOutput(io.Discard)
	res := childResult{Status: "ok"}
	func() {
		defer func() {
			if e := recover(); e != nil {
				res = childResult{Status: "panic", Detail: fmt.Sprint(e)}
			}
		}()
		a := os.Args[1:]
		if len(a) != 5 {
			res = childResult{Status: "usage"}
			return
		}
		module, out, withRoot, aux, man := a[0], a[1], a[2] == "1", a[3], a[4]
		switch module {
		case "v2":
			var ms []*v2cmd.GoRestliManifest
			for _, f := range []string{aux, man} {
				b, err := os.ReadFile(f)
				if err != nil {
					res = childResult{Status: "read-error", Detail: err.Error()}
					return
				}
				m, err := v2cmd.ReadManifest(b)
				if err != nil {
					res = childResult{Status: "read-error", Detail: err.Error()}
					return
				}
				ms = append(ms, m)
			}
			if err := v2cmd.GenerateCode(out, ms, withRoot); err != nil {
				res = childResult{Status: "error", Detail: firstLine(err.Error())}
			}
		case "root":
			rootutils2.PackagePrefix = aux
			b, err := os.ReadFile(man)
			if err != nil {
				res = childResult{Status: "read-error", Detail: err.Error()}
				return
			}
			if err := rootcmd.GenerateCode(b, out); err != nil {
				res = childResult{Status: "error", Detail: firstLine(err.Error())}
			}
		}
	}()
	b, _ := json.Marshal(res)
	fmt.Println(string(b))
}

func firstLine(s string) string {
	if i := strings.IndexByte(s, '\n'); i >= 0 {
		s = s[:i]
	}
	if len(s) > 300 {
		s = s[:300]
	}
	return s
}

// ---------------------------------------------------------------------------------------------- schema sets

// genSpec: a small schema set.  Namespaces com.acme.<seg> for every seg (a seg may hold dots: several path elements), plus
// com.acme.plain (record Order referring to the first seg's Thing); optionally com.acme.billing (record Invoice) and
// com.acme.tr (typeref Stamp, custom when a hand-written Stamp.go sits in its package directory).
type genSpec struct {
	Segs    []string `json:"segs"`
	Billing bool     `json:"billing,omitempty"`
	Typeref bool     `json:"typeref,omitempty"`
	Broken  string   `json:"broken,omitempty"` // "", "undefined-ref" (registration / resolution fails), "syntax" (not JSON)
	Root    string   `json:"package_root"`     // v2 packageRoot / root module PackagePrefix
}

func (s *genSpec) key() string { b, _ := json.Marshal(s); return string(b) }

type jm = map[string]interface{}

func prim(p string) jm       { return jm{"primitive": p} }
func ref(ns, name string) jm { return jm{"reference": jm{"name": name, "namespace": ns}} }
func field(name string, t jm, opt bool) jm {
	return jm{"name": name, "doc": "", "type": t, "isOptional": opt}
}
func named(kind, ns, name string, v2 bool, extra jm) jm {
	m := jm{"name": name, "namespace": ns, "sourceFile": ns + "/" + name + ".pdl", "doc": kind + " " + name}
	for k, v := range extra {
		m[k] = v
	}
	if kind == "record" && v2 {
		m["includes"] = []interface{}{}
	}
	return jm{kind: m}
}

func (s *genSpec) dataTypes(v2 bool) []interface{} {
	var ts []interface{}
	first := ""
	for i, seg := range s.Segs {
		ns := "com.acme." + seg
		if i == 0 {
			first = ns
		}
		ts = append(ts, named("record", ns, "Thing", v2, jm{"fields": []interface{}{field("id", prim("int64"), false), field("name", prim("string"), true)}}))
		ts = append(ts, named("enum", ns, "Color", v2, jm{"Symbols": []string{"RED", "GREEN"}, "SymbolToDoc": jm{"RED": "red"}}))
	}
	of := []interface{}{field("count", prim("int32"), false)}
	if first != "" {
		of = append(of, field("thing", ref(first, "Thing"), true))
	}
	if s.Broken == "undefined-ref" {
		of = append(of, field("missing", ref("com.acme.nowhere", "Missing"), false))
	}
	if s.Typeref {
		of = append(of, field("stamp", ref("com.acme.tr", "Stamp"), true))
		tr := jm{"type": "int64"}
		if v2 {
			tr["isCustom"] = false
		}
		ts = append(ts, named("typeref", "com.acme.tr", "Stamp", v2, tr))
	}
	ts = append(ts, named("record", "com.acme.plain", "Order", v2, jm{"fields": of}))
	if s.Billing {
		ts = append(ts, named("record", "com.acme.billing", "Invoice", v2, jm{"fields": []interface{}{field("total", prim("float64"), false)}}))
	}
	return ts
}

func (s *genSpec) bytesFor(m *module) []byte {
	if s.Broken == "syntax" {
		return []byte(`{"packageRoot": "` + s.Root + `", "inputDataTypes": [ {"record": `)
	}
	var doc jm
	if m.v2 {
		res := []interface{}{}
		if len(s.Segs) > 0 {
			ns := "com.acme." + s.Segs[0]
			res = append(res, jm{"namespace": ns + ".things", "doc": "things", "sourceFile": ns + ".things.restspec.json",
				"resourcePathSegments": []interface{}{jm{"resourceName": "things", "pathKey": jm{"name": "thingsId", "type": prim("int64")}}},
				"resourceSchema":       ref(ns, "Thing"),
				"methods": []interface{}{jm{"methodType": "REST_METHOD", "name": "get", "doc": "", "onEntity": true, "params": []interface{}{},
					"isPagingSupported": false, "returnEntity": false}},
				"readOnlyFields": []string{}, "createOnlyFields": []string{}})
		}
		doc = jm{"packageRoot": s.Root, "inputDataTypes": s.dataTypes(true), "dependencyDataTypes": []interface{}{}, "resources": res}
	} else {
		doc = jm{"dataTypes": s.dataTypes(false), "Resources": []interface{}{}}
	}
	b, err := json.MarshalIndent(doc, "", " ")
	must(err)
	return b
}

func segPath(seg string) string { return strings.ReplaceAll(seg, ".", "/") }

// ---------------------------------------------------------------------------------------------- histories

type Step struct {
	Op       string   `json:"op"`                // gen | put | rm | decorate
	Variant  int      `json:"variant,omitempty"` // decorate: which decorations are directories (0: none but .d; 1: .tmp and .bak)
	Spec     *genSpec `json:"spec,omitempty"`
	WithRoot bool     `json:"with_package_root,omitempty"` // v2: generateWithPackageRoot
	Dot      bool     `json:"dot,omitempty"`               // the generator runs inside the output directory and is given "."
	Expect   string   `json:"expect,omitempty"`            // "ok": no obstacle is in place, the run must succeed; "any"
	Path     string   `json:"path,omitempty"`              // put / rm: relative to the PROJECT directory
	Dir      bool     `json:"dir,omitempty"`               // put: a directory holding keep.txt (Content)
	Content  string   `json:"content,omitempty"`
	Mode     uint32   `json:"mode,omitempty"` // put: chmod afterwards (unwritable directory)
}

type History struct {
	Kind    string  `json:"kind"` // "history"
	Module  string  `json:"module"`
	Name    string  `json:"name"`
	Out     string  `json:"out"`     // output directory relative to the project directory ("gen" or ".")
	Initial []*Node `json:"initial"` // the project tree before the first step
	Steps   []Step  `json:"steps"`
	// filled in when a failure is reported
	FailedAtStep int           `json:"failed_at_step,omitempty"`
	Observed     []childResult `json:"observed,omitempty"`
}

type histFailure struct {
	sig, what string
	step      int
	impl      interface{}
}

type histResult struct {
	h        *History
	statuses []childResult
	fails    []histFailure
	counts   []string
}

var (
	selfExe     string
	depV2       string
	goldenMu    sync.Mutex
	goldens     = map[string]*goldenEntry{}
	histScratch string
)

type goldenEntry struct {
	once  sync.Once
	files map[string]string // owned files of a generation into a fresh directory; nil: that generation fails
	res   childResult
}

func repoPath() string {
	if r := os.Getenv("VERIF_REPO"); r != "" {
		return r
	}
	return "/repo"
}

func runChild(m *module, cwd, outArg string, withRoot bool, spec *genSpec, tmp string) childResult {
	manFile := filepath.Join(tmp, "input.json")
	must(os.WriteFile(manFile, spec.bytesFor(m), 0o644))
	aux := depV2
	if !m.v2 {
		aux = spec.Root
	}
	wr := "0"
	if withRoot {
		wr = "1"
	}
	ctx, cancel := context.WithTimeout(context.Background(), 300*time.Second)
	defer cancel()
	c := exec.CommandContext(ctx, selfExe, m.name, outArg, wr, aux, manFile)
	c.Env = append(os.Environ(), "C20_CHILD=1")
	c.Dir = cwd
	var so, se bytes.Buffer
	c.Stdout, c.Stderr = &so, &se
	err := c.Run()
	if ctx.Err() != nil {
		return childResult{Status: "timeout"}
	}
	var res childResult
	lines := strings.Split(strings.TrimSpace(so.String()), "\n")
	if e := json.Unmarshal([]byte(lines[len(lines)-1]), &res); e != nil || res.Status == "" {
		t := se.String()
		if len(t) > 400 {
			t = t[:400]
		}
		return childResult{Status: "crashed", Detail: fmt.Sprint(err) + ": " + t}
	}
	return res
}

// flat view of a snapshot: path -> "F:"+content | "L:"+target ; directories separately
func flatten(prefix string, l []*Node, files map[string]string, dirs map[string]bool) {
	for _, n := range l {
		p := n.Name
		if prefix != "" {
			p = prefix + "/" + n.Name
		}
		switch {
		case n.Dir:
			dirs[p] = true
			flatten(p, n.Children, files, dirs)
		case n.Link:
			files[p] = "L:" + n.Content
		default:
			files[p] = "F:" + n.Content
		}
	}
}

func underOut(out, p string) (string, bool) {
	if out == "." {
		return p, true
	}
	if strings.HasPrefix(p, out+"/") {
		return p[len(out)+1:], true
	}
	return "", false
}

func ownedFilesUnder(m *module, out string, files map[string]string) map[string]string {
	o := map[string]string{}
	for p, c := range files {
		if rel, ok := underOut(out, p); ok && owned(m, p) && strings.HasPrefix(c, "F:") {
			o[rel] = c[2:]
		}
	}
	return o
}

func customPresent(m *module, outDir string, st *Step) bool {
	if !m.v2 || st.Spec == nil || !st.Spec.Typeref {
		return false
	}
	base := outDir
	if st.WithRoot {
		base = filepath.Join(outDir, st.Spec.Root)
	}
	_, err := os.Stat(filepath.Join(base, "com/acme/tr/Stamp.go"))
	return err == nil
}

const stampGo = "package tr\n\n// hand-written custom typeref\ntype Stamp int64\n"

func golden(m *module, st *Step, custom bool) *goldenEntry {
	key := fmt.Sprint(m.name, "|", st.Spec.key(), "|", st.WithRoot, "|", custom)
	goldenMu.Lock()
	g := goldens[key]
	if g == nil {
		g = &goldenEntry{}
		goldens[key] = g
	}
	goldenMu.Unlock()
	g.once.Do(func() {
		tmp, err := os.MkdirTemp(histScratch, "golden-")
		must(err)
		defer removeAll(tmp)
		out := filepath.Join(tmp, "gen")
		if custom {
			base := out
			if st.WithRoot {
				base = filepath.Join(out, st.Spec.Root)
			}
			must(os.MkdirAll(filepath.Join(base, "com/acme/tr"), 0o755))
			must(os.WriteFile(filepath.Join(base, "com/acme/tr/Stamp.go"), []byte(stampGo), 0o644))
		}
		g.res = runChild(m, tmp, out, st.WithRoot, st.Spec, tmp)
		if g.res.Status == "ok" {
			snap, _ := snapshot(out)
			files, dirs := map[string]string{}, map[string]bool{}
			flatten("", snap, files, dirs)
			g.files = ownedFilesUnder(m, ".", files)
		}
	})
	return g
}

// decorate plants FOREIGN files whose names are decorations of the names of generated files and of the directories that
// hold them, right next to them: <name>.tmp, <name>~, <name>.bak, <name>.orig, <name>.new, <name>.old, <name>.lock,
// <name>.part, .<name>.swp, #<name>#, _<name>, <name>.d/ (a directory with a file inside; variant 1: <name>.tmp/ and
// <name>.bak/ are directories too).  With st.Spec == nil the names are those present below the output directory now (after
// a generation); with st.Spec != nil they are the names a generation of that schema set WILL produce (taken from the
// generation into a fresh directory), planted beforehand.  None of the planted names is owned (checked), nothing that
// exists is overwritten.  Returns the number of files planted.
func decorate(m *module, outDir string, st *Step) int {
	files, dirs := map[string]string{}, map[string]bool{}
	if st.Spec != nil {
		g := golden(m, st, false)
		for rel := range g.files {
			files[rel] = ""
			for d := filepath.Dir(rel); d != "."; d = filepath.Dir(d) {
				dirs[d] = true
			}
		}
	} else {
		snap, ok := snapshot(outDir)
		if !ok {
			return 0
		}
		all := map[string]string{}
		flatten("", snap, all, dirs)
		for rel, c := range all {
			if owned(m, rel) && strings.HasPrefix(c, "F:") {
				files[rel] = ""
			}
		}
		for d := range dirs { // decorate only directories that lead to generated files
			keep := false
			for rel := range files {
				if strings.HasPrefix(rel, d+"/") {
					keep = true
					break
				}
			}
			if !keep {
				delete(dirs, d)
			}
		}
	}
	var names []string
	for rel := range files {
		names = append(names, rel)
	}
	for d := range dirs {
		names = append(names, d)
	}
	sort.Strings(names)
	type deco struct {
		pre, suf string
		dir      bool
	}
	decos := []deco{{"", ".tmp", st.Variant == 1}, {"", "~", false}, {"", ".bak", st.Variant == 1}, {"", ".orig", false}, {"", ".new", false},
		{"", ".old", false}, {"", ".lock", false}, {"", ".part", false}, {".", ".swp", false}, {"#", "#", false}, {"_", "", false}, {"", ".d", true}}
	n := 0
	for _, rel := range names {
		dir, base := filepath.Dir(rel), filepath.Base(rel)
		for _, d := range decos {
			name := d.pre + base + d.suf
			if owned(m, name) {
				continue
			}
			p := filepath.Join(outDir, dir, name)
			if _, err := os.Lstat(p); err == nil {
				continue
			}
			if os.MkdirAll(filepath.Dir(p), 0o755) != nil {
				continue
			}
			content := []byte("user file " + name + " next to " + rel)
			if d.dir {
				if os.Mkdir(p, 0o755) != nil {
					continue
				}
				p = filepath.Join(p, "keep"+filepath.Ext(base))
			}
			if os.WriteFile(p, content, 0o644) == nil {
				n++
			}
		}
	}
	return n
}

func placeObstacle(proj string, st *Step) error {
	p := filepath.Join(proj, st.Path)
	if err := os.MkdirAll(filepath.Dir(p), 0o755); err != nil {
		return err
	}
	if fi, err := os.Lstat(p); err == nil && !fi.IsDir() {
		if err := os.Remove(p); err != nil { // the user replaces a (generated) file by the obstacle
			return err
		}
	} else if err == nil && !st.Dir {
		return fmt.Errorf("a directory is already there")
	}
	if st.Dir {
		if err := os.MkdirAll(p, 0o755); err != nil {
			return err
		}
		if err := os.WriteFile(filepath.Join(p, "keep.txt"), []byte(st.Content), 0o644); err != nil {
			return err
		}
	} else if err := os.WriteFile(p, []byte(st.Content), 0o644); err != nil {
		return err
	}
	if st.Mode != 0 {
		return os.Chmod(p, os.FileMode(st.Mode))
	}
	return nil
}

func removeAll(dir string) {
	filepath.Walk(dir, func(p string, fi os.FileInfo, err error) error {
		if err == nil && fi.IsDir() {
			os.Chmod(p, 0o755)
		}
		return nil
	})
	os.RemoveAll(dir)
}

func sortedDiff(a, b map[string]string) []string {
	var d []string
	for p, c := range a {
		if c2, ok := b[p]; !ok {
			d = append(d, "missing: "+p)
		} else if c2 != c {
			d = append(d, "differs: "+p)
		}
	}
	for p := range b {
		if _, ok := a[p]; !ok {
			d = append(d, "unexpected: "+p)
		}
	}
	sort.Strings(d)
	if len(d) > 12 {
		d = append(d[:12], fmt.Sprintf("... %d more", len(d)-12))
	}
	return d
}

func runHistory(m *module, h *History) *histResult {
	hr := &histResult{h: h}
	proj, err := os.MkdirTemp(histScratch, "proj-")
	must(err)
	defer removeAll(proj)
	tmp, err := os.MkdirTemp(histScratch, "tmp-")
	must(err)
	defer removeAll(tmp)
	sortNodes(h.Initial)
	build(proj, h.Initial)
	outDir := filepath.Join(proj, h.Out)
	for i := range h.Steps {
		st := &h.Steps[i]
		switch st.Op {
		case "put":
			// a step that cannot be carried out on the current tree (random histories: a file where a directory already
			// is, a path below a regular file) is a no-op
			if err := placeObstacle(proj, st); err != nil {
				hr.statuses = append(hr.statuses, childResult{Status: "skipped", Detail: firstLine(err.Error())})
			} else {
				hr.statuses = append(hr.statuses, childResult{Status: "-"})
			}
		case "decorate":
			n := decorate(m, outDir, st)
			hr.statuses = append(hr.statuses, childResult{Status: "-", Detail: fmt.Sprintf("%d foreign files planted", n)})
			hr.counts = append(hr.counts, "history:decorate")
		case "rm":
			p := filepath.Join(proj, st.Path)
			os.Chmod(p, 0o755)
			removeAll(p)
			hr.statuses = append(hr.statuses, childResult{Status: "-"})
		case "gen":
			beforeSnap, _ := snapshot(proj)
			custom := customPresent(m, outDir, st)
			cwd, arg := proj, outDir
			if st.Dot {
				if fi, err := os.Stat(outDir); err == nil && fi.IsDir() {
					cwd, arg = outDir, "."
				}
			}
			res := runChild(m, cwd, arg, st.WithRoot, st.Spec, tmp)
			hr.statuses = append(hr.statuses, res)
			hr.counts = append(hr.counts, "history:run="+res.Status, "history:expect="+st.Expect)
			afterSnap, _ := snapshot(proj)
			bf, bd := map[string]string{}, map[string]bool{}
			af, ad := map[string]string{}, map[string]bool{}
			flatten("", beforeSnap, bf, bd)
			flatten("", afterSnap, af, ad)
			fail := func(sig, what string, impl interface{}) {
				hr.fails = append(hr.fails, histFailure{sig, what, i, impl})
			}
			// 1. files that were there
			var removed, modified, outside []string
			for p, c := range bf {
				_, inOut := underOut(h.Out, p)
				c2, still := af[p]
				if !inOut {
					if !still || c2 != c {
						outside = append(outside, p)
					}
					continue
				}
				if owned(m, p) && strings.HasPrefix(c, "F:") {
					continue
				}
				if !still {
					removed = append(removed, p)
				} else if c2 != c {
					modified = append(modified, p)
				}
			}
			// 2. files that are new
			var created []string
			for p := range af {
				if _, was := bf[p]; was {
					continue
				}
				if _, inOut := underOut(h.Out, p); !inOut {
					outside = append(outside, p)
				} else if !owned(m, p) {
					created = append(created, p)
				}
			}
			for p := range ad {
				if _, inOut := underOut(h.Out, p); !inOut && !bd[p] && p != h.Out {
					outside = append(outside, p+"/")
				}
			}
			for p := range bd {
				if _, inOut := underOut(h.Out, p); !inOut && !ad[p] && p != h.Out {
					outside = append(outside, p+"/")
				}
			}
			sort.Strings(removed)
			sort.Strings(modified)
			sort.Strings(created)
			sort.Strings(outside)
			kind := "failed"
			if res.Status == "ok" {
				kind = "successful"
			}
			if len(removed) > 0 {
				fail("history:foreign-file-removed:"+kind+"-run", "a "+kind+" run of the generator removed files it does not own", jm{"removed": removed, "run": res})
			}
			if len(modified) > 0 {
				fail("history:foreign-file-modified:"+kind+"-run", "a "+kind+" run of the generator modified files it does not own", jm{"modified": modified, "run": res})
			}
			if len(created) > 0 {
				fail("history:not-owned-file-created", "the generator created a file whose name it does not own (the next clean will not remove it)", jm{"created": created, "run": res})
			}
			if len(outside) > 0 {
				fail("history:outside-output-dir-touched", "a run of the generator changed something outside its output directory", jm{"changed": outside, "run": res})
			}
			// 3. regeneration
			if st.Spec.Broken == "" {
				g := golden(m, st, custom)
				if g.files == nil {
					hr.counts = append(hr.counts, "history:golden-generation-fails:"+g.res.Status+":"+g.res.Detail)
				} else {
					if res.Status == "ok" {
						if d := sortedDiff(g.files, ownedFilesUnder(m, h.Out, af)); len(d) > 0 {
							fail("history:regeneration-differs", "a successful run left owned files that differ from a generation of the same schema set into a fresh directory", jm{"diff": d})
						}
					} else if st.Expect == "ok" {
						fail("history:regeneration-failed", "generating the same schema set succeeds in a fresh directory but fails here although no obstacle is in place", jm{"run": res})
					}
				}
			}
		default:
			panic("op " + st.Op)
		}
	}
	return hr
}

// ---------------------------------------------------------------------------------------------- the history grammar

const defaultRoot = "verif.test/proj/gen"

func projectTree(m *module, out string, seg string) []*Node {
	f := func(name, content string) *Node { return &Node{Name: name, Content: content} }
	d := func(name string, cs ...*Node) *Node { return &Node{Name: name, Dir: true, Children: cs} }
	// nested directories from a slash path, ending in the given children
	var nest func(path string, cs ...*Node) *Node
	nest = func(path string, cs ...*Node) *Node {
		parts := strings.Split(path, "/")
		n := d(parts[len(parts)-1], cs...)
		for i := len(parts) - 2; i >= 0; i-- {
			n = d(parts[i], n)
		}
		return n
	}
	inOut := []*Node{
		f("custom.go", "package gen // hand-written"),
		d("data", f("fixture.json", "{\"a\":1}")),
		nest("com/acme/"+segPath(seg), f("helpers.go", "package x // hand-written beside generated code"), f("notes.gr.go.txt", "notes")),
		{Name: "link", Content: "-> " + outsideDir, Link: true},
	}
	top := []*Node{f("go.mod", "module verif.test/proj\n"), f("main.go", "package main\nfunc main() {}\n"), d("docs", f("README.md", "# docs"))}
	if out == "." {
		return mergeNodes(append(top, inOut...))
	}
	top = append(top, d("other", f("stale"+m.suffix, "// generated by somebody else, OUTSIDE the output directory"), f(m.manifest, "{}")))
	top = append(top, d(out, inOut...))
	return top
}

// merge directories of the same name (com/ from two nests)
func mergeNodes(l []*Node) []*Node {
	var out []*Node
	idx := map[string]*Node{}
	for _, n := range l {
		if o, ok := idx[n.Name]; ok && o.Dir && n.Dir {
			o.Children = mergeNodes(append(o.Children, n.Children...))
			continue
		}
		idx[n.Name] = n
		out = append(out, n)
	}
	return out
}

func gen(spec *genSpec, expect string) Step { return Step{Op: "gen", Spec: spec, Expect: expect} }

func histories(thorough bool, r *hx.Rand) (out []struct {
	m *module
	h *History
}) {
	add := func(m *module, h *History) {
		h.Kind, h.Module = "history", m.name
		out = append(out, struct {
			m *module
			h *History
		}{m, h})
	}
	segs := []string{"vendor", "internal", "testdata", "gen.gr", "_hidden", "plainpkg", "cmd", "main", "x.gr", "vendor.internal.testdata", "node_modules", "go_restli_manifest"}
	for mi := range modules {
		m := &modules[mi]
		for si, seg := range segs {
			// generate; regenerate; regenerate a changed schema set (the special namespace is gone: its stale files must go);
			outRel := "gen"
			if si%3 == 2 {
				outRel = "."
			}
			s1 := &genSpec{Segs: []string{seg}, Root: defaultRoot}
			s2 := &genSpec{Segs: []string{"other"}, Billing: true, Root: defaultRoot}
			h := &History{Name: "regenerate:ns=" + seg, Out: outRel, Initial: projectTree(m, outRel, seg)}
			// decorations of the predictable names are planted before the first generation (every other history) and
			// decorations of every generated name after it
			h.Steps = []Step{gen(s1, "ok"), {Op: "decorate", Variant: si % 2}, gen(s1, "ok"), gen(s2, "ok")}
			if si%2 == 1 {
				h.Steps[2].Dot = true
			}
			if (si/2)%2 == 0 {
				h.Steps = append([]Step{{Op: "decorate", Spec: s1, Variant: si % 2}}, h.Steps...)
			}
			{
				h.Steps = append(h.Steps, gen(s1, "ok"), Step{Op: "put", Path: filepath.Join(outRel, "com/acme/plain/more_helpers.go"), Content: "package plain"}, gen(s1, "ok"))
			}
			add(m, h)
		}
		// package roots with special segments, generateWithPackageRoot (v2)
		if m.v2 {
			for _, root := range []string{"verif.test/.hidden/vendor/gen", "vendor/internal/x.gr.go/gen"} {
				s1 := &genSpec{Segs: []string{"plainpkg"}, Root: root}
				h := &History{Name: "regenerate:with-package-root=" + root, Out: "gen", Initial: projectTree(m, "gen", "plainpkg")}
				g := gen(s1, "ok")
				g.WithRoot = true
				pre := Step{Op: "decorate", Spec: s1, WithRoot: true}
				h.Steps = []Step{pre, g, {Op: "decorate", Variant: 1}, g}
				add(m, h)
			}
		}
		// failing generations: an obstacle at every stage, placed after a first successful generation
		base := &genSpec{Segs: []string{"shop"}, Root: defaultRoot}
		withBilling := &genSpec{Segs: []string{"shop"}, Billing: true, Root: defaultRoot}
		type obstacle struct {
			name, path string
			dir        bool
			mode       uint32
			spec       *genSpec // the schema set generated while the obstacle is in place
			custom     bool     // a hand-written Stamp.go is present from the start
			v2only     bool
		}
		obs := []obstacle{
			{name: "package-dir-is-a-regular-file", path: "com/acme/billing", spec: withBilling},
			{name: "code-file-is-a-non-empty-directory", path: "com/acme/billing/Invoice" + m.suffix, dir: true, spec: withBilling},
			{name: "all-imports-test-is-a-non-empty-directory", path: "all_imports_test" + m.suffix, dir: true, spec: withBilling},
			{name: "manifest-is-a-non-empty-directory", path: m.manifest, dir: true, spec: withBilling},
			{name: "typeref-init-is-a-non-empty-directory", path: "com/acme/tr/init_custom_typerefs" + m.suffix, dir: true, custom: true, v2only: true,
				spec: &genSpec{Segs: []string{"shop"}, Typeref: true, Root: defaultRoot}},
			{name: "undefined-reference", spec: &genSpec{Segs: []string{"shop"}, Billing: true, Broken: "undefined-ref", Root: defaultRoot}},
			{name: "malformed-manifest", spec: &genSpec{Segs: []string{"shop"}, Broken: "syntax", Root: defaultRoot}},
		}
		if os.Geteuid() != 0 {
			obs = append(obs, obstacle{name: "unwritable-package-directory", path: "com/acme/plain/locked", dir: true, mode: 0o555, spec: withBilling})
		}
		for oi, ob := range obs {
			if ob.v2only && !m.v2 {
				continue
			}
			outRel := "gen"
			if oi%2 == 1 {
				outRel = "."
			}
			first := base
			if ob.custom {
				first = ob.spec
			}
			h := &History{Name: "failing-generation:" + ob.name, Out: outRel, Initial: projectTree(m, outRel, "shop")}
			if ob.custom {
				h.Initial = mergeNodes(append(h.Initial, nestIn(outRel, "com/acme/tr", &Node{Name: "Stamp.go", Content: stampGo})))
			}
			h.Steps = []Step{gen(first, "ok"), {Op: "decorate", Variant: oi % 2}}
			if ob.path != "" {
				h.Steps = append(h.Steps, Step{Op: "put", Path: filepath.Join(outRel, ob.path), Dir: ob.dir, Content: "user data " + ob.name, Mode: ob.mode})
			}
			g := gen(ob.spec, "any")
			g.Dot = oi%3 == 0
			h.Steps = append(h.Steps, g)
			if ob.path != "" {
				h.Steps = append(h.Steps, Step{Op: "rm", Path: filepath.Join(outRel, ob.path)})
			}
			after := ob.spec
			if after.Broken != "" {
				after = withBilling
			}
			h.Steps = append(h.Steps, gen(after, "ok"))
			h.Steps = append(h.Steps, gen(first, "ok"))
			add(m, h)
		}
		// obstacles present from the very first generation
		type early struct {
			name, path string
			spec       *genSpec
			withRoot   bool
			v2only     bool
		}
		es := []early{
			{name: "top-level-namespace-dir-is-a-regular-file", path: "gen/com", spec: base},
			{name: "typeref-package-is-a-regular-file", path: "gen/com/acme/tr", spec: &genSpec{Segs: []string{"shop"}, Typeref: true, Root: defaultRoot}},
			{name: "package-root-dir-is-a-regular-file", path: "gen/verif.test", spec: base, withRoot: true, v2only: true},
			{name: "output-dir-is-a-regular-file", path: "gen", spec: base},
		}
		for _, e := range es {
			if e.v2only && !m.v2 {
				continue
			}
			h := &History{Name: "failing-first-generation:" + e.name, Out: "gen"}
			h.Initial = []*Node{{Name: "go.mod", Content: "module verif.test/proj\n"}, {Name: "main.go", Content: "package main"}}
			if e.path != "gen" {
				h.Initial = append(h.Initial, &Node{Name: "gen", Dir: true, Children: []*Node{{Name: "custom.go", Content: "package gen"},
					{Name: "old" + m.suffix, Content: "// stale generated"}, {Name: "data", Dir: true, Children: []*Node{{Name: "x.json", Content: "{}"}}}}})
			}
			g1 := gen(e.spec, "any")
			g1.WithRoot = e.withRoot
			g2 := gen(e.spec, "ok")
			g2.WithRoot = e.withRoot
			h.Steps = []Step{{Op: "put", Path: e.path, Content: "a regular file in the way"}, g1, {Op: "rm", Path: e.path}, g2}
			add(m, h)
		}
		// random histories: any sequence of generations of random schema sets with obstacles coming and going
		{
			nrand := 30
			if thorough {
				nrand = 300
			}
			for k := 0; k < nrand; k++ {
				seg := segs[r.Intn(len(segs))]
				outRel := []string{"gen", "."}[r.Intn(2)]
				h := &History{Name: fmt.Sprintf("random:%d", k), Out: outRel, Initial: projectTree(m, outRel, seg)}
				placed := map[string]bool{}
				cands := []obstacle{obs[0], obs[1], obs[2], obs[3]}
				for n := 0; n < 7; n++ {
					switch r.Intn(5) {
					case 4:
						h.Steps = append(h.Steps, Step{Op: "decorate", Variant: r.Intn(2)})
					case 0:
						ob := cands[r.Intn(len(cands))]
						if !placed[ob.path] {
							placed[ob.path] = true
							h.Steps = append(h.Steps, Step{Op: "put", Path: filepath.Join(outRel, ob.path), Dir: ob.dir, Content: "user data"})
						}
					case 1:
						for p := range placed {
							delete(placed, p)
							h.Steps = append(h.Steps, Step{Op: "rm", Path: filepath.Join(outRel, p)})
							break
						}
					default:
						sp := &genSpec{Segs: []string{seg}, Billing: r.Bool(), Root: defaultRoot}
						if r.Chance(30) {
							sp.Segs = append(sp.Segs, segs[r.Intn(len(segs))])
							if sp.Segs[1] == sp.Segs[0] {
								sp.Segs = sp.Segs[:1]
							}
						}
						exp := "ok"
						if len(placed) > 0 {
							exp = "any"
						}
						g := gen(sp, exp)
						g.Dot = r.Chance(25)
						h.Steps = append(h.Steps, g)
					}
				}
				add(m, h)
			}
		}
	}
	return out
}

func nestIn(outRel, path string, leaf *Node) *Node {
	parts := strings.Split(path, "/")
	if outRel != "." {
		parts = append([]string{outRel}, parts...)
	}
	n := &Node{Name: parts[len(parts)-1], Dir: true, Children: []*Node{leaf}}
	for i := len(parts) - 2; i >= 0; i-- {
		n = &Node{Name: parts[i], Dir: true, Children: []*Node{n}}
	}
	return n
}

func moduleByName(name string) *module {
	for i := range modules {
		if modules[i].name == name {
			return &modules[i]
		}
	}
	return nil
}

func reportHistory(m *module, hr *histResult, rep *hx.Report) {
	site := "cmd/cmd.go:GenerateCode"
	if m.v2 {
		site = "v2/cmd/cmd.go:GenerateCode"
	}
	ngen := 0
	for _, st := range hr.h.Steps {
		if st.Op == "gen" {
			ngen++
		}
	}
	rep.Evaluations += ngen
	rep.Distinct("history|"+m.name+"|"+hr.h.Name, true)
	rep.Count("history:module=" + m.name)
	rep.Count("history:kind=" + strings.SplitN(hr.h.Name, ":", 2)[0])
	for _, c := range hr.counts {
		rep.Count(c)
	}
	for _, f := range hr.fails {
		d := *hr.h
		d.FailedAtStep = f.step
		d.Observed = hr.statuses
		rep.Fail(f.sig, f.what, site, d, f.impl)
	}
	if len(hr.fails) == 0 && strings.HasPrefix(hr.h.Name, "failing-generation:package-dir") {
		d := *hr.h
		d.Observed = hr.statuses
		rep.Sample(d)
	}
}

func runHistories(cfg *hx.Config, rep *hx.Report, only *History) {
	var err error
	selfExe, err = os.Executable()
	must(err)
	depV2 = filepath.Join(repoPath(), "v2", "restlidata", "generated", "go-restli-manifest.gr.json")
	histScratch, err = os.MkdirTemp(scratchBase, "verif-c20h-")
	must(err)
	defer removeAll(histScratch)
	type item struct {
		m *module
		h *History
	}
	var items []item
	if only != nil {
		items = append(items, item{moduleByName(only.Module), only})
	} else {
		for _, x := range histories(cfg.Thorough(), hx.NewRand(cfg.Seed+20)) {
			items = append(items, item{x.m, x.h})
		}
	}
	results := make([]*histResult, len(items))
	jobs := make(chan int)
	var wg sync.WaitGroup
	for w := 0; w < 8; w++ {
		wg.Add(1)
		go func() {
			defer wg.Done()
			for i := range jobs {
				results[i] = runHistory(items[i].m, items[i].h)
			}
		}()
	}
	for i := range items {
		jobs <- i
	}
	close(jobs)
	wg.Wait()
	for i, hr := range results {
		reportHistory(items[i].m, hr, rep)
	}
	if out, _ := snapshot(outsideDir); jsonOf(out) != outsideWant {
		rep.Fail("history:followed-symlink", "a generator run followed a symbolic link and changed files outside the project", "cmd.GenerateCode", jm{"outside_after": out}, nil)
	}
}
