// C20 driver: builds directory trees in scratch space, runs the real CleanTargetDir (v2 and root module) on them,
// records what is left, evaluates the property's own predicates on the implementation (foreign files untouched,
// nothing created, only owned/empty removed, idempotence) and writes the cases for the Coq model.
package main

import (
	"encoding/json"
	"fmt"
	"os"
	"path/filepath"
	"sort"
	"strings"
	"time"

	rootutils "github.com/PapaCharlie/go-restli/codegen/utils"
	v2utils "github.com/PapaCharlie/go-restli/v2/codegen/utils"
	"verif/harness/hx"
)

type Node struct {
	Name     string  `json:"n"`
	Dir      bool    `json:"d,omitempty"`
	Content  string  `json:"c,omitempty"`
	Children []*Node `json:"k,omitempty"`
	Link     bool    `json:"l,omitempty"` // a symbolic link (modelled as a file whose content is the link target)
}

// a directory outside every tree, holding generated files and a manifest, that symbolic links point to
var outsideDir string

type module struct {
	name     string
	v2       bool
	suffix   string
	manifest string
	clean    func(string) error
}

var modules = []module{
	{"v2", true, v2utils.GeneratedFileSuffix, v2utils.ManifestFile, v2utils.CleanTargetDir},
	{"root", false, rootutils.GeneratedFileSuffix, rootutils.ParsedSpecsFile, rootutils.CleanTargetDir},
}

// kinds of entries; names are made unique by position so that ReadDir order (sorted) = list order
const (
	kGen = iota
	kManifest
	kUser
	kOther
	kEmptyDir
	kManifestDirEmpty // a directory named like the manifest, empty
	kManifestDirFull  // a directory named like the manifest holding a user file: os.Remove fails, the clean aborts
	kSymlinkDir       // a symbolic link to a directory OUTSIDE the tree that holds generated files: must be left alone, and so must its target
	kNested
	// names and kinds at odds (appended after kNested so that the random generator's arithmetic on the first kinds is unchanged)
	kGenDirFull  // a DIRECTORY named like a generated file (x.gr.go/) holding a user file and a generated file
	kGenDirGen   // a directory named like a generated file holding generated files only (disappears with them)
	kGenDirEmpty // an empty directory named like a generated file
	kJsonDir     // a directory named like a generated JSON file (y.gr.json/) holding user files
	kSpecialDir  // a directory whose name means something to the go tool or to tools (vendor, internal, testdata, .hidden, _x, ...) holding generated and user files
	kSpecialGen  // such a directory holding generated files only
	kFileAsDir   // a regular FILE whose name looks like a directory / package name
	// decorations of owned names: an owned name plus a prefix / suffix as editors, patch tools and "atomic write" schemes
	// produce them (x.gr.go.tmp, x.gr.go~, .x.gr.go.swp, #x.gr.go#, x.gr.go.orig, <manifest>.tmp, <manifest>~, .<manifest>.swp).
	// None is owned.  The decorated name is the generated-file name of a NEIGHBOUR position, so that the owned file and its
	// decoration can sit side by side.  Three kinds x three positions = nine different decorations in every enumeration.
	kDecorA
	kDecorB
	kDecorC
	kLast = kDecorC
)

var specialDirs = []string{"vendor", "internal", "testdata", ".hidden", "_skip", "node_modules", ".git", "gr.go"}

func leafNode(m *module, kind, pos int, salt string) *Node {
	p := fmt.Sprintf("%c%d", 'a'+pos, pos)
	switch kind {
	case kGen:
		return &Node{Name: p + "x" + m.suffix, Content: "// generated " + salt}
	case kManifest:
		return &Node{Name: m.manifest, Content: "{}" + salt}
	case kUser:
		return &Node{Name: p + "custom.go", Content: "package x // " + salt}
	case kOther:
		// names that merely resemble owned ones
		alts := []string{p + m.suffix + ".bak", p + "notes.txt", p + "gr.go", p + strings.TrimPrefix(m.suffix, "."),
			p + "fixtures.gr.json", p + "x" + filepath.Ext(m.manifest), p + m.manifest, "x" + m.manifest + ".orig"}
		return &Node{Name: alts[pos%len(alts)], Content: salt}
	case kEmptyDir:
		return &Node{Name: p + "dir", Dir: true}
	case kManifestDirEmpty:
		return &Node{Name: m.manifest, Dir: true}
	case kManifestDirFull:
		return &Node{Name: m.manifest, Dir: true, Children: []*Node{{Name: "keep.go", Content: "user"}}}
	case kSymlinkDir:
		return &Node{Name: p + "link", Content: "-> " + outsideDir, Link: true}
	case kGenDirFull:
		return &Node{Name: p + "tmpl" + m.suffix, Dir: true, Children: []*Node{{Name: "Custom.go", Content: "package x // user " + salt}, {Name: "y" + m.suffix, Content: "// generated"}}}
	case kGenDirGen:
		return &Node{Name: p + "only" + m.suffix, Dir: true, Children: []*Node{{Name: "y" + m.suffix, Content: "// generated"}}}
	case kGenDirEmpty:
		return &Node{Name: p + "empty" + m.suffix, Dir: true}
	case kJsonDir:
		return &Node{Name: p + "fixtures.gr.json", Dir: true, Children: []*Node{{Name: "a.json", Content: "{} " + salt}, {Name: "b.gr.json", Content: "{}"}}}
	case kSpecialDir:
		return &Node{Name: specialDirs[pos%len(specialDirs)], Dir: true, Children: []*Node{{Name: "keep.go", Content: "package x // user " + salt}, {Name: "z" + m.suffix, Content: "// generated"}}}
	case kSpecialGen:
		return &Node{Name: specialDirs[(pos+3)%len(specialDirs)], Dir: true, Children: []*Node{{Name: "sub", Dir: true, Children: []*Node{{Name: "z" + m.suffix, Content: "// generated"}}}, {Name: "z" + m.suffix, Content: "// generated"}}}
	case kDecorA, kDecorB, kDecorC:
		q := (pos + 2) % 3
		g := fmt.Sprintf("%c%dx%s", 'a'+q, q, m.suffix) // the kGen name of position q
		names := map[int][]string{
			kDecorA: {g + ".tmp", g + "~", "." + g + ".swp"},
			kDecorB: {"#" + g + "#", m.manifest + ".tmp", g + ".orig"},
			kDecorC: {"." + m.manifest + ".swp", g + ".bak", m.manifest + "~"},
		}[kind]
		return &Node{Name: names[pos%3], Content: "user data " + salt}
	case kFileAsDir:
		alts := []string{"vendor", p + "sub", "pkg", "internal", "com"}
		return &Node{Name: alts[pos%len(alts)], Content: "a regular file " + salt}
	}
	panic("kind")
}

func sortNodes(l []*Node) {
	sort.Slice(l, func(i, j int) bool { return l[i].Name < l[j].Name })
	for _, n := range l {
		if n.Dir {
			sortNodes(n.Children)
		}
	}
}

func uniqueNames(l []*Node) bool {
	seen := map[string]bool{}
	for _, n := range l {
		if seen[n.Name] {
			return false
		}
		seen[n.Name] = true
	}
	return true
}

// enumerate all child lists of width <= w, depth d (d = 1: leaves only), over the given leaf kinds
func enumerate(m *module, kinds []int, d, w int, emit func([]*Node)) {
	var options func(pos int) [][]*Node // each option = one entry (as a 1-element slice) — built lazily per position
	_ = options
	var rec func(pos int, acc []*Node)
	var subtrees [][]*Node
	if d > 1 {
		enumerate(m, kinds, d-1, w, func(cs []*Node) {
			if len(cs) > 0 { // an empty nested dir is kEmptyDir
				subtrees = append(subtrees, cs)
			}
		})
	}
	rec = func(pos int, acc []*Node) {
		cp := make([]*Node, len(acc))
		copy(cp, acc)
		if uniqueNames(cp) {
			emit(cp)
		}
		if pos >= w {
			return
		}
		for _, k := range kinds {
			rec(pos+1, append(acc, leafNode(m, k, pos, fmt.Sprint(pos))))
		}
		for _, st := range subtrees {
			rec(pos+1, append(acc, &Node{Name: fmt.Sprintf("%c%dsub", 'a'+pos, pos), Dir: true, Children: st}))
		}
	}
	rec(0, nil)
}

func randomTree(m *module, r *hx.Rand, d, w int) []*Node {
	n := r.Intn(w + 1)
	var out []*Node
	for pos := 0; pos < n; pos++ {
		k := r.Intn(10)
		if r.Chance(18) {
			out = append(out, leafNode(m, kGenDirFull+r.Intn(kLast-kGenDirFull+1), pos, fmt.Sprint(r.Intn(3))))
			continue
		}
		if k >= kNested {
			if d > 1 {
				out = append(out, &Node{Name: fmt.Sprintf("%c%dsub", 'a'+pos, pos), Dir: true, Children: randomTree(m, r, d-1, w)})
			} else {
				out = append(out, leafNode(m, kGen, pos, "r"))
			}
			continue
		}
		if k >= kManifestDirEmpty && !r.Chance(15) {
			k = r.Intn(5)
		}
		out = append(out, leafNode(m, k, pos, fmt.Sprint(r.Intn(3))))
	}
	if !uniqueNames(out) {
		return randomTree(m, r, d, w)
	}
	return out
}

func build(dir string, cs []*Node) {
	for _, n := range cs {
		p := filepath.Join(dir, n.Name)
		if n.Dir {
			must(os.Mkdir(p, 0o755))
			build(p, n.Children)
		} else if n.Link {
			must(os.Symlink(strings.TrimPrefix(n.Content, "-> "), p))
		} else {
			must(os.WriteFile(p, []byte(n.Content), 0o644))
		}
	}
}

func snapshot(dir string) ([]*Node, bool) {
	es, err := os.ReadDir(dir)
	if err != nil {
		if os.IsNotExist(err) {
			return nil, false
		}
		panic(err)
	}
	out := []*Node{}
	for _, e := range es {
		p := filepath.Join(dir, e.Name())
		if e.Type()&os.ModeSymlink != 0 {
			tgt, err := os.Readlink(p)
			must(err)
			out = append(out, &Node{Name: e.Name(), Content: "-> " + tgt, Link: true})
		} else if e.IsDir() {
			cs, _ := snapshot(p)
			out = append(out, &Node{Name: e.Name(), Dir: true, Children: cs})
		} else {
			b, err := os.ReadFile(p)
			must(err)
			out = append(out, &Node{Name: e.Name(), Content: string(b)})
		}
	}
	return out, true
}

func makeOutside() {
	os.RemoveAll(outsideDir)
	must(os.MkdirAll(outsideDir, 0o755))
	for _, m := range modules {
		os.WriteFile(filepath.Join(outsideDir, "elsewhere"+m.suffix), []byte("generated elsewhere"), 0o644)
		os.WriteFile(filepath.Join(outsideDir, m.manifest), []byte("{}"), 0o644)
	}
	os.WriteFile(filepath.Join(outsideDir, "user.go"), []byte("package x"), 0o644)
	out, _ := snapshot(outsideDir)
	outsideWant = jsonOf(out)
}

var outsideWant string

var scratchBase string // "" = os.TempDir()

// relink: a replayed tree names the outside directory of the run that recorded it; point its links to this run's
func relink(l []*Node) {
	for _, n := range l {
		if n.Link && strings.HasSuffix(n.Content, "/outside") {
			n.Content = "-> " + outsideDir
		}
		relink(n.Children)
	}
}

func jsonOf(v interface{}) string {
	b, _ := json.Marshal(v)
	return string(b)
}

func must(err error) {
	if err != nil {
		panic(err)
	}
}

func coqNode(n *Node) string {
	if n.Dir {
		return "Dir " + hx.CoqBytes(n.Name) + " " + coqNodes(n.Children)
	}
	return "File " + hx.CoqBytes(n.Name) + " " + hx.CoqBytes(n.Content)
}
func coqNodes(l []*Node) string {
	items := make([]string, len(l))
	for i, n := range l {
		items[i] = coqNode(n)
	}
	return "[" + strings.Join(items, ";") + "]"
}

// ---- property predicates evaluated on the implementation alone
type fileEnt struct{ path, content string }

func files(prefix string, l []*Node, out *[]fileEnt, dirs *[]string) {
	for _, n := range l {
		p := prefix + "/" + n.Name
		if n.Dir {
			*dirs = append(*dirs, p)
			files(p, n.Children, out, dirs)
		} else {
			*out = append(*out, fileEnt{p, n.Content})
		}
	}
}

func owned(m *module, path string) bool {
	b := filepath.Base(path)
	return strings.HasSuffix(b, m.suffix) || b == m.manifest
}

type caseDesc struct {
	Module  string  `json:"module"`
	Exists  bool    `json:"exists"`
	Dot     bool    `json:"dot"`
	Tree    []*Node `json:"tree"`
	After   []*Node `json:"after"`
	AfterEx bool    `json:"after_exists"`
	Ok      bool    `json:"ok"`
	ErrText string  `json:"err,omitempty"`
}

func runCase(m *module, scratch string, exists, dot bool, tree []*Node, rep *hx.Report, sh *hx.Shards) {
	target := filepath.Join(scratch, "t")
	os.RemoveAll(target)
	if exists {
		must(os.Mkdir(target, 0o755))
		sortNodes(tree)
		build(target, tree)
	}
	arg := target
	if dot {
		must(os.Chdir(target))
		arg = "."
	}
	err := m.clean(arg)
	if dot {
		must(os.Chdir(scratch))
	}
	after, afterEx := snapshot(target)
	if out, _ := snapshot(outsideDir); jsonOf(out) != outsideWant {
		rep.Fail("followed-symlink", "cleaning followed a symbolic link and removed files outside the target tree", m.name+"/codegen/utils/codefile.go:CleanTargetDir", map[string]interface{}{"tree": tree, "outside_after": out}, nil)
		makeOutside()
	}
	d := caseDesc{Module: m.name, Exists: exists, Dot: dot, Tree: tree, After: after, AfterEx: afterEx, Ok: err == nil}
	if err != nil {
		d.ErrText = err.Error()
	}
	rep.Evaluations++
	// --- oracle
	var f0, f1 []fileEnt
	var d0, d1 []string
	files("", tree, &f0, &d0)
	files("", after, &f1, &d1)
	afterFiles := map[string]string{}
	for _, f := range f1 {
		afterFiles[f.path] = f.content
	}
	beforeFiles := map[string]string{}
	for _, f := range f0 {
		beforeFiles[f.path] = f.content
	}
	nForeign, nOwned := 0, 0
	for _, f := range f0 {
		if owned(m, f.path) {
			nOwned++
			if _, still := afterFiles[f.path]; still && err == nil {
				rep.Fail("owned-file-left", "a clean that succeeded left an owned file behind", m.name+"/codegen/utils/codefile.go:CleanTargetDir", d, f.path)
			}
			continue
		}
		nForeign++
		c, ok := afterFiles[f.path]
		if !ok {
			rep.Fail("foreign-file-removed", "a file the generator does not own was removed", m.name+"/codegen/utils/codefile.go:CleanTargetDir", d, f.path)
		} else if c != f.content {
			rep.Fail("foreign-file-modified", "a file the generator does not own was modified", m.name+"/codegen/utils/codefile.go:CleanTargetDir", d, f.path)
		}
	}
	for _, f := range f1 {
		if _, ok := beforeFiles[f.path]; !ok {
			rep.Fail("file-created", "cleaning created a file", m.name+"/codegen/utils/codefile.go:CleanTargetDir", d, f.path)
		}
	}
	beforeDirs := map[string]bool{}
	for _, p := range d0 {
		beforeDirs[p] = true
	}
	for _, p := range d1 {
		if !beforeDirs[p] {
			rep.Fail("dir-created", "cleaning created a directory", m.name+"/codegen/utils/codefile.go:CleanTargetDir", d, p)
		}
	}
	if dot && !afterEx {
		rep.Fail("dot-removed", "the current directory was removed", m.name+"/codegen/utils/codefile.go:CleanTargetDir", d, nil)
	}
	if !exists && (err != nil || afterEx) {
		rep.Fail("missing-target", "a missing target was not a no-op", m.name+"/codegen/utils/codefile.go:CleanTargetDir", d, d.ErrText)
	}
	// idempotence (only after a clean that succeeded)
	if err == nil && afterEx {
		arg2 := target
		if dot {
			must(os.Chdir(target))
			arg2 = "."
		}
		err2 := m.clean(arg2)
		if dot {
			must(os.Chdir(scratch))
		}
		again, againEx := snapshot(target)
		ja, _ := json.Marshal(after)
		jb, _ := json.Marshal(again)
		if err2 != nil || againEx != afterEx || string(ja) != string(jb) {
			rep.Fail("not-idempotent", "a second clean changed the tree or failed", m.name+"/codegen/utils/codefile.go:CleanTargetDir", d, again)
		}
	}
	key, _ := json.Marshal(tree)
	rep.Distinct(m.name+fmt.Sprint(exists, dot)+string(key), nForeign > 0 && nOwned > 0)
	rep.Count(fmt.Sprintf("module=%s", m.name))
	rep.Count(fmt.Sprintf("foreign=%d", min(nForeign, 3)))
	rep.Count(fmt.Sprintf("owned=%d", min(nOwned, 3)))
	rep.Count(fmt.Sprintf("ok=%v", err == nil))
	rep.Count(fmt.Sprintf("dirs=%d", min(len(d0), 4)))
	if nForeign > 0 && nOwned > 0 && len(d0) > 1 {
		rep.Sample(d)
	}
	// --- model case
	tgt := "None"
	if exists {
		tgt = "(Some (" + hx.CoqBool(dot) + ", " + coqNodes(tree) + "))"
	}
	obs := "(" + hx.CoqOpt(afterEx, coqNodes(after)) + ", " + hx.CoqBool(err == nil) + ")"
	sh.Add("{| c_v2 := "+hx.CoqBool(m.v2)+"; c_target := "+tgt+"; c_observed := "+obs+" |}", d)
}

func min(a, b int) int {
	if a < b {
		return a
	}
	return b
}

// namedDirSweep: for every directory name that means something to the go tool / other tools, and for names that look like
// generated files, the same small trees with that name at depth 1 and 2
func namedDirSweep(m *module, emit func([]*Node)) {
	gen := func() *Node { return &Node{Name: "T" + m.suffix, Content: "// generated"} }
	usr := func() *Node { return &Node{Name: "helpers.go", Content: "package x // user"} }
	dir := func(n string, cs ...*Node) *Node { return &Node{Name: n, Dir: true, Children: cs} }
	names := append(append([]string{}, specialDirs...), "legacy"+m.suffix, "fixtures.gr.json", m.suffix, "all_imports_test"+m.suffix)
	for _, n := range names {
		emit([]*Node{dir(n, gen())})
		emit([]*Node{dir(n, gen(), usr()), gen(), usr()})
		emit([]*Node{dir(n, dir("sub", gen())), usr()})
		emit([]*Node{dir("pkg", dir(n, gen(), usr()), gen())})
		emit([]*Node{dir(n, dir(n, gen())), dir("pkg", gen())})
		emit([]*Node{dir(n, dir("old", usr(), gen()), dir("fixtures", &Node{Name: "a.json", Content: "{}"}))})
	}
}

func main() {
	if os.Getenv("C20_CHILD") != "" {
		childMain()
		return
	}
	cfg := hx.ParseFlags()
	rep := hx.NewReport("TREE CASES (each evaluated by the Coq model clean_target of Gen2/Clean.v and compared with the real CleanTargetDir: whole resulting tree and success flag; the theorems of Props/C20.v are about this model; Props/C20_history.v extends them to histories of clean + writes of owned names, which are NOT compared with the implementation): directory trees over {generated file, manifest file, user .go, look-alike files (x.gr.go.bak, fixtures.gr.json, ...), empty dir, dir named like the manifest (empty / non-empty), " +
		"symbolic link to an outside directory holding generated files, nested dir}: quick = exhaustive depth 1 width <= 3 over all kinds (as a named target and as \".\"), exhaustive depth 2 width <= 2 over 6 kinds, " +
		"depth 3 width <= 2 over generated files only, 400 seeded random trees of depth <= 3 width <= 3 per module, and a missing target; thorough = depth 2 over all kinds, depth 3 over {generated,user,empty dir}, 20000 random trees; both module generations. " +
		"names and kinds at odds, both tiers: directories named like generated files (x.gr.go/ with user files, with generated files only, empty; y.gr.json/), directories named vendor, internal, testdata, .hidden, _skip, node_modules, .git, gr.go " +
		"(holding generated and user files, at depth 1 and 2), regular files named like directories, and DECORATIONS of owned names (x.gr.go.tmp, x.gr.go~, .x.gr.go.swp, #x.gr.go#, x.gr.go.orig, x.gr.go.bak, <manifest>.tmp, <manifest>~, .<manifest>.swp: none is owned; also exhaustive depth 1 width <= 3 over {generated, manifest, decorations}) - exhaustive depth 1 width <= 2 with the basic kinds, depth 2 width <= 2 over {generated, user, x.gr.go/, special dir} (thorough: depth 1 width <= 3 over all kinds, depth 2 width <= 2 over {generated, user, manifest, x.gr.go/, y.gr.json/, special dir, file-as-dir}), a fixed sweep of 6 trees per name, and 18% of the random entries. " +
		"non-trivial = the tree holds at least one foreign file AND at least one owned file; distinct by (module, target kind, tree). " +
		"GENERATOR-LEVEL HISTORIES (oracle only, no model evaluated): the real cmd.GenerateCode of both modules in child processes on a project directory with foreign files (go.mod, main.go, docs/, hand-written .go and data files beside generated code, a symbolic link, owned-looking files OUTSIDE the output directory; output directory = a sub directory or the project root, given by path or as \".\"): " +
		"(1) generate; regenerate; regenerate a changed schema set - for namespaces with the segments vendor, internal, testdata, gen.gr, _hidden, cmd, main, x.gr, node_modules, ... and v2 package roots .hidden/vendor (generateWithPackageRoot); " +
		"(2) failing generations with an obstacle at every stage (regular file where a package directory is needed, non-empty directory where a code file / the all-imports test / the manifest / the custom-typeref init file has to go, undefined type reference, malformed manifest, " +
		"unwritable directory when not running as root), placed after a first successful generation or present from the start (top-level namespace directory, typeref package, package-root directory, the output directory itself being a regular file), then removed and regenerated; " +
		"(2b) in the histories of (1) and (2), foreign files named like DECORATIONS of every generated file and directory name are planted right next to them - <name>.tmp, <name>~, <name>.bak, <name>.orig, <name>.new, <name>.old, <name>.lock, <name>.part, .<name>.swp, #<name>#, _<name>, <name>.d/ and (every other history) <name>.tmp/ <name>.bak/ as directories with a file inside, the manifest's and all_imports_test's decorations included - after the first successful generation, and in half of the histories also BEFORE the first generation for the names the schema set will produce; (3) 30 (thorough: 300) seeded random histories per module (decorate steps included) of generations with obstacles coming and going. After EVERY run, successful or failed: nothing outside the output directory changed, every not-owned file below it is byte-identical, every new file has an owned name; " +
		"a run with no obstacle in place must succeed and leave exactly the owned files of a generation of the same schema set into a fresh directory. One history = one distinct non-trivial input; every generator run = one evaluation")
	// scratch trees live on tmpfs when there is one (the shared disk is 30x slower under load); C20_SCRATCH overrides
	scratchBase = os.Getenv("C20_SCRATCH")
	if scratchBase == "" {
		if fi, err := os.Stat("/dev/shm"); err == nil && fi.IsDir() {
			if d, err := os.MkdirTemp("/dev/shm", "verif-c20-probe-"); err == nil {
				os.Remove(d)
				scratchBase = "/dev/shm"
			}
		}
	}
	scratch, err := os.MkdirTemp(scratchBase, "verif-c20-")
	must(err)
	defer os.RemoveAll(scratch)
	outsideDir = filepath.Join(scratch, "outside")
	makeOutside()
	header := "From Coq Require Import List. Import ListNotations.\nFrom Coq.Strings Require Import Byte.\nFrom GR Require Import Base.Bytes Gen2.Clean Corr.C20Corr.\n"
	sh := hx.NewShards(cfg.Out, header, "C20Corr", 250)

	if cfg.Replay != "" {
		b, err := os.ReadFile(cfg.Replay)
		must(err)
		var rk struct {
			Case struct {
				Kind string `json:"kind"`
			} `json:"case"`
		}
		must(json.Unmarshal(b, &rk))
		if rk.Case.Kind == "history" {
			var rh struct {
				Case History `json:"case"`
			}
			must(json.Unmarshal(b, &rh))
			rh.Case.FailedAtStep, rh.Case.Observed = 0, nil
			relink(rh.Case.Initial)
			runHistories(cfg, rep, &rh.Case)
			sh.Close()
			rep.Shards = sh.Files
			rep.Write(cfg.Out)
			return
		}
		var rp struct {
			Case caseDesc `json:"case"`
		}
		must(json.Unmarshal(b, &rp))
		relink(rp.Case.Tree)
		for i := range modules {
			if modules[i].name == rp.Case.Module {
				runCase(&modules[i], scratch, rp.Case.Exists, rp.Case.Dot, rp.Case.Tree, rep, sh)
			}
		}
		sh.Close()
		rep.Shards = sh.Files
		rep.Write(cfg.Out)
		return
	}

	allKinds := []int{kGen, kManifest, kUser, kOther, kEmptyDir, kManifestDirEmpty, kManifestDirFull, kSymlinkDir}
	fewKinds := []int{kGen, kUser, kEmptyDir}
	r := hx.NewRand(cfg.Seed)
	for i := range modules {
		m := &modules[i]
		runCase(m, scratch, false, false, nil, rep, sh)
		both := func(cs []*Node) {
			runCase(m, scratch, true, false, cs, rep, sh)
		}
		dotToo := func(cs []*Node) {
			runCase(m, scratch, true, false, cs, rep, sh)
			runCase(m, scratch, true, true, cs, rep, sh)
		}
		enumerate(m, allKinds, 1, 3, dotToo)
		namedDirSweep(m, dotToo)
		oddKinds := []int{kGenDirFull, kGenDirGen, kGenDirEmpty, kJsonDir, kSpecialDir, kSpecialGen, kFileAsDir, kDecorA, kDecorB, kDecorC}
		if cfg.Thorough() {
			enumerate(m, append(append([]int{}, allKinds...), oddKinds...), 1, 3, dotToo)
			enumerate(m, []int{kGen, kUser, kManifest, kGenDirFull, kJsonDir, kSpecialDir, kFileAsDir}, 2, 2, both)
		} else {
			enumerate(m, append([]int{kGen, kUser, kManifest, kEmptyDir}, oddKinds...), 1, 2, dotToo)
			enumerate(m, []int{kGen, kUser, kGenDirFull, kSpecialDir}, 2, 2, both)
			enumerate(m, []int{kGen, kManifest, kDecorA, kDecorB, kDecorC}, 1, 3, dotToo)
		}
		if cfg.Thorough() {
			enumerate(m, allKinds, 2, 2, both)
		} else {
			enumerate(m, []int{kGen, kManifest, kUser, kOther, kEmptyDir, kSymlinkDir}, 2, 2, both)
		}
		if cfg.Thorough() {
			enumerate(m, fewKinds, 3, 2, both)
			enumerate(m, []int{kGen, kManifest, kUser}, 2, 3, dotToo)
		} else {
			enumerate(m, []int{kGen}, 3, 2, both)
		}
		nr := 400
		if cfg.Thorough() {
			nr = 20000
		}
		for k := 0; k < nr; k++ {
			cs := randomTree(m, r, 3, 3)
			runCase(m, scratch, true, r.Chance(20), cs, rep, sh)
		}
	}
	t0 := time.Now()
	treeCases := rep.Evaluations
	runHistories(cfg, rep, nil)
	rep.Extra["tree_cases"] = treeCases
	rep.Extra["history_seconds"] = int(time.Since(t0).Seconds())
	rep.Exhaustive = false
	sh.Close()
	rep.Shards = sh.Files
	rep.Write(cfg.Out)
}
