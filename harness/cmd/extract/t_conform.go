package main

// TablesConform (C03): the member names of the hand-written request/response envelopes
// (v2/restlidata/generated/com/linkedin/restli/common/structs.go) and the protocol header names / version
// (v2/restli/http.go).  Props/C03.v compares them with the names the Rest.li 2.0 protocol prescribes.
func init() {
	register("TablesConform", "envelope member names and protocol headers (C03)", func(o *out) {
		common := load(repo + "/v2/restlidata/generated/com/linkedin/restli/common")
		for _, c := range [][2]string{
			{"ElementsField", "env_elements_field"}, {"ValueField", "env_value_field"}, {"StatusField", "env_status_field"},
			{"StatusesField", "env_statuses_field"}, {"ResultsField", "env_results_field"}, {"ErrorField", "env_error_field"},
			{"ErrorsField", "env_errors_field"}, {"IdField", "env_id_field"}, {"LocationField", "env_location_field"},
			{"PagingField", "env_paging_field"}, {"MetadataField", "env_metadata_field"}, {"EntityField", "env_entity_field"},
			{"EntitiesField", "env_entities_field"}} {
			s, pos := common.mustString(c[0])
			o.str(c[1], s, pos)
		}
		restli := load(repo + "/v2/restli")
		for _, c := range [][2]string{
			{"IDHeader", "hdr_id"}, {"MethodHeader", "hdr_method"}, {"ProtocolVersionHeader", "hdr_protocol_version"},
			{"ErrorResponseHeader", "hdr_error_response"}, {"ProtocolVersion", "protocol_version_value"}} {
			s, pos := restli.mustString(c[0])
			o.str(c[1], s, pos)
		}
	})
}
