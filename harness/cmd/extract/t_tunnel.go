package main

// TablesTunnel (C14): the header names / content types tunnelling.go and http.go use, and a MECHANICAL transcription of
// the tunnelling threshold test of newRequest (the condition of the `if` whose body calls EncodeTunnelledQuery) into a
// Coq function over Z.  Both module generations must agree (the model is shared); anything outside the small
// expression subset understood here makes the translator fail.

import (
	"go/ast"
	"go/token"
	"strings"
)

func tunnelCond(p *pkg) (string, string) {
	fd := p.funcDecl("", "newRequest")
	if fd == nil {
		fail("cannot locate newRequest in %s", p.dir)
	}
	var cond ast.Expr
	ast.Inspect(fd.Body, func(n ast.Node) bool {
		is, ok := n.(*ast.IfStmt)
		if !ok {
			return true
		}
		calls := false
		ast.Inspect(is.Body, func(m ast.Node) bool {
			if ce, ok := m.(*ast.CallExpr); ok {
				if id, ok := ce.Fun.(*ast.Ident); ok && id.Name == "EncodeTunnelledQuery" {
					calls = true
				}
			}
			return true
		})
		if calls && cond == nil {
			cond = is.Cond
			if is.Init != nil {
				fail("tunnelling test in %s has an init statement", p.dir)
			}
		}
		return true
	})
	if cond == nil {
		fail("cannot locate the `if` that calls EncodeTunnelledQuery in newRequest (%s)", p.dir)
	}
	var tr func(e ast.Expr) string
	operand := func(e ast.Expr) string {
		switch x := e.(type) {
		case *ast.BasicLit:
			if x.Kind == token.INT {
				return "(" + x.Value + ")%Z"
			}
		case *ast.SelectorExpr:
			if id, ok := x.X.(*ast.Ident); ok && id.Name == "c" && x.Sel.Name == "QueryTunnellingThreshold" {
				return "threshold"
			}
		case *ast.CallExpr:
			if id, ok := x.Fun.(*ast.Ident); ok && id.Name == "len" && len(x.Args) == 1 {
				if se, ok := x.Args[0].(*ast.SelectorExpr); ok && se.Sel.Name == "RawQuery" {
					if id2, ok := se.X.(*ast.Ident); ok && id2.Name == "u" {
						return "qlen"
					}
				}
			}
		}
		fail("tunnelling test: cannot transcribe operand at %s", fset.Position(e.Pos()))
		return ""
	}
	tr = func(e ast.Expr) string {
		switch x := e.(type) {
		case *ast.ParenExpr:
			return tr(x.X)
		case *ast.UnaryExpr:
			if x.Op == token.NOT {
				return "(negb " + tr(x.X) + ")"
			}
		case *ast.BinaryExpr:
			switch x.Op {
			case token.LAND:
				return "(andb " + tr(x.X) + " " + tr(x.Y) + ")"
			case token.LOR:
				return "(orb " + tr(x.X) + " " + tr(x.Y) + ")"
			case token.GTR:
				return "(Z.gtb " + operand(x.X) + " " + operand(x.Y) + ")"
			case token.GEQ:
				return "(Z.geb " + operand(x.X) + " " + operand(x.Y) + ")"
			case token.LSS:
				return "(Z.ltb " + operand(x.X) + " " + operand(x.Y) + ")"
			case token.LEQ:
				return "(Z.leb " + operand(x.X) + " " + operand(x.Y) + ")"
			case token.EQL:
				return "(Z.eqb " + operand(x.X) + " " + operand(x.Y) + ")"
			case token.NEQ:
				return "(negb (Z.eqb " + operand(x.X) + " " + operand(x.Y) + "))"
			}
		}
		fail("tunnelling test: cannot transcribe expression at %s", fset.Position(e.Pos()))
		return ""
	}
	return tr(cond), fset.Position(cond.Pos()).String()
}

func init() {
	register("TablesTunnel", "tunnelling constants and the threshold test (C14)", func(o *out) {
		v2 := load(repo + "/v2/restli")
		root := load(repo + "/restli")
		for _, c := range []struct{ coq, goName string }{
			{"method_override_header", "MethodOverrideHeader"},
			{"content_type_header", "ContentTypeHeader"},
			{"multipart_mixed_content_type", "MultipartMixedContentType"},
			{"multipart_boundary_param", "MultipartBoundary"},
			{"application_json_content_type", "ApplicationJsonContentType"},
			{"form_urlencoded_content_type", "FormUrlEncodedContentType"},
		} {
			s, pos := v2.mustString(c.goName)
			s2, _ := root.mustString(c.goName)
			if s != s2 {
				fail("%s differs between the module generations (%q vs %q): the shared model no longer applies", c.goName, s, s2)
			}
			o.str(c.coq, s, pos)
		}
		c1, pos := tunnelCond(v2)
		c2, pos2 := tunnelCond(root)
		o.raw("(* " + rel(pos) + ": the tunnelling test of newRequest *)\nDefinition tunnel_condition (threshold qlen : Z) : bool := " + c1 + ".\n\n")
		o.raw("(* " + rel(pos2) + ": the same test in the root module *)\nDefinition tunnel_condition_root (threshold qlen : Z) : bool := " + c2 + ".\n\n")
		o.src = append(o.src, "tunnel_condition <- "+rel(pos), "tunnel_condition_root <- "+rel(pos2))
		for _, p := range []*pkg{v2, root} {
			if p.funcDecl("", "EncodeTunnelledQuery") == nil || p.funcDecl("", "DecodeTunnelledQuery") == nil {
				fail("cannot locate EncodeTunnelledQuery / DecodeTunnelledQuery in %s", p.dir)
			}
		}
		_ = strings.TrimSpace
	})
}
