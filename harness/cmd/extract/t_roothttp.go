package main

// Tables for the ROOT-module twin of the HTTP checks (checks/roothttp.py, Corr/RootHttpCorr.v):
//
//   TablesStatusRoot  the extraction of t_status.go (default statuses, adapters, newErrorResponsef call sites, ServeHTTP tail,
//                     recover handlers, header names) run on /repo/restli instead of /repo/v2/restli.  The root module has no
//                     RegisterPartialUpdateWithReturnEntity; every other Register* function must be found.
//   TablesRootHttp    declaration by declaration comparison of the HTTP runtime of the two generations: every top-level
//                     function, method, var, const and type of restli/{handler,server,http,collection,simple,finders,actions,
//                     collection_batch_methods,tunnelling,errors,types}.go is printed (go/printer, comments dropped) in both
//                     modules and compared after the package renaming (v2: common.X, root: restlidata.X).  The hand-transcribed
//                     control flow of Http/Status.v, Http/Router.v and Http/EndToEnd.v (written from the v2 files) applies to the
//                     root module only where the declarations are the same; Corr/RootHttpCorr.v states which differences are
//                     expected and proves that there is no other.
//
// Both fail when a file or a symbol disappears.

import (
	"bytes"
	"fmt"
	"go/ast"
	"go/printer"
	"go/token"
	"path/filepath"
	"sort"
	"strings"
)

var rootHTTPFiles = []string{"handler.go", "server.go", "http.go", "collection.go", "simple.go", "finders.go", "actions.go",
	"collection_batch_methods.go", "tunnelling.go", "errors.go", "types.go"}

// declarations the model's transcription rests on: they must exist in both modules
var rootHTTPRequired = []string{"handler.go:rootNode.ServeHTTP", "handler.go:pathNode.receive", "handler.go:registerMethod",
	"handler.go:registerMethodWithBody", "handler.go:registerMethodWithNoBody", "handler.go:marshalResponseBody",
	"handler.go:newErrorResponsef", "handler.go:rootNode.AddToMux", "handler.go:NewPrefixedServer", "finders.go:registerFinder",
	"actions.go:registerAction", "http.go:DoAndUnmarshal", "http.go:DoAndIgnore", "http.go:newRequest", "http.go:joinContextAndResourcePath", "http.go:Client.do",
	"http.go:Client.formatQueryUrl", "errors.go:IsErrorResponse", "tunnelling.go:DecodeTunnelledQuery", "tunnelling.go:EncodeTunnelledQuery"}

func declKey(file string, recv, name string) string {
	if recv != "" {
		return file + ":" + recv + "." + name
	}
	return file + ":" + name
}

func recvName(fd *ast.FuncDecl) string {
	if fd.Recv == nil || len(fd.Recv.List) != 1 {
		return ""
	}
	t := fd.Recv.List[0].Type
	if st, ok := t.(*ast.StarExpr); ok {
		t = st.X
	}
	if ix, ok := t.(*ast.IndexExpr); ok {
		t = ix.X
	}
	if ix, ok := t.(*ast.IndexListExpr); ok {
		t = ix.X
	}
	if id, ok := t.(*ast.Ident); ok {
		return id.Name
	}
	return "?"
}

func printNode(n interface{}) string {
	var b bytes.Buffer
	cfg := printer.Config{Mode: printer.RawFormat, Tabwidth: 1}
	if err := cfg.Fprint(&b, token.NewFileSet(), n); err != nil {
		fail("roothttp: cannot print a declaration: %v", err)
	}
	return strings.Join(strings.Fields(b.String()), " ")
}

// the declarations of one file: key -> normalised text
func declsOf(p *pkg, dir, file string) (map[string]string, map[string]token.Pos) {
	var f *ast.File
	for _, x := range p.files {
		if filepath.Base(fset.Position(x.Pos()).Filename) == file {
			f = x
		}
	}
	if f == nil {
		fail("roothttp: %s/%s not found", dir, file)
	}
	out, pos := map[string]string{}, map[string]token.Pos{}
	for _, d := range f.Decls {
		switch x := d.(type) {
		case *ast.FuncDecl:
			c := *x
			c.Doc = nil
			k := declKey(file, recvName(x), x.Name.Name)
			out[k], pos[k] = printNode(&c), x.Pos()
		case *ast.GenDecl:
			if x.Tok == token.IMPORT {
				continue
			}
			for _, s := range x.Specs {
				switch sp := s.(type) {
				case *ast.ValueSpec:
					c := *sp
					c.Doc, c.Comment = nil, nil
					for _, n := range sp.Names {
						k := declKey(file, "", n.Name)
						// an iota block: the position inside the block matters, keep the whole block's text
						txt := printNode(&c)
						if len(sp.Values) == 0 {
							g := *x
							g.Doc = nil
							txt = printNode(&g)
						}
						out[k], pos[k] = txt, n.Pos()
					}
				case *ast.TypeSpec:
					c := *sp
					c.Doc, c.Comment = nil, nil
					k := declKey(file, "", sp.Name.Name)
					out[k], pos[k] = printNode(&c), sp.Pos()
				}
			}
		}
	}
	return out, pos
}

// v2 names the envelope package `common`, the root module `restlidata`
func normV2(s string) string { return strings.ReplaceAll(s, "common.", "restlidata.") }

func init() {
	register("TablesStatusRoot", "response path of the ROOT-module server (/repo/restli): the extraction of TablesStatus on the root copy", func(o *out) {
		var want []string
		for _, w := range statusRegfnsV2 {
			if w != "RegisterPartialUpdateWithReturnEntity" {
				want = append(want, w)
			}
		}
		genTablesStatus(o, filepath.Join(repo, "restli"), want)
	})

	register("TablesRootHttp", "the HTTP runtime of the two generations, declaration by declaration (root restli/*.go vs v2/restli/*.go)", func(o *out) {
		v2 := load(filepath.Join(repo, "v2", "restli"))
		root := load(filepath.Join(repo, "restli"))
		o.raw("Inductive decl_cmp : Set := Same | Differs | OnlyV2 | OnlyRoot.\n\n")
		o.raw("(* (file:declaration, comparison after the package renaming common. -> restlidata.) *)\nDefinition root_http_decls : list (bytes * decl_cmp) :=\n  [")
		first := true
		seen := map[string]string{}
		for _, file := range rootHTTPFiles {
			dv, pv := declsOf(v2, "v2/restli", file)
			dr, pr := declsOf(root, "restli", file)
			keys := map[string]bool{}
			for k := range dv {
				keys[k] = true
			}
			for k := range dr {
				keys[k] = true
			}
			var ks []string
			for k := range keys {
				ks = append(ks, k)
			}
			sort.Strings(ks)
			for _, k := range ks {
				a, inV := dv[k]
				b, inR := dr[k]
				cmp := "Same"
				where := ""
				switch {
				case !inR:
					cmp, where = "OnlyV2", rel(fset.Position(pv[k]).String())
				case !inV:
					cmp, where = "OnlyRoot", rel(fset.Position(pr[k]).String())
				case normV2(a) != b:
					cmp, where = "Differs", rel(fset.Position(pr[k]).String())
				}
				seen[k] = cmp
				if !first {
					o.raw(";\n   ")
				}
				first = false
				o.raw(fmt.Sprintf("(%s, %s) (* %s *)", coqBytes(k), cmp, k))
				if cmp != "Same" {
					o.src = append(o.src, fmt.Sprintf("decl %s %s <- %s", cmp, k, where))
				}
			}
		}
		o.raw("].\n\n")
		for _, k := range rootHTTPRequired {
			if c, ok := seen[k]; !ok || c == "OnlyV2" || c == "OnlyRoot" {
				fail("roothttp: %s is not declared in both modules any more (%q)", k, c)
			}
		}
		o.src = append(o.src, fmt.Sprintf("root_http_decls <- restli/*.go vs v2/restli/*.go (%d declarations)", len(seen)))
	})
}
