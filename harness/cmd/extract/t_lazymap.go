package main

import (
	"fmt"
	"go/ast"
	"go/token"
	"strconv"
	"strings"
)

// TablesLazyMap: the "shape" of lazymap.go that the Coq model D2/LazyMap.v transcribes - for each of LoadOrStore, Load,
// Store the sequence (in source order) of yield points and calls/returns:
//   yield(N) -> N; (*sync.Map)(m).LoadOrStore/Load/Store -> 101/102/103; wg.Wait -> 104; wg.Done -> 105; wg.Add -> 106;
//   f() -> 107; new(...) -> 108; m.LoadOrStore/Load/Store (the lazy map's own methods) -> 111/112/113; return -> 120;
//   any other call -> 199.
func lazymapShape(dir string) (string, string) {
	p := load(dir)
	var parts []string
	pos := ""
	for _, name := range []string{"LoadOrStore", "Load", "Store"} {
		fd := p.funcDecl("LazySyncMap", name)
		if fd == nil || fd.Body == nil {
			fail("cannot locate method LazySyncMap.%s in %s", name, dir)
		}
		if pos == "" {
			pos = fset.Position(fd.Pos()).String()
		}
		var codes []string
		add := func(n int) { codes = append(codes, strconv.Itoa(n)) }
		ast.Inspect(fd.Body, func(n ast.Node) bool {
			switch x := n.(type) {
			case *ast.ReturnStmt:
				add(120)
			case *ast.CallExpr:
				switch fn := x.Fun.(type) {
				case *ast.ParenExpr: // conversion (*sync.Map)(m)
				case *ast.Ident:
					switch fn.Name {
					case "yield":
						if len(x.Args) != 1 {
							fail("yield with %d arguments in %s", len(x.Args), dir)
						}
						lit, ok := x.Args[0].(*ast.BasicLit)
						if !ok || lit.Kind != token.INT {
							fail("yield argument is not an integer literal in %s", dir)
						}
						v, _ := strconv.Atoi(lit.Value)
						add(v)
					case "f":
						add(107)
					case "new":
						add(108)
					default:
						add(199)
					}
				case *ast.SelectorExpr:
					base := 0
					switch fn.X.(type) {
					case *ast.CallExpr, *ast.ParenExpr:
						base = 100
					case *ast.Ident:
						base = 110
					}
					switch fn.Sel.Name {
					case "LoadOrStore":
						add(base + 1)
					case "Load":
						add(base + 2)
					case "Store":
						add(base + 3)
					case "Wait":
						add(104)
					case "Done":
						add(105)
					case "Add":
						add(106)
					default:
						add(199)
					}
					if base == 0 && (fn.Sel.Name == "LoadOrStore" || fn.Sel.Name == "Load" || fn.Sel.Name == "Store") {
						codes[len(codes)-1] = "199"
					}
				default:
					add(199)
				}
			}
			return true
		})
		parts = append(parts, "["+strings.Join(codes, "; ")+"]")
	}
	return "[" + strings.Join(parts, ";\n   ") + "]", pos
}

func init() {
	register("TablesLazyMap", "shape of d2/lazymap/lazymap.go: yield points and atomic calls per function (C18)", func(o *out) {
		for _, m := range []struct{ coq, dir string }{{"v2_lazymap_shape", repo + "/v2/d2/lazymap"}, {"root_lazymap_shape", repo + "/d2/lazymap"}} {
			shape, pos := lazymapShape(m.dir)
			o.raw(fmt.Sprintf("(* %s: LoadOrStore, Load, Store *)\nDefinition %s : list (list nat) :=\n  %s.\n\n", rel(pos), m.coq, shape))
			o.src = append(o.src, m.coq+" <- "+rel(pos))
		}
	})
}
