package main

import (
	"fmt"
	"go/ast"
	"go/token"
	"strconv"
	"strings"
)

// TablesLazyMap: the "shape" of lazymap.go that the Coq model D2/LazyMap.v transcribes - for each of LoadOrStore, Load,
// Store the sequence (in source order) of yield points and calls/returns:
//
//	yield(N) -> N; (*sync.Map)(m).LoadOrStore/Load/Store -> 101/102/103; wg.Wait -> 104; wg.Done -> 105; wg.Add -> 106;
//	f() -> 107; new(...) -> 108; m.LoadOrStore/Load/Store (the lazy map's own methods) -> 111/112/113; return -> 120;
//	any other call -> 199;
//
// and the facts about data flow and control flow the model relies on beyond that order:
//
//	an access X.v to the placeholder's result field (read or written) -> 109, so that "Wait, then read v.v" is visible
//	(a `return` contributes 120 BEFORE its operands, as ast.Inspect visits them);
//	a type assertion -> 122; `defer` -> 130 and `go` -> 131 (each before the call it defers / spawns);
//	`if` -> 140 ID when the condition is a plain identifier, 141 ID when it is `!identifier`, 142 for anything else
//	(emitted before the statement's init / condition / body); `x := true|false` / `x = true|false` -> 145 ID / 146 ID;
//	ID = 1000 + the index of the identifier (the variable the parser resolved it to, not its name) among the identifiers
//	so tracked in that function, in order of first use
//	(so "the flag tested by Store is the flag its closure sets" is part of the shape).
func lazymapShape(dir string) (string, string) {
	p := load(dir)
	var parts []string
	pos := ""
	for _, name := range []string{"LoadOrStore", "Load", "Store"} {
		fd := p.funcDecl("LazySyncMap", name)
		if fd == nil || fd.Body == nil {
			fail("cannot locate method LazySyncMap.%s in %s", name, dir)
		}
		if pos == "" {
			pos = fset.Position(fd.Pos()).String()
		}
		var codes []string
		add := func(n int) { codes = append(codes, strconv.Itoa(n)) }
		// identifiers are told apart by the declaration the parser resolved them to (a consistent renaming does not change
		// the shape, two variables of the same name are two identifiers); unresolved ones by name
		ids := map[interface{}]int{}
		id := func(in *ast.Ident) int {
			var k interface{} = in.Name
			if in.Obj != nil {
				k = in.Obj
			}
			if _, ok := ids[k]; !ok {
				ids[k] = len(ids)
			}
			return 1000 + ids[k]
		}
		ast.Inspect(fd.Body, func(n ast.Node) bool {
			switch x := n.(type) {
			case *ast.ReturnStmt:
				add(120)
			case *ast.DeferStmt:
				add(130)
			case *ast.GoStmt:
				add(131)
			case *ast.TypeAssertExpr:
				add(122)
			case *ast.SelectorExpr:
				if x.Sel.Name == "v" {
					add(109)
				}
			case *ast.IfStmt:
				switch c := x.Cond.(type) {
				case *ast.Ident:
					add(140)
					add(id(c))
				case *ast.UnaryExpr:
					if in, ok := c.X.(*ast.Ident); ok && c.Op == token.NOT {
						add(141)
						add(id(in))
					} else {
						add(142)
					}
				default:
					add(142)
				}
			case *ast.AssignStmt:
				if len(x.Lhs) == 1 && len(x.Rhs) == 1 {
					l, lok := x.Lhs[0].(*ast.Ident)
					r, rok := x.Rhs[0].(*ast.Ident)
					if lok && rok && (r.Name == "true" || r.Name == "false") {
						if r.Name == "true" {
							add(145)
						} else {
							add(146)
						}
						add(id(l))
					}
				}
			case *ast.CallExpr:
				switch fn := x.Fun.(type) {
				case *ast.ParenExpr: // conversion (*sync.Map)(m)
				case *ast.Ident:
					switch fn.Name {
					case "yield":
						if len(x.Args) != 1 {
							fail("yield with %d arguments in %s", len(x.Args), dir)
						}
						lit, ok := x.Args[0].(*ast.BasicLit)
						if !ok || lit.Kind != token.INT {
							fail("yield argument is not an integer literal in %s", dir)
						}
						v, _ := strconv.Atoi(lit.Value)
						add(v)
					case "f":
						add(107)
					case "new":
						add(108)
					default:
						add(199)
					}
				case *ast.SelectorExpr:
					base := 0
					switch fn.X.(type) {
					case *ast.CallExpr, *ast.ParenExpr:
						base = 100
					case *ast.Ident:
						base = 110
					}
					switch fn.Sel.Name {
					case "LoadOrStore":
						add(base + 1)
					case "Load":
						add(base + 2)
					case "Store":
						add(base + 3)
					case "Wait":
						add(104)
					case "Done":
						add(105)
					case "Add":
						add(106)
					default:
						add(199)
					}
					if base == 0 && (fn.Sel.Name == "LoadOrStore" || fn.Sel.Name == "Load" || fn.Sel.Name == "Store") {
						codes[len(codes)-1] = "199"
					}
				default:
					add(199)
				}
			}
			return true
		})
		parts = append(parts, "["+strings.Join(codes, "; ")+"]")
	}
	return "[" + strings.Join(parts, ";\n   ") + "]", pos
}

func init() {
	register("TablesLazyMap", "shape of d2/lazymap/lazymap.go: yield points and atomic calls per function (C18)", func(o *out) {
		for _, m := range []struct{ coq, dir string }{{"v2_lazymap_shape", repo + "/v2/d2/lazymap"}, {"root_lazymap_shape", repo + "/d2/lazymap"}} {
			shape, pos := lazymapShape(m.dir)
			o.raw(fmt.Sprintf("(* %s: LoadOrStore, Load, Store *)\nDefinition %s : list (list nat) :=\n  %s.\n\n", rel(pos), m.coq, shape))
			o.src = append(o.src, m.coq+" <- "+rel(pos))
		}
	})
}
