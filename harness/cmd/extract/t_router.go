package main

// TablesRouter (C05): the Rest.li method table (const block + stringer table + MethodNameMapping loop bounds), the protocol
// header names, the reserved query parameter names, and a MECHANICAL transcription of the method-inference /
// entity-presence statement of (*pathNode).receive (`if p.isCollection { ... } else { ... }`) into a Coq function, for
// both module generations.  Anything outside the small statement subset understood here makes the translator fail.

import (
	"fmt"
	"go/ast"
	"go/constant"
	"go/token"
	"sort"
	"strconv"
	"strings"
)

var httpVerbConst = map[string]string{"MethodGet": "VGet", "MethodPost": "VPost", "MethodPut": "VPut", "MethodDelete": "VDelete"}
var httpStatusConst = map[string]int{"StatusBadRequest": 400, "StatusNotFound": 404, "StatusMethodNotAllowed": 405,
	"StatusInternalServerError": 500, "StatusForbidden": 403, "StatusUnauthorized": 401, "StatusNotImplemented": 501,
	"StatusOK": 200, "StatusNoContent": 204, "StatusCreated": 201}

type routerTr struct {
	p       *pkg
	methods map[string]bool
	where   string
}

func (t *routerTr) bad(n ast.Node, what string) {
	fail("router: cannot transcribe %s at %s (%s)", what, fset.Position(n.Pos()), t.where)
}

func (t *routerTr) expr(e ast.Expr) string {
	switch x := e.(type) {
	case *ast.ParenExpr:
		return "(" + t.expr(x.X) + ")"
	case *ast.Ident:
		switch x.Name {
		case "hasEntity", "hasIds":
			return x.Name
		case "true", "false":
			return x.Name
		}
	case *ast.SelectorExpr:
		if id, ok := x.X.(*ast.Ident); ok && id.Name == "p" && x.Sel.Name == "isCollection" {
			return "isCollection"
		}
	case *ast.UnaryExpr:
		if x.Op == token.NOT {
			return "(negb " + t.expr(x.X) + ")"
		}
	case *ast.BinaryExpr:
		switch x.Op {
		case token.LAND:
			return "(andb " + t.expr(x.X) + " " + t.expr(x.Y) + ")"
		case token.LOR:
			return "(orb " + t.expr(x.X) + " " + t.expr(x.Y) + ")"
		case token.EQL, token.NEQ:
			s := t.cmp(x.X, x.Y)
			if s == "" {
				s = t.cmp(x.Y, x.X)
			}
			if s == "" {
				break
			}
			if x.Op == token.NEQ {
				return "(negb " + s + ")"
			}
			return s
		}
	}
	t.bad(e, "expression")
	return ""
}

// a == b for the shapes that occur: finder == "", action == "", restLiMethod == Method_x, httpMethod == http.MethodX
func (t *routerTr) cmp(a, b ast.Expr) string {
	id, ok := a.(*ast.Ident)
	if !ok {
		return ""
	}
	switch id.Name {
	case "finder", "action":
		if lit, ok := b.(*ast.BasicLit); ok && lit.Kind == token.STRING && lit.Value == `""` {
			return "(negb " + id.Name + "Set)"
		}
	case "restLiMethod":
		if m := t.methodConst(b); m != "" {
			return "(method_eqb restLiMethod " + m + ")"
		}
	case "httpMethod":
		if v := t.verbConst(b); v != "" {
			return "(verb_eqb httpMethod " + v + ")"
		}
	}
	return ""
}

func (t *routerTr) methodConst(e ast.Expr) string {
	if id, ok := e.(*ast.Ident); ok && t.methods[id.Name] {
		return id.Name
	}
	return ""
}

func (t *routerTr) verbConst(e ast.Expr) string {
	if s, ok := e.(*ast.SelectorExpr); ok {
		if id, ok := s.X.(*ast.Ident); ok && id.Name == "http" {
			return httpVerbConst[s.Sel.Name]
		}
	}
	return ""
}

func (t *routerTr) stmts(l []ast.Stmt) string {
	if len(l) == 0 {
		return "Cont restLiMethod"
	}
	s, rest := l[0], l[1:]
	switch x := s.(type) {
	case *ast.AssignStmt:
		if len(x.Lhs) == 1 && len(x.Rhs) == 1 {
			lhs, _ := x.Lhs[0].(*ast.Ident)
			if lhs != nil && lhs.Name == "restLiMethod" && x.Tok == token.ASSIGN {
				if m := t.methodConst(x.Rhs[0]); m != "" {
					return "(let restLiMethod := " + m + " in " + t.stmts(rest) + ")"
				}
			}
			// hasIds := params[batchkeyset.EntityIDsField] != nil
			if lhs != nil && lhs.Name == "hasIds" && x.Tok == token.DEFINE {
				if be, ok := x.Rhs[0].(*ast.BinaryExpr); ok && be.Op == token.NEQ {
					if n, ok := be.Y.(*ast.Ident); ok && n.Name == "nil" {
						if ix, ok := be.X.(*ast.IndexExpr); ok {
							pid, _ := ix.X.(*ast.Ident)
							sel, _ := ix.Index.(*ast.SelectorExpr)
							if pid != nil && pid.Name == "params" && sel != nil && sel.Sel.Name == "EntityIDsField" {
								return t.stmts(rest)
							}
						}
					}
				}
			}
		}
	case *ast.ReturnStmt:
		if len(x.Results) == 1 {
			if c, ok := x.Results[0].(*ast.CallExpr); ok {
				if f, ok := c.Fun.(*ast.Ident); ok && f.Name == "newErrorResponsef" && len(c.Args) >= 2 {
					if n, ok := c.Args[0].(*ast.Ident); ok && n.Name == "nil" {
						if s, ok := c.Args[1].(*ast.SelectorExpr); ok {
							if id, ok := s.X.(*ast.Ident); ok && id.Name == "http" {
								if st, ok := httpStatusConst[s.Sel.Name]; ok {
									return fmt.Sprintf("Ret %d%%N", st)
								}
							}
						}
					}
				}
			}
		}
	case *ast.BlockStmt:
		return t.seq(t.stmts(x.List), rest)
	case *ast.IfStmt:
		if x.Init == nil {
			els := "Cont restLiMethod"
			switch e := x.Else.(type) {
			case nil:
			case *ast.BlockStmt:
				els = t.stmts(e.List)
			case *ast.IfStmt:
				els = t.stmts([]ast.Stmt{e})
			default:
				t.bad(x, "else branch")
			}
			return t.seq("(if "+t.expr(x.Cond)+" then "+t.stmts(x.Body.List)+" else "+els+")", rest)
		}
	case *ast.SwitchStmt:
		if x.Init == nil {
			return t.seq(t.switchStmt(x), rest)
		}
	}
	t.bad(s, "statement")
	return ""
}

func (t *routerTr) seq(first string, rest []ast.Stmt) string {
	if len(rest) == 0 {
		return first
	}
	return "(bind " + first + " (fun restLiMethod => " + t.stmts(rest) + "))"
}

func (t *routerTr) switchStmt(x *ast.SwitchStmt) string {
	var tag string // "", "httpMethod", "restLiMethod"
	if x.Tag != nil {
		id, ok := x.Tag.(*ast.Ident)
		if !ok || (id.Name != "httpMethod" && id.Name != "restLiMethod") {
			t.bad(x, "switch tag")
		}
		tag = id.Name
	}
	def := "Cont restLiMethod"
	type arm struct{ cond, body string }
	var arms []arm
	for _, cs := range x.Body.List {
		cc := cs.(*ast.CaseClause)
		for _, st := range cc.Body {
			if br, ok := st.(*ast.BranchStmt); ok {
				t.bad(br, "branch statement (fallthrough/break/goto)")
			}
		}
		body := t.stmts(cc.Body)
		if cc.List == nil {
			def = body
			continue
		}
		var conds []string
		for _, e := range cc.List {
			switch tag {
			case "":
				conds = append(conds, t.expr(e))
			case "httpMethod":
				v := t.verbConst(e)
				if v == "" {
					t.bad(e, "HTTP verb constant (only GET/POST/PUT/DELETE are in the model's verb type)")
				}
				conds = append(conds, "(verb_eqb httpMethod "+v+")")
			case "restLiMethod":
				m := t.methodConst(e)
				if m == "" {
					t.bad(e, "method constant")
				}
				conds = append(conds, "(method_eqb restLiMethod "+m+")")
			}
		}
		c := conds[0]
		for _, d := range conds[1:] {
			c = "(orb " + c + " " + d + ")"
		}
		arms = append(arms, arm{c, body})
	}
	out := def
	for i := len(arms) - 1; i >= 0; i-- {
		out = "(if " + arms[i].cond + "\n    then " + arms[i].body + "\n    else " + out + ")"
	}
	return out
}

// the top-level `if p.isCollection {...} else {...}` of receive
func (t *routerTr) inferStmt(fd *ast.FuncDecl) *ast.IfStmt {
	var found *ast.IfStmt
	for _, s := range fd.Body.List {
		if is, ok := s.(*ast.IfStmt); ok && is.Init == nil {
			if sel, ok := is.Cond.(*ast.SelectorExpr); ok && sel.Sel.Name == "isCollection" {
				if found != nil {
					fail("router: two `if p.isCollection` statements in receive (%s)", t.where)
				}
				found = is
			}
		}
	}
	if found == nil || found.Else == nil {
		fail("router: cannot locate `if p.isCollection {...} else {...}` in receive (%s)", t.where)
	}
	return found
}

type methodTable struct {
	names  []string // const identifiers in value order (0..)
	strs   []string // String() of each
	lo, hi int      // MethodNameMapping loop bounds (inclusive)
	pos    string
}

func readMethodTable(p *pkg) methodTable {
	var mt methodTable
	for _, f := range p.files {
		for _, d := range f.Decls {
			gd, ok := d.(*ast.GenDecl)
			if !ok || gd.Tok != token.CONST || len(gd.Specs) == 0 {
				continue
			}
			first := gd.Specs[0].(*ast.ValueSpec)
			if len(first.Names) != 1 || first.Names[0].Name != "Method_Unknown" {
				continue
			}
			// Method_Unknown = Method(iota)
			okShape := false
			if len(first.Values) == 1 {
				if c, ok := first.Values[0].(*ast.CallExpr); ok && len(c.Args) == 1 {
					if id, ok := c.Args[0].(*ast.Ident); ok && id.Name == "iota" {
						okShape = true
					}
				}
			}
			if !okShape {
				fail("router: Method_Unknown is no longer Method(iota) in %s", p.dir)
			}
			for i, s := range gd.Specs {
				vs := s.(*ast.ValueSpec)
				if len(vs.Names) != 1 || (i > 0 && len(vs.Values) != 0) {
					fail("router: Method const block is no longer a plain iota sequence (%s)", fset.Position(vs.Pos()))
				}
				mt.names = append(mt.names, vs.Names[0].Name)
			}
			mt.pos = fset.Position(gd.Pos()).String()
		}
	}
	if len(mt.names) == 0 {
		fail("router: cannot locate the Method const block in %s", p.dir)
	}
	// func (i Method) String() string { ...; return <name>[<index>[i]:<index>[i+1]] }
	sd := p.funcDecl("Method", "String")
	if sd == nil {
		fail("router: cannot locate func (Method) String in %s", p.dir)
	}
	nameId, indexId := "", ""
	ast.Inspect(sd.Body, func(n ast.Node) bool {
		if se, ok := n.(*ast.SliceExpr); ok {
			if id, ok := se.X.(*ast.Ident); ok {
				nameId = id.Name
			}
			if ix, ok := se.Low.(*ast.IndexExpr); ok {
				if id, ok := ix.X.(*ast.Ident); ok {
					indexId = id.Name
				}
			}
		}
		return true
	})
	if nameId == "" || indexId == "" {
		fail("router: func (Method) String is no longer the stringer table lookup in %s", p.dir)
	}
	nameStr, _ := p.mustString(nameId)
	ie, _, ok := p.lookupExpr(indexId)
	if !ok {
		fail("router: cannot locate %s in %s", indexId, p.dir)
	}
	cl, ok := ie.(*ast.CompositeLit)
	if !ok {
		fail("router: _Method_index is not a composite literal in %s", p.dir)
	}
	var idx []int
	for _, e := range cl.Elts {
		v, ok := p.evalConst(e)
		if !ok || v.Kind() != constant.Int {
			fail("router: _Method_index element not constant")
		}
		n, _ := constant.Int64Val(v)
		idx = append(idx, int(n))
	}
	if len(idx) != len(mt.names)+1 {
		fail("router: stringer table has %d entries for %d Method constants (stale method_string.go?)", len(idx)-1, len(mt.names))
	}
	for i := range mt.names {
		if idx[i] > idx[i+1] || idx[i+1] > len(nameStr) {
			fail("router: _Method_index out of range")
		}
		mt.strs = append(mt.strs, nameStr[idx[i]:idx[i+1]])
	}
	// MethodNameMapping: for m := Method_a; m <= Method_b; m++ { mapping[m.String()] = m }
	me, _, ok := p.lookupExpr("MethodNameMapping")
	if !ok {
		fail("router: cannot locate MethodNameMapping in %s", p.dir)
	}
	mt.lo, mt.hi = -1, -1
	ast.Inspect(me, func(n ast.Node) bool {
		fs, ok := n.(*ast.ForStmt)
		if !ok {
			return true
		}
		as, ok1 := fs.Init.(*ast.AssignStmt)
		be, ok2 := fs.Cond.(*ast.BinaryExpr)
		inc, ok3 := fs.Post.(*ast.IncDecStmt)
		if !ok1 || !ok2 || !ok3 || inc.Tok != token.INC || be.Op != token.LEQ || len(as.Rhs) != 1 {
			fail("router: MethodNameMapping loop has an unexpected shape (%s)", fset.Position(fs.Pos()))
		}
		lo, _ := as.Rhs[0].(*ast.Ident)
		hi, _ := be.Y.(*ast.Ident)
		for i, n := range mt.names {
			if lo != nil && n == lo.Name {
				mt.lo = i
			}
			if hi != nil && n == hi.Name {
				mt.hi = i
			}
		}
		// body: mapping[m.String()] = m
		if len(fs.Body.List) != 1 {
			fail("router: MethodNameMapping loop body has an unexpected shape")
		}
		return false
	})
	if mt.lo < 0 || mt.hi < 0 {
		fail("router: cannot read the bounds of the MethodNameMapping loop in %s", p.dir)
	}
	return mt
}

func reservedParams(fd *ast.FuncDecl) []string {
	var out []string
	ast.Inspect(fd.Body, func(n ast.Node) bool {
		if ix, ok := n.(*ast.IndexExpr); ok {
			if id, ok := ix.X.(*ast.Ident); ok && id.Name == "params" {
				if lit, ok := ix.Index.(*ast.BasicLit); ok && lit.Kind == token.STRING {
					s, _ := strconv.Unquote(lit.Value)
					out = append(out, s)
				}
			}
		}
		return true
	})
	return out
}

func init() {
	register("TablesRouter", "Rest.li method table, protocol headers and the transcribed method-inference statement of receive (C05)", func(o *out) {
		v2 := load(repo + "/v2/restli")
		root := load(repo + "/restli")
		mt := readMethodTable(v2)
		rmt := readMethodTable(root)
		o.raw("(* " + rel(mt.pos) + " *)\nInductive method : Set :=\n")
		for _, n := range mt.names {
			o.raw("  | " + n + "\n")
		}
		o.raw(".\n\nDefinition all_methods : list method := [" + strings.Join(mt.names, "; ") + "].\n\n")
		o.raw("Definition method_value (m : method) : N :=\n  match m with\n")
		for i, n := range mt.names {
			o.raw(fmt.Sprintf("  | %s => %d%%N\n", n, i))
		}
		o.raw("  end.\n\nDefinition method_eqb (a b : method) : bool := N.eqb (method_value a) (method_value b).\n\n")
		o.raw("(* Method.String(): method_string.go _Method_name[_Method_index[i]:_Method_index[i+1]] *)\nDefinition method_name (m : method) : bytes :=\n  match m with\n")
		for i, n := range mt.names {
			o.raw(fmt.Sprintf("  | %s => %s (* %q *)\n", n, coqBytes(mt.strs[i]), mt.strs[i]))
		}
		o.raw("  end.\n\n")
		o.raw(fmt.Sprintf("(* MethodNameMapping: for m := %s; m <= %s; m++ { mapping[m.String()] = m } *)\n", mt.names[mt.lo], mt.names[mt.hi]))
		o.raw("Definition method_name_mapping : list (bytes * method) :=\n  [")
		for i := mt.lo; i <= mt.hi; i++ {
			if i > mt.lo {
				o.raw(";\n   ")
			}
			o.raw("(method_name " + mt.names[i] + ", " + mt.names[i] + ")")
		}
		o.raw("].\n\n")
		o.src = append(o.src, "method <- "+rel(mt.pos), "method_name <- v2/restli/method_string.go", "method_name_mapping <- v2/restli/http.go:MethodNameMapping")
		// the root module's table must be the same table
		same := len(rmt.names) == len(mt.names) && rmt.lo == mt.lo && rmt.hi == mt.hi
		for i := range mt.names {
			if !same || rmt.names[i] != mt.names[i] || rmt.strs[i] != mt.strs[i] {
				same = false
				break
			}
		}
		o.raw("(* the root module's const block, stringer table and MethodNameMapping bounds, compared here *)\nDefinition root_method_table_same : bool := " + map[bool]string{true: "true", false: "false"}[same] + ".\n\n")

		for _, c := range []struct{ coq, name string }{{"method_header", "MethodHeader"}, {"error_response_header", "ErrorResponseHeader"},
			{"protocol_version_header", "ProtocolVersionHeader"}, {"protocol_version", "ProtocolVersion"}, {"method_override_header", "MethodOverrideHeader"}} {
			s, pos := v2.mustString(c.name)
			o.str(c.coq, s, pos)
			rs, _ := root.mustString(c.name)
			if rs != s {
				fail("router: %s differs between the root module (%q) and v2 (%q)", c.name, rs, s)
			}
		}
		bk := load(repo + "/v2/restli/batchkeyset")
		s, pos := bk.mustString("EntityIDsField")
		o.str("entity_ids_field", s, pos)
		rbk := load(repo + "/restli/batchkeyset")
		if rs, _ := rbk.mustString("EntityIDsField"); rs != s {
			fail("router: EntityIDsField differs between the modules")
		}

		// which wrapper each Register* uses: registerMethodWithBody(s, segments, Method_x, ...) / registerMethodWithNoBody(...)
		for _, w := range []struct{ coq, fn string }{{"methods_with_body", "registerMethodWithBody"}, {"methods_without_body", "registerMethodWithNoBody"}} {
			collect := func(p *pkg) []string {
				var ms []string
				seen := map[string]bool{}
				for _, f := range p.files {
					ast.Inspect(f, func(n ast.Node) bool {
						c, ok := n.(*ast.CallExpr)
						if !ok || len(c.Args) < 3 {
							return true
						}
						fn := c.Fun
						if ix, ok := fn.(*ast.IndexExpr); ok {
							fn = ix.X
						}
						if ix, ok := fn.(*ast.IndexListExpr); ok {
							fn = ix.X
						}
						if id, ok := fn.(*ast.Ident); ok && id.Name == w.fn {
							if m, ok := c.Args[2].(*ast.Ident); ok && strings.HasPrefix(m.Name, "Method_") && !seen[m.Name] {
								seen[m.Name] = true
								ms = append(ms, m.Name)
							}
						}
						return true
					})
				}
				return ms
			}
			ms := collect(v2)
			if len(ms) == 0 {
				fail("router: no call of %s with a Method constant found", w.fn)
			}
			sorted := func(l []string) string {
				c := append([]string(nil), l...)
				sort.Strings(c)
				return strings.Join(c, ",")
			}
			if sorted(collect(root)) != sorted(ms) {
				fail("router: the methods registered through %s differ between the modules", w.fn)
			}
			o.raw("(* methods registered through " + w.fn + " (server.go) *)\nDefinition " + w.coq + " : list method := [" + strings.Join(ms, "; ") + "].\n\n")
			o.src = append(o.src, w.coq+" <- v2/restli/server.go:"+w.fn)
		}

		o.raw("Inductive verb : Set := VGet | VPost | VPut | VDelete | VOther.\n")
		o.raw("Definition verb_eqb (a b : verb) : bool :=\n  match a, b with VGet, VGet | VPost, VPost | VPut, VPut | VDelete, VDelete | VOther, VOther => true | _, _ => false end.\n\n")
		o.raw("Inductive infer_res : Set := Cont (m : method) | Ret (status : N).\n")
		o.raw("Definition bind (r : infer_res) (k : method -> infer_res) : infer_res := match r with Cont m => k m | Ret s => Ret s end.\n\n")
		for _, m := range []struct {
			tag string
			p   *pkg
		}{{"v2", v2}, {"root", root}} {
			fd := m.p.funcDecl("pathNode", "receive")
			if fd == nil {
				fail("router: cannot locate (*pathNode).receive in %s", m.p.dir)
			}
			rp := reservedParams(fd)
			if len(rp) != 2 {
				fail("router: expected exactly params[\"q\"] and params[\"action\"] style lookups in receive, found %v (%s)", rp, m.p.dir)
			}
			if m.tag == "v2" {
				o.str("param_finder", rp[0], fset.Position(fd.Pos()).String())
				o.str("param_action", rp[1], fset.Position(fd.Pos()).String())
			} else {
				v2rp := reservedParams(v2.funcDecl("pathNode", "receive"))
				if v2rp[0] != rp[0] || v2rp[1] != rp[1] {
					fail("router: reserved parameter names differ between the modules")
				}
			}
			t := &routerTr{p: m.p, methods: map[string]bool{}, where: m.tag}
			for _, n := range mt.names {
				t.methods[n] = true
			}
			is := t.inferStmt(fd)
			body := t.stmts([]ast.Stmt{is})
			p := fset.Position(is.Pos())
			e := fset.Position(is.End())
			o.raw(fmt.Sprintf("(* %s:%d-%d, transcribed statement by statement: `restLiMethod = M` is a let, `return newErrorResponsef(nil, http.StatusX, ...)`\n   is Ret X, falling out of the statement is Cont restLiMethod; finderSet = (finder != \"\"), actionSet = (action != \"\"). *)\n", rel(p.Filename), p.Line, e.Line))
			o.raw("Definition " + m.tag + "_infer (isCollection : bool) (httpMethod : verb) (restLiMethod : method)\n    (hasEntity hasIds finderSet actionSet : bool) : infer_res :=\n  " + body + ".\n\n")
			o.src = append(o.src, fmt.Sprintf("%s_infer <- %s:%d-%d", m.tag, rel(p.Filename), p.Line, e.Line))
		}
	})
}
