package main

// TablesUrl (C15): the sets of bytes the ROR2 path escaper and the ROR2 query escaper leave unescaped
// (`unescapedPathCharacters` in restlicodec/path_writer.go, `unescapedQueryCharacters` in restlicodec/query_writer.go),
// for both module generations.  Each is `var x = func() map[byte]struct{} { const chars = `...`; ... }()`: the
// translator copies the `chars` literal and fails when the shape is no longer recognisable.

import (
	"go/ast"
	"go/constant"
	"go/token"
)

func charsOfSetVar(p *pkg, name string) (string, string) {
	e, _, ok := p.lookupExpr(name)
	if !ok {
		fail("cannot locate %s in %s", name, p.dir)
	}
	call, ok := e.(*ast.CallExpr)
	if !ok || len(call.Args) != 0 {
		fail("%s in %s is no longer an immediately invoked function literal", name, p.dir)
	}
	fl, ok := call.Fun.(*ast.FuncLit)
	if !ok {
		fail("%s in %s is no longer an immediately invoked function literal", name, p.dir)
	}
	var val, pos string
	found := false
	rangesOverChars, storesCharsI := false, false
	ast.Inspect(fl.Body, func(n ast.Node) bool {
		switch x := n.(type) {
		case *ast.GenDecl:
			if x.Tok != token.CONST {
				return true
			}
			for _, s := range x.Specs {
				vs := s.(*ast.ValueSpec)
				for i, nm := range vs.Names {
					if nm.Name == "chars" && i < len(vs.Values) {
						v, ok := p.evalConst(vs.Values[i])
						if !ok || v.Kind() != constant.String {
							fail("%s: chars is not a string constant (%s)", name, p.dir)
						}
						val, pos, found = constant.StringVal(v), fset.Position(nm.Pos()).String(), true
					}
				}
			}
		case *ast.RangeStmt:
			if id, ok := x.X.(*ast.Ident); ok && id.Name == "chars" {
				rangesOverChars = true
			}
		case *ast.AssignStmt:
			// m[chars[i]] = struct{}{}
			if len(x.Lhs) == 1 {
				if ix, ok := x.Lhs[0].(*ast.IndexExpr); ok {
					if ix2, ok := ix.Index.(*ast.IndexExpr); ok {
						if id, ok := ix2.X.(*ast.Ident); ok && id.Name == "chars" {
							storesCharsI = true
						}
					}
				}
			}
		}
		return true
	})
	if !found || !rangesOverChars || !storesCharsI {
		fail("%s in %s: cannot recognise `const chars = ...; for i := range chars { m[chars[i]] = struct{}{} }`", name, p.dir)
	}
	return val, pos
}

func init() {
	register("TablesUrl", "bytes the ROR2 path / query escapers leave unescaped (C15)", func(o *out) {
		for _, m := range []struct{ prefix, dir string }{{"v2", repo + "/v2/restlicodec"}, {"root", repo + "/restlicodec"}} {
			p := load(m.dir)
			if p.funcDecl("", "Ror2PathEscape") == nil || p.funcDecl("", "Ror2QueryEscape") == nil {
				fail("cannot locate Ror2PathEscape / Ror2QueryEscape in %s", m.dir)
			}
			s, pos := charsOfSetVar(p, "unescapedPathCharacters")
			o.str(m.prefix+"_unescaped_path_characters", s, pos)
			s, pos = charsOfSetVar(p, "unescapedQueryCharacters")
			o.str(m.prefix+"_unescaped_query_characters", s, pos)
		}
	})
}
