package main

// TablesFnv (C10, C16): what fnv1a/hasher.go of BOTH modules says: the offset basis, the multiplier, the byte mask, the
// sequence of shifts with which addUint32 / addUint64 feed the bytes of a word (read off the statements: the body must be
// an alternation of `hV ^= hash(v>>k) & mask` and `hV *= multiplier`), whether AddFloat32/64 normalise a zero before taking the
// IEEE bits (`if v == 0 { v = 0 }`), whether AddBool feeds 1/0, and whether AddMap sorts the per-entry hashes (sort.Slice
// with `<` on the hashes) starting each entry from the ZERO hash (make([]hash, ...)).  Anything it cannot recognise makes it fail.

import (
	"fmt"
	"go/ast"
	"go/token"
	"os"
	"path/filepath"
	"sort"
	"strings"
)

// the non-test Go sources of a package directory, concatenated in name order, with the module path prefix normalised:
// used to state that the root module's copy of a package is the v2 one up to import paths
func normalisedSources(dir string) string {
	ents, err := os.ReadDir(dir)
	if err != nil {
		fail("cannot read %s: %v", dir, err)
	}
	var names []string
	for _, e := range ents {
		if strings.HasSuffix(e.Name(), ".go") && !strings.HasSuffix(e.Name(), "_test.go") {
			names = append(names, e.Name())
		}
	}
	sort.Strings(names)
	var sb strings.Builder
	for _, n := range names {
		b, err := os.ReadFile(filepath.Join(dir, n))
		if err != nil {
			fail("%v", err)
		}
		sb.WriteString("// " + n + "\n")
		sb.WriteString(strings.ReplaceAll(string(b), "github.com/PapaCharlie/go-restli/v2/", "github.com/PapaCharlie/go-restli/"))
	}
	return sb.String()
}

func fnvShifts(p *pkg, name string) (string, string) {
	fd := p.funcDecl("hash", name)
	if fd == nil {
		fail("cannot locate (*hash).%s in %s", name, p.dir)
	}
	var shifts []string
	expectXor := true
	for _, st := range fd.Body.List {
		as, ok := st.(*ast.AssignStmt)
		if !ok || len(as.Lhs) != 1 || len(as.Rhs) != 1 {
			fail("%s in %s: unexpected statement at %s", name, p.dir, fset.Position(st.Pos()))
		}
		lhs := exprString(as.Lhs[0])
		switch as.Tok {
		case token.DEFINE:
			if lhs != "hV" || exprString(as.Rhs[0]) != "*h" {
				fail("%s in %s: unexpected definition at %s", name, p.dir, fset.Position(st.Pos()))
			}
		case token.ASSIGN:
			if lhs != "*h" || exprString(as.Rhs[0]) != "hV" {
				fail("%s in %s: unexpected assignment at %s", name, p.dir, fset.Position(st.Pos()))
			}
		case token.XOR_ASSIGN:
			if !expectXor || lhs != "hV" {
				fail("%s in %s: xor out of sequence at %s", name, p.dir, fset.Position(st.Pos()))
			}
			// hash(v) & mask   or   hash(v>>k) & mask
			be, ok := as.Rhs[0].(*ast.BinaryExpr)
			if !ok || be.Op != token.AND || exprString(be.Y) != "mask" {
				fail("%s in %s: operand is not `hash(..) & mask` at %s", name, p.dir, fset.Position(st.Pos()))
			}
			ce, ok := be.X.(*ast.CallExpr)
			if !ok || exprString(ce.Fun) != "hash" || len(ce.Args) != 1 {
				fail("%s in %s: operand is not `hash(..) & mask` at %s", name, p.dir, fset.Position(st.Pos()))
			}
			switch a := ce.Args[0].(type) {
			case *ast.Ident:
				if a.Name != "v" {
					fail("%s in %s: unexpected operand at %s", name, p.dir, fset.Position(st.Pos()))
				}
				shifts = append(shifts, "0")
			case *ast.BinaryExpr:
				lit, ok := a.Y.(*ast.BasicLit)
				if a.Op != token.SHR || exprString(a.X) != "v" || !ok || lit.Kind != token.INT {
					fail("%s in %s: unexpected shift at %s", name, p.dir, fset.Position(st.Pos()))
				}
				shifts = append(shifts, lit.Value)
			default:
				fail("%s in %s: unexpected operand at %s", name, p.dir, fset.Position(st.Pos()))
			}
			expectXor = false
		case token.MUL_ASSIGN:
			if expectXor || lhs != "hV" || exprString(as.Rhs[0]) != "multiplier" {
				fail("%s in %s: multiplication out of sequence at %s", name, p.dir, fset.Position(st.Pos()))
			}
			expectXor = true
		default:
			fail("%s in %s: unexpected statement at %s", name, p.dir, fset.Position(st.Pos()))
		}
	}
	if !expectXor || len(shifts) == 0 {
		fail("%s in %s: body does not end with a multiplication", name, p.dir)
	}
	return "[" + strings.Join(shifts, "; ") + "]%N", fset.Position(fd.Pos()).String()
}

func exprString(e ast.Expr) string {
	switch x := e.(type) {
	case *ast.Ident:
		return x.Name
	case *ast.StarExpr:
		return "*" + exprString(x.X)
	case *ast.SelectorExpr:
		return exprString(x.X) + "." + x.Sel.Name
	case *ast.BasicLit:
		return x.Value
	case *ast.ParenExpr:
		return "(" + exprString(x.X) + ")"
	case *ast.CallExpr:
		args := make([]string, len(x.Args))
		for i, a := range x.Args {
			args[i] = exprString(a)
		}
		return exprString(x.Fun) + "(" + strings.Join(args, ",") + ")"
	case *ast.BinaryExpr:
		return exprString(x.X) + x.Op.String() + exprString(x.Y)
	case *ast.IndexExpr:
		return exprString(x.X) + "[" + exprString(x.Index) + "]"
	case *ast.UnaryExpr:
		return x.Op.String() + exprString(x.X)
	}
	return fmt.Sprintf("<%T>", e)
}

// AddFloat32/64: optional `if v == 0 { v = 0 }` followed by h.addUintNN(math.FloatNNbits(v))
func fnvFloat(p *pkg, name, adder, bits string) (bool, string) {
	fd := p.funcDecl("hash", name)
	if fd == nil {
		fail("cannot locate (*hash).%s in %s", name, p.dir)
	}
	norm := false
	sawAdd := false
	for _, st := range fd.Body.List {
		switch s := st.(type) {
		case *ast.IfStmt:
			if sawAdd || s.Init != nil || s.Else != nil || exprString(s.Cond) != "v==0" || len(s.Body.List) != 1 {
				fail("%s in %s: unrecognised if at %s", name, p.dir, fset.Position(st.Pos()))
			}
			as, ok := s.Body.List[0].(*ast.AssignStmt)
			if !ok || as.Tok != token.ASSIGN || exprString(as.Lhs[0]) != "v" || exprString(as.Rhs[0]) != "0" {
				fail("%s in %s: unrecognised normalisation at %s", name, p.dir, fset.Position(st.Pos()))
			}
			norm = true
		case *ast.ExprStmt:
			if exprString(s.X) != "h."+adder+"(math."+bits+"(v))" {
				fail("%s in %s: unrecognised call %s", name, p.dir, exprString(s.X))
			}
			sawAdd = true
		default:
			fail("%s in %s: unexpected statement at %s", name, p.dir, fset.Position(st.Pos()))
		}
	}
	if !sawAdd {
		fail("%s in %s: no call of %s", name, p.dir, adder)
	}
	return norm, fset.Position(fd.Pos()).String()
}

// AddMap: the per-entry hashes start from the zero hash, are sorted ascending, then folded with h.add
func fnvMap(p *pkg) (sorted bool, zeroStart bool, pos string) {
	fd := p.funcDecl("", "AddMap")
	if fd == nil {
		fail("cannot locate AddMap in %s", p.dir)
	}
	ast.Inspect(fd.Body, func(n ast.Node) bool {
		switch x := n.(type) {
		case *ast.CallExpr:
			if exprString(x.Fun) == "sort.Slice" && len(x.Args) == 2 && exprString(x.Args[0]) == "kvHashes" {
				if fl, ok := x.Args[1].(*ast.FuncLit); ok && len(fl.Body.List) == 1 {
					if rs, ok := fl.Body.List[0].(*ast.ReturnStmt); ok && len(rs.Results) == 1 &&
						exprString(rs.Results[0]) == "kvHashes[i]<kvHashes[j]" {
						sorted = true
					}
				}
			}
		case *ast.AssignStmt:
			if len(x.Lhs) == 1 && exprString(x.Lhs[0]) == "kvHashes" && x.Tok == token.DEFINE {
				if ce, ok := x.Rhs[0].(*ast.CallExpr); ok && exprString(ce.Fun) == "make" && len(ce.Args) == 2 {
					if at, ok := ce.Args[0].(*ast.ArrayType); ok && at.Len == nil && exprString(at.Elt) == "hash" {
						zeroStart = true
					}
				}
			}
		}
		return true
	})
	return sorted, zeroStart, fset.Position(fd.Pos()).String()
}

func coqBool(b bool) string {
	if b {
		return "true"
	}
	return "false"
}

func init() {
	register("TablesFnv", "FNV-1a constants and the shape of the word/float/map adders of fnv1a/hasher.go, both modules (C10, C16)", func(o *out) {
		for _, m := range []struct{ prefix, dir string }{{"v2", "/v2/fnv1a"}, {"root", "/fnv1a"}} {
			p := load(repo + m.dir)
			v, pos := p.mustInt("initialHash")
			o.n(m.prefix+"_fnv_offset", v, pos)
			v, pos = p.mustInt("multiplier")
			o.n(m.prefix+"_fnv_prime", v, pos)
			v, pos = p.mustInt("mask")
			o.n(m.prefix+"_fnv_mask", v, pos)
			for _, w := range []struct{ fn, name string }{{"addUint32", "u32"}, {"addUint64", "u64"}} {
				s, pos := fnvShifts(p, w.fn)
				o.raw(fmt.Sprintf("(* %s: the shifts of the bytes fed, in order *)\nDefinition %s_fnv_%s_shifts : list N := %s.\n\n", rel(pos), m.prefix, w.name, s))
				o.src = append(o.src, m.prefix+"_fnv_"+w.name+"_shifts <- "+rel(pos))
			}
			n32, pos := fnvFloat(p, "AddFloat32", "addUint32", "Float32bits")
			o.raw(fmt.Sprintf("(* %s: `if v == 0 { v = 0 }` before taking the bits *)\nDefinition %s_fnv_float32_normalises_zero : bool := %s.\n\n", rel(pos), m.prefix, coqBool(n32)))
			o.src = append(o.src, m.prefix+"_fnv_float32_normalises_zero <- "+rel(pos))
			n64, pos := fnvFloat(p, "AddFloat64", "addUint64", "Float64bits")
			o.raw(fmt.Sprintf("(* %s *)\nDefinition %s_fnv_float64_normalises_zero : bool := %s.\n\n", rel(pos), m.prefix, coqBool(n64)))
			o.src = append(o.src, m.prefix+"_fnv_float64_normalises_zero <- "+rel(pos))
			sorted, zero, pos := fnvMap(p)
			if !zero {
				fail("AddMap in %s: the per-entry hashes are no longer `make([]hash, ...)` (zero hashes)", p.dir)
			}
			o.raw(fmt.Sprintf("(* %s: sort.Slice(kvHashes, <) before folding *)\nDefinition %s_fnv_map_sorted : bool := %s.\n\n", rel(pos), m.prefix, coqBool(sorted)))
			o.src = append(o.src, m.prefix+"_fnv_map_sorted <- "+rel(pos))
		}
		// the models of fnv1a and restli/equals are shared by both module generations: their sources must be the same text
		// up to the module path
		for _, pk := range []struct{ name, sub string }{{"fnv1a", "fnv1a"}, {"equals", "restli/equals"}} {
			same := normalisedSources(repo+"/"+pk.sub) == normalisedSources(repo+"/v2/"+pk.sub)
			o.raw(fmt.Sprintf("(* %s vs v2/%s: same source text up to the module path *)\nDefinition root_%s_source_same_as_v2 : bool := %s.\n\n", pk.sub, pk.sub, pk.name, coqBool(same)))
			o.src = append(o.src, "root_"+pk.name+"_source_same_as_v2 <- "+pk.sub+" , v2/"+pk.sub)
		}
	})
}
