package main

func init() {
	register("TablesClean", "file-ownership constants of the generator (C20)", func(o *out) {
		v2 := load(repo + "/v2/codegen/utils")
		root := load(repo + "/codegen/utils")
		s, pos := v2.mustString("GeneratedFileSuffix")
		o.str("v2_generated_file_suffix", s, pos)
		s, pos = v2.mustString("ManifestFile")
		o.str("v2_manifest_file", s, pos)
		s, pos = root.mustString("GeneratedFileSuffix")
		o.str("root_generated_file_suffix", s, pos)
		s, pos = root.mustString("ParsedSpecsFile")
		o.str("root_manifest_file", s, pos)
	})
}
