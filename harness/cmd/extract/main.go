// Translator: re-reads constants and tables from /repo's current working tree and regenerates coq/Gen/*.v.
// Trusted to copy literals faithfully; it fails loudly when a symbol can no longer be located.
package main

import (
	"fmt"
	"go/ast"
	"go/constant"
	"go/parser"
	"go/token"
	"os"
	"path/filepath"
	"sort"
	"strconv"
	"strings"
)

var fset = token.NewFileSet()

type pkg struct {
	dir   string
	files []*ast.File
}

func load(dir string) *pkg {
	pkgs, err := parser.ParseDir(fset, dir, func(fi os.FileInfo) bool { return !strings.HasSuffix(fi.Name(), "_test.go") }, parser.ParseComments)
	if err != nil {
		fail("cannot parse %s: %v", dir, err)
	}
	p := &pkg{dir: dir}
	var names []string
	for n := range pkgs {
		names = append(names, n)
	}
	sort.Strings(names)
	for _, n := range names {
		var fns []string
		for fn := range pkgs[n].Files {
			fns = append(fns, fn)
		}
		sort.Strings(fns)
		for _, fn := range fns {
			p.files = append(p.files, pkgs[n].Files[fn])
		}
	}
	return p
}

func fail(f string, a ...interface{}) {
	fmt.Fprintf(os.Stderr, "translator: "+f+"\n", a...)
	os.Exit(3)
}

// constant expression evaluation over basic literals, idents of the same package, + concatenation
func (p *pkg) evalConst(e ast.Expr) (constant.Value, bool) {
	switch x := e.(type) {
	case *ast.BasicLit:
		return constant.MakeFromLiteral(x.Value, x.Kind, 0), true
	case *ast.ParenExpr:
		return p.evalConst(x.X)
	case *ast.Ident:
		v, _, ok := p.lookupValue(x.Name)
		return v, ok
	case *ast.BinaryExpr:
		a, ok1 := p.evalConst(x.X)
		b, ok2 := p.evalConst(x.Y)
		if !ok1 || !ok2 {
			return nil, false
		}
		if x.Op == token.SHL || x.Op == token.SHR {
			s, _ := constant.Uint64Val(b)
			return constant.Shift(a, x.Op, uint(s)), true
		}
		return constant.BinaryOp(a, x.Op, b), true
	case *ast.CallExpr: // conversions like uint32(…), Hash(…)
		if len(x.Args) == 1 {
			return p.evalConst(x.Args[0])
		}
	}
	return nil, false
}

func (p *pkg) lookupExpr(name string) (ast.Expr, token.Pos, bool) {
	for _, f := range p.files {
		for _, d := range f.Decls {
			gd, ok := d.(*ast.GenDecl)
			if !ok || (gd.Tok != token.CONST && gd.Tok != token.VAR) {
				continue
			}
			for _, s := range gd.Specs {
				vs := s.(*ast.ValueSpec)
				for i, n := range vs.Names {
					if n.Name == name && i < len(vs.Values) {
						return vs.Values[i], n.Pos(), true
					}
				}
			}
		}
	}
	return nil, 0, false
}

func (p *pkg) lookupValue(name string) (constant.Value, token.Pos, bool) {
	e, pos, ok := p.lookupExpr(name)
	if !ok {
		return nil, 0, false
	}
	v, ok := p.evalConst(e)
	return v, pos, ok
}

func (p *pkg) mustString(name string) (string, string) {
	v, pos, ok := p.lookupValue(name)
	if !ok || v.Kind() != constant.String {
		fail("cannot locate string constant %s in %s", name, p.dir)
	}
	return constant.StringVal(v), fset.Position(pos).String()
}

func (p *pkg) mustInt(name string) (string, string) {
	v, pos, ok := p.lookupValue(name)
	if !ok || v.Kind() != constant.Int {
		fail("cannot locate integer constant %s in %s", name, p.dir)
	}
	return v.ExactString(), fset.Position(pos).String()
}

func (p *pkg) funcDecl(recv, name string) *ast.FuncDecl {
	for _, f := range p.files {
		for _, d := range f.Decls {
			fd, ok := d.(*ast.FuncDecl)
			if !ok || fd.Name.Name != name {
				continue
			}
			r := ""
			if fd.Recv != nil && len(fd.Recv.List) == 1 {
				t := fd.Recv.List[0].Type
				if st, ok := t.(*ast.StarExpr); ok {
					t = st.X
				}
				if ix, ok := t.(*ast.IndexExpr); ok {
					t = ix.X
				}
				if ix, ok := t.(*ast.IndexListExpr); ok {
					t = ix.X
				}
				if id, ok := t.(*ast.Ident); ok {
					r = id.Name
				}
			}
			if r == recv {
				return fd
			}
		}
	}
	return nil
}

func coqBytes(s string) string {
	var sb strings.Builder
	sb.WriteString("[")
	for i := 0; i < len(s); i++ {
		if i > 0 {
			sb.WriteString("; ")
		}
		fmt.Fprintf(&sb, "x%02x", s[i])
	}
	sb.WriteString("]")
	return sb.String()
}

type out struct {
	sb  strings.Builder
	src []string
}

func newOut(title string) *out {
	o := &out{}
	fmt.Fprintf(&o.sb, "(* %s — REGENERATED from /repo by harness/cmd/extract on every check run.  Do not edit. *)\n", title)
	o.sb.WriteString("From Coq Require Import List NArith ZArith.\nFrom Coq.Strings Require Import Byte.\nFrom GR Require Import Base.Bytes.\nImport ListNotations.\n\n")
	return o
}

func (o *out) str(coqName, val, pos string) {
	fmt.Fprintf(&o.sb, "(* %s = %s *)\nDefinition %s : bytes := %s.\n\n", rel(pos), strconv.Quote(val), coqName, coqBytes(val))
	o.src = append(o.src, coqName+" <- "+rel(pos))
}

func (o *out) n(coqName, val, pos string) {
	fmt.Fprintf(&o.sb, "(* %s *)\nDefinition %s : N := %s%%N.\n\n", rel(pos), coqName, val)
	o.src = append(o.src, coqName+" <- "+rel(pos))
}

func (o *out) raw(s string) { o.sb.WriteString(s) }

func rel(pos string) string { return strings.TrimPrefix(pos, repo+"/") }

func (o *out) write(path string) {
	content := o.sb.String()
	old, err := os.ReadFile(path)
	if err == nil && string(old) == content {
		return
	}
	if err := os.MkdirAll(filepath.Dir(path), 0o755); err != nil {
		fail("%v", err)
	}
	tmp := path + ".tmp"
	if err := os.WriteFile(tmp, []byte(content), 0o644); err != nil {
		fail("%v", err)
	}
	if err := os.Rename(tmp, path); err != nil {
		fail("%v", err)
	}
}

var repo = "/repo"

func main() {
	if len(os.Args) < 3 {
		fail("usage: extract <repo> <outdir> [table ...]")
	}
	repo = os.Args[1]
	outDir := os.Args[2]
	which := map[string]bool{}
	for _, a := range os.Args[3:] {
		which[a] = true
	}
	all := len(which) == 0
	var srcs []string
	for _, t := range tables {
		if all || which[t.name] {
			o := newOut(t.title)
			t.gen(o)
			o.write(filepath.Join(outDir, t.name+".v"))
			for _, s := range o.src {
				srcs = append(srcs, t.name+": "+s)
			}
		}
	}
	for _, s := range srcs {
		fmt.Println(s)
	}
}

type table struct {
	name, title string
	gen         func(o *out)
}

var tables []table

func register(name, title string, gen func(o *out)) {
	tables = append(tables, table{name, title, gen})
}
