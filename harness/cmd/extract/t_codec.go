package main

import (
	"go/ast"
	"go/token"
	"strconv"
)

// the `const chars = "..."` declared inside the func literal that initialises a package-level var
func (p *pkg) charsConstOf(varName string) (string, string) {
	e, _, ok := p.lookupExpr(varName)
	if !ok {
		fail("cannot locate var %s in %s", varName, p.dir)
	}
	var val string
	var pos token.Pos
	found := false
	ast.Inspect(e, func(n ast.Node) bool {
		gd, ok := n.(*ast.GenDecl)
		if !ok || gd.Tok != token.CONST {
			return true
		}
		for _, s := range gd.Specs {
			vs := s.(*ast.ValueSpec)
			for i, nm := range vs.Names {
				if nm.Name == "chars" && i < len(vs.Values) {
					if bl, ok := vs.Values[i].(*ast.BasicLit); ok && bl.Kind == token.STRING {
						v, err := strconv.Unquote(bl.Value)
						if err == nil {
							val, pos, found = v, nm.Pos(), true
						}
					}
				}
			}
		}
		return true
	})
	if !found {
		fail("cannot locate the character set (const chars) of %s in %s", varName, p.dir)
	}
	return val, fset.Position(pos).String()
}

// strings.NewReplacer("%", url.QueryEscape("%"), ...).Replace : returns the escaped single characters
func (p *pkg) replacerChars(varName string) (string, string) {
	e, pos, ok := p.lookupExpr(varName)
	if !ok {
		fail("cannot locate var %s in %s", varName, p.dir)
	}
	sel, ok := e.(*ast.SelectorExpr) // (...).Replace
	if !ok {
		fail("%s is not strings.NewReplacer(...).Replace", varName)
	}
	call, ok := sel.X.(*ast.CallExpr)
	if !ok || len(call.Args)%2 != 0 {
		fail("%s is not strings.NewReplacer(...).Replace", varName)
	}
	out := ""
	for i := 0; i < len(call.Args); i += 2 {
		a, ok1 := call.Args[i].(*ast.BasicLit)
		b, ok2 := call.Args[i+1].(*ast.CallExpr)
		if !ok1 || !ok2 || len(b.Args) != 1 {
			fail("%s: unexpected replacer pair %d", varName, i/2)
		}
		bs, ok3 := b.Fun.(*ast.SelectorExpr)
		ba, ok4 := b.Args[0].(*ast.BasicLit)
		if !ok3 || !ok4 || bs.Sel.Name != "QueryEscape" || ba.Value != a.Value {
			fail("%s: replacer pair %d is not (c, url.QueryEscape(c))", varName, i/2)
		}
		s, err := strconv.Unquote(a.Value)
		if err != nil || len(s) != 1 {
			fail("%s: replacer pair %d is not a single character", varName, i/2)
		}
		out += s
	}
	return out, fset.Position(pos).String()
}

// const hexChars inside func hexEscape
func (p *pkg) constInFunc(fn, name string) (string, string) {
	fd := p.funcDecl("", fn)
	if fd == nil {
		fail("cannot locate func %s in %s", fn, p.dir)
	}
	var val string
	var pos token.Pos
	found := false
	ast.Inspect(fd, func(n ast.Node) bool {
		vs, ok := n.(*ast.ValueSpec)
		if !ok {
			return true
		}
		for i, nm := range vs.Names {
			if nm.Name == name && i < len(vs.Values) {
				if bl, ok := vs.Values[i].(*ast.BasicLit); ok && bl.Kind == token.STRING {
					v, err := strconv.Unquote(bl.Value)
					if err == nil {
						val, pos, found = v, nm.Pos(), true
					}
				}
			}
		}
		return true
	})
	if !found {
		fail("cannot locate const %s in func %s", name, fn)
	}
	return val, fset.Position(pos).String()
}

func init() {
	register("TablesCodec", "escape tables and markers of the ROR2/JSON codec (C01 C03 C04 C06 C07 C09)", func(o *out) {
		for _, m := range []struct{ pfx, dir string }{{"v2_", "/v2/restlicodec"}, {"root_", "/restlicodec"}} {
			p := load(repo + m.dir)
			s, pos := p.charsConstOf("unescapedPathCharacters")
			o.str(m.pfx+"unescaped_path_chars", s, pos)
			s, pos = p.charsConstOf("unescapedQueryCharacters")
			o.str(m.pfx+"unescaped_query_chars", s, pos)
			s, pos = p.replacerChars("headerEncodingEscaper")
			o.str(m.pfx+"header_escaped_chars", s, pos)
			s, pos = p.constInFunc("hexEscape", "hexChars")
			o.str(m.pfx+"hex_chars", s, pos)
			s, pos = p.mustString("emptyString")
			o.str(m.pfx+"empty_string", s, pos)
			s, pos = p.mustString("list")
			o.str(m.pfx+"list_prefix", s, pos)
			s, pos = p.mustString("WildCard")
			o.str(m.pfx+"wildcard", s, pos)
		}
	})
}
