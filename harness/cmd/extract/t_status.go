package main

// TablesStatus (C08): the facts of the server's response path that the model of Http/Status.v depends on, re-read from
// v2/restli/{handler,server,finders,actions}.go on every run:
//   - the default status each exported Register* function writes to ctx.ResponseStatus before invoking the implementation
//     and the internal adapter it goes through (registerMethodWithBody / WithNoBody / registerFinder / registerAction);
//   - every newErrorResponsef call site the model uses (status, format string, whether a cause is passed), located by the
//     enclosing function and a distinctive fragment of the format string;
//   - ServeHTTP's tail: the initial status, the status used when an error response carries none, whether the error header
//     is set in the error-response branch and in the serialization-failure branch, the fields of the resource's error
//     object written IN PLACE (`errRes.X = ...` / `*errRes = ...`; the current code writes none: it defaults the message
//     on a copy), the status of the plain http.Error fall-backs;
//   - the recover() of receive (status, message = fmt.Sprint(r), stack trace present) and of marshalResponseBody (format);
//   - net/http's status constants and StatusText (read from GOROOT/src/net/http/status.go: external code, copied).
// Anything not found makes the translator fail.

import (
	"fmt"
	"go/ast"
	"go/parser"
	"go/token"
	"path/filepath"
	"runtime"
	"sort"
	"strconv"
	"strings"
)

type httpStatus struct {
	byName map[string]int
	text   map[int]string
	pos    string
}

func loadHTTPStatus() *httpStatus {
	file := filepath.Join(runtime.GOROOT(), "src", "net", "http", "status.go")
	f, err := parser.ParseFile(fset, file, nil, 0)
	if err != nil {
		fail("cannot parse %s: %v", file, err)
	}
	hs := &httpStatus{byName: map[string]int{}, text: map[int]string{}, pos: file}
	for _, d := range f.Decls {
		switch x := d.(type) {
		case *ast.GenDecl:
			if x.Tok != token.CONST {
				continue
			}
			for _, s := range x.Specs {
				vs := s.(*ast.ValueSpec)
				for i, n := range vs.Names {
					if i < len(vs.Values) {
						if bl, ok := vs.Values[i].(*ast.BasicLit); ok && bl.Kind == token.INT {
							v, _ := strconv.Atoi(bl.Value)
							hs.byName[n.Name] = v
						}
					}
				}
			}
		case *ast.FuncDecl:
			if x.Name.Name != "StatusText" {
				continue
			}
			ast.Inspect(x.Body, func(n ast.Node) bool {
				cc, ok := n.(*ast.CaseClause)
				if !ok || len(cc.List) != 1 || len(cc.Body) != 1 {
					return true
				}
				id, ok1 := cc.List[0].(*ast.Ident)
				rs, ok2 := cc.Body[0].(*ast.ReturnStmt)
				if ok1 && ok2 && len(rs.Results) == 1 {
					if bl, ok := rs.Results[0].(*ast.BasicLit); ok && bl.Kind == token.STRING {
						s, _ := strconv.Unquote(bl.Value)
						if v, ok := hs.byName[id.Name]; ok {
							hs.text[v] = s
						}
					}
				}
				return true
			})
		}
	}
	if len(hs.byName) < 40 || len(hs.text) < 40 {
		fail("net/http status table not understood (%d constants, %d texts) in %s", len(hs.byName), len(hs.text), file)
	}
	return hs
}

// http.StatusXxx -> value
func (hs *httpStatus) eval(e ast.Expr) (int, bool) {
	switch x := e.(type) {
	case *ast.SelectorExpr:
		if id, ok := x.X.(*ast.Ident); ok && id.Name == "http" {
			v, ok := hs.byName[x.Sel.Name]
			return v, ok
		}
	case *ast.BasicLit:
		if x.Kind == token.INT {
			v, err := strconv.Atoi(x.Value)
			return v, err == nil
		}
	case *ast.CallExpr: // int32(http.StatusXxx), Int32Pointer(http.StatusXxx)
		if len(x.Args) == 1 {
			return hs.eval(x.Args[0])
		}
	case *ast.ParenExpr:
		return hs.eval(x.X)
	}
	return 0, false
}

func isCtxResponseStatus(e ast.Expr) bool {
	se, ok := e.(*ast.SelectorExpr)
	if !ok || se.Sel.Name != "ResponseStatus" {
		return false
	}
	id, ok := se.X.(*ast.Ident)
	return ok && id.Name == "ctx"
}

type errSite struct {
	fn     string
	status int
	format string
	cause  bool
	pos    token.Pos
}

func callName(ce *ast.CallExpr) string {
	switch f := ce.Fun.(type) {
	case *ast.Ident:
		return f.Name
	case *ast.IndexExpr:
		if id, ok := f.X.(*ast.Ident); ok {
			return id.Name
		}
	case *ast.IndexListExpr:
		if id, ok := f.X.(*ast.Ident); ok {
			return id.Name
		}
	case *ast.SelectorExpr:
		return f.Sel.Name
	}
	return ""
}

func init() {
	register("TablesStatus", "response path of the v2 server: default statuses, error-response call sites, ServeHTTP tail (C08)", func(o *out) {
		genTablesStatus(o, filepath.Join(repo, "v2", "restli"), statusRegfnsV2)
	})
}

// the exported registration functions every run must find (v2); the root module has no RegisterPartialUpdateWithReturnEntity
// (t_roothttp.go registers TablesStatusRoot = the same extraction from /repo/restli)
var statusRegfnsV2 = []string{"RegisterGet", "RegisterCreate", "RegisterCreateWithReturnEntity", "RegisterUpdate", "RegisterPartialUpdate",
	"RegisterPartialUpdateWithReturnEntity", "RegisterDelete", "RegisterGetAll", "RegisterBatchGet", "RegisterBatchCreate",
	"RegisterBatchCreateWithReturnEntity", "RegisterBatchUpdate", "RegisterBatchPartialUpdate", "RegisterBatchDelete",
	"RegisterFinder", "RegisterFinderWithMetadata", "RegisterAction", "RegisterActionWithResults"}

func genTablesStatus(o *out, dir string, want []string) {
	{
		hs := loadHTTPStatus()
		p := load(dir)
		o.raw("Local Open Scope Z_scope.\n\n")

		// ---- net/http StatusText
		var codes []int
		for c := range hs.text {
			codes = append(codes, c)
		}
		sort.Ints(codes)
		o.raw(fmt.Sprintf("(* net/http StatusText, copied from %s (external code: modelled, not verified) *)\n", hs.pos))
		o.raw("Definition status_text_table : list (Z * bytes) :=\n  [")
		for i, c := range codes {
			if i > 0 {
				o.raw(";\n   ")
			}
			o.raw(fmt.Sprintf("(%d, %s) (* %s *)", c, coqBytes(hs.text[c]), hs.text[c]))
		}
		o.raw("].\n\n")
		o.src = append(o.src, "status_text_table <- "+hs.pos)

		// ---- exported Register* functions: adapter and default status
		type reg struct {
			name, adapter string
			status        int
			has           bool
			pos           token.Pos
		}
		var regs []reg
		adapters := map[string]string{"registerMethodWithBody": "AdBody", "registerMethodWithNoBody": "AdNoBody", "registerFinder": "AdFinder", "registerAction": "AdAction"}
		var sites []errSite
		for _, f := range p.files {
			for _, d := range f.Decls {
				fd, ok := d.(*ast.FuncDecl)
				if !ok || fd.Body == nil {
					continue
				}
				fname := fd.Name.Name
				// error-response call sites of every function
				ast.Inspect(fd.Body, func(n ast.Node) bool {
					ce, ok := n.(*ast.CallExpr)
					if !ok || callName(ce) != "newErrorResponsef" {
						return true
					}
					if len(ce.Args) < 3 {
						fail("newErrorResponsef call with %d arguments at %s", len(ce.Args), fset.Position(ce.Pos()))
					}
					st, ok1 := hs.eval(ce.Args[1])
					bl, ok2 := ce.Args[2].(*ast.BasicLit)
					if !ok1 || !ok2 || bl.Kind != token.STRING {
						fail("newErrorResponsef call not understood at %s", fset.Position(ce.Pos()))
					}
					format, _ := strconv.Unquote(bl.Value)
					cause := true
					if id, ok := ce.Args[0].(*ast.Ident); ok && id.Name == "nil" {
						cause = false
					}
					sites = append(sites, errSite{fname, st, format, cause, ce.Pos()})
					return true
				})
				if !strings.HasPrefix(fname, "Register") || fd.Recv != nil {
					continue
				}
				r := reg{name: fname, pos: fd.Pos()}
				ast.Inspect(fd.Body, func(n ast.Node) bool {
					switch x := n.(type) {
					case *ast.CallExpr:
						if a, ok := adapters[callName(x)]; ok {
							if r.adapter != "" && r.adapter != a {
								fail("%s goes through two adapters", fname)
							}
							r.adapter = a
						}
					case *ast.AssignStmt:
						if len(x.Lhs) == 1 && len(x.Rhs) == 1 && isCtxResponseStatus(x.Lhs[0]) {
							if v, ok := hs.eval(x.Rhs[0]); ok {
								if r.has && r.status != v {
									fail("%s assigns two different constant statuses", fname)
								}
								r.status, r.has = v, true
							}
						}
					}
					return true
				})
				if r.adapter == "" {
					fail("%s: no adapter call (registerMethodWithBody / WithNoBody / registerFinder / registerAction) found", fname)
				}
				regs = append(regs, r)
			}
		}
		sort.Slice(regs, func(i, j int) bool { return regs[i].name < regs[j].name })
		have := map[string]bool{}
		for _, r := range regs {
			have[r.name] = true
		}
		for _, w := range want {
			if !have[w] {
				fail("cannot locate func %s in %s", w, p.dir)
			}
		}
		o.raw("Inductive adapter := AdBody | AdNoBody | AdFinder | AdAction.\n\n")
		o.raw("(* the exported registration functions of " + rel(dir) + " *)\nInductive regfn : Set :=\n")
		for _, r := range regs {
			o.raw("  | " + r.name + "\n")
		}
		o.raw(".\n\nDefinition all_regfns : list regfn := [")
		for i, r := range regs {
			if i > 0 {
				o.raw("; ")
			}
			o.raw(r.name)
		}
		o.raw("].\n\n(* `ctx.ResponseStatus = http.StatusXxx` written by the adapter closure before the implementation is invoked *)\n")
		o.raw("Definition reg_default_status (r : regfn) : option Z :=\n  match r with\n")
		for _, r := range regs {
			if r.has {
				o.raw(fmt.Sprintf("  | %s => Some %d (* %s *)\n", r.name, r.status, rel(fset.Position(r.pos).String())))
			} else {
				o.raw(fmt.Sprintf("  | %s => None\n", r.name))
			}
			o.src = append(o.src, "reg_default_status "+r.name+" <- "+rel(fset.Position(r.pos).String()))
		}
		o.raw("  end.\n\nDefinition reg_adapter (r : regfn) : adapter :=\n  match r with\n")
		for _, r := range regs {
			o.raw(fmt.Sprintf("  | %s => %s\n", r.name, r.adapter))
		}
		o.raw("  end.\n\n")

		// ---- error-response call sites used by the model
		o.raw("Record site := { s_status : Z; s_fmt : bytes; s_cause : bool }.\n\n")
		type pick struct{ coq, fn, frag string }
		picks := []pick{
			{"site_method_path", "registerMethod", "Invalid path for"},
			{"site_method_query", "registerMethod", "Invalid query params for"},
			{"site_method_failed", "registerMethod", "failed"},
			{"site_nobody_body", "registerMethodWithNoBody", "does not take a body"},
			{"site_body_invalid", "registerMethodWithBody", "Invalid request body"},
			{"site_create_idheader", "RegisterCreate", "could not serialize ID header"},
			{"site_createret_idheader", "RegisterCreateWithReturnEntity", "could not serialize ID header"},
			{"site_finder_path", "registerFinder", "Invalid path for finder"},
			{"site_finder_query", "registerFinder", "Invalid query params for finder"},
			{"site_finder_body", "registerFinder", "do not accept request bodies"},
			{"site_finder_failed", "registerFinder", "failed"},
			{"site_action_path", "registerAction", "Invalid path for action"},
			{"site_action_args", "registerAction", "Invalid arguments for action"},
			{"site_action_failed", "registerAction", "failed"},
			{"site_receive_segment", "receive", "Invalid path segment"},
			{"site_receive_query", "receive", "Invalid query"},
		}
		for _, pk := range picks {
			var found []errSite
			for _, s := range sites {
				if s.fn == pk.fn && strings.Contains(s.format, pk.frag) {
					found = append(found, s)
				}
			}
			if len(found) != 1 {
				fail("newErrorResponsef call site %q in %s: %d matches", pk.frag, pk.fn, len(found))
			}
			s := found[0]
			pos := rel(fset.Position(s.pos).String())
			o.raw(fmt.Sprintf("(* %s: newErrorResponsef(%v, %d, %s) *)\nDefinition %s : site := {| s_status := %d; s_fmt := %s; s_cause := %v |}.\n\n",
				pos, s.cause, s.status, strconv.Quote(s.format), pk.coq, s.status, coqBytes(s.format), s.cause))
			o.src = append(o.src, pk.coq+" <- "+pos)
		}
		// every status newErrorResponsef is ever called with (the malformed-request theorem needs: all of them are >= 400)
		o.raw("Definition all_site_statuses : list Z := [")
		for i, s := range sites {
			if i > 0 {
				o.raw("; ")
			}
			o.raw(strconv.Itoa(s.status))
		}
		o.raw("].\n\n")

		// ---- ServeHTTP
		sv := p.funcDecl("rootNode", "ServeHTTP")
		if sv == nil {
			fail("cannot locate (*rootNode).ServeHTTP")
		}
		// initial status: composite literal RequestContext{... ResponseStatus: http.StatusOK}
		initial, okInit := 0, false
		ast.Inspect(sv.Body, func(n ast.Node) bool {
			kv, ok := n.(*ast.KeyValueExpr)
			if ok {
				if id, ok := kv.Key.(*ast.Ident); ok && id.Name == "ResponseStatus" {
					initial, okInit = hs.eval(kv.Value)
				}
			}
			return true
		})
		if !okInit {
			fail("ServeHTTP: initial ResponseStatus of the RequestContext literal not found")
		}
		// the `if errRes, ok := err.(*common.ErrorResponse); ok {...} else if err != nil {...}` statement
		var errIf *ast.IfStmt
		ast.Inspect(sv.Body, func(n ast.Node) bool {
			is, ok := n.(*ast.IfStmt)
			if !ok || is.Init == nil || errIf != nil {
				return true
			}
			as, ok := is.Init.(*ast.AssignStmt)
			if !ok || len(as.Lhs) != 2 || len(as.Rhs) != 1 {
				return true
			}
			ta, ok := as.Rhs[0].(*ast.TypeAssertExpr)
			if !ok {
				return true
			}
			if id, ok := as.Lhs[0].(*ast.Ident); ok && id.Name == "errRes" && strings.Contains(stExprString(ta.Type), "ErrorResponse") {
				errIf = is
			}
			return true
		})
		if errIf == nil {
			fail("ServeHTTP: `if errRes, ok := err.(*common.ErrorResponse); ok` not found")
		}
		setsHeader := func(body ast.Node) bool {
			found := false
			ast.Inspect(body, func(n ast.Node) bool {
				ce, ok := n.(*ast.CallExpr)
				if ok && callName(ce) == "Set" && len(ce.Args) == 2 {
					if id, ok := ce.Args[0].(*ast.Ident); ok && id.Name == "ErrorResponseHeader" {
						if bl, ok := ce.Args[1].(*ast.BasicLit); ok && bl.Value == `"true"` {
							found = true
						}
					}
				}
				return true
			})
			return found
		}
		// status handling of the branch: `if errRes.Status != nil { ctx.ResponseStatus = int(*errRes.Status) } else { ctx.ResponseStatus = K }`
		unsetStatus, okUnset, usesOwn := 0, false, false
		var inPlace []string
		ast.Inspect(errIf.Body, func(n ast.Node) bool {
			as, ok := n.(*ast.AssignStmt)
			if !ok {
				return true
			}
			for i, l := range as.Lhs {
				if isCtxResponseStatus(l) && i < len(as.Rhs) {
					if v, ok := hs.eval(as.Rhs[i]); ok && !strings.Contains(stExprString(as.Rhs[i]), "errRes") {
						unsetStatus, okUnset = v, true
					} else if strings.Contains(stExprString(as.Rhs[i]), "errRes.Status") {
						usesOwn = true
					}
				}
				// writes through the resource's pointer
				switch x := l.(type) {
				case *ast.SelectorExpr:
					if id, ok := x.X.(*ast.Ident); ok && id.Name == "errRes" {
						inPlace = append(inPlace, x.Sel.Name)
					}
				case *ast.StarExpr:
					if id, ok := x.X.(*ast.Ident); ok && id.Name == "errRes" {
						inPlace = append(inPlace, "*")
					}
				}
			}
			return true
		})
		if !okUnset || !usesOwn {
			fail("ServeHTTP: status selection of the error-response branch not understood (own status used: %v, constant for the unset case found: %v)", usesOwn, okUnset)
		}
		// plain error fall-back: else if err != nil { http.Error(res, err.Error(), K) }
		plain, okPlain := 0, false
		if errIf.Else != nil {
			ast.Inspect(errIf.Else, func(n ast.Node) bool {
				ce, ok := n.(*ast.CallExpr)
				if ok && callName(ce) == "Error" && len(ce.Args) == 3 {
					plain, okPlain = hs.eval(ce.Args[2])
				}
				return true
			})
		}
		if !okPlain {
			fail("ServeHTTP: http.Error fall-back of the non-ErrorResponse branch not found")
		}
		// serialization failure: the `if err != nil {` that follows `data, err := marshalResponseBody(responseBody)` and calls it again
		var marshIf *ast.IfStmt
		ast.Inspect(sv.Body, func(n ast.Node) bool {
			is, ok := n.(*ast.IfStmt)
			if !ok || marshIf != nil || is == errIf {
				return true
			}
			calls := false
			ast.Inspect(is.Body, func(m ast.Node) bool {
				if ce, ok := m.(*ast.CallExpr); ok && callName(ce) == "marshalResponseBody" {
					calls = true
				}
				return true
			})
			if calls && stExprString(is.Cond) == "err != nil" {
				marshIf = is
			}
			return true
		})
		if marshIf == nil {
			fail("ServeHTTP: the serialization-failure branch (`if err != nil` re-marshalling an error response) not found")
		}
		marshStatus, okMarsh := 0, false
		ast.Inspect(marshIf.Body, func(n ast.Node) bool {
			if as, ok := n.(*ast.AssignStmt); ok && len(as.Lhs) == 1 && isCtxResponseStatus(as.Lhs[0]) {
				marshStatus, okMarsh = hs.eval(as.Rhs[0])
			}
			return true
		})
		if !okMarsh {
			fail("ServeHTTP: status of the serialization-failure branch not found")
		}
		// the status guard: `if ctx.ResponseStatus < A || ctx.ResponseStatus > B { header; responseBody = &ErrorResponse{Status: K, Message: StringPointerf(fmt, ctx.ResponseStatus)}; ctx.ResponseStatus = K }`
		// (absent in a tree without it: the model then hands any status to WriteHeader)
		guard := "None"
		guardStatus, guardFmt, guardHdr := 500, "", false
		ast.Inspect(sv.Body, func(n ast.Node) bool {
			is, ok := n.(*ast.IfStmt)
			if !ok || is.Init != nil {
				return true
			}
			be, ok := is.Cond.(*ast.BinaryExpr)
			if !ok || be.Op != token.LOR {
				return true
			}
			l, ok1 := be.X.(*ast.BinaryExpr)
			r, ok2 := be.Y.(*ast.BinaryExpr)
			if !ok1 || !ok2 || l.Op != token.LSS || r.Op != token.GTR || !isCtxResponseStatus(l.X) || !isCtxResponseStatus(r.X) {
				return true
			}
			lo, okl := hs.eval(l.Y)
			hi, okh := hs.eval(r.Y)
			if !okl || !okh {
				fail("ServeHTTP: bounds of the status guard not understood at %s", fset.Position(is.Pos()))
			}
			okS, okF := false, false
			ast.Inspect(is.Body, func(m ast.Node) bool {
				switch x := m.(type) {
				case *ast.AssignStmt:
					if len(x.Lhs) == 1 && isCtxResponseStatus(x.Lhs[0]) {
						guardStatus, okS = hs.eval(x.Rhs[0])
					}
				case *ast.CallExpr:
					if callName(x) == "StringPointerf" && len(x.Args) == 2 && isCtxResponseStatus(x.Args[1]) {
						if bl, ok := x.Args[0].(*ast.BasicLit); ok {
							guardFmt, _ = strconv.Unquote(bl.Value)
							okF = true
						}
					}
				}
				return true
			})
			bodyStatus, okB := 0, false
			ast.Inspect(is.Body, func(m ast.Node) bool {
				if kv, ok := m.(*ast.KeyValueExpr); ok {
					if id, ok := kv.Key.(*ast.Ident); ok && id.Name == "Status" {
						bodyStatus, okB = hs.eval(kv.Value)
					}
				}
				return true
			})
			if !okS || !okF || !okB || bodyStatus != guardStatus {
				fail("ServeHTTP: body of the status guard not understood at %s", fset.Position(is.Pos()))
			}
			guardHdr = setsHeader(is.Body)
			guard = fmt.Sprintf("(Some (%d, %d))", lo, hi)
			return true
		})
		pos := rel(fset.Position(sv.Pos()).String())
		o.raw(fmt.Sprintf("(* %s ServeHTTP: the status guard before serialization (None: no guard in this tree) *)\nDefinition serve_status_guard : option (Z * Z) := %s.\n"+
			"Definition serve_guard_status : Z := %d.\nDefinition serve_guard_sets_header : bool := %v.\nDefinition serve_guard_fmt : bytes := %s. (* %s *)\n\n",
			pos, guard, guardStatus, guardHdr, coqBytes(guardFmt), strconv.Quote(guardFmt)))
		o.raw(fmt.Sprintf("(* %s ServeHTTP *)\nDefinition serve_initial_status : Z := %d.\nDefinition serve_unset_status : Z := %d.\n", pos, initial, unsetStatus))
		o.raw(fmt.Sprintf("Definition serve_sets_error_header : bool := %v.\nDefinition serve_plain_error_status : Z := %d.\n", setsHeader(errIf.Body), plain))
		o.raw(fmt.Sprintf("Definition serve_marshal_fail_status : Z := %d.\nDefinition serve_marshal_fail_sets_header : bool := %v.\n", marshStatus, setsHeader(marshIf.Body)))
		items := make([]string, len(inPlace))
		for i, f := range inPlace {
			items[i] = coqBytes(f)
		}
		o.raw("(* fields of the resource's *ErrorResponse assigned through the pointer inside the error-response branch *)\n")
		o.raw("Definition serve_in_place_writes : list bytes := [" + strings.Join(items, "; ") + "].\n\n")
		o.src = append(o.src, "serve_* <- "+pos)

		// ---- recover() of receive and of marshalResponseBody
		rc := p.funcDecl("pathNode", "receive")
		if rc == nil {
			fail("cannot locate (*pathNode).receive")
		}
		recStatus, okRec, recStack, recSprint := 0, false, false, false
		ast.Inspect(rc.Body, func(n ast.Node) bool {
			fl, ok := n.(*ast.FuncLit)
			if !ok {
				return true
			}
			hasRecover := false
			ast.Inspect(fl.Body, func(m ast.Node) bool {
				if ce, ok := m.(*ast.CallExpr); ok && callName(ce) == "recover" {
					hasRecover = true
				}
				return true
			})
			if !hasRecover {
				return true
			}
			ast.Inspect(fl.Body, func(m ast.Node) bool {
				kv, ok := m.(*ast.KeyValueExpr)
				if !ok {
					return true
				}
				id, _ := kv.Key.(*ast.Ident)
				if id == nil {
					return true
				}
				switch id.Name {
				case "Status":
					recStatus, okRec = hs.eval(kv.Value)
				case "StackTrace":
					recStack = true
				case "Message":
					recSprint = strings.Contains(stExprString(kv.Value), "fmt.Sprint(r)")
				}
				return true
			})
			return true
		})
		if !okRec || !recSprint {
			fail("receive: the recover() handler building an ErrorResponse{Status, Message: fmt.Sprint(r)} was not found")
		}
		o.raw(fmt.Sprintf("(* %s receive: defer/recover *)\nDefinition recover_status : Z := %d.\nDefinition recover_has_stack : bool := %v.\n\n",
			rel(fset.Position(rc.Pos()).String()), recStatus, recStack))
		mb := p.funcDecl("", "marshalResponseBody")
		if mb == nil {
			fail("cannot locate marshalResponseBody")
		}
		mfmt, okFmt := "", false
		ast.Inspect(mb.Body, func(n ast.Node) bool {
			ce, ok := n.(*ast.CallExpr)
			if ok && callName(ce) == "Errorf" && len(ce.Args) == 2 {
				if bl, ok := ce.Args[0].(*ast.BasicLit); ok {
					mfmt, _ = strconv.Unquote(bl.Value)
					okFmt = stExprString(ce.Args[1]) == "r"
				}
			}
			return true
		})
		if !okFmt || !strings.HasSuffix(mfmt, "%v") {
			fail("marshalResponseBody: recover() -> fmt.Errorf(\"...%%v\", r) not found")
		}
		o.raw(fmt.Sprintf("(* %s marshalResponseBody: recover -> fmt.Errorf(%s, r) *)\nDefinition marshal_panic_prefix : bytes := %s.\n\n",
			rel(fset.Position(mb.Pos()).String()), strconv.Quote(mfmt), coqBytes(strings.TrimSuffix(mfmt, "%v"))))
		o.src = append(o.src, "recover_status, marshal_panic_prefix <- "+rel(fset.Position(rc.Pos()).String()))

		// ---- the header names and the client-side test
		for _, c := range [][2]string{{"st_error_response_header", "ErrorResponseHeader"}, {"st_id_header", "IDHeader"}} {
			v, pos := p.mustString(c[1])
			o.str(c[0], v, pos)
		}
	}
}

func stExprString(e ast.Expr) string {
	switch x := e.(type) {
	case *ast.Ident:
		return x.Name
	case *ast.SelectorExpr:
		return stExprString(x.X) + "." + x.Sel.Name
	case *ast.StarExpr:
		return "*" + stExprString(x.X)
	case *ast.CallExpr:
		args := make([]string, len(x.Args))
		for i, a := range x.Args {
			args[i] = stExprString(a)
		}
		return stExprString(x.Fun) + "(" + strings.Join(args, ", ") + ")"
	case *ast.BinaryExpr:
		return stExprString(x.X) + " " + x.Op.String() + " " + stExprString(x.Y)
	case *ast.UnaryExpr:
		return x.Op.String() + stExprString(x.X)
	case *ast.BasicLit:
		return x.Value
	case *ast.ParenExpr:
		return "(" + stExprString(x.X) + ")"
	case *ast.IndexExpr:
		return stExprString(x.X) + "[" + stExprString(x.Index) + "]"
	}
	return fmt.Sprintf("<%T>", e)
}
