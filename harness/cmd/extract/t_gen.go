package main

import (
	"go/ast"
	"go/token"
	"strconv"
	"strings"
)

// TablesGen: the constants the generator's identifier / registry core depends on (C12).
func init() {
	register("TablesGen", "identifier rules and registry constants of the v2 generator (C12)", func(o *out) {
		u := load(repo + "/v2/codegen/utils")
		s, pos := u.mustString("GeneratedFileSuffix")
		o.str("gen_file_suffix", s, pos)
		s, pos = u.mustString("ManifestFile")
		o.str("gen_manifest_file", s, pos)
		s, pos = u.mustString("RootPackage")
		o.str("root_package", s, pos)
		s, pos = u.mustString("RestLiDataPackage")
		o.str("restlidata_package", s, pos)

		// Identifier.PackagePath: the package cyclic types are moved to (the only string assigned to p)
		fd := u.funcDecl("Identifier", "PackagePath")
		if fd == nil {
			fail("cannot locate func (Identifier) PackagePath in v2/codegen/utils")
		}
		var lits []*ast.BasicLit
		ast.Inspect(fd.Body, func(n ast.Node) bool {
			if as, ok := n.(*ast.AssignStmt); ok && len(as.Rhs) == 1 {
				if bl, ok := as.Rhs[0].(*ast.BasicLit); ok && bl.Kind == token.STRING {
					lits = append(lits, bl)
				}
			}
			return true
		})
		if len(lits) != 1 {
			fail("Identifier.PackagePath: expected exactly one string literal assignment (the conflict-resolution package), found %d", len(lits))
		}
		cp, _ := strconv.Unquote(lits[0].Value)
		o.str("conflict_pkg", cp, fset.Position(lits[0].Pos()).String())

		// ExportedIdentifier: the strings written for a leading digit, a leading '_', and '$'; the rune cases
		fd = u.funcDecl("", "ExportedIdentifier")
		if fd == nil {
			fail("cannot locate func ExportedIdentifier in v2/codegen/utils")
		}
		var ws []*ast.BasicLit
		var runes []string
		var wrunes []string
		ast.Inspect(fd.Body, func(n ast.Node) bool {
			switch x := n.(type) {
			case *ast.CallExpr:
				if se, ok := x.Fun.(*ast.SelectorExpr); ok && len(x.Args) == 1 {
					if bl, ok := x.Args[0].(*ast.BasicLit); ok {
						if se.Sel.Name == "WriteString" && bl.Kind == token.STRING {
							ws = append(ws, bl)
						}
						if se.Sel.Name == "WriteRune" && bl.Kind == token.CHAR {
							wrunes = append(wrunes, bl.Value)
						}
					}
				}
			case *ast.CaseClause:
				for _, e := range x.List {
					if be, ok := e.(*ast.BinaryExpr); ok && be.Op == token.EQL {
						if bl, ok := be.Y.(*ast.BasicLit); ok && bl.Kind == token.CHAR {
							runes = append(runes, bl.Value)
						}
					}
				}
			}
			return true
		})
		if len(ws) != 3 || strings.Join(runes, "") != `'_''$'` || strings.Join(wrunes, "") != `'_'` {
			fail("ExportedIdentifier no longer has the modelled shape (3 WriteString literals, cases '_' and '$', one WriteRune('_')): %d %v %v", len(ws), runes, wrunes)
		}
		names := []string{"exp_digit_prefix", "exp_underscore_prefix", "exp_dollar"}
		for i, bl := range ws {
			v, _ := strconv.Unquote(bl.Value)
			o.str(names[i], v, fset.Position(bl.Pos()).String())
		}

		// the two regular expressions (the model transcribes them by hand; Props/C12.v pins their source text)
		regexSrc := func(name string) (string, string) {
			e, p, ok := u.lookupExpr(name)
			if !ok {
				fail("cannot locate var %s in v2/codegen/utils", name)
			}
			ce, ok := e.(*ast.CallExpr)
			if !ok || len(ce.Args) != 1 {
				fail("%s is no longer regexp.MustCompile(<literal>)", name)
			}
			v, ok := u.evalConst(ce.Args[0])
			if !ok {
				fail("%s: pattern is not a constant", name)
			}
			sv, _ := strconv.Unquote(v.ExactString())
			return sv, fset.Position(p).String()
		}
		s, pos = regexSrc("namespaceEscape")
		o.str("namespace_escape_regex", s, pos)
		s, pos = regexSrc("importsRegex")
		o.str("imports_regex", s, pos)
		fd = u.funcDecl("", "FqcpToPackagePath")
		if fd == nil {
			fail("cannot locate func FqcpToPackagePath")
		}
		var tmpl *ast.BasicLit
		ast.Inspect(fd.Body, func(n ast.Node) bool {
			if ce, ok := n.(*ast.CallExpr); ok {
				if se, ok := ce.Fun.(*ast.SelectorExpr); ok && se.Sel.Name == "ReplaceAllString" && len(ce.Args) == 2 {
					if bl, ok := ce.Args[1].(*ast.BasicLit); ok {
						tmpl = bl
					}
				}
			}
			return true
		})
		if tmpl == nil {
			fail("FqcpToPackagePath: cannot locate the ReplaceAllString template")
		}
		tv, _ := strconv.Unquote(tmpl.Value)
		o.str("namespace_escape_template", tv, fset.Position(tmpl.Pos()).String())

		// built-in identifiers registered by init() functions
		ident := func(name string) (string, string, string) {
			e, p, ok := u.lookupExpr(name)
			if !ok {
				fail("cannot locate var %s", name)
			}
			cl, ok := e.(*ast.CompositeLit)
			if !ok {
				fail("%s is not a composite literal", name)
			}
			var nm, ns string
			for _, el := range cl.Elts {
				kv, ok := el.(*ast.KeyValueExpr)
				if !ok {
					fail("%s: unkeyed literal", name)
				}
				v, ok := u.evalConst(kv.Value)
				if !ok {
					fail("%s: non-constant field", name)
				}
				sv, _ := strconv.Unquote(v.ExactString())
				switch kv.Key.(*ast.Ident).Name {
				case "Name":
					nm = sv
				case "Namespace":
					ns = sv
				}
			}
			return nm, ns, fset.Position(p).String()
		}
		// which root each built-in is registered under: Register(<expr mentioning utils.XIdentifier>, <root expr>)
		type builtin struct{ idVar, root, pos string }
		var builtins []builtin
		for _, dir := range []string{"/v2/codegen/types", "/v2/codegen/resources"} {
			p := load(repo + dir)
			for _, f := range p.files {
				for _, d := range f.Decls {
					fd, ok := d.(*ast.FuncDecl)
					if !ok || fd.Name.Name != "init" || fd.Recv != nil {
						continue
					}
					ast.Inspect(fd.Body, func(n ast.Node) bool {
						ce, ok := n.(*ast.CallExpr)
						if !ok {
							return true
						}
						se, ok := ce.Fun.(*ast.SelectorExpr)
						if !ok || se.Sel.Name != "Register" || len(ce.Args) != 2 {
							return true
						}
						if inner, ok := se.X.(*ast.SelectorExpr); !ok || inner.Sel.Name != "TypeRegistry" {
							return true
						}
						arg := ce.Args[0]
						if id, ok := arg.(*ast.Ident); ok { // a package-level var such as PagingContext
							if e, _, ok := p.lookupExpr(id.Name); ok {
								arg = e
							}
						}
						idVar := ""
						ast.Inspect(arg, func(m ast.Node) bool {
							if s2, ok := m.(*ast.SelectorExpr); ok && strings.HasSuffix(s2.Sel.Name, "Identifier") {
								idVar = s2.Sel.Name
							}
							return true
						})
						if idVar == "" {
							fail("init() in %s registers a type whose identifier cannot be located", dir)
						}
						root := ""
						var ev func(e ast.Expr) string
						ev = func(e ast.Expr) string {
							switch x := e.(type) {
							case *ast.SelectorExpr:
								v, _ := u.mustString(x.Sel.Name)
								return v
							case *ast.BasicLit:
								v, _ := strconv.Unquote(x.Value)
								return v
							case *ast.BinaryExpr:
								return ev(x.X) + ev(x.Y)
							}
							fail("init() in %s: unsupported package-root expression", dir)
							return ""
						}
						root = ev(ce.Args[1])
						builtins = append(builtins, builtin{idVar, root, fset.Position(ce.Pos()).String()})
						return true
					})
				}
			}
		}
		if len(builtins) == 0 {
			fail("no built-in type registrations found")
		}
		o.raw("(* built-in types registered by init(): (name, namespace, package root) *)\n")
		o.raw("Definition builtin_types : list (bytes * bytes * bytes) :=\n  [")
		for i, b := range builtins {
			nm, ns, _ := ident(b.idVar)
			if i > 0 {
				o.raw(";\n   ")
			}
			o.raw("(" + coqBytes(nm) + ", " + coqBytes(ns) + ", " + coqBytes(b.root) + ") (* " + b.idVar + " <- " + rel(b.pos) + " *)")
			o.src = append(o.src, "builtin "+b.idVar+" <- "+rel(b.pos))
		}
		o.raw("].\n\n")

		// Go's keywords (from the toolchain's go/token, not from /repo)
		o.raw("(* go/token keywords *)\nDefinition go_keywords : list bytes :=\n  [")
		first := true
		for t := token.BREAK; t <= token.VAR; t++ {
			if !t.IsKeyword() {
				continue
			}
			if !first {
				o.raw(";\n   ")
			}
			first = false
			o.raw(coqBytes(t.String()) + " (* " + t.String() + " *)")
		}
		o.raw("].\n")
	})
}
