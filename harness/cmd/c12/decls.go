package main

import (
	"encoding/json"
	"fmt"
	"go/ast"
	"go/parser"
	"go/token"
	"os"
	"path/filepath"
	"sort"
	"strings"

	"github.com/PapaCharlie/go-restli/v2/codegen/utils"
)

// Oracle (5d): every method of every resource of the manifest is declared in the generated resource package - the client
// method (plain and WithContext), its entry in the Client and Resource interfaces, and its parameter struct.  The
// expectation is computed from the manifest alone and the package is read declaration by declaration (go/parser over
// every file of the directory): which FILE holds a declaration plays no role, so two generated files that collide on a
// name - the later silently replacing the earlier (utils.WriteJenFile removes an existing file) - show up as a missing
// declaration even when the remaining code happens to compile.

type resMethod struct {
	Kind   string `json:"methodType"`
	Name   string `json:"name"`
	Paging bool   `json:"isPagingSupported"`
	Params []struct {
		Name string `json:"name"`
	} `json:"params"`
}

type resSpec struct {
	Namespace string      `json:"namespace"`
	Methods   []resMethod `json:"methods"`
}

var restFuncNames = map[string]string{"get": "Get", "get_all": "GetAll", "create": "Create", "delete": "Delete", "update": "Update",
	"partial_update": "PartialUpdate", "batch_get": "BatchGet", "batch_create": "BatchCreate", "batch_delete": "BatchDelete",
	"batch_update": "BatchUpdate", "batch_partial_update": "BatchPartialUpdate"}

func upperFirst(s string) string {
	if s == "" {
		return s
	}
	return strings.ToUpper(s[:1]) + s[1:]
}

// the Go name of a method, from the Rest.li rules (REST methods have fixed names; finders and actions live in name spaces
// of their own: FindBy<Name> and <Name>Action)
func expectedFuncName(m resMethod) string {
	switch m.Kind {
	case "REST_METHOD":
		return restFuncNames[m.Name]
	case "FINDER":
		return "FindBy" + upperFirst(m.Name)
	default:
		return upperFirst(m.Name) + "Action"
	}
}

type pkgDecls struct {
	types   map[string]bool
	ifaces  map[string]map[string]bool // interface type -> method names
	methods map[string]map[string]bool // receiver type -> method names
	files   int
}

func readPkgDecls(dir string) (*pkgDecls, error) {
	d := &pkgDecls{types: map[string]bool{}, ifaces: map[string]map[string]bool{}, methods: map[string]map[string]bool{}}
	ents, err := os.ReadDir(dir)
	if err != nil {
		return nil, err
	}
	fs := token.NewFileSet()
	for _, e := range ents {
		if e.IsDir() || !strings.HasSuffix(e.Name(), ".go") || strings.HasSuffix(e.Name(), "_test.go") {
			continue
		}
		f, err := parser.ParseFile(fs, filepath.Join(dir, e.Name()), nil, 0)
		if err != nil {
			return nil, err
		}
		d.files++
		for _, decl := range f.Decls {
			switch x := decl.(type) {
			case *ast.GenDecl:
				for _, s := range x.Specs {
					ts, ok := s.(*ast.TypeSpec)
					if !ok {
						continue
					}
					d.types[ts.Name.Name] = true
					if it, ok := ts.Type.(*ast.InterfaceType); ok {
						ms := map[string]bool{}
						for _, fld := range it.Methods.List {
							for _, n := range fld.Names {
								ms[n.Name] = true
							}
						}
						d.ifaces[ts.Name.Name] = ms
					}
				}
			case *ast.FuncDecl:
				if x.Recv == nil || len(x.Recv.List) != 1 {
					continue
				}
				t := x.Recv.List[0].Type
				if st, ok := t.(*ast.StarExpr); ok {
					t = st.X
				}
				if id, ok := t.(*ast.Ident); ok {
					if d.methods[id.Name] == nil {
						d.methods[id.Name] = map[string]bool{}
					}
					d.methods[id.Name][x.Name.Name] = true
				}
			}
		}
	}
	return d, nil
}

// returns ("", "") when every method of every resource is declared; otherwise the kind of the first missing declaration
// (client-method | client-interface | resource-interface | params-struct | package) and a description
func checkResourceDecls(manifest []byte, root, outDir string) (kind, what string) {
	var m struct {
		Resources []resSpec `json:"resources"`
	}
	if err := json.Unmarshal(manifest, &m); err != nil {
		return "", ""
	}
	rs := m.Resources
	sort.SliceStable(rs, func(i, j int) bool { return rs[i].Namespace < rs[j].Namespace })
	for _, r := range rs {
		if len(r.Methods) == 0 {
			continue
		}
		// two methods of different name spaces whose Go names coincide (FindBy<X> = <Y>Action): the declarations of one
		// replace the other's (same file name, too)
		byFunc := map[string]resMethod{}
		for _, me := range r.Methods {
			f := expectedFuncName(me)
			if prev, ok := byFunc[f]; ok && f != "" && (prev.Kind != me.Kind || prev.Name != me.Name) {
				return "go-name-collision", fmt.Sprintf("resource %s: %s %q and %s %q are both generated as %s", r.Namespace,
					strings.ToLower(prev.Kind), prev.Name, strings.ToLower(me.Kind), me.Name, f)
			}
			byFunc[f] = me
		}
		dir := filepath.Join(outDir, strings.TrimPrefix(utils.FqcpToPackagePath(root, r.Namespace), root))
		d, err := readPkgDecls(dir)
		if err != nil {
			return "package", fmt.Sprintf("resource %s: the generated package cannot be read: %v", r.Namespace, err)
		}
		for _, me := range r.Methods {
			f := expectedFuncName(me)
			if f == "" {
				continue
			}
			desc := fmt.Sprintf("resource %s, %s %q", r.Namespace, strings.ToLower(me.Kind), me.Name)
			for _, n := range []string{f, f + "WithContext"} {
				if !d.methods["client"][n] {
					return "client-method", fmt.Sprintf("%s: no file of the package declares func (c *client) %s (%d files read)", desc, n, d.files)
				}
				if !d.ifaces["Client"][n] {
					return "client-interface", fmt.Sprintf("%s: the Client interface has no method %s", desc, n)
				}
			}
			if !d.ifaces["Resource"][f] {
				return "resource-interface", fmt.Sprintf("%s: the Resource interface has no method %s", desc, f)
			}
			hasParams := len(me.Params) > 0 || (me.Paging && (me.Kind == "FINDER" || me.Name == "get_all"))
			if hasParams && !d.types[f+"Params"] {
				return "params-struct", fmt.Sprintf("%s: no file of the package declares type %sParams", desc, f)
			}
		}
	}
	return "", ""
}
