// C12 driver: manifests from the seeded schema/resource grammar (harness/mgen) are fed to the REAL v2 generator
// (harness/cmd/rungen, one fresh process per run; 3 full runs + several registry-only runs per manifest).  Observables:
// exit status, set of files, byte identity across runs, the package path / type name the real registry assigned to every
// type (compared with the Coq model of the registry: Corr/C12Corr.v), presence of each type's declaration in the file the
// model-predicted name designates (go/parser), then `go build`, `go vet` and `go test` (runs the generated
// default-value sanity checks at init) of the output inside a scratch module.  Finally the bindings checked into the
// repository are regenerated from the checked-in manifest and compared byte for byte (then by exported API).
package main

import (
	"bytes"
	"crypto/sha256"
	"encoding/hex"
	"encoding/json"
	"flag"
	"fmt"
	"go/ast"
	"go/parser"
	"go/printer"
	"go/token"
	"io"
	"log"
	"os"
	"os/exec"
	"path/filepath"
	"regexp"
	"runtime"
	"sort"
	"strings"
	"sync"

	"github.com/PapaCharlie/go-restli/v2/codegen/utils"
	"verif/harness/hx"
	"verif/harness/mgen"
)

// one unit of work: a manifest as raw JSON (so that replays need no grammar) plus what the driver must know about it
type job struct {
	Name       string          `json:"name"`
	Family     string          `json:"family"`
	Root       string          `json:"packageRoot"`
	Manifest   json.RawMessage `json:"manifest"`
	Perm       []mgen.Ref      `json:"perm,omitempty"`
	WellFormed bool            `json:"wellFormed"`
	Expect     string          `json:"expect,omitempty"`
	// hand-written files placed in the output directory before generation; the typerefs they make custom; and a second
	// project generated against this project's EMITTED manifest
	Files      map[string]string `json:"files,omitempty"`
	Custom     []mgen.Ref        `json:"custom,omitempty"`
	Downstream json.RawMessage   `json:"downstream,omitempty"`
}

type outcome struct {
	Status int         `json:"status"`
	Types  [][2]string `json:"types"` // (package, type name) of each input type, in manifest order
}

type result struct {
	job      *job
	full     []mgen.GenResult
	regOnly  []mgen.GenResult
	files    []map[string]string // per full run: relative path -> sha256
	outcomes []outcome           // distinct registry outcomes over all runs
	graph    []mgen.RegEntry     // the registered types with their references (from the real code)
	inputIDs []mgen.Ref
	fails    []failure
	buildOut string
}

type failure struct{ sig, what, site string }

var (
	rungen   string
	ws       *mgen.Workspace
	scratch  string
	nRegOnly = 5
)

func must(err error) {
	if err != nil {
		panic(err)
	}
}

func main() {
	harness := flag.String("harness", "", "path of the harness module (to build cmd/rungen)")
	cfg := hx.ParseFlags()
	log.SetOutput(io.Discard) // the generator logs every panic message of ExportedIdentifier
	rep := hx.NewReport("a manifest counts as distinct non-trivial when the generator succeeded on it in 3 fresh processes, " +
		"it declares at least one record with a nested (array/map/reference) field or a resource or two namespaces, and its " +
		"JSON differs from every other manifest of the run; identifier cases count when the input has a non-letter")
	var err error
	scratch, err = os.MkdirTemp("", "verif-c12-")
	must(err)
	ws, err = mgen.NewWorkspace(mgen.RepoPath())
	must(err)
	defer func() {
		ws.Close()
		os.RemoveAll(scratch)
	}()
	if cfg.Thorough() {
		nRegOnly = 8
	}

	// build the generator runner once, against the current tree
	rungen = filepath.Join(scratch, "rungen")
	hdir := *harness
	if hdir == "" {
		hdir = "/verif/harness"
	}
	c := exec.Command("go", "build", "-tags", "verif", "-o", rungen, "./cmd/rungen")
	c.Dir = hdir
	c.Env = mgen.GoEnv()
	if out, err := c.CombinedOutput(); err != nil {
		fmt.Fprintf(os.Stderr, "cannot build cmd/rungen against the current tree:\n%s\n", out)
		os.Exit(4)
	}

	sh := hx.NewShards(cfg.Out, "From Coq Require Import List Bool Arith NArith.\nFrom Coq.Strings Require Import Byte.\n"+
		"From GR Require Import Base.Bytes Gen.TablesGen Gen2.Ident Gen2.Registry Corr.C12Corr.\nImport ListNotations.\n", "C12Corr", 6)
	rnd := hx.NewRand(cfg.Seed)

	var jobs []*job
	var pjobs []*projJob
	if cfg.Replay != "" {
		jobs, pjobs = replayJobs(cfg.Replay)
	} else {
		if only := os.Getenv("C12_ONLY"); only == "" || strings.Contains("multi-project-dependency-copies", only) {
			pjobs = append(pjobs, newProjJob(0))
		}
		identifierCases(rep, sh, rnd, cfg.Thorough())
		jobs = grammarJobs(cfg, rnd)
		for k, v := range distribution {
			rep.CountN(k, v)
		}
	}

	// warm the build cache (runtime packages) once, so that the parallel builds below do not all compile them
	warm := filepath.Join(ws.Dir, "warm")
	must(os.MkdirAll(warm, 0o755))
	must(os.WriteFile(filepath.Join(warm, "w.go"), []byte("package warm\n\nimport (\n\t_ \"github.com/PapaCharlie/go-restli/v2/restli\"\n\t_ \"github.com/PapaCharlie/go-restli/v2/restlidata/generated/com/linkedin/restli/common\"\n\t_ \"github.com/PapaCharlie/go-restli/v2/restli/patch\"\n)\n"), 0o644))
	if out, ok := ws.Go("build", "./warm/"); !ok {
		fmt.Fprintf(os.Stderr, "the runtime packages of the current tree do not build:\n%s\n", out)
		os.Exit(4)
	}

	results := make([]*result, len(jobs))
	presults := make([]*projResult, len(pjobs))
	var wg sync.WaitGroup
	sem := make(chan struct{}, runtime.NumCPU())
	for i := range pjobs {
		wg.Add(1)
		go func(i int) {
			defer wg.Done()
			sem <- struct{}{}
			defer func() { <-sem }()
			presults[i] = runProjects(pjobs[i])
		}(i)
	}
	for i := range jobs {
		wg.Add(1)
		go func(i int) {
			defer wg.Done()
			sem <- struct{}{}
			defer func() { <-sem }()
			results[i] = runJob(jobs[i])
		}(i)
	}
	wg.Wait()

	seenManifest := map[string]bool{}
	for _, r := range results {
		j := r.job
		rep.Evaluations += len(r.full) + len(r.regOnly)
		rep.Count("manifest-family:" + j.Family)
		rep.CountN("generator-processes", len(r.full)+len(r.regOnly))
		rep.Count(fmt.Sprintf("registry-outcomes-per-manifest:%d", len(r.outcomes)))
		for _, f := range r.fails {
			rep.Fail(f.sig, f.what, f.site, caseOf(r), map[string]interface{}{"outcomes": r.outcomes, "build": tailStr(r.buildOut, 1500),
				"detail": firstDetail(r)})
		}
		if len(r.fails) == 0 {
			rep.Count("manifest:ok")
		}
		h := sha256.Sum256(j.Manifest)
		key := hex.EncodeToString(h[:8])
		rep.Distinct(key, len(r.fails) == 0 && !seenManifest[key])
		seenManifest[key] = true
		rep.Sample(map[string]interface{}{"family": j.Family, "types": len(r.inputIDs), "files": fileCount(r), "outcomes": len(r.outcomes)})
		// the case for the model
		if len(r.graph) > 0 {
			sh.Add(coqReg(r), map[string]interface{}{"kind": "registry", "family": j.Family, "name": j.Name, "manifest": j.Manifest,
				"perm": j.Perm, "wellFormed": j.WellFormed, "observed": r.outcomes})
		}
	}
	for _, r := range presults {
		rep.Evaluations += r.procs
		rep.Count("manifest-family:" + r.job.Family)
		rep.CountN("generator-processes", r.procs)
		rep.CountN("multi-project:manifest-orders-registered", r.orders)
		for i, f := range r.fails {
			rep.Fail(f.sig, f.what, f.site, r.failCase[i], map[string]interface{}{"build": tailStr(r.buildOut, 1500), "detail": r.detail})
		}
		if len(r.fails) == 0 {
			rep.Count("manifest:ok")
		}
		rep.Distinct("projects:"+r.job.Name, len(r.fails) == 0)
		rep.Sample(map[string]interface{}{"family": r.job.Family, "projects": len(r.job.Projects), "orders": r.orders})
		for _, c := range r.cases {
			sh.Add(c.coq, c.desc)
		}
	}
	if cfg.Replay == "" {
		checkedInBindings(rep)
	}
	sh.Close()
	rep.Shards = sh.Files
	rep.Extra["manifests"] = len(jobs)
	rep.Extra["decided_by_generator_runs_only"] = "byte-identical repeated generation, go build / go vet / go test of the output, equivalence of checked-in and regenerated bindings"
	rep.Write(cfg.Out)
}

func tailStr(s string, n int) string {
	if len(s) > n {
		return s[:n]
	}
	return s
}

func firstDetail(r *result) string {
	for _, g := range append(append([]mgen.GenResult{}, r.full...), r.regOnly...) {
		if g.Exit != 0 {
			return g.Status + ": " + tailStr(g.Detail, 600)
		}
	}
	return ""
}

func fileCount(r *result) int {
	if len(r.files) > 0 {
		return len(r.files[0])
	}
	return 0
}

func caseOf(r *result) interface{} {
	c := map[string]interface{}{"kind": "manifest", "family": r.job.Family, "name": r.job.Name, "packageRoot": r.job.Root,
		"perm": r.job.Perm, "wellFormed": r.job.WellFormed, "expect": r.job.Expect, "manifest": r.job.Manifest}
	if len(r.job.Files) > 0 {
		c["files"], c["custom"] = r.job.Files, r.job.Custom
	}
	if len(r.job.Downstream) > 0 {
		c["downstream"] = r.job.Downstream
	}
	return c
}

// ------------------------------------------------------------------------------------------------ jobs

func newJob(k int, mk func(root string) *mgen.Manifest) *job {
	name := fmt.Sprintf("g%03d", k)
	m := mk(ws.RootFor(name))
	j := &job{Name: name, Family: m.Family, Root: m.Root, Manifest: m.JSON(), Perm: m.PermIDs, WellFormed: m.WellFormed, Expect: m.Expect,
		Files: m.HandWritten, Custom: m.Custom}
	if m.Downstream != nil {
		m.Downstream.Root = ws.RootFor(name + "d")
		j.Downstream = m.Downstream.JSON()
	}
	return j
}

var distribution = map[string]int{}

func grammarJobs(cfg *hx.Config, rnd *hx.Rand) []*job {
	var mks []func(root string) *mgen.Manifest
	add := func(f func(root string) *mgen.Manifest) { mks = append(mks, f) }
	add(mgen.Positions)
	add(mgen.IncludesUnions)
	quickKeys := []string{"int64", "string", "typeref", "enum", "complex"}
	add(func(root string) *mgen.Manifest { return mgen.Collections(root, quickKeys) })
	add(mgen.SimpleActionsSubs)
	add(mgen.Namespaces)
	add(mgen.CustomTyperefs)
	add(mgen.MethodNameSpaces)
	add(mgen.WitnessOrder)
	add(mgen.WitnessPackageCycle)
	add(mgen.WitnessCrossGroup)
	add(mgen.WitnessRenameFails)
	add(mgen.WitnessAffixCollision)
	if cfg.Thorough() {
		add(func(root string) *mgen.Manifest {
			return mgen.Collections(root, []string{"int32", "bool", "float32", "float64", "typerefString", "fixed"})
		})
		for k := 0; k < 70; k++ {
			r := rnd.Fork()
			kk := k
			add(func(root string) *mgen.Manifest { return mgen.Random(root, r, kk) })
		}
		for k := 0; k < 30; k++ {
			r := rnd.Fork()
			kk := k
			add(func(root string) *mgen.Manifest { return mgen.RandomNamespaces(root, r, kk) })
		}
	} else {
		for k := 0; k < 2; k++ {
			r := rnd.Fork()
			kk := k
			add(func(root string) *mgen.Manifest { return mgen.Random(root, r, kk) })
		}
		r := rnd.Fork()
		add(func(root string) *mgen.Manifest { return mgen.RandomNamespaces(root, r, 0) })
	}
	var jobs []*job
	for k, mk := range mks {
		if only := os.Getenv("C12_ONLY"); only != "" && !strings.Contains(mk("x").Family, only) { // development aid
			continue
		}
		jobs = append(jobs, newJob(k, func(root string) *mgen.Manifest {
			m := mk(root)
			m.Stats(func(key string, n int) { distribution[key] += n })
			return m
		}))
	}
	return jobs
}

func replayJobs(path string) ([]*job, []*projJob) {
	b, err := os.ReadFile(path)
	must(err)
	var rp struct {
		Case struct {
			Kind       string          `json:"kind"`
			Family     string          `json:"family"`
			Root       string          `json:"packageRoot"`
			Perm       []mgen.Ref      `json:"perm"`
			WellFormed bool            `json:"wellFormed"`
			Expect     string          `json:"expect"`
			Manifest   json.RawMessage `json:"manifest"`
			Files      map[string]string `json:"files"`
			Custom     []mgen.Ref        `json:"custom"`
			Downstream json.RawMessage   `json:"downstream"`
		} `json:"case"`
	}
	must(json.Unmarshal(b, &rp))
	if rp.Case.Kind == "projects" || rp.Case.Kind == "registry-multi" {
		var raw struct {
			Case json.RawMessage `json:"case"`
		}
		must(json.Unmarshal(b, &raw))
		return nil, []*projJob{replayProjJob(raw.Case)}
	}
	if len(rp.Case.Manifest) == 0 {
		fmt.Fprintln(os.Stderr, "replay file carries no manifest (proof / correspondence replays name a theorem instead)")
		return nil, nil
	}
	var mm map[string]interface{}
	must(json.Unmarshal(rp.Case.Manifest, &mm))
	name := "g000"
	mm["packageRoot"] = ws.RootFor(name)
	nb, _ := json.MarshalIndent(mm, "", " ")
	j := &job{Name: name, Family: rp.Case.Family, Root: ws.RootFor(name), Manifest: nb, Perm: rp.Case.Perm,
		WellFormed: rp.Case.WellFormed, Expect: rp.Case.Expect, Files: rp.Case.Files, Custom: rp.Case.Custom}
	if len(rp.Case.Downstream) > 0 {
		var dm map[string]interface{}
		must(json.Unmarshal(rp.Case.Downstream, &dm))
		dm["packageRoot"] = ws.RootFor(name + "d")
		j.Downstream, _ = json.MarshalIndent(dm, "", " ")
	}
	return []*job{j}, nil
}

// ------------------------------------------------------------------------------------------------ one manifest

func snapshot(dir string) map[string]string {
	out := map[string]string{}
	filepath.Walk(dir, func(p string, fi os.FileInfo, err error) error {
		if err != nil || fi.IsDir() {
			return nil
		}
		b, err := os.ReadFile(p)
		must(err)
		h := sha256.Sum256(b)
		rel, _ := filepath.Rel(dir, p)
		out[rel] = hex.EncodeToString(h[:])
		return nil
	})
	return out
}

func inputTypeIDs(manifest []byte) []mgen.Ref {
	var m struct {
		InputDataTypes []map[string]struct {
			Name      string `json:"name"`
			Namespace string `json:"namespace"`
		} `json:"inputDataTypes"`
	}
	must(json.Unmarshal(manifest, &m))
	var out []mgen.Ref
	for _, dt := range m.InputDataTypes {
		for _, v := range dt {
			out = append(out, mgen.Ref{NS: v.Namespace, Name: v.Name})
		}
	}
	return out
}

var errLine = regexp.MustCompile(`\.go:\d+:\d+: (.*)`)
var quoted = regexp.MustCompile("\"[^\"]*\"|`[^`]*`|'[^']*'")
var identish = regexp.MustCompile(`[A-Za-z_][A-Za-z0-9_]*\.[A-Za-z_][A-Za-z0-9_.]*|\b[A-Za-z_]*[A-Z0-9_][A-Za-z0-9_]*\b`)

// a narrow, stable class for a compiler / vet message: quoted text, qualified and mixed-case identifiers removed
func classify(out string) string {
	if strings.Contains(out, "import cycle not allowed") {
		return "import-cycle"
	}
	m := errLine.FindStringSubmatch(out)
	msg := ""
	if m != nil {
		msg = m[1]
	} else {
		for _, l := range strings.Split(out, "\n") {
			if strings.TrimSpace(l) != "" && !strings.HasPrefix(l, "#") {
				msg = l
				break
			}
		}
	}
	msg = quoted.ReplaceAllString(msg, "_")
	msg = identish.ReplaceAllString(msg, "_")
	msg = regexp.MustCompile(`\d+`).ReplaceAllString(msg, "N")
	msg = strings.Join(strings.Fields(msg), " ")
	if len(msg) > 90 {
		msg = msg[:90]
	}
	return msg
}

func errClass(detail string) string {
	d := detail
	if i := strings.IndexAny(d, "{\"["); i >= 0 {
		d = d[:i]
	}
	if i := strings.LastIndex(d, "go-restli: "); i >= 0 {
		d = d[i+len("go-restli: "):]
	}
	d = strings.TrimSpace(d)
	if len(d) > 120 {
		d = d[:120]
	}
	return d
}

func runJob(j *job) *result {
	r := &result{job: j}
	mpath := filepath.Join(scratch, j.Name+".json")
	must(os.WriteFile(mpath, j.Manifest, 0o644))
	deps := []string{ws.DependencyManifest()}
	r.inputIDs = inputTypeIDs(j.Manifest)
	outDirs := []string{ws.DirFor(j.Name), filepath.Join(scratch, "run2", j.Name), filepath.Join(scratch, "run3", j.Name)}
	for _, d := range outDirs {
		placeFiles(d, j.Files)
		g := mgen.RunGen(rungen, mpath, d, deps, false)
		r.full = append(r.full, g)
		r.files = append(r.files, snapshot(d))
	}
	for k := 0; k < nRegOnly; k++ {
		r.regOnly = append(r.regOnly, mgen.RunGen(rungen, mpath, "", deps, true))
	}
	all := append(append([]mgen.GenResult{}, r.full...), r.regOnly...)
	// registry outcomes (distinct)
	seen := map[string]bool{}
	for _, g := range all {
		if len(g.Registry) > 0 && len(r.graph) == 0 {
			r.graph = g.Registry
		}
		o := outcome{Status: g.Exit, Types: [][2]string{}}
		if g.Exit == 0 {
			idx := map[mgen.Ref]mgen.RegEntry{}
			for _, e := range g.Registry {
				idx[mgen.Ref{NS: e.Namespace, Name: e.Name}] = e
			}
			for _, id := range r.inputIDs {
				e := idx[id]
				o.Types = append(o.Types, [2]string{e.Package, e.TypeName})
			}
		}
		b, _ := json.Marshal(o)
		if !seen[string(b)] {
			seen[string(b)] = true
			r.outcomes = append(r.outcomes, o)
		}
	}
	fail := func(sig, what, site string) { r.fails = append(r.fails, failure{sig, what, site}) }

	// (1) the generator succeeds, in every fresh process
	for _, g := range all {
		if g.Exit != 0 {
			fail("generator-fails:"+g.Status+":"+errClass(g.Detail),
				"code generation does not succeed on a manifest of the schema/resource grammar ("+g.Status+")", "v2/cmd/cmd.go:GenerateCode")
			return r
		}
	}
	// (2) no two types share (package, name); every type is declared in the file its name designates
	ok := r.full[0]
	byOut := map[[2]string][]string{}
	for _, e := range ok.Registry {
		if e.Root == j.Root {
			k := [2]string{e.Package, e.TypeName}
			byOut[k] = append(byOut[k], e.Namespace+"."+e.Name)
		}
	}
	for k, ids := range byOut {
		if len(ids) > 1 {
			sort.Strings(ids)
			// inside one conflict group (names equal up to case: resolveConflicts' own job) or across groups
			kind := "same-name-group"
			for _, id := range ids {
				if strings.ToLower(id[strings.LastIndex(id, ".")+1:]) != strings.ToLower(ids[0][strings.LastIndex(ids[0], ".")+1:]) {
					kind = "cross-group"
				}
			}
			fail("duplicate-identifier:"+kind, fmt.Sprintf("types %v are all generated as %s.%s (one file overwrites the other)", ids, k[0], k[1]),
				"v2/codegen/utils/type_registry.go:resolveConflicts")
			return r
		}
	}
	// (3) the registry assigns the same packages / names in every process
	if len(r.outcomes) > 1 {
		fail("nondeterministic-registry", "the package / type name assigned to a type differs between fresh generator processes "+
			"(cycle flags depend on Go map iteration order)", "v2/codegen/utils/type_registry.go:flagCyclicDependencies")
		return r
	}
	// (4) same files, same bytes
	for k := 1; k < len(r.files); k++ {
		if diff := diffFiles(r.files[0], r.files[k]); diff != "" {
			fail("nondeterministic-output", "repeated generation in fresh processes is not byte-identical: "+diff, "v2/cmd/cmd.go:GenerateCode")
			return r
		}
	}
	// (5) every type is declared where the registry says
	for _, e := range ok.Registry {
		if e.Root != j.Root || isCustom(j, e) {
			continue // a custom typeref is declared by its hand-written file; go build below checks that
		}
		file := filepath.Join(outDirs[0], strings.TrimPrefix(e.Package, j.Root), e.TypeName+utils.GeneratedFileSuffix)
		if msg := checkDecl(file, e.TypeName, utils.PackageName(e.Package)); msg != "" {
			fail("missing-type-declaration", fmt.Sprintf("%s.%s: %s", e.Namespace, e.Name, msg), "v2/codegen/utils/codefile.go:Write")
			return r
		}
	}
	// (5d) every method of every resource is declared in its package, whatever the files are called
	// (C12_SKIP_DECL_CHECK: development aid, to see what the compiler says about such an output)
	if kind, what := checkResourceDecls(j.Manifest, j.Root, outDirs[0]); kind != "" && os.Getenv("C12_SKIP_DECL_CHECK") == "" {
		fail("missing-method-declaration:"+kind, what, "v2/codegen/resources/resource.go:GenerateCode (one file per method; utils.WriteJenFile replaces an existing file)")
		return r
	}
	if len(j.Files) > 0 {
		// (5b) the emitted manifest records isCustom for every typeref made custom by a hand-written file: dependent
		// projects learn it from there only
		// (C12_SKIP_EMITTED_CHECK: development aid, to see oracle (7) fire on its own)
		if missing := notCustomInEmitted(filepath.Join(outDirs[0], utils.ManifestFile), j.Custom); len(missing) > 0 && os.Getenv("C12_SKIP_EMITTED_CHECK") == "" {
			fail("emitted-manifest-loses-isCustom", fmt.Sprintf("the manifest the generator emits says isCustom=false for %v although "+
				"the hand-written type file made them custom in this very run", missing), "v2/cmd/cmd.go:GenerateCode (manifest written before LocateCustomTyperefs)")
			return r
		}
		// (5c) regenerating into the SAME directory leaves the hand-written files alone and reproduces the same bytes
		g := mgen.RunGen(rungen, mpath, outDirs[0], deps, false)
		r.full = append(r.full, g)
		if g.Exit != 0 {
			fail("generator-fails:"+g.Status+":"+errClass(g.Detail), "regenerating over an existing output directory fails", "v2/cmd/cmd.go:GenerateCode")
			return r
		}
		if diff := diffFiles(r.files[0], snapshot(outDirs[0])); diff != "" {
			fail("regeneration-in-place-differs", "regenerating over an existing output directory (with hand-written files) changes files: "+diff,
				"v2/codegen/utils/codefile.go:CleanTargetDir")
			return r
		}
	}
	// (6) the output builds, vets, and its init-time default-value checks pass
	for _, step := range [][]string{{"build", "./" + j.Name + "/..."}, {"vet", "./" + j.Name + "/..."}, {"test", "-count=1", "./" + j.Name + "/..."}} {
		out, good := ws.Go(step...)
		if step[0] == "build" && !good {
			// a test-only package main ("all_imports_test.gr.go") has no non-test files: not an error of the output
			var keep []string
			for _, l := range strings.Split(out, "\n") {
				// the generated all_imports_test.gr.go is a test-only package main: nothing to build or link there
				if strings.Contains(l, "no non-test Go files") || strings.TrimSpace(l) == "" ||
					strings.Contains(l, "function main is undeclared in the main package") || l == "# "+j.Root {
					continue
				}
				keep = append(keep, l)
			}
			good = len(keep) == 0
			out = strings.Join(keep, "\n")
		}
		if !good {
			r.buildOut = out
			what := "go " + step[0] + " of the generated packages fails"
			cls := classify(out)
			if cls == "import-cycle" {
				// which kind: a cycle realised by a chain of type references between the OUTPUT packages (what the
				// generator's own cycle detection is meant to remove) or one that exists only at package level
				if chainCycle(ok.Registry, j.Root) {
					cls += ":type-reference-chain"
				} else {
					cls += ":package-level-only"
				}
			}
			fail("output-does-not-compile:"+cls, what+": "+tailStr(strings.TrimSpace(out), 300), "generated code")
			return r
		}
	}
	// (7) two-step generation: a second project generated against the manifest EMITTED above builds too
	if len(j.Downstream) > 0 {
		dname := j.Name + "d"
		dpath := filepath.Join(scratch, dname+".json")
		must(os.WriteFile(dpath, j.Downstream, 0o644))
		ddeps := []string{ws.DependencyManifest(), filepath.Join(outDirs[0], utils.ManifestFile)}
		var snaps []map[string]string
		for _, d := range []string{ws.DirFor(dname), filepath.Join(scratch, "run2", dname)} {
			g := mgen.RunGen(rungen, dpath, d, ddeps, false)
			r.full = append(r.full, g)
			if g.Exit != 0 {
				fail("dependent-project:generator-fails:"+g.Status+":"+errClass(g.Detail), "a project generated against the emitted manifest "+
					"of another project does not generate", "v2/cmd/cmd.go:GenerateCode")
				return r
			}
			snaps = append(snaps, snapshot(d))
		}
		if diff := diffFiles(snaps[0], snaps[1]); diff != "" {
			fail("nondeterministic-output", "repeated generation of the dependent project is not byte-identical: "+diff, "v2/cmd/cmd.go:GenerateCode")
			return r
		}
		for _, step := range [][]string{{"vet", "./" + dname + "/..."}, {"test", "-count=1", "./" + dname + "/..."}} {
			if out, good := ws.Go(step...); !good {
				r.buildOut = out
				fail("dependent-project:output-does-not-compile:"+classify(out), "go "+step[0]+" of a project generated against the emitted "+
					"manifest of another project fails: "+tailStr(strings.TrimSpace(out), 300), "generated code")
				return r
			}
		}
	}
	return r
}

func placeFiles(dir string, files map[string]string) {
	for rel, content := range files {
		p := filepath.Join(dir, rel)
		must(os.MkdirAll(filepath.Dir(p), 0o755))
		must(os.WriteFile(p, []byte(content), 0o644))
	}
}

func isCustom(j *job, e mgen.RegEntry) bool {
	for _, c := range j.Custom {
		if c.NS == e.Namespace && c.Name == e.Name {
			return true
		}
	}
	return false
}

func notCustomInEmitted(path string, want []mgen.Ref) (missing []string) {
	b, err := os.ReadFile(path)
	if err != nil {
		return []string{"(emitted manifest unreadable: " + err.Error() + ")"}
	}
	var m struct {
		InputDataTypes []struct {
			Typeref *struct {
				Name      string `json:"name"`
				Namespace string `json:"namespace"`
				IsCustom  bool   `json:"isCustom"`
			} `json:"typeref"`
		} `json:"inputDataTypes"`
	}
	if err := json.Unmarshal(b, &m); err != nil {
		return []string{"(emitted manifest unparsable)"}
	}
	for _, w := range want {
		found := false
		for _, dt := range m.InputDataTypes {
			if dt.Typeref != nil && dt.Typeref.Name == w.Name && dt.Typeref.Namespace == w.NS && dt.Typeref.IsCustom {
				found = true
			}
		}
		if !found {
			missing = append(missing, w.Full())
		}
	}
	return missing
}

// chainCycle: is there a chain of type references t0 -> ... -> tk (types of the input root) with t0 and tk in the same
// output package and some ti in between in another one?  (Path.IntroducesCycle's notion, on the final assignment.)
func chainCycle(reg []mgen.RegEntry, root string) bool {
	pkg := map[string]string{}
	refs := map[string][]string{}
	for _, e := range reg {
		if e.Root == root {
			k := e.Namespace + " " + e.Name
			pkg[k] = e.Package
			refs[k] = e.Refs
		}
	}
	var path []string
	onPath := map[string]bool{}
	var dfs func(v string) bool
	dfs = func(v string) bool {
		left := false
		for i := len(path) - 1; i >= 0; i-- {
			if pkg[path[i]] != pkg[v] {
				left = true
			} else if left {
				return true
			}
		}
		if onPath[v] {
			return false
		}
		onPath[v] = true
		path = append(path, v)
		defer func() { onPath[v] = false; path = path[:len(path)-1] }()
		for _, c := range refs[v] {
			if _, ok := pkg[c]; ok && dfs(c) {
				return true
			}
		}
		return false
	}
	for k := range pkg {
		if dfs(k) {
			return true
		}
	}
	return false
}

func diffFiles(a, b map[string]string) string {
	var d []string
	for p, h := range a {
		if h2, ok := b[p]; !ok {
			d = append(d, "only in run 1: "+p)
		} else if h != h2 {
			d = append(d, "bytes differ: "+p)
		}
	}
	for p := range b {
		if _, ok := a[p]; !ok {
			d = append(d, "only in a later run: "+p)
		}
	}
	sort.Strings(d)
	if len(d) > 4 {
		d = d[:4]
	}
	return strings.Join(d, "; ")
}

func checkDecl(file, typeName, pkgName string) string {
	fs := token.NewFileSet()
	f, err := parser.ParseFile(fs, file, nil, 0)
	if err != nil {
		return "cannot parse " + filepath.Base(file) + ": " + err.Error()
	}
	if f.Name.Name != pkgName {
		return "package clause is " + f.Name.Name + ", PackageName says " + pkgName
	}
	for _, d := range f.Decls {
		if gd, ok := d.(*ast.GenDecl); ok && gd.Tok == token.TYPE {
			for _, s := range gd.Specs {
				if s.(*ast.TypeSpec).Name.Name == typeName {
					return ""
				}
			}
		}
	}
	return "no declaration of type " + typeName + " in " + filepath.Base(file)
}

// ------------------------------------------------------------------------------------------------ Coq terms

func coqIdent(ns, name string) string {
	return "(mkId " + hx.CoqBytes(name) + " " + hx.CoqBytes(ns) + ")"
}

func coqReg(r *result) string {
	j := r.job
	// registration order: built-in roots and dependency manifests first (roots other than the input root, in the order
	// rungen lists them: sorted by root), then the input types in manifest order
	var entries []string
	emit := func(e mgen.RegEntry) {
		var refs []string
		for _, rf := range e.Refs {
			p := strings.SplitN(rf, " ", 2)
			refs = append(refs, coqIdent(p[0], p[1]))
		}
		entries = append(entries, "fresh "+coqIdent(e.Namespace, e.Name)+" "+hx.CoqBytes(e.Root)+" ["+strings.Join(refs, ";")+"]")
	}
	idx := map[mgen.Ref]mgen.RegEntry{}
	for _, e := range r.graph {
		if e.Root != j.Root {
			emit(e)
		} else {
			idx[mgen.Ref{NS: e.Namespace, Name: e.Name}] = e
		}
	}
	for _, id := range r.inputIDs {
		if e, ok := idx[id]; ok {
			emit(e)
		}
	}
	var perm []string
	for _, p := range j.Perm {
		perm = append(perm, coqIdent(p.NS, p.Name))
	}
	var obs []string
	for _, o := range r.outcomes {
		var ts []string
		for _, t := range o.Types {
			ts = append(ts, "("+hx.CoqBytes(t[0])+","+hx.CoqBytes(t[1])+")")
		}
		obs = append(obs, fmt.Sprintf("(%d, [%s])", o.Status, strings.Join(ts, ";")))
	}
	return "CReg [" + strings.Join(entries, ";\n   ") + "]\n  " + hx.CoqBytes(j.Root) + " [" + strings.Join(perm, ";") + "] " +
		hx.CoqBool(j.WellFormed) + " [" + strings.Join(obs, ";\n   ") + "]"
}

// ------------------------------------------------------------------------------------------------ identifier rules

func identifierCases(rep *hx.Report, sh *hx.Shards, rnd *hx.Rand, thorough bool) {
	alphabet := "abzAZ09_$.-/ é"
	var inputs []string
	inputs = append(inputs, "", "a", "Z", "_", "$", "9", "type", "func", "_internal", "9lives", "$$", "a$b", "a_b", "aB9_", "has-dash", "sp ace", "dot.ted", "ünï")
	// exhaustive over the alphabet up to length 3 (quick: 2)
	maxLen := 2
	if thorough {
		maxLen = 3
	}
	var rec func(prefix string, n int)
	rec = func(prefix string, n int) {
		if n == 0 {
			return
		}
		for _, c := range alphabet {
			s := prefix + string(c)
			inputs = append(inputs, s)
			rec(s, n-1)
		}
	}
	rec("", maxLen)
	n := 200
	if thorough {
		n = 2000
	}
	for i := 0; i < n; i++ {
		l := 1 + rnd.Intn(12)
		var sb strings.Builder
		for k := 0; k < l; k++ {
			if rnd.Chance(8) {
				sb.WriteByte(byte(rnd.Intn(128)))
			} else {
				sb.WriteByte("abcdefghijklmnopqrstuvwxyzABCDEFGHIJKLMNOPQRSTUVWXYZ0123456789__$$"[rnd.Intn(66)])
			}
		}
		inputs = append(inputs, sb.String())
	}
	goIdent := regexp.MustCompile(`^[A-Z][A-Za-z0-9_]*$`)
	legal := regexp.MustCompile(`^[A-Za-z0-9_$]+$`)
	seen := map[string]bool{}
	for _, s := range inputs {
		if seen[s] {
			continue
		}
		seen[s] = true
		status, out := 0, ""
		func() {
			defer func() {
				if recover() != nil {
					status = 2
				}
			}()
			out = utils.ExportedIdentifier(s)
		}()
		rep.Evaluations++
		rep.Count(fmt.Sprintf("ExportedIdentifier:status=%d", status))
		rep.Distinct("id:"+s, status == 0 && !regexp.MustCompile(`^[A-Za-z]*$`).MatchString(s))
		// the property's own predicate: a legal name yields a valid exported Go identifier that is not a keyword
		if legal.MatchString(s) {
			if status != 0 || !goIdent.MatchString(out) || token.IsKeyword(out) {
				rep.Fail("exported-identifier-invalid", "ExportedIdentifier of a legal name is not a valid exported Go identifier",
					"v2/codegen/utils/codefile.go:ExportedIdentifier", map[string]interface{}{"kind": "identifier", "input": s}, map[string]interface{}{"status": status, "out": out})
			}
		}
		sh.Add(fmt.Sprintf("CIdent %s %d %s", hx.CoqBytes(s), status, hx.CoqBytes(out)), map[string]interface{}{"kind": "identifier", "input": s, "status": status, "out": out})
	}
	// FqcpToPackagePath / PackageName
	roots := []string{"", "example.com/mod/gen"}
	nss := []string{"a", "a.b", "com.linkedin.restli.common", "internal", "a.internal", "a._internal", "a.internal.b", "a.internal.internal",
		"a.internalx", "a.xinternal", "x.internal.internal.internal", "conflictResolution", "a._internal._internal", "a/internal/b", "A.B9_c", "a.internal._internal.c"}
	for i := 0; i < n/10; i++ {
		parts := []string{"a", "internal", "_internal", "b9", "internalize", "Int", "_", "x_y"}
		k := 1 + rnd.Intn(4)
		var ps []string
		for q := 0; q < k; q++ {
			ps = append(ps, parts[rnd.Intn(len(parts))])
		}
		nss = append(nss, strings.Join(ps, "."))
	}
	for _, root := range roots {
		for _, ns := range nss {
			out := utils.FqcpToPackagePath(root, ns)
			rep.Evaluations++
			rep.Count("FqcpToPackagePath")
			rep.Distinct("path:"+root+":"+ns, strings.Contains(ns, "internal"))
			sh.Add(fmt.Sprintf("CPath %s %s %s", hx.CoqBytes(root), hx.CoqBytes(ns), hx.CoqBytes(out)), map[string]interface{}{"kind": "path", "root": root, "ns": ns, "out": out})
			pn := utils.PackageName(out)
			rep.Evaluations++
			rep.Count("PackageName")
			sh.Add(fmt.Sprintf("CPkgName %s %s", hx.CoqBytes(out), hx.CoqBytes(pn)), map[string]interface{}{"kind": "pkgname", "in": out, "out": pn})
		}
	}
	for _, s := range []string{"a/b/C-d_9", "x/conflictResolution", "x/y/", "UPPER", "a/b.c", "x/_internal"} {
		pn := utils.PackageName(s)
		sh.Add(fmt.Sprintf("CPkgName %s %s", hx.CoqBytes(s), hx.CoqBytes(pn)), map[string]interface{}{"kind": "pkgname", "in": s, "out": pn})
	}
}

// ------------------------------------------------------------------------------------------------ checked-in bindings

func exportedAPI(dir string) (map[string]string, error) {
	out := map[string]string{}
	fs := token.NewFileSet()
	err := filepath.Walk(dir, func(p string, fi os.FileInfo, err error) error {
		if err != nil || fi.IsDir() || !strings.HasSuffix(p, utils.GeneratedFileSuffix) {
			return nil
		}
		f, err := parser.ParseFile(fs, p, nil, 0)
		if err != nil {
			return err
		}
		rel, _ := filepath.Rel(dir, filepath.Dir(p))
		for _, d := range f.Decls {
			if fd, ok := d.(*ast.FuncDecl); ok {
				fd.Body = nil
			}
			var sb bytes.Buffer
			printer.Fprint(&sb, fs, d)
			name := ""
			switch x := d.(type) {
			case *ast.FuncDecl:
				name = x.Name.Name
				if x.Recv != nil && len(x.Recv.List) == 1 {
					var rb bytes.Buffer
					printer.Fprint(&rb, fs, x.Recv.List[0].Type)
					name = rb.String() + "." + name
				}
			case *ast.GenDecl:
				name = sb.String()
				if len(name) > 60 {
					name = name[:60]
				}
			}
			out[rel+":"+name] = sb.String()
		}
		return nil
	})
	return out, err
}

func checkedInBindings(rep *hx.Report) {
	repo := mgen.RepoPath()
	checked := filepath.Join(repo, "v2", "restlidata", "generated")
	manifest := filepath.Join(checked, utils.ManifestFile)
	out := filepath.Join(scratch, "regen")
	g := mgen.RunGen(rungen, manifest, out, nil, false)
	rep.Evaluations++
	rep.Count("checked-in-bindings:regenerated")
	desc := map[string]interface{}{"kind": "checked-in", "manifest": "v2/restlidata/generated/" + utils.ManifestFile}
	if g.Exit != 0 {
		rep.Fail("checked-in-manifest-does-not-generate", "the generator fails on the manifest checked into the repository: "+g.Status, "v2/cmd/cmd.go:GenerateCode", desc, g.Detail)
		return
	}
	fresh := snapshot(out)
	old := map[string]string{}
	for p, h := range snapshot(checked) {
		if strings.HasSuffix(p, utils.GeneratedFileSuffix) || filepath.Base(p) == utils.ManifestFile {
			old[p] = h
		}
	}
	rep.CountN("checked-in-bindings:files", len(old))
	diff := diffFiles(old, fresh)
	if diff == "" {
		rep.Count("checked-in-bindings:byte-identical")
		rep.Distinct("checked-in", true)
		return
	}
	a, e1 := exportedAPI(checked)
	b, e2 := exportedAPI(out)
	same := e1 == nil && e2 == nil && len(a) == len(b)
	if same {
		for k, v := range a {
			if b[k] != v {
				same = false
			}
		}
	}
	if same {
		rep.Fail("checked-in-bindings-stale:bodies-differ", "the checked-in bindings are not what the current generator produces from the checked-in manifest "+
			"(declarations and signatures agree, function bodies differ): "+diff, "v2/restlidata/generated", desc, diff)
	} else {
		rep.Fail("checked-in-bindings-stale:api-differs", "the checked-in bindings are not what the current generator produces from the checked-in manifest "+
			"(declared API differs): "+diff, "v2/restlidata/generated", desc, diff)
	}
}
