package main

import (
	"encoding/json"
	"fmt"
	"os"
	"path/filepath"
	"sort"
	"strings"

	"github.com/PapaCharlie/go-restli/v2/codegen/utils"
	"verif/harness/hx"
	"verif/harness/mgen"
)

// Several projects (harness/mgen.ProjectSet): generated one after the other, each against the manifests the generator
// EMITTED for the projects before it, with the dependency manifests handed over in EVERY order (filepath.WalkDir order is
// decided by directory names only).  Observables per (project, order): exit status and the registry of a fresh
// registry-only process (cmd.RegisterManifests): under which package root every type was filed and which package / name
// it was assigned - compared with the owner of the type here and with the Coq model register_manifests (CRegM); for two
// orders the full output, byte for byte; finally go vet of all projects.

type projManifest struct {
	Name     string          `json:"name"`
	Manifest json.RawMessage `json:"manifest"`
}

type projJob struct {
	Name     string         `json:"name"`
	Family   string         `json:"family"`
	Projects []projManifest `json:"projects"` // in generation order
}

type projCase struct {
	coq  string
	desc interface{}
}

type projResult struct {
	job      *projJob
	procs    int
	orders   int
	fails    []failure
	failCase map[int]interface{} // per failure: the case with the step and the order it failed on
	cases    []projCase
	buildOut string
	detail   string
}

func newProjJob(k int) *projJob {
	name := fmt.Sprintf("m%02d", k)
	ps := mgen.Projects(func(p string) string { return ws.RootFor(name + p) })
	j := &projJob{Name: name, Family: ps.Family}
	for i, m := range ps.Projects {
		m.Stats(func(key string, n int) { distribution[key] += n })
		distribution["dependency-type-copies"] += len(m.Deps)
		j.Projects = append(j.Projects, projManifest{name + ps.Names[i], m.JSON()})
	}
	return j
}

func replayProjJob(raw json.RawMessage) *projJob {
	var c struct {
		Family   string         `json:"family"`
		Projects []projManifest `json:"projects"`
	}
	must(json.Unmarshal(raw, &c))
	j := &projJob{Name: "m00", Family: c.Family}
	// package roots must be the import paths of the output directories of THIS run: rewrite them consistently
	for i, p := range c.Projects {
		var mm map[string]interface{}
		must(json.Unmarshal(p.Manifest, &mm))
		name := fmt.Sprintf("m00p%d", i)
		mm["packageRoot"] = ws.RootFor(name)
		nb, _ := json.MarshalIndent(mm, "", " ")
		j.Projects = append(j.Projects, projManifest{name, nb})
	}
	return j
}

type declIDs struct {
	Root   string
	Inputs []mgen.Ref
	Deps   []mgen.Ref
}

func manifestDecls(manifest []byte) declIDs {
	var m struct {
		Root   string `json:"packageRoot"`
		Inputs []map[string]struct {
			Name      string `json:"name"`
			Namespace string `json:"namespace"`
		} `json:"inputDataTypes"`
		Deps []map[string]struct {
			Name      string `json:"name"`
			Namespace string `json:"namespace"`
		} `json:"dependencyDataTypes"`
	}
	must(json.Unmarshal(manifest, &m))
	d := declIDs{Root: m.Root}
	for _, dt := range m.Inputs {
		for _, v := range dt {
			d.Inputs = append(d.Inputs, mgen.Ref{NS: v.Namespace, Name: v.Name})
		}
	}
	for _, dt := range m.Deps {
		for _, v := range dt {
			d.Deps = append(d.Deps, mgen.Ref{NS: v.Namespace, Name: v.Name})
		}
	}
	return d
}

// a narrow class for a registration error (errClass cuts at the first quoted identifier)
func regErrClass(detail string) string {
	switch {
	case strings.Contains(detail, "has already been registered"):
		return "type-already-registered"
	case strings.Contains(detail, "Unknown type") || strings.Contains(detail, "unknown type"):
		return "unknown-type"
	}
	return errClass(detail)
}

func permutations(n int) [][]int {
	if n == 0 {
		return [][]int{{}}
	}
	var out [][]int
	for _, p := range permutations(n - 1) {
		for pos := 0; pos <= len(p); pos++ {
			q := append(append(append([]int{}, p[:pos]...), n-1), p[pos:]...)
			out = append(out, q)
		}
	}
	sort.Slice(out, func(i, j int) bool { // identity first, then lexicographic
		for k := range out[i] {
			if out[i][k] != out[j][k] {
				return out[i][k] < out[j][k]
			}
		}
		return false
	})
	return out
}

type depManifest struct {
	name string // "common" or a project name
	path string
	ids  declIDs
}

func runProjects(j *projJob) *projResult {
	r := &projResult{job: j, failCase: map[int]interface{}{}}
	caseOf := func(step string, order []string) interface{} {
		return map[string]interface{}{"kind": "projects", "family": j.Family, "name": j.Name, "projects": j.Projects,
			"step": step, "manifestOrder": order}
	}
	fail := func(step string, order []string, sig, what, site string) {
		r.failCase[len(r.fails)] = caseOf(step, order)
		r.fails = append(r.fails, failure{sig, what, site})
	}
	commonPath := ws.DependencyManifest()
	cb, err := os.ReadFile(commonPath)
	must(err)
	avail := []depManifest{{"common", commonPath, manifestDecls(cb)}}
	owner := map[mgen.Ref]string{} // type -> package root of the manifest that lists it as an input type
	for _, id := range avail[0].ids.Inputs {
		owner[id] = avail[0].ids.Root
	}
	for _, p := range j.Projects {
		d := manifestDecls(p.Manifest)
		for _, id := range d.Inputs {
			owner[id] = d.Root
		}
	}
	var vetDirs []string
	for _, p := range j.Projects {
		mpath := filepath.Join(scratch, p.Name+".json")
		must(os.WriteFile(mpath, p.Manifest, 0o644))
		self := manifestDecls(p.Manifest)
		perms := permutations(len(avail))
		if len(perms) > 24 { // more than four dependency manifests: identity, reversal and the rotations
			var keep [][]int
			n := len(avail)
			for s := 0; s < n; s++ {
				rot, rev := make([]int, n), make([]int, n)
				for i := 0; i < n; i++ {
					rot[i], rev[i] = (i+s)%n, (n-1-i+s)%n
				}
				keep = append(keep, rot, rev)
			}
			perms = keep
		}
		var first map[mgen.Ref][2]string
		var firstOrder []string
		for _, perm := range perms {
			var deps, order []string
			var ms []depManifest
			for _, k := range perm {
				deps = append(deps, avail[k].path)
				order = append(order, avail[k].name)
				ms = append(ms, avail[k])
			}
			order = append(order, p.Name)
			ms = append(ms, depManifest{p.Name, mpath, self})
			g := mgen.RunGen(rungen, mpath, "", deps, true)
			r.procs++
			r.orders++
			r.cases = append(r.cases, projCase{coqRegM(ms, g), map[string]interface{}{"kind": "registry-multi", "family": j.Family, "step": p.Name,
				"manifestOrder": order, "status": g.Exit, "projects": j.Projects}})
			if g.Exit != 0 {
				r.detail = g.Status + ": " + tailStr(g.Detail, 600)
				fail(p.Name, order, "multi-project:generator-fails:"+g.Status+":"+regErrClass(g.Detail),
					fmt.Sprintf("registering the manifests %v (in this order; every type has exactly one owner) fails: %s", order, tailStr(g.Detail, 300)),
					"v2/cmd/json.go:RegisterManifests")
				return r
			}
			assign := map[mgen.Ref][2]string{}
			for _, e := range g.Registry {
				id := mgen.Ref{NS: e.Namespace, Name: e.Name}
				assign[id] = [2]string{e.Package, e.TypeName}
				if want, ok := owner[id]; ok && want != e.Root {
					fail(p.Name, order, "multi-project:type-outside-owner-root", fmt.Sprintf("with the manifests read in the order %v the type %s is filed under "+
						"package root %s; the manifest that owns it (lists it in inputDataTypes) has root %s", order, id.Full(), e.Root, want), "v2/cmd/json.go:RegisterManifests")
					return r
				}
			}
			if first == nil {
				first, firstOrder = assign, order
			} else {
				for id, a := range assign {
					if b, ok := first[id]; !ok || a != b {
						fail(p.Name, order, "multi-project:assignment-depends-on-manifest-order", fmt.Sprintf("type %s is generated as %v when the manifests are "+
							"read in the order %v and as %v in the order %v", id.Full(), a, order, b, firstOrder), "v2/cmd/json.go:RegisterManifests")
						return r
					}
				}
			}
		}
		// full generation with the dependency manifests in generation order and reversed: same bytes
		var snaps []map[string]string
		outDirs := []string{ws.DirFor(p.Name), filepath.Join(scratch, "run2", p.Name)}
		for k, d := range outDirs {
			var deps, order []string
			for i := range avail {
				a := avail[i]
				if k == 1 {
					a = avail[len(avail)-1-i]
				}
				deps = append(deps, a.path)
				order = append(order, a.name)
			}
			order = append(order, p.Name)
			g := mgen.RunGen(rungen, mpath, d, deps, false)
			r.procs++
			if g.Exit != 0 {
				r.detail = g.Status + ": " + tailStr(g.Detail, 600)
				fail(p.Name, order, "multi-project:generator-fails:"+g.Status+":"+regErrClass(g.Detail),
					fmt.Sprintf("generating project %s against the emitted manifests %v fails: %s", p.Name, order, tailStr(g.Detail, 300)), "v2/cmd/cmd.go:GenerateCode")
				return r
			}
			snaps = append(snaps, snapshot(d))
			if k == 1 {
				if diff := diffFiles(snaps[0], snaps[1]); diff != "" {
					fail(p.Name, order, "multi-project:output-depends-on-manifest-order", "the generated files differ when the dependency manifests are read in "+
						"reverse order: "+diff, "v2/cmd/cmd.go:GenerateCode")
					return r
				}
			}
		}
		// only the project's own types are generated here
		for _, id := range self.Deps {
			if ow, ok := owner[id]; ok && ow != self.Root {
				for f := range snaps[0] {
					if filepath.Base(f) == id.Name+utils.GeneratedFileSuffix {
						fail(p.Name, nil, "multi-project:foreign-type-generated", fmt.Sprintf("project %s generated %s for the foreign type %s (owned by %s)",
							p.Name, f, id.Full(), ow), "v2/cmd/cmd.go:GenerateCode")
						return r
					}
				}
			}
		}
		emitted := filepath.Join(outDirs[0], utils.ManifestFile)
		eb, err := os.ReadFile(emitted)
		if err != nil {
			fail(p.Name, nil, "multi-project:no-emitted-manifest", "the generator wrote no "+utils.ManifestFile, "v2/cmd/cmd.go:GenerateCode")
			return r
		}
		ed := manifestDecls(eb)
		if len(ed.Deps) != len(self.Deps) || len(ed.Inputs) != len(self.Inputs) {
			fail(p.Name, nil, "multi-project:emitted-manifest-differs", fmt.Sprintf("the emitted manifest lists %d input / %d dependency types, the input manifest %d / %d",
				len(ed.Inputs), len(ed.Deps), len(self.Inputs), len(self.Deps)), "v2/cmd/cmd.go:GenerateCode")
			return r
		}
		avail = append(avail, depManifest{p.Name, emitted, ed})
		vetDirs = append(vetDirs, "./"+p.Name+"/...")
	}
	for _, step := range [][]string{append([]string{"vet"}, vetDirs...), append([]string{"test", "-count=1"}, vetDirs...)} {
		if out, good := ws.Go(step...); !good {
			r.buildOut = out
			fail("", nil, "multi-project:output-does-not-compile:"+classify(out), "go "+step[0]+" of the projects generated against each other's emitted "+
				"manifests fails: "+tailStr(strings.TrimSpace(out), 300), "generated code")
			return r
		}
	}
	return r
}

// the CRegM case of one registry-only run: the registry's native content, the manifests in the order they were handed
// over (with the references the REAL code computed for every type: rungen's dump), status and the observed assignment
func coqRegM(ms []depManifest, g mgen.GenResult) string {
	native := map[mgen.Ref]bool{}
	for _, e := range g.Initial {
		native[mgen.Ref{NS: e.Namespace, Name: e.Name}] = true
	}
	refs := map[mgen.Ref][]string{}
	var init, obs []string
	coqRefs := func(l []string) string {
		var out []string
		for _, rf := range l {
			p := strings.SplitN(rf, " ", 2)
			out = append(out, coqIdent(p[0], p[1]))
		}
		return "[" + strings.Join(out, ";") + "]"
	}
	for _, e := range g.Registry {
		id := mgen.Ref{NS: e.Namespace, Name: e.Name}
		refs[id] = e.Refs
		if native[id] {
			init = append(init, "fresh "+coqIdent(e.Namespace, e.Name)+" "+hx.CoqBytes(e.Root)+" "+coqRefs(e.Refs))
		} else if g.Exit == 0 {
			obs = append(obs, "("+coqIdent(e.Namespace, e.Name)+", ("+hx.CoqBytes(e.Root)+", ("+hx.CoqBytes(e.Package)+", "+hx.CoqBytes(e.TypeName)+")))")
		}
	}
	decls := func(ids []mgen.Ref) string {
		var out []string
		for _, id := range ids {
			out = append(out, "mkDecl "+coqIdent(id.NS, id.Name)+" "+coqRefs(refs[id]))
		}
		return "[" + strings.Join(out, ";\n     ") + "]"
	}
	var mss []string
	for _, m := range ms {
		mss = append(mss, "mkManifest "+hx.CoqBytes(m.ids.Root)+"\n    "+decls(m.ids.Inputs)+"\n    "+decls(m.ids.Deps))
	}
	return "CRegM [" + strings.Join(init, ";\n   ") + "]\n  [" + strings.Join(mss, ";\n   ") + "]\n  " + fmt.Sprint(g.Exit) + "\n  [" + strings.Join(obs, ";\n   ") + "]"
}
