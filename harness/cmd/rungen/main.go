// rungen: runs the REAL v2 generator once (utils.TypeRegistry is a process-global, so one run per process).
//
//	rungen --out <dir> --manifest <input manifest.json> [--dep <dependency manifest.json>]... [--with-package-root]
//
//	rungen --registry-only ...   runs only cmd.RegisterManifests (registration + TypeRegistry.Finalize), writes nothing
//
// Prints exactly one JSON line on stdout: {"status":"ok"|"error"|"panic","detail":"...","registry":[...]}
// and exits 0 (ok), 1 (the generator returned an error), 2 (it panicked), 3 (usage / unreadable manifest).
// "registry": every registered type of every known package root (the manifests' roots and the two built-in roots) with
// its package root and its ReferencedTypes() as the REAL code computes them, and - when the run succeeded - the package
// path and type name the real registry assigned (Identifier.PackagePath / TypeName).
package main

import (
	"encoding/json"
	"flag"
	"fmt"
	"io"
	"log"
	"os"
	"sort"

	"github.com/PapaCharlie/go-restli/v2/cmd"
	"github.com/PapaCharlie/go-restli/v2/codegen/utils"
)

type multi []string

func (m *multi) String() string     { return fmt.Sprint(*m) }
func (m *multi) Set(s string) error { *m = append(*m, s); return nil }

type regEntry struct {
	Name      string   `json:"name"`
	Namespace string   `json:"namespace"`
	Root      string   `json:"root"`
	Refs      []string `json:"refs"` // ReferencedTypes() as "namespace name", sorted
	Package   string   `json:"package,omitempty"`
	TypeName  string   `json:"typeName,omitempty"`
}

type result struct {
	Status   string     `json:"status"`
	Detail   string     `json:"detail,omitempty"`
	Registry []regEntry `json:"registry,omitempty"`
	// what the process-global registry held BEFORE the manifests were registered (the generator's native types)
	Initial []regEntry `json:"initial,omitempty"`
}

func emit(r result, code int) {
	b, _ := json.Marshal(r)
	fmt.Println(string(b))
	os.Exit(code)
}

func main() {
	var deps multi
	out := flag.String("out", "", "output directory")
	man := flag.String("manifest", "", "input manifest")
	withRoot := flag.Bool("with-package-root", false, "generateWithPackageRoot")
	verbose := flag.Bool("v", false, "keep the generator's log output on stderr")
	regOnly := flag.Bool("registry-only", false, "only register the manifests and finalize the registry")
	flag.Var(&deps, "dep", "dependency manifest (repeatable, registered first)")
	flag.Parse()
	if (*out == "" && !*regOnly) || *man == "" {
		emit(result{Status: "usage"}, 3)
	}
	if !*verbose {
		log.SetOutput(io.Discard)
	}
	var manifests []*cmd.GoRestliManifest
	for _, p := range append(append([]string{}, deps...), *man) {
		b, err := os.ReadFile(p)
		if err != nil {
			emit(result{Status: "unreadable", Detail: err.Error()}, 3)
		}
		m, err := cmd.ReadManifest(b)
		if err != nil {
			emit(result{Status: "error", Detail: "ReadManifest: " + err.Error()}, 1)
		}
		manifests = append(manifests, m)
	}
	roots := []string{utils.RootPackage, utils.RestLiDataPackage + "/generated"}
	for _, m := range manifests {
		roots = append(roots, m.PackageRoot)
	}
	dump := func(ok bool) (l []regEntry) {
		defer func() { recover() }()
		seen := map[string]bool{}
		for _, root := range roots {
			if seen[root] {
				continue
			}
			seen[root] = true
			for id := range utils.TypeRegistry.TypesInPackageRoot(root) {
				e := regEntry{Name: id.Name, Namespace: id.Namespace, Root: root, Refs: []string{}}
				for r := range id.Resolve().ReferencedTypes() {
					e.Refs = append(e.Refs, r.Namespace+" "+r.Name)
				}
				sort.Strings(e.Refs)
				if ok {
					e.Package, e.TypeName = id.PackagePath(), id.TypeName()
				}
				l = append(l, e)
			}
		}
		sort.Slice(l, func(i, j int) bool {
			if l[i].Root != l[j].Root {
				return l[i].Root < l[j].Root
			}
			return l[i].Namespace+"."+l[i].Name < l[j].Namespace+"."+l[j].Name
		})
		return l
	}
	initial := dump(false)
	func() {
		defer func() {
			if e := recover(); e != nil {
				emit(result{Status: "panic", Detail: fmt.Sprint(e), Registry: dump(false), Initial: initial}, 2)
			}
		}()
		var err error
		if *regOnly {
			err = cmd.RegisterManifests(manifests)
		} else {
			err = cmd.GenerateCode(*out, manifests, *withRoot)
		}
		if err != nil {
			emit(result{Status: "error", Detail: err.Error(), Registry: dump(false), Initial: initial}, 1)
		}
	}()
	emit(result{Status: "ok", Registry: dump(true), Initial: initial}, 0)
}
