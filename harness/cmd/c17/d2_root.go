package main

// The root module's d2 package behind the driver's d2Module interface (through the verif-tagged exports of
// /repo/root/d2/export_verif.go).  d2_root.go is this file for the root module (generated with the sed command in
// checks/c17.py).

import (
	"net/url"

	d2 "github.com/PapaCharlie/go-restli/d2"
)

func rootd2new(service, cluster string, schemes []string) *d2Inst {
	c := d2.NewOfflineClient(
		map[string]*d2.Service{service: {ServiceName: service, ClusterName: cluster, PrioritizedSchemes: schemes}},
		map[string]*d2.ServiceUris{cluster: d2.NewServiceUris(d2.UrisPath(cluster), map[string]*d2.Uri{})})
	return &d2Inst{
		urisPath: d2.UrisPath(cluster),
		apply: func(path string, data *[]byte) {
			c.ApplyUriEvent(cluster, d2.TreeCacheEvent{Path: path, Data: data})
		},
		current: func() interface{} { return c.CurrentUris(cluster) },
		inspect: func(w interface{}) map[string]map[string]float64 {
			out := map[string]map[string]float64{}
			for k, ws := range w.(*d2.ServiceUris).Inspect() {
				hm := map[string]float64{}
				for u, x := range ws {
					hm[u.String()] = x
				}
				out[k] = hm
			}
			return out
		},
		choose:   func(w interface{}, schemes []string) *url.URL { return w.(*d2.ServiceUris).ChooseHost(schemes) },
		resolve:  func(name string) (*url.URL, error) { return c.ResolveHostnameAndContextForQuery(name, nil) },
		resolver: c,
	}
}

var d2Root = d2Module{name: "root", new: rootd2new}
