package main

// FRESH-STATE BURSTS: the first uses of newly constructed shared objects, made by N goroutines at once.
//
// What the storm scenarios of main.go cannot see is a shared object that completes its own initialisation on first use (a
// lazily built index or cache, a memoised lookup table): their serial phase is the first user, alone, and afterwards the
// object is only read.  Here a child process serves NOTHING serially before the burst:
//
//	round     every round constructs its shared objects anew through the public API (mod.build / dm.new: NewServer, Register*,
//	          Handler(), the RequiredFields and PathSpec objects of the driver's records, the resource's shared values, a
//	          restli.Client with its http.Client and resolver, a d2 client with its snapshot);
//	phase     a round is a sequence of phases; in a phase N goroutines are parked on ONE barrier (a channel that is closed)
//	          and then each sends one request.  In a LEAD phase all N send the same template / client operation (their first
//	          decodes of the same record types overlap); in a MIXED phase each goroutine sends its own;
//	round 0   of a child sweeps over every template / operation with one lead phase each (in a seeded order): it is the first
//	          use, in the life of the process, of go-restli's package-level objects too (MethodNameMapping, the RequiredFields
//	          of the envelope records, the typeref registry);
//	answers   every request is valid input with a known answer: the answer the SERIAL child process (scenario expect) gave
//	          to the same template, read from a file before anything of go-restli is touched.  Any other answer - a spurious
//	          4xx / 5xx above all - is a failing input (burst:wrong-answer:...);
//	crashes   the parent treats a child that dies as a failing input (main.go classifyCrash); the round / phase markers the
//	          child writes to stderr name the requests that were in flight.
//
// burst-d2 is runD2 (which constructs its client and starts without any serial resolution) over many short rounds.  The
// typeref scenario of typeref.go already is a fresh-state burst (the registry is per process; lookups of a type start with
// its registration, from several goroutines, without a serial warm-up).

import (
	"encoding/json"
	"fmt"
	"net/http"
	"os"
	"strings"
	"sync"

	"verif/harness/hx"
)

type burstAnswer struct {
	name, id, got string
}

func loadExpect(path string) map[string]string {
	m := map[string]string{}
	if path == "" {
		return m
	}
	b, err := os.ReadFile(path)
	if err == nil {
		err = json.Unmarshal(b, &m)
	}
	if err != nil {
		fmt.Fprintln(os.Stderr, "cannot read the serial answers:", err)
		os.Exit(3)
	}
	return m
}

// marks the phase on stderr, where the race detector and the runtime write too: a report or a crash is attributed to the
// last marker before it
func marker(round, phase int, what string) {
	fmt.Fprintf(os.Stderr, "C17-PHASE round=%d phase=%d %s\n", round, phase, what)
}

// one phase: n goroutines parked on one barrier, then one operation each (op(g) prepares what it can and returns the part
// that runs after the barrier)
func burstPhase(n int, op func(g int) func() burstAnswer, extra func()) []burstAnswer {
	answers := make([]burstAnswer, n)
	start := make(chan struct{})
	var wg, ready sync.WaitGroup
	for g := 0; g < n; g++ {
		wg.Add(1)
		ready.Add(1)
		go func(g int) {
			defer wg.Done()
			run := op(g)
			ready.Done()
			<-start
			answers[g] = run()
		}(g)
	}
	ready.Wait()
	if extra != nil {
		wg.Add(1)
		go func() {
			defer wg.Done()
			<-start
			extra()
		}()
	}
	close(start)
	wg.Wait()
	return answers
}

type burstRun struct {
	out    *childOut
	tag    string // server:v2 ...
	prefix string // key prefix in the serial answers: "server:" / "client:"
	expect map[string]string
	cc     childCfg
}

func (b *burstRun) check(round, phase int, lead string, answers []burstAnswer, describe func(a burstAnswer) string) {
	for g, a := range answers {
		b.out.Kinds[b.prefix+a.name]++
		b.out.Ops++
		want, ok := b.expect[b.prefix+a.name]
		if !ok || a.got == want {
			continue
		}
		if len(b.out.Mismatches) < 40 {
			how := "each goroutine its own request"
			if lead != "" {
				how = fmt.Sprintf("all %d goroutines sent %q at once", len(answers), lead)
			}
			b.out.Mismatches = append(b.out.Mismatches, newMismatch(b.tag, "burst:wrong-answer", a.name, want, a.got,
				fmt.Sprintf("round %d (objects constructed for this round, nothing served before the burst), phase %d (%s), goroutine %d: %s",
					round, phase, how, g, describe(a))))
		}
	}
}

func isWide(name string) bool { return strings.Contains(name, "wide-") }

func shuffled[T any](r *hx.Rand, l []T) []T {
	out := append([]T{}, l...)
	for i := len(out) - 1; i > 0; i-- {
		j := r.Intn(i + 1)
		out[i], out[j] = out[j], out[i]
	}
	return out
}

// ------------------------------------------------------------------------------------------------ burst-server

func runBurstServer(cc childCfg, mod srvModule) childOut {
	out := childOut{Kinds: map[string]int{}}
	b := &burstRun{out: &out, tag: "server:" + mod.name, prefix: "server:", expect: loadExpect(cc.Expect), cc: cc}
	r := hx.NewRand(cc.Seed*9176 + 11)
	var wide []tmpl
	byName := map[string]tmpl{}
	for _, t := range templates {
		byName[t.Name] = t
		if isWide(t.Name) {
			wide = append(wide, t)
		}
	}
	describe := func(a burstAnswer) string {
		t := byName[a.name]
		return fmt.Sprintf("template %s = %s %s?%s method-header=%q tunnelled=%v body=%s with {id} = %s", t.Name, t.Verb, t.Path, clipN(t.Query, 120),
			t.Method, t.Tunnel, clipN(t.Body, 120), a.id)
	}
	var inst *srvInst
	for round := 0; round < cc.Rounds; round++ {
		inst = mod.build() // new server, Handler() copy, shared values, RequiredFields / PathSpec objects: nothing has used them yet
		var leads []tmpl
		mixed := 0
		if round == 0 {
			leads = shuffled(r, templates)
		} else {
			leads, mixed = []tmpl{wide[(int(cc.Seed)+round)%len(wide)]}, 1
			if round%3 == 0 {
				leads = append(leads, templates[r.Intn(len(templates))])
			}
		}
		phase := 0
		for _, t := range leads {
			t := t
			marker(round, phase, fmt.Sprintf("lead %s = %s %s?%s method-header=%q body=%s", t.Name, t.Verb, t.Path, clipN(t.Query, 60), t.Method, clipN(t.Body, 60)))
			var late func()
			if phase == 0 {
				late = func() { // registrations on the live server while its new Handler() copy serves its first requests
					for i := 0; i < 3; i++ {
						inst.late(i)
						yield(1)
					}
				}
			}
			answers := burstPhase(cc.Goroutines, func(g int) func() burstAnswer { return prepared(inst, t, reqID(g, round*100+phase)) }, late)
			b.check(round, phase, t.Name, answers, describe)
			phase++
		}
		for m := 0; m < mixed; m++ {
			pick := make([]tmpl, cc.Goroutines)
			names := []string{}
			for g := range pick {
				pick[g] = templates[r.Intn(len(templates))]
				names = append(names, pick[g].Name)
			}
			marker(round, phase, "mixed "+strings.Join(names, ","))
			answers := burstPhase(cc.Goroutines, func(g int) func() burstAnswer { return prepared(inst, pick[g], reqID(g, round*100+phase)) }, nil)
			b.check(round, phase, "", answers, describe)
			phase++
		}
	}
	// after the bursts the last handler answers every template as the serial process did
	marker(cc.Rounds, 0, "serial after the bursts")
	for _, t := range templates {
		if want, ok := b.expect["server:"+t.Name]; ok {
			if got := t.run(inst, idAfter); got != want {
				out.mismatch(b.tag, "burst:wrong-answer-after-the-bursts", t.Name, want, got)
			}
		}
	}
	for k, e := range b.expect {
		if strings.HasPrefix(k, "server:") && strings.HasPrefix(e, "2") {
			out.Nontrivial = append(out.Nontrivial, fmt.Sprintf("burst-%s:%s:procs%d", b.tag, k[len("server:"):], cc.Procs))
		}
	}
	out.Samples = append(out.Samples, fmt.Sprintf("burst-server:%s %d rounds x %d goroutines on fresh objects, wide-action => %s", mod.name, cc.Rounds, cc.Goroutines,
		strings.ReplaceAll(clipN(b.expect["server:wide-action"], 160), "\n", " | ")))
	return out
}

// the request is built before the barrier; what runs after it is ServeHTTP alone
func prepared(inst *srvInst, t tmpl, id string) func() burstAnswer {
	req, bad := t.prepare(inst, id)
	return func() burstAnswer {
		if req == nil {
			return burstAnswer{t.Name, id, bad}
		}
		return burstAnswer{t.Name, id, serve(inst, req, id)}
	}
}

func clipN(s string, n int) string {
	if len(s) > n {
		return s[:n] + "..."
	}
	return s
}

// ------------------------------------------------------------------------------------------------ burst-client

type clientOp struct{ kind, op string } // kind: a client kind (a call through that client), built / built-shared (build, then send)

func (o clientOp) name() string { return o.kind + ":" + o.op }

func newClients(inst *srvInst, d *d2Inst) map[string]*clientFns {
	out := map[string]*clientFns{}
	for _, kind := range clientKinds {
		var resolver interface{}
		if kind == "d2" {
			resolver = d.resolver
		}
		out[kind] = inst.client(handlerTransport{inst.handler}, resolver, 200, newClientCfg(kind))
	}
	return out
}

func announce(d *d2Inst, node string, hosts map[string]float64) {
	b, _ := json.Marshal(map[string]interface{}{"weights": hosts})
	d.apply(d.urisPath+"/"+node, &b)
}

func runBurstClient(cc childCfg, mod srvModule, dm d2Module) childOut {
	out := childOut{Kinds: map[string]int{}}
	b := &burstRun{out: &out, tag: "client:" + mod.name, prefix: "client:", expect: loadExpect(cc.Expect), cc: cc}
	r := hx.NewRand(cc.Seed*5527 + 3)
	var all, wide []clientOp
	for _, kind := range clientKinds {
		for _, op := range opsFor[kind] {
			all = append(all, clientOp{kind, op})
			if isWide(op) {
				wide = append(wide, clientOp{kind, op})
			}
		}
	}
	for _, bk := range builtKindNames {
		for _, op := range buildOps {
			all = append(all, clientOp{bk, op})
		}
	}
	describe := func(a burstAnswer) string {
		return "client operation " + a.name + " (srv_*.go: call / buildReq) with {id} = " + a.id
	}
	for round := 0; round < cc.Rounds; round++ {
		inst := mod.build()
		d := dm.new("items", "clusterA", []string{"https", "http"})
		announce(d, "n1", map[string]float64{"http://h1.test:80/": 1, "http://h2.test:80/": 2})
		clients := newClients(inst, d) // one restli.Client (http.Client, resolver) per kind, shared by all goroutines of the round
		do := func(o clientOp, id string) burstAnswer {
			if ck, ok := builtKinds[o.kind]; ok {
				var req *http.Request
				req, e := buildSend(clients[ck], o.op, id)
				if req != nil {
					e = clients[ck].send(req)
				}
				return burstAnswer{o.name(), id, canon(e, id)}
			}
			return burstAnswer{o.name(), id, canon(clients[o.kind].call(o.op, id), id)}
		}
		var leads []clientOp
		mixed := 0
		if round == 0 {
			leads = shuffled(r, all)
		} else {
			leads, mixed = []clientOp{wide[(int(cc.Seed)+round)%len(wide)]}, 1
			if round%3 == 0 {
				leads = append(leads, all[r.Intn(len(all))])
			}
		}
		phase := 0
		for _, o := range leads {
			o := o
			marker(round, phase, "lead "+o.name())
			var feeder func()
			if o.kind == "d2" { // URI events for the cluster while the first resolutions through the new d2 client are made
				feeder = func() {
					for i := 0; i < 3; i++ {
						announce(d, fmt.Sprintf("n%d", 2+i), map[string]float64{fmt.Sprintf("http://h%d.test:80/", 3+i): float64(1 + i)})
						yield(1)
					}
				}
			}
			answers := burstPhase(cc.Goroutines, func(g int) func() burstAnswer {
				id := reqID(g, round*100+phase)
				return func() burstAnswer { return do(o, id) }
			}, feeder)
			b.check(round, phase, o.name(), answers, describe)
			phase++
		}
		for m := 0; m < mixed; m++ {
			pick := make([]clientOp, cc.Goroutines)
			names := []string{}
			for g := range pick {
				pick[g] = all[r.Intn(len(all))]
				names = append(names, pick[g].name())
			}
			marker(round, phase, "mixed "+strings.Join(names, ","))
			answers := burstPhase(cc.Goroutines, func(g int) func() burstAnswer {
				id := reqID(g, round*100+phase)
				return func() burstAnswer { return do(pick[g], id) }
			}, nil)
			b.check(round, phase, "", answers, describe)
			phase++
		}
	}
	for k, e := range b.expect {
		if strings.HasPrefix(k, "client:") && (strings.Contains(e, " ok |") || strings.HasPrefix(e, "ok |") || (strings.HasPrefix(k, "client:built:") && strings.HasPrefix(e, "2"))) {
			out.Nontrivial = append(out.Nontrivial, fmt.Sprintf("burst-%s:%s:procs%d", b.tag, k[len("client:"):], cc.Procs))
		}
	}
	out.Samples = append(out.Samples, fmt.Sprintf("burst-client:%s %d rounds x %d goroutines on fresh objects, simple:wide-get => %s", mod.name, cc.Rounds, cc.Goroutines,
		clipN(b.expect["client:simple:wide-get"], 160)))
	return out
}

// ------------------------------------------------------------------------------------------------ burst-d2

// runD2 constructs its d2 client and snapshot and performs no resolution before its goroutines are released: many short
// runs are many first uses of new clients and snapshots
func runBurstD2(cc childCfg, dm d2Module) childOut {
	out := childOut{Kinds: map[string]int{}}
	for round := 0; round < cc.Rounds; round++ {
		marker(round, 0, "d2 resolve / chooseHost / URI events on a new client")
		c := cc
		c.Per, c.Seed = cc.Per, cc.Seed*131+uint64(round)
		o := runD2(c, dm)
		out.Ops += o.Ops
		for k, n := range o.Kinds {
			out.Kinds[k] += n
		}
		for _, m := range o.Mismatches {
			if len(out.Mismatches) < 40 {
				m.Request = fmt.Sprintf("round %d of a fresh-state burst (seed of the round %d)", round, c.Seed)
				out.Mismatches = append(out.Mismatches, m)
			}
		}
	}
	out.Nontrivial = append(out.Nontrivial, fmt.Sprintf("burst-d2:%s:procs%d", dm.name, cc.Procs))
	out.Samples = append(out.Samples, fmt.Sprintf("burst-d2:%s %d rounds x %d goroutines, each round on a new d2 client and snapshot", dm.name, cc.Rounds, cc.Goroutines))
	return out
}

// ------------------------------------------------------------------------------------------------ expect

// the serial child process: every template and every client operation, alone, on objects nothing else uses
func runExpect(cc childCfg, mod srvModule, dm d2Module) childOut {
	out := childOut{Kinds: map[string]int{}, Expect: map[string]string{}}
	inst := mod.build()
	for k, v := range serialServer(inst, &out, "expect:"+mod.name) {
		out.Expect["server:"+k] = v
	}
	d := dm.new("items", "clusterA", []string{"https", "http"})
	announce(d, "n1", map[string]float64{"http://h1.test:80/": 1, "http://h2.test:80/": 2})
	// a brand-new client (restli.Client, http.Client, resolver, header configuration) for every single request
	for k, v := range serialClient(func() map[string]*clientFns { return newClients(inst, d) }, &out, "expect:"+mod.name) {
		out.Expect["client:"+k] = v
	}
	out.Ops = 2 * len(out.Expect)
	out.Kinds["expect:serial-answer"] = out.Ops
	return out
}
