package main

// Scenario history-typeref: HISTORIES on the process-wide custom typeref registry of v2/restlicodec (the root module has no
// such registry), every step under a DEADLINE.
//
// Steps: register a new type; register it again (must panic, the first registration stays); look a registered type up
// (marshal, unmarshal, hash, equals through the registry: a hit); look an unregistered type up (a miss: the documented
// failure is a panic, recovered here as the library's own server recovers it); the same two through a real server (an
// action whose result is a custom typeref value: 200 with the value / the 500 the server makes of the panic).  What every step
// must give follows from the API's contract and the steps before it (the set of registered types) - nothing is taken from a
// warm run.  Sequential histories first (a fixed one that has every step kind after every other, then seeded random ones),
// then concurrent phases (N goroutines looking up - hits and misses, direct and through the server - while one goroutine
// registers new types), then a sequential tail.
//
// A step (or a concurrent phase) that has not finished within its deadline (stepDeadline: generous, a step takes
// microseconds) is reported as a HANG with the history and the index of the stuck step, and the child exits: its goroutine
// cannot be cancelled.  No data race is involved in that kind of failure; the race detector has nothing to say.

import (
	"fmt"
	"net/http"
	"net/http/httptest"
	"strings"
	"sync"
	"sync/atomic"
	"time"

	restli "github.com/PapaCharlie/go-restli/v2/restli"
	"github.com/PapaCharlie/go-restli/v2/restlicodec"
	common "github.com/PapaCharlie/go-restli/v2/restlidata/generated/com/linkedin/restli/common"

	"verif/harness/hx"
)

const stepDeadline = 25 * time.Second

// distinct Go types to register: trH[marker]
type trH[K any] struct{ v int32 }

type (
	trM0  struct{}
	trM1  struct{}
	trM2  struct{}
	trM3  struct{}
	trM4  struct{}
	trM5  struct{}
	trM6  struct{}
	trM7  struct{}
	trM8  struct{}
	trM9  struct{}
	trM10 struct{}
	trM11 struct{}
	trM12 struct{}
	trM13 struct{}
	trM14 struct{}
	trM15 struct{}
	trM16 struct{}
	trM17 struct{}
	trM18 struct{}
	trM19 struct{}
	trM20 struct{}
	trM21 struct{}
	trM22 struct{}
	trM23 struct{}
	trM24 struct{}
	trM25 struct{}
	trM26 struct{}
	trM27 struct{}
)

type trHType struct {
	name     string
	salt     int32
	register func() bool        // true: it panicked
	round    func(int32) string // marshal / unmarshal / hash / equals through the registry; "panic" when the lookup panics
	action   string             // the action of the server whose result is a value of this type
}

func trHMk[K any](i int, srv restli.Server) trHType {
	salt := int32(100 + i)
	mk, get := func(v int32) trH[K] { return trH[K]{v} }, func(t trH[K]) int32 { return t.v }
	t := trHType{name: fmt.Sprintf("T%d", i), salt: salt, action: fmt.Sprintf("echo%d", i)}
	t.register = func() bool { return trRegister(mk, get, salt) }
	t.round = func(x int32) string { return trRoundTrip(mk, get, x) }
	restli.RegisterActionWithResults(srv, v2segs("tr-"), t.action, restlicodec.MarshalRestLi[trH[K]],
		func(_ *restli.RequestContext, _ *v2rp, _ common.EmptyRecord) (trH[K], error) { return trH[K]{41}, nil })
	return t
}

type trStep struct {
	Kind string `json:"kind"` // register / register-again / hit / miss / server-hit / server-miss
	Type string `json:"type"`
}

type hang struct {
	Scenario string      `json:"scenario"`
	Kind     string      `json:"kind"`
	Index    int         `json:"index"`
	History  interface{} `json:"history"`
	What     string      `json:"what"`
}

func runHistoryTyperef(cc childCfg, finish func(childOut)) childOut {
	out := childOut{Kinds: map[string]int{}}
	srv := restli.NewServer()
	types := []trHType{
		trHMk[trM0](0, srv), trHMk[trM1](1, srv), trHMk[trM2](2, srv), trHMk[trM3](3, srv), trHMk[trM4](4, srv), trHMk[trM5](5, srv), trHMk[trM6](6, srv),
		trHMk[trM7](7, srv), trHMk[trM8](8, srv), trHMk[trM9](9, srv), trHMk[trM10](10, srv), trHMk[trM11](11, srv), trHMk[trM12](12, srv),
		trHMk[trM13](13, srv), trHMk[trM14](14, srv), trHMk[trM15](15, srv), trHMk[trM16](16, srv), trHMk[trM17](17, srv), trHMk[trM18](18, srv),
		trHMk[trM19](19, srv), trHMk[trM20](20, srv), trHMk[trM21](21, srv), trHMk[trM22](22, srv), trHMk[trM23](23, srv), trHMk[trM24](24, srv),
		trHMk[trM25](25, srv), trHMk[trM26](26, srv), trHMk[trM27](27, srv),
	}
	never := types[24:] // never registered: what a miss looks up
	types = types[:24]
	handler := srv.Handler()
	serve := func(t trHType) string {
		req := httptest.NewRequest(http.MethodPost, "http://server.test/tr?action="+t.action, nil)
		req.Header.Set(restli.MethodHeader, "action")
		rec := httptest.NewRecorder()
		handler.ServeHTTP(rec, req)
		body := rec.Body.String()
		if rec.Code >= 500 { // the text of the error names the Go type; what matters is which failure it is
			if strings.Contains(body, "Unregistered custom typeref") {
				body = "Unregistered custom typeref"
			} else {
				body = clipN(body, 200)
			}
		}
		return fmt.Sprintf("%d %s", rec.Code, body)
	}
	var registered []trHType // in order of registration
	next := 0
	r := hx.NewRand(cc.Seed*7717 + 1)
	// one step: what it does and what the contract says it gives
	perform := func(kind string, t trHType, x int32) (got, want string) {
		switch kind {
		case "register":
			return fmt.Sprint("panicked=", t.register()), "panicked=false"
		case "register-again":
			return fmt.Sprint("panicked=", t.register()), "panicked=true"
		case "hit":
			return t.round(x), fmt.Sprintf("%d>%d eq=true hash=true", x+t.salt, x)
		case "miss":
			return t.round(x), "panic"
		case "server-hit":
			return serve(t), fmt.Sprintf(`200 {"value":%d}`, 41+t.salt)
		case "server-miss":
			return serve(t), "500 Unregistered custom typeref"
		}
		panic("unknown step " + kind)
	}
	var history []trStep
	// a step of a sequential history, under the deadline
	step := func(kind string) {
		var t trHType
		if kind == "register" && next >= len(types)-8 { // new types are rationed (the concurrent phases need some)
			kind = "hit"
		}
		switch kind {
		case "register":
			t = types[next]
			next++
		case "miss", "server-miss":
			t = never[r.Intn(len(never))]
		default:
			if len(registered) == 0 {
				return
			}
			t = registered[r.Intn(len(registered))]
		}
		history = append(history, trStep{kind, t.name})
		idx := len(history) - 1
		type res struct{ got, want string }
		done := make(chan res, 1)
		x := int32(r.Intn(1000))
		go func() {
			g, w := perform(kind, t, x)
			done <- res{g, w}
		}()
		select {
		case rs := <-done:
			out.Ops++
			out.Kinds["typeref-history:"+kind]++
			if rs.got != rs.want {
				out.Mismatches = append(out.Mismatches, newMismatch("history-typeref", "registry-step-against-the-contract", kind, rs.want, rs.got,
					fmt.Sprintf("sequential history %v; step %d (%s %s)", history, idx, kind, t.name)))
			}
			if kind == "register" {
				registered = append(registered, t)
			}
		case <-time.After(stepDeadline):
			out.Hangs = append(out.Hangs, hang{Scenario: "history-typeref", Kind: kind, Index: idx, History: history,
				What: fmt.Sprintf("step %d (%s %s) of a SEQUENTIAL history on the custom typeref registry had not finished after %v (it takes microseconds)", idx, kind, t.name, stepDeadline)})
			finish(out) // does not return
		}
	}
	kinds := []string{"register", "register-again", "hit", "miss", "server-hit", "server-miss"}
	// the fixed history: every kind of step directly after every other one (and after itself)
	step("register")
	for _, a := range kinds {
		for _, b := range kinds {
			step(a)
			step(b)
		}
	}
	for i := 0; i < cc.Per; i++ { // seeded random history
		step(kinds[r.Intn(len(kinds))])
	}
	// concurrent phases: lookups of types whose status does not change in the phase, while one goroutine registers new ones
	for phase := 0; phase < 3 && next+2 <= len(types); phase++ {
		fresh := types[next : next+2]
		next += 2
		known := append([]trHType{}, registered...)
		current := make([]atomic.Value, cc.Goroutines+1)
		var mu sync.Mutex
		var wg sync.WaitGroup
		start := make(chan struct{})
		note := func(kind, want, got, where string) {
			mu.Lock()
			if len(out.Mismatches) < 40 {
				out.Mismatches = append(out.Mismatches, newMismatch("history-typeref", "registry-step-against-the-contract", kind, want, got, where))
			}
			mu.Unlock()
		}
		for g := 0; g < cc.Goroutines; g++ {
			wg.Add(1)
			rg := r.Fork()
			go func(g int) {
				defer wg.Done()
				<-start
				for i := 0; i < 12; i++ {
					kind := []string{"hit", "miss", "server-hit", "server-miss"}[rg.Intn(4)]
					t := known[rg.Intn(len(known))]
					if strings.HasSuffix(kind, "miss") {
						t = never[rg.Intn(len(never))]
					}
					current[g].Store(fmt.Sprintf("goroutine %d step %d: %s %s", g, i, kind, t.name))
					if got, want := perform(kind, t, int32(g*100+i)); got != want {
						note(kind, want, got, fmt.Sprintf("concurrent phase %d, goroutine %d step %d (%s %s) while another goroutine registers %s, %s", phase, g, i, kind, t.name, fresh[0].name, fresh[1].name))
					}
				}
				current[g].Store("finished")
			}(g)
		}
		wg.Add(1)
		go func() {
			defer wg.Done()
			<-start
			for i, t := range fresh {
				current[cc.Goroutines].Store(fmt.Sprintf("registering goroutine step %d: register %s", i, t.name))
				yield(2)
				if got, want := perform("register", t, 0); got != want {
					note("register", want, got, fmt.Sprintf("concurrent phase %d: register %s while %d goroutines look types up", phase, t.name, cc.Goroutines))
				}
			}
			current[cc.Goroutines].Store("finished")
		}()
		done := make(chan struct{})
		go func() { wg.Wait(); close(done) }()
		close(start)
		select {
		case <-done:
			out.Ops += cc.Goroutines*12 + 2
			out.Kinds["typeref-history:concurrent-lookup"] += cc.Goroutines * 12
			out.Kinds["typeref-history:concurrent-register"] += 2
			registered = append(registered, fresh...)
		case <-time.After(stepDeadline + 10*time.Second):
			stuck := []string{}
			for i := range current {
				if s, _ := current[i].Load().(string); s != "finished" {
					stuck = append(stuck, s)
				}
			}
			out.Hangs = append(out.Hangs, hang{Scenario: "history-typeref", Kind: "concurrent", Index: phase,
				History: map[string]interface{}{"sequential_history_before": history, "stuck": stuck},
				What: fmt.Sprintf("concurrent phase %d (%d goroutines x 12 lookups while one goroutine registers 2 types) had not finished after %v; stuck: %s", phase,
					cc.Goroutines, stepDeadline+10*time.Second, strings.Join(stuck, " | "))})
			finish(out)
		}
		step("hit")
		step("server-hit")
	}
	for i := 0; i < 12; i++ { // the tail: everything still answers
		step(kinds[2+r.Intn(4)])
	}
	out.Nontrivial = append(out.Nontrivial, fmt.Sprintf("history-typeref:procs%d:registered%d", cc.Procs, len(registered)/4))
	out.Samples = append(out.Samples, fmt.Sprintf("history-typeref: %d steps in sequential histories, %d types registered, first steps %v", len(history), len(registered), history[:8]))
	return out
}
