package main

// Scenario (d): the custom-typeref registry of v2/restlicodec (the root module has none).  Distinct Go types are
// registered from different goroutines while other goroutines look up, marshal and unmarshal types registered earlier;
// one type is registered from two goroutines at once: exactly one of them must win, the other must panic.

import (
	"fmt"
	"io"
	"log"
	"strconv"
	"sync"

	"github.com/PapaCharlie/go-restli/v2/fnv1a"
	"github.com/PapaCharlie/go-restli/v2/restlicodec"
)

type trPre struct{ v int32 }
type trDup struct{ v int32 }
type trA struct{ v int32 }
type trB struct{ v int32 }
type trC struct{ v int32 }
type trD struct{ v int32 }
type trE struct{ v int32 }
type trF struct{ v int32 }

func trRegister[T any](mk func(int32) T, get func(T) int32, salt int32) (panicked bool) {
	defer func() {
		if recover() != nil {
			panicked = true
		}
	}()
	restlicodec.RegisterCustomTyperef(
		func(t T) (int32, error) { return get(t) + salt, nil },
		func(p int32) (T, error) { return mk(p - salt), nil },
		func(t T) fnv1a.Hash { return fnv1a.HashInt32(get(t)) },
		func(a, b T) bool { return get(a) == get(b) })
	return false
}

// marshal through the registry, unmarshal through the registry: "text>value"
func trRoundTrip[T any](mk func(int32) T, get func(T) int32, x int32) (out string) {
	defer func() {
		if r := recover(); r != nil {
			out = "panic"
		}
	}()
	w := restlicodec.NewCompactJsonWriter()
	if err := restlicodec.CustomTyperefMarshaler[T]()(mk(x), w); err != nil {
		return "marshal-error"
	}
	text := w.Finalize()
	r, err := restlicodec.NewJsonReader([]byte(text))
	if err != nil {
		return text + ">reader-error"
	}
	v, err := restlicodec.CustomTyperefUnmarshaler[T]()(r)
	if err != nil {
		return text + ">unmarshal-error"
	}
	eq := restlicodec.CustomTyperefEquals[T]()(v, mk(x))
	hs := restlicodec.CustomTyperefHasher[T]()(v).Equals(restlicodec.CustomTyperefHasher[T]()(mk(x)))
	return text + ">" + strconv.Itoa(int(get(v))) + fmt.Sprintf(" eq=%v hash=%v", eq, hs)
}

type trKind struct {
	name     string
	register func() bool
	round    func(x int32) string
	salt     int32
}

func trMk[T any](name string, mk func(int32) T, get func(T) int32, salt int32) trKind {
	return trKind{name, func() bool { return trRegister(mk, get, salt) }, func(x int32) string { return trRoundTrip(mk, get, x) }, salt}
}

// runs in a child process (the registry is process-global)
func runTyperef(cc childCfg) childOut {
	log.SetOutput(io.Discard)
	out := childOut{}
	pre := trMk("pre", func(v int32) trPre { return trPre{v} }, func(t trPre) int32 { return t.v }, 1000)
	dup := trMk("dup", func(v int32) trDup { return trDup{v} }, func(t trDup) int32 { return t.v }, 7)
	fresh := []trKind{
		trMk("a", func(v int32) trA { return trA{v} }, func(t trA) int32 { return t.v }, 1),
		trMk("b", func(v int32) trB { return trB{v} }, func(t trB) int32 { return t.v }, 2),
		trMk("c", func(v int32) trC { return trC{v} }, func(t trC) int32 { return t.v }, 3),
		trMk("d", func(v int32) trD { return trD{v} }, func(t trD) int32 { return t.v }, 4),
		trMk("e", func(v int32) trE { return trE{v} }, func(t trE) int32 { return t.v }, 5),
		trMk("f", func(v int32) trF { return trF{v} }, func(t trF) int32 { return t.v }, 6),
	}
	if pre.register() {
		out.mismatch("typeref", "first-registration-panicked", "pre", "", "")
	}
	expect := func(k trKind, x int32) string { return fmt.Sprintf("%d>%d eq=true hash=true", x+k.salt, x) }
	var wg sync.WaitGroup
	var mu sync.Mutex
	note := func(name, what, want, got string) {
		mu.Lock()
		out.mismatch("typeref", what, name, want, got)
		mu.Unlock()
	}
	start := make(chan struct{})
	dupPanics := make([]bool, 2)
	for d := 0; d < 2; d++ {
		wg.Add(1)
		go func(d int) { defer wg.Done(); <-start; dupPanics[d] = dup.register() }(d)
	}
	for _, k := range fresh {
		wg.Add(1)
		go func(k trKind) {
			defer wg.Done()
			<-start
			if k.register() {
				note(k.name, "registration-panicked", "", "")
			}
			for x := int32(0); x < int32(cc.Per); x++ {
				if got := k.round(x); got != expect(k, x) {
					note(k.name, "roundtrip", expect(k, x), got)
				}
			}
		}(k)
	}
	for g := 0; g < cc.Goroutines; g++ {
		wg.Add(1)
		go func(g int) {
			defer wg.Done()
			<-start
			for x := int32(0); x < int32(cc.Per); x++ {
				v := x*int32(cc.Goroutines) + int32(g)
				if got := pre.round(v); got != expect(pre, v) {
					note("pre", "roundtrip", expect(pre, v), got)
				}
				yield(1)
			}
		}(g)
	}
	close(start)
	wg.Wait()
	if dupPanics[0] == dupPanics[1] {
		note("dup", "double-registration-not-exclusive", "exactly one of two concurrent registrations panics", fmt.Sprint(dupPanics))
	}
	if got := dup.round(5); got != expect(dup, 5) {
		note("dup", "roundtrip", expect(dup, 5), got)
	}
	out.Ops = (cc.Goroutines+len(fresh))*cc.Per + len(fresh) + 3
	out.Kinds = map[string]int{"typeref:lookup-roundtrip": (cc.Goroutines + len(fresh)) * cc.Per, "typeref:register": len(fresh) + 3}
	out.Nontrivial = []string{fmt.Sprintf("typeref:register+roundtrip:procs%d", cc.Procs), fmt.Sprintf("typeref:double-registration:procs%d", cc.Procs)}
	out.Samples = []string{fmt.Sprintf("typeref: double registration outcome (panicked?) %v", dupPanics)}
	return out
}
