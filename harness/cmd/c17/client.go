package main

// The CLIENT CONFIGURATION SURFACE shared between requests, and what each request looks like ON THE WIRE.
//
// A restli.Client is shared by all requests of a process together with what the caller configured it with: the http.Client,
// the resolver, and the ExtraRequestHeaders callback, whose natural use is ONE static header set returned for every request.
// Kinds of client (clientKinds): simple / d2 (callback returning a new map per call, with the request's id), shared (callback
// returning the same http.Header every time), nilmap (callback returning nil), bare (no callback).
//
//	wire     handlerTransport files what arrives at the transport (method, URL, ALL headers, body) under the id the caller put
//	         in the request's context; call / send append it to the observation of the request.  Every comparison the scenarios
//	         make (storm vs serial, burst vs the serial child process, history vs brand-new client) therefore includes it;
//	caller   after every request the shared header set must be deep-equal to the copy taken when it was made (CALLERS-MAP-MUTATED);
//	built    a request that was built and not yet sent must still have the headers it was built with when it is sent, whatever
//	         was built in between (BUILT-REQUEST-REWRITTEN);
//	history  scenario history-client: serial histories on ONE client (tunnelled then plain, plain then tunnelled, build A / build B
//	         / send A / send B): each request must be answered, and must look on the wire, as on a brand-new client with an
//	         equivalent configuration (the serial child process, scenario expect, makes a new client for every request).

import (
	"crypto/sha1"
	"fmt"
	"io"
	"net/http"
	"regexp"
	"sort"
	"strings"
	"sync"

	"verif/harness/hx"
)

type reqIDKey struct{} // context key: the driver's id of the request (put there by srv_*.go call / buildReq)

type clientCfg struct {
	kind   string
	shared http.Header // kind shared: the caller's static header set
	copy   http.Header // ... and what it looked like when it was made
}

func newClientCfg(kind string) *clientCfg {
	c := &clientCfg{kind: kind}
	if kind == "shared" {
		mk := func() http.Header {
			// Accept is a header newRequest sets itself: the request's own value wins, the caller's stays what it is
			return http.Header{"Authorization": {"Bearer s3cr3t"}, "X-Trace": {"t1", "t2"}, "Accept": {"application/x-callers-choice"}}
		}
		c.shared, c.copy = mk(), mk()
	}
	return c
}

// the ExtraRequestHeaders callback for request id (nil: none is installed)
func (c *clientCfg) extras(id string) func() (http.Header, error) {
	switch c.kind {
	case "shared":
		return func() (http.Header, error) { return c.shared, nil }
	case "nilmap":
		return func() (http.Header, error) { return nil, nil }
	case "bare":
		return nil
	}
	return func() (http.Header, error) { return http.Header{"X-Req": []string{id}}, nil }
}

func dumpHeader(h http.Header) string {
	keys := make([]string, 0, len(h))
	for k, v := range h {
		keys = append(keys, k+": "+strings.Join(v, ","))
	}
	sort.Strings(keys)
	return strings.Join(keys, " ; ")
}

func (c *clientCfg) mutated() string {
	if c == nil || c.shared == nil {
		return ""
	}
	if now, was := dumpHeader(c.shared), dumpHeader(c.copy); now != was {
		return " | CALLERS-MAP-MUTATED the header set the caller's ExtraRequestHeaders callback returns was {" + was + "} and is now {" + now + "}"
	}
	return ""
}

// ---- the wire

var wires sync.Map // request id -> wire form

var reBoundary = regexp.MustCompile(`boundary=([0-9a-f]+)`)

// what arrives at the transport; returns the body bytes for the handler
func recordWire(req *http.Request) []byte {
	var body []byte
	if req.Body != nil {
		body, _ = io.ReadAll(req.Body)
		req.Body.Close()
	}
	id, _ := req.Context().Value(reqIDKey{}).(string)
	host := req.URL.Host
	if host != "server.test" {
		host = "<resolved-by-d2>"
	}
	text := string(body)
	hdr := dumpHeader(req.Header)
	if m := reBoundary.FindStringSubmatch(hdr); m != nil { // multipart/mixed: the boundary is random
		hdr, text = strings.ReplaceAll(hdr, m[1], "BOUNDARY"), strings.ReplaceAll(text, m[1], "BOUNDARY")
	}
	if id != "" {
		text = strings.ReplaceAll(text, id, "{id}")
	}
	if len(text) > 160 {
		text = fmt.Sprintf("%s...(%d bytes, sha1 %x)", text[:100], len(text), sha1.Sum([]byte(text)))
	}
	w := fmt.Sprintf("%s %s host=%s headers={%s} content-length=%d body=%q", req.Method, req.URL.RequestURI(), host, hdr, req.ContentLength, text)
	if id != "" {
		wires.Store(id, w)
	}
	return body
}

func takeWire(id string) string {
	if w, ok := wires.LoadAndDelete(id); ok {
		return w.(string)
	}
	return "<nothing reached the transport>"
}

// ---- the doors of a client, with the wire and the caller's configuration in the observation

func (c *clientFns) call(op, id string) string {
	out := c.callRaw(op, id)
	return out + " | wire: " + takeWire(id) + c.cfg.mutated()
}

var builtHeaders sync.Map // *http.Request -> its headers when it was built

func (c *clientFns) build(op, id string) (*http.Request, error) {
	req, err := c.buildRaw(op, id)
	if req != nil {
		builtHeaders.Store(req, dumpHeader(req.Header))
	}
	return req, err
}

func (c *clientFns) send(req *http.Request) string {
	id, _ := req.Context().Value(reqIDKey{}).(string)
	rewritten := ""
	if was, ok := builtHeaders.LoadAndDelete(req); ok {
		if now := dumpHeader(req.Header); now != was.(string) {
			rewritten = " | BUILT-REQUEST-REWRITTEN between being built and being sent its headers changed from {" + was.(string) + "} to {" + now + "}"
		}
	}
	out := c.sendRaw(req)
	return out + " | wire: " + takeWire(id) + rewritten + c.cfg.mutated()
}

// ---- what a differing answer of a client request is called (parent process)

func wireOf(obs string) (before, wire string) {
	i := strings.Index(obs, " | wire: ")
	if i < 0 {
		return obs, ""
	}
	before, wire = obs[:i], obs[i+len(" | wire: "):]
	for _, m := range []string{" | BUILT-REQUEST-REWRITTEN", " | CALLERS-MAP-MUTATED"} {
		if j := strings.Index(wire, m); j >= 0 {
			wire = wire[:j]
		}
	}
	return before, wire
}

func wireHeaders(wire string) string {
	i, j := strings.Index(wire, "headers={"), strings.Index(wire, "} content-length=")
	if i < 0 || j < i {
		return ""
	}
	return wire[i:j]
}

// what about the client's configuration surface differs between the expected and the observed answer of a client request
// ("+"-separated; "" when the difference is not about it: the request went over the wire as expected)
func clientConfigClass(want, got string) string {
	var cl []string
	if strings.Contains(got, "CALLERS-MAP-MUTATED") {
		cl = append(cl, "callers-map-mutated")
	}
	if strings.Contains(got, "BUILT-REQUEST-REWRITTEN") {
		cl = append(cl, "built-request-rewritten")
	}
	_, ww := wireOf(want)
	_, gw := wireOf(got)
	if ww != "" && gw != "" {
		if wireHeaders(ww) != wireHeaders(gw) {
			cl = append(cl, "header-leak")
		} else if ww != gw {
			cl = append(cl, "wire-differs")
		}
	}
	return strings.Join(cl, "+")
}

func stripConfigMarkers(obs string) string {
	for _, m := range []string{" | BUILT-REQUEST-REWRITTEN", " | CALLERS-MAP-MUTATED"} {
		if j := strings.Index(obs, m); j >= 0 {
			obs = obs[:j]
		}
	}
	return obs
}

func hasConfigMarker(obs string) bool {
	return strings.Contains(obs, "CALLERS-MAP-MUTATED") || strings.Contains(obs, "BUILT-REQUEST-REWRITTEN")
}

// ---- scenario history-client

func isTunnelled(op string) bool {
	return strings.Contains(op, "-long") || strings.HasPrefix(op, "wide-find")
}

type histStep struct {
	What string `json:"what"` // call / build / send
	Op   string `json:"op"`
	ID   string `json:"id"`
}

func runHistoryClient(cc childCfg, mod srvModule, dm d2Module) childOut {
	out := childOut{Kinds: map[string]int{}}
	expect := loadExpect(cc.Expect)
	r := hx.NewRand(cc.Seed*3331 + 7)
	tag := "history:" + mod.name
	for h := 0; h < cc.Rounds; h++ {
		inst := mod.build()
		d := dm.new("items", "clusterA", []string{"https", "http"})
		announce(d, "n1", map[string]float64{"http://h1.test:80/": 1, "http://h2.test:80/": 2})
		kind := []string{"shared", "simple", "shared", "nilmap", "shared", "bare", "shared", "d2"}[h%8]
		c := newClients(inst, d)[kind] // ONE client for the whole history
		var tun, plain []string
		for _, op := range opsFor[kind] {
			if isTunnelled(op) {
				tun = append(tun, op)
			} else {
				plain = append(plain, op)
			}
		}
		var hist []histStep
		n := 0
		check := func(key, id, got string) {
			out.Kinds["client:"+key]++
			out.Ops++
			want, ok := expect["client:"+key]
			if got = canon(got, id); !ok || got == want || len(out.Mismatches) >= 40 {
				return
			}
			steps := []string{}
			for _, s := range hist {
				steps = append(steps, s.What+" "+s.Op)
			}
			out.Mismatches = append(out.Mismatches, newMismatch(tag, "client-config", key, want, got,
				fmt.Sprintf("history %d on ONE new %s client, serial: [%s]; step %d (the last one) is answered / goes over the wire otherwise than on a brand-new client",
					h, kind, strings.Join(steps, "; "), len(hist)-1)))
		}
		call := func(op string) {
			id := reqID(90, h*100+n)
			n++
			hist = append(hist, histStep{"call", op, id})
			check(kind+":"+op, id, c.call(op, id))
		}
		pick := func(l []string) string { return l[r.Intn(len(l))] }
		bk := map[string]string{"simple": "built", "shared": "built-shared"}[kind]
		steps := 6 + r.Intn(5)
		for i := 0; i < steps; i++ {
			switch {
			case bk != "" && r.Intn(4) == 0: // build A, build B, send A, send B (B in between: A must go out as it was built)
				type built struct {
					op, id string
					req    *http.Request
					err    string
				}
				var bs []built
				for j := 0; j < 2; j++ {
					op, id := pick(buildOps), reqID(90, h*100+n)
					n++
					hist = append(hist, histStep{"build", op, id})
					req, e := buildSend(c, op, id)
					bs = append(bs, built{op, id, req, e})
				}
				for _, b := range bs {
					hist = append(hist, histStep{"send", b.op, b.id})
					got := b.err
					if b.req != nil {
						got = c.send(b.req)
					}
					check(bk+":"+b.op, b.id, got)
				}
			case len(tun) > 0 && (h%2 == 0) == (i%2 == 0): // histories alternate: tunnelled then plain, or plain then tunnelled
				call(pick(tun))
			default:
				call(pick(plain))
			}
		}
	}
	out.Nontrivial = append(out.Nontrivial, fmt.Sprintf("history-client:%s:procs%d", mod.name, cc.Procs))
	out.Samples = append(out.Samples, fmt.Sprintf("history-client:%s %d serial histories on one client each; shared:find-long => %s", mod.name, cc.Rounds,
		clipN(expect["client:shared:find-long"], 700)))
	return out
}
