package main

// Counterpart of req_v2.go for the root module (hand-written): there a record's RequiredFields is a slice literal,
//
//	var _XxxRequiredFields = restlicodec.RequiredFields{<fields of the included records and its own>}

import "github.com/PapaCharlie/go-restli/restlicodec"

type rootrequired = restlicodec.RequiredFields

func rootnewRequired(included [][]string, own []string) rootrequired {
	rf := restlicodec.RequiredFields{}
	for _, fields := range included {
		rf = append(rf, fields...)
	}
	return append(rf, own...)
}
