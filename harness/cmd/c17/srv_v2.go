package main

// The v2 module behind the driver's srvModule interface: ONE real server with three filters and resources whose methods
// echo what they were given (path keys, query, the per-request value a filter put in the context) and hand back objects
// SHARED between all requests (error responses with and without a Message, success values).  srv_root.go is this file for
// the root module (generated with the sed command in checks/c17.py; import paths and identifiers only).  What differs between
// the modules beyond names (how a RequiredFields object is constructed) is in the hand-written req_*.go (one per module).

import (
	"context"
	"errors"
	"fmt"
	"net/http"
	"net/url"
	"runtime"
	"sort"
	"strings"

	restli "github.com/PapaCharlie/go-restli/v2/restli"
	"github.com/PapaCharlie/go-restli/v2/restlicodec"
	common "github.com/PapaCharlie/go-restli/v2/restlidata/generated/com/linkedin/restli/common"
)

// ---- resource path / query / entity stubs

type v2rp struct{ keys []string }

func (*v2rp) NewInstance() *v2rp { return &v2rp{} }
func (r *v2rp) UnmarshalResourcePath(segs []restlicodec.Reader) error {
	r.keys = []string{}
	for _, s := range segs {
		r.keys = append(r.keys, s.String())
	}
	return nil
}

type v2qp struct{}

func (*v2qp) NewInstance() *v2qp                                    { return &v2qp{} }
func (*v2qp) DecodeQueryParams(restlicodec.QueryParamsReader) error { return nil }

type v2ent struct{ Key, Ctx, Method, Query string }

func (*v2ent) NewInstance() *v2ent { return &v2ent{} }
func (e *v2ent) MarshalRestLi(w restlicodec.Writer) error {
	return w.WriteMap(func(kw func(string) restlicodec.Writer) error {
		kw("ctx").WriteString(e.Ctx)
		kw("key").WriteString(e.Key)
		kw("method").WriteString(e.Method)
		kw("query").WriteString(e.Query)
		return nil
	})
}
func (e *v2ent) UnmarshalRestLi(r restlicodec.Reader) error {
	return r.ReadMap(func(r restlicodec.Reader, k string) error {
		s, err := r.ReadString()
		if err != nil {
			return err
		}
		switch k {
		case "ctx":
			e.Ctx = s
		case "key":
			e.Key = s
		case "method":
			e.Method = s
		case "query":
			e.Query = s
		}
		return nil
	})
}
func (e *v2ent) String() string {
	if e == nil {
		return "<nil>"
	}
	return fmt.Sprintf("key=%s ctx=%s method=%s query=%s", e.Key, e.Ctx, e.Method, e.Query)
}

// ---- a WIDE record in the style of the generated ones: wideN required int fields (two included records + its own) and
// one optional string.  Field names and documents come from main.go (wideNames, wideIndex, wideJSON, wideRor2).

// What a generated package keeps at package level for its records and what every request decoding them shares: the
// XxxRequiredFields objects (and a read-only PathSpec).  v2freshSchema replaces all of them with newly constructed ones; it
// is only called while no request is in flight (v2build), so that the requests that follow are the FIRST users of the new
// objects.
var (
	v2wideRequired  v2required // the record: NewRequiredFields(<included records>...).Add(<own fields>...)
	v2queryRequired v2required // the query parameters of finder byAll: the same names as query parameters
	v2recRequired   v2required // the query parameters of finder byRec: one record-valued parameter
)

func v2freshSchema() {
	a, b := wideN/4, wideN/2
	v2wideRequired = v2newRequired([][]string{wideNames[:a], wideNames[a:b]}, wideNames[b:])
	v2queryRequired = v2newRequired(nil, wideNames)
	v2recRequired = v2newRequired(nil, []string{"rec"})
	v2readOnly = restlicodec.NewPathSpec("method", "query")
}

type v2wide struct {
	Vals []int32 // Vals[i] is field wideNames[i]
	Got  int     // how many of them were decoded
	Note string
}

func (*v2wide) NewInstance() *v2wide { return &v2wide{} }
func (e *v2wide) MarshalRestLi(w restlicodec.Writer) error {
	return w.WriteMap(func(kw func(string) restlicodec.Writer) error {
		for i, n := range wideNames {
			v := int32(0)
			if i < len(e.Vals) {
				v = e.Vals[i]
			}
			kw(n).WriteInt32(v)
		}
		if e.Note != "" {
			kw("note").WriteString(e.Note)
		}
		return nil
	})
}
func (e *v2wide) unmarshalField(r restlicodec.Reader, field string) (err error) {
	if i, ok := wideIndex[field]; ok {
		e.Vals[i], err = r.ReadInt32()
		e.Got++
		return err
	}
	if field == "note" {
		e.Note, err = r.ReadString()
		return err
	}
	return r.Skip()
}
func (e *v2wide) UnmarshalRestLi(r restlicodec.Reader) error {
	e.Vals = make([]int32, wideN)
	return r.ReadRecord(v2wideRequired, e.unmarshalField)
}
func (e *v2wide) sum() (s int64) {
	for _, v := range e.Vals {
		s += int64(v)
	}
	return s
}
func (e *v2wide) String() string {
	if e == nil {
		return "<nil>"
	}
	return fmt.Sprintf("wide got=%d sum=%d note=%s", e.Got, e.sum(), e.Note)
}
func v2newWide(note string) *v2wide {
	e := &v2wide{Vals: make([]int32, wideN), Got: wideN, Note: note}
	for i := range e.Vals {
		e.Vals[i] = int32(i)
	}
	return e
}

// the resource refuses what the decoder should never have let through: a record that is not complete
func (e *v2wide) check() error {
	if e == nil || e.Got != wideN || e.sum() != wideSum {
		return fmt.Errorf("incomplete wide record reached the resource: %s", e.String())
	}
	return nil
}

// query parameters of the finders of /wide: byAll takes every field of the record as a query parameter
// (QueryParamsReader.ReadRecord), byRec takes the whole record as ONE parameter in the URL encoding (the ROR2 reader's
// ReadRecord)
type v2wideQuery struct{ all v2wide }

func (*v2wideQuery) NewInstance() *v2wideQuery { return &v2wideQuery{} }
func (q *v2wideQuery) DecodeQueryParams(reader restlicodec.QueryParamsReader) error {
	q.all.Vals = make([]int32, wideN)
	return reader.ReadRecord(v2queryRequired, q.all.unmarshalField)
}

type v2recQuery struct{ rec *v2wide }

func (*v2recQuery) NewInstance() *v2recQuery { return &v2recQuery{} }
func (q *v2recQuery) DecodeQueryParams(reader restlicodec.QueryParamsReader) error {
	return reader.ReadRecord(v2recRequired, func(r restlicodec.Reader, field string) error {
		if field == "rec" {
			q.rec = &v2wide{}
			return q.rec.UnmarshalRestLi(r)
		}
		return r.Skip()
	})
}

// ---- objects the resource implementation shares between ALL requests

type v2shared struct {
	errNilMsg   *common.ErrorResponse // Status 418, Message nil: the server must default the message without touching this
	errNoStatus *common.ErrorResponse // Status nil, Message nil: 500 + defaulted message
	errMsg      *common.ErrorResponse // Status 409, Message set
	ent         *v2ent
	elems       *common.Elements[*v2ent]
	batch       *common.BatchResponse[string, *v2ent]
	created     *common.CreatedEntity[string]
	updates     *common.BatchResponse[string, *common.BatchEntityUpdateResponse]
}

func v2newShared() *v2shared {
	e := &v2ent{Key: "shared", Ctx: "none", Method: "get", Query: ""}
	return &v2shared{
		errNilMsg:   &common.ErrorResponse{Status: restli.Int32Pointer(418), ExceptionClass: restli.StringPointer("TEAPOT")},
		errNoStatus: &common.ErrorResponse{},
		errMsg:      &common.ErrorResponse{Status: restli.Int32Pointer(409), Message: restli.StringPointer("conflict")},
		ent:         e,
		elems:       &common.Elements[*v2ent]{Elements: []*v2ent{e, {Key: "second"}}},
		batch: &common.BatchResponse[string, *v2ent]{
			Results: map[string]*v2ent{"a": e, "b": {Key: "bee"}}, Statuses: map[string]int{"a": 200},
			Errors: map[string]*common.ErrorResponse{"z": {Status: restli.Int32Pointer(404)}}},
		created: &common.CreatedEntity[string]{Id: "sharedid"},
		updates: &common.BatchResponse[string, *common.BatchEntityUpdateResponse]{
			Results: map[string]*common.BatchEntityUpdateResponse{"a": {Status: 204}}},
	}
}

func v2ptr[T any](p *T) string {
	if p == nil {
		return "nil"
	}
	return fmt.Sprint(*p)
}

func v2errDump(e *common.ErrorResponse) string {
	return fmt.Sprintf("{status=%s message=%s class=%s stack=%s}", v2ptr(e.Status), v2ptr(e.Message), v2ptr(e.ExceptionClass),
		v2ptr(e.StackTrace))
}

// canonical dump of every shared object: must be the same before and after the storm
func (s *v2shared) dump() string {
	var sb strings.Builder
	sb.WriteString("errNilMsg=" + v2errDump(s.errNilMsg) + " errNoStatus=" + v2errDump(s.errNoStatus) + " errMsg=" + v2errDump(s.errMsg))
	sb.WriteString(" ent=" + s.ent.String())
	for _, e := range s.elems.Elements {
		sb.WriteString(" elem=" + e.String())
	}
	sb.WriteString(fmt.Sprintf(" paging=%v", s.elems.Paging))
	keys := []string{}
	for k, v := range s.batch.Results {
		keys = append(keys, "r:"+k+"="+v.String())
	}
	for k, v := range s.batch.Statuses {
		keys = append(keys, fmt.Sprintf("s:%s=%d", k, v))
	}
	for k, v := range s.batch.Errors {
		keys = append(keys, "e:"+k+"="+v2errDump(v))
	}
	for k, v := range s.updates.Results {
		keys = append(keys, fmt.Sprintf("u:%s=%d", k, v.Status))
	}
	sort.Strings(keys)
	sb.WriteString(" batch=" + strings.Join(keys, ","))
	sb.WriteString(fmt.Sprintf(" created={id=%s status=%d location=%s}", s.created.Id, s.created.Status, v2ptr(s.created.Location)))
	return sb.String()
}

var v2readOnly = restlicodec.NewPathSpec("method", "query")

// ---- filters

type v2key int

const (
	v2keyReq v2key = iota
	v2keyMethod
)

func v2yield(n int) {
	for i := 0; i < n; i++ {
		runtime.Gosched()
	}
}

// filter 0: puts the request's own id (header X-Req) in the context; afterwards copies it to a response header
type v2filterReq struct{}

func (v2filterReq) PreRequest(req *http.Request) (context.Context, error) {
	v2yield(1)
	if req.Header.Get("X-Fail") == "pre" {
		return nil, errors.New("filter refuses " + req.Header.Get("X-Req"))
	}
	return context.WithValue(req.Context(), v2keyReq, req.Header.Get("X-Req")), nil
}
func (v2filterReq) PostRequest(ctx context.Context, h http.Header) error {
	v2yield(1)
	id, _ := ctx.Value(v2keyReq).(string)
	h.Set("X-Post-Req", id)
	return nil
}

// filter 1: changes nothing, yields
type v2filterPass struct{}

func (v2filterPass) PreRequest(*http.Request) (context.Context, error) { v2yield(2); return nil, nil }
func (v2filterPass) PostRequest(context.Context, http.Header) error    { v2yield(2); return nil }

// filter 2: records the routed method in the context, must still see filter 0's value; can fail afterwards
type v2filterMethod struct{}

func (v2filterMethod) PreRequest(req *http.Request) (context.Context, error) {
	m := restli.GetMethodFromContext(req.Context())
	id, _ := req.Context().Value(v2keyReq).(string)
	v := m.String() + "/" + id
	if req.Header.Get("X-Fail") == "post" {
		v += "!failpost"
	}
	return context.WithValue(req.Context(), v2keyMethod, v), nil
}
func (v2filterMethod) PostRequest(ctx context.Context, h http.Header) error {
	mv, _ := ctx.Value(v2keyMethod).(string)
	h.Set("X-Post-Method", mv)
	if strings.HasSuffix(mv, "!failpost") {
		return errors.New("post filter refuses")
	}
	return nil
}

// ---- the server

func v2echo(ctx *restli.RequestContext, rp *v2rp) *v2ent {
	c := ctx.Request.Context()
	id, _ := c.Value(v2keyReq).(string)
	mv, _ := c.Value(v2keyMethod).(string)
	v2yield(1)
	ctx.ResponseHeaders.Set("X-Echo", id)
	ctx.ResponseHeaders.Set("X-Echo-Path", ctx.RequestPath())
	ctx.ResponseHeaders.Set("X-Echo-Query", ctx.Request.URL.RawQuery) // after DecodeTunnelledQuery
	return &v2ent{Key: strings.Join(rp.keys, ","), Ctx: id, Method: mv, Query: ctx.Request.URL.RawQuery}
}

func v2segs(s string) []restli.ResourcePathSegment {
	out := []restli.ResourcePathSegment{}
	for _, p := range strings.Split(s, "/") {
		out = append(out, restli.NewResourcePathSegment(p[:len(p)-1], p[len(p)-1] == '+'))
	}
	return out
}

func v2build() *srvInst {
	v2freshSchema() // no request is in flight: the requests through the new server are the first users of the new objects
	sh := v2newShared()
	srv := restli.NewServer(v2filterReq{}, v2filterPass{}, v2filterMethod{})
	type RC = *restli.RequestContext
	none := restlicodec.PathSpec(nil)
	ro := v2readOnly // ONE PathSpec object consulted by every create / update request (and by every client create call)
	items, meta, fail, single := v2segs("items+"), v2segs("items+/meta-"), v2segs("fail+"), v2segs("single-")

	restli.RegisterGet(srv, items, func(ctx RC, rp *v2rp, _ *v2qp) (*v2ent, error) {
		e := v2echo(ctx, rp)
		if e.Key == "shared" {
			return sh.ent, nil
		}
		return e, nil
	})
	restli.RegisterCreate(srv, items, ro, func(ctx RC, rp *v2rp, v *v2ent, _ *v2qp) (*common.CreatedEntity[string], error) {
		e := v2echo(ctx, rp)
		if v.Key == "shared" {
			return sh.created, nil
		}
		ctx.ResponseHeaders.Set("X-Updated", v.Key)
		return &common.CreatedEntity[string]{Id: "new-" + v.Key + "-" + e.Ctx}, nil
	})
	restli.RegisterDelete(srv, items, func(ctx RC, rp *v2rp, _ *v2qp) error { v2echo(ctx, rp); return nil })
	restli.RegisterUpdate(srv, items, ro, func(ctx RC, rp *v2rp, v *v2ent, _ *v2qp) error {
		v2echo(ctx, rp)
		ctx.ResponseHeaders.Set("X-Updated", v.Key)
		return nil
	})
	restli.RegisterPartialUpdate(srv, items, none, func(ctx RC, rp *v2rp, v *v2ent, _ *v2qp) error {
		v2echo(ctx, rp)
		ctx.ResponseHeaders.Set("X-Updated", v.Key)
		ctx.ResponseStatus = http.StatusAccepted // a status chosen by this request only
		return nil
	})
	restli.RegisterBatchGet(srv, items, func(ctx RC, rp *v2rp, keys []string, _ *restli.SliceBatchQueryParams[string]) (*common.BatchResponse[string, *v2ent], error) {
		e := v2echo(ctx, rp)
		if len(keys) > 0 && keys[0] == "shared" {
			return sh.batch, nil
		}
		r := &common.BatchResponse[string, *v2ent]{}
		for _, k := range keys {
			r.AddResult(k, &v2ent{Key: k, Ctx: e.Ctx})
		}
		return r, nil
	})
	restli.RegisterBatchCreate(srv, items, none, func(ctx RC, rp *v2rp, vs []*v2ent, _ *v2qp) ([]*common.CreatedEntity[string], error) {
		e := v2echo(ctx, rp)
		out := []*common.CreatedEntity[string]{sh.created}
		for _, v := range vs {
			out = append(out, &common.CreatedEntity[string]{Id: v.Key + "-" + e.Ctx, Status: 201})
		}
		return out, nil
	})
	restli.RegisterBatchDelete(srv, items, func(ctx RC, rp *v2rp, _ []string, _ *restli.SliceBatchQueryParams[string]) (*common.BatchResponse[string, *common.BatchEntityUpdateResponse], error) {
		v2echo(ctx, rp)
		return sh.updates, nil
	})
	restli.RegisterBatchUpdate(srv, items, none, func(ctx RC, rp *v2rp, vs map[string]*v2ent, _ *restli.SliceBatchQueryParams[string]) (*common.BatchResponse[string, *common.BatchEntityUpdateResponse], error) {
		e := v2echo(ctx, rp)
		r := &common.BatchResponse[string, *common.BatchEntityUpdateResponse]{}
		for k := range vs {
			r.AddResult(k+"-"+e.Ctx, &common.BatchEntityUpdateResponse{Status: 204})
		}
		return r, nil
	})
	restli.RegisterBatchPartialUpdate(srv, items, none, func(ctx RC, rp *v2rp, _ map[string]*v2ent, _ *restli.SliceBatchQueryParams[string]) (*common.BatchResponse[string, *common.BatchEntityUpdateResponse], error) {
		v2echo(ctx, rp)
		return sh.updates, nil
	})
	restli.RegisterGetAll(srv, items, func(ctx RC, rp *v2rp, _ *v2qp) (*common.Elements[*v2ent], error) {
		v2echo(ctx, rp)
		return sh.elems, nil
	})
	restli.RegisterFinder(srv, items, "byTag", func(ctx RC, rp *v2rp, _ *v2qp) (*common.Elements[*v2ent], error) {
		e := v2echo(ctx, rp)
		return &common.Elements[*v2ent]{Elements: []*v2ent{e, sh.ent}}, nil
	})
	restli.RegisterActionWithResults(srv, items, "poke", restlicodec.MarshalRestLi[string],
		func(ctx RC, rp *v2rp, _ common.EmptyRecord) (string, error) {
			e := v2echo(ctx, rp)
			return "poked:" + e.Ctx, nil
		})

	restli.RegisterGet(srv, meta, func(ctx RC, rp *v2rp, _ *v2qp) (*v2ent, error) { return v2echo(ctx, rp), nil })
	restli.RegisterUpdate(srv, meta, none, func(ctx RC, rp *v2rp, _ *v2ent, _ *v2qp) error { v2echo(ctx, rp); return nil })
	restli.RegisterDelete(srv, meta, func(ctx RC, rp *v2rp, _ *v2qp) error { v2echo(ctx, rp); return sh.errMsg })
	restli.RegisterAction(srv, meta, "reset", func(ctx RC, rp *v2rp, _ common.EmptyRecord) error { v2echo(ctx, rp); return nil })

	// every method of this collection fails with an object shared by all requests
	restli.RegisterGet(srv, fail, func(ctx RC, rp *v2rp, _ *v2qp) (*v2ent, error) { v2echo(ctx, rp); return nil, sh.errNilMsg })
	restli.RegisterDelete(srv, fail, func(ctx RC, rp *v2rp, _ *v2qp) error { v2echo(ctx, rp); return sh.errNoStatus })
	restli.RegisterUpdate(srv, fail, none, func(ctx RC, rp *v2rp, _ *v2ent, _ *v2qp) error { v2echo(ctx, rp); return sh.errMsg })
	restli.RegisterGetAll(srv, fail, func(ctx RC, rp *v2rp, _ *v2qp) (*common.Elements[*v2ent], error) {
		e := v2echo(ctx, rp)
		return nil, errors.New("plain failure for " + e.Ctx)
	})
	restli.RegisterFinder(srv, fail, "panic", func(ctx RC, rp *v2rp, _ *v2qp) (*common.Elements[*v2ent], error) {
		e := v2echo(ctx, rp)
		panic("resource panics for " + e.Ctx)
	})
	restli.RegisterFinder(srv, fail, "boom", func(ctx RC, rp *v2rp, _ *v2qp) (*common.Elements[*v2ent], error) {
		v2echo(ctx, rp)
		return nil, sh.errNilMsg
	})

	restli.RegisterGet(srv, single, func(ctx RC, rp *v2rp, _ *v2qp) (*v2ent, error) { v2echo(ctx, rp); return sh.ent, nil })
	restli.RegisterUpdate(srv, single, none, func(ctx RC, rp *v2rp, _ *v2ent, _ *v2qp) error { v2echo(ctx, rp); return nil })
	restli.RegisterAction(srv, single, "ping", func(ctx RC, rp *v2rp, _ common.EmptyRecord) error { v2echo(ctx, rp); return sh.errNilMsg })

	// the wide record: the server decodes it from JSON bodies (create, update, batch update, action parameters), from query
	// parameters (finder byAll) and from the URL encoding (finder byRec); the client decodes it from every response
	wide := v2segs("wide+")
	type updates = common.BatchResponse[string, *common.BatchEntityUpdateResponse]
	restli.RegisterGet(srv, wide, func(ctx RC, rp *v2rp, _ *v2qp) (*v2wide, error) { return v2newWide(v2echo(ctx, rp).Ctx), nil })
	restli.RegisterCreate(srv, wide, none, func(ctx RC, rp *v2rp, v *v2wide, _ *v2qp) (*common.CreatedEntity[string], error) {
		e := v2echo(ctx, rp)
		if err := v.check(); err != nil {
			return nil, err
		}
		return &common.CreatedEntity[string]{Id: "wide-" + v.Note + "-" + e.Ctx}, nil
	})
	restli.RegisterUpdate(srv, wide, none, func(ctx RC, rp *v2rp, v *v2wide, _ *v2qp) error {
		v2echo(ctx, rp)
		if err := v.check(); err != nil {
			return err
		}
		ctx.ResponseHeaders.Set("X-Updated", v.Note)
		return nil
	})
	restli.RegisterBatchGet(srv, wide, func(ctx RC, rp *v2rp, keys []string, _ *restli.SliceBatchQueryParams[string]) (*common.BatchResponse[string, *v2wide], error) {
		e := v2echo(ctx, rp)
		r := &common.BatchResponse[string, *v2wide]{}
		for _, k := range keys {
			r.AddResult(k, v2newWide(e.Ctx))
		}
		return r, nil
	})
	restli.RegisterBatchUpdate(srv, wide, none, func(ctx RC, rp *v2rp, vs map[string]*v2wide, _ *restli.SliceBatchQueryParams[string]) (*updates, error) {
		e := v2echo(ctx, rp)
		r := &updates{}
		for k, v := range vs {
			if err := v.check(); err != nil {
				return nil, err
			}
			r.AddResult(k+"-"+e.Ctx, &common.BatchEntityUpdateResponse{Status: 204})
		}
		return r, nil
	})
	restli.RegisterFinder(srv, wide, "byAll", func(ctx RC, rp *v2rp, q *v2wideQuery) (*common.Elements[*v2wide], error) {
		e := v2echo(ctx, rp)
		q.all.Note = e.Ctx
		if err := q.all.check(); err != nil {
			return nil, err
		}
		return &common.Elements[*v2wide]{Elements: []*v2wide{&q.all}}, nil
	})
	restli.RegisterFinder(srv, wide, "byRec", func(ctx RC, rp *v2rp, q *v2recQuery) (*common.Elements[*v2wide], error) {
		v2echo(ctx, rp)
		if err := q.rec.check(); err != nil {
			return nil, err
		}
		return &common.Elements[*v2wide]{Elements: []*v2wide{q.rec}}, nil
	})
	restli.RegisterActionWithResults(srv, wide, "check", restlicodec.MarshalRestLi[string],
		func(ctx RC, rp *v2rp, p *v2wide) (string, error) {
			e := v2echo(ctx, rp)
			if err := p.check(); err != nil {
				return "", err
			}
			return "checked:" + p.Note + ":" + e.Ctx, nil
		})

	h := srv.Handler() // the ONE handler every request of the run goes through

	return &srvInst{
		handler: h,
		shared:  sh.dump,
		refresh: func() { // new error objects (same contents) that no request has been served with yet
			f := v2newShared()
			sh.errNilMsg, sh.errNoStatus = f.errNilMsg, f.errNoStatus
		},
		late: func(i int) { // registrations on the LIVE server after Handler(): must neither race with nor show through h
			n := fmt.Sprintf("late%d", i)
			restli.RegisterGet(srv, v2segs(n+"+"), func(ctx RC, rp *v2rp, _ *v2qp) (*v2ent, error) { return v2echo(ctx, rp), nil })
			restli.RegisterFinder(srv, items, n, func(ctx RC, rp *v2rp, _ *v2qp) (*common.Elements[*v2ent], error) { return sh.elems, nil })
			restli.RegisterAction(srv, v2segs("items+/meta-"), n, func(ctx RC, rp *v2rp, _ common.EmptyRecord) error { return nil })
			restli.RegisterDelete(srv, v2segs("single-"+"/"+n+"+"), func(ctx RC, rp *v2rp, _ *v2qp) error { return nil })
		},
		methodHeader: restli.MethodHeader,
		tunnel: func(verb, query string, body []byte) ([]byte, http.Header) {
			return restli.EncodeTunnelledQuery(verb, query, body)
		},
		client: func(rt http.RoundTripper, resolver interface{}, threshold int, cfg *clientCfg) *clientFns {
			var hr restli.HostnameResolver
			if r, ok := resolver.(restli.HostnameResolver); ok {
				hr = r
			} else {
				u, _ := url.Parse("http://server.test/")
				hr = &restli.SimpleHostnameResolver{Hostname: u}
			}
			c := &restli.Client{Client: &http.Client{Transport: rt}, HostnameResolver: hr, QueryTunnellingThreshold: threshold}
			return &clientFns{
				callRaw:  func(op, id string) string { return v2call(c, cfg, op, id) },
				buildRaw: func(op, id string) (*http.Request, error) { return v2buildReq(c, cfg, op, id) },
				sendRaw:  func(req *http.Request) string { return v2send(c, req) },
				cfg:      cfg,
			}
		},
	}
}

func v2errString(err error) string {
	if err == nil {
		return "ok"
	}
	if e, ok := err.(*restli.Error); ok {
		return fmt.Sprintf("restli-error status=%s message=%s class=%s", v2ptr(e.Status), v2ptr(e.Message), v2ptr(e.ExceptionClass))
	}
	return "error:" + fmt.Sprintf("%T", err)
}

// the context of request id: the driver's id for the transport (client.go) and the ExtraRequestHeaders callback the client's
// configuration calls for (one shared static header set, a new map per call, a nil map, none)
func v2ctx(cfg *clientCfg, id string) context.Context {
	ctx := context.WithValue(context.Background(), reqIDKey{}, id)
	if extras := cfg.extras(id); extras != nil {
		ctx = restli.ExtraRequestHeaders(ctx, extras)
	}
	return ctx
}

// one call through the shared restli.Client; the observation names everything that came back
func v2call(c *restli.Client, cfg *clientCfg, op, id string) string {
	ctx := v2ctx(cfg, id)
	ctx, captured := restli.AddResponseHeadersCaptor(ctx)
	rp := func(s string) restli.ResourcePathString { return restli.ResourcePathString(s) }
	var out string
	switch op {
	case "get":
		v, err := restli.Get[*v2ent](c, ctx, rp("/items/"+id), nil)
		out = v.String() + " " + v2errString(err)
	case "get-shared":
		v, err := restli.Get[*v2ent](c, ctx, rp("/single"), nil)
		out = v.String() + " " + v2errString(err)
	case "get-sub":
		v, err := restli.Get[*v2ent](c, ctx, rp("/items/"+id+"/meta"), restli.QueryParamsString("x="+id))
		out = v.String() + " " + v2errString(err)
	case "create":
		ce, err := restli.Create[string](c, ctx, rp("/items"), &v2ent{Key: id, Method: "dropped-by-the-writer"}, nil, v2readOnly)
		if ce != nil {
			out = fmt.Sprintf("id=%s status=%d location=%s ", ce.Id, ce.Status, v2ptr(ce.Location))
		}
		out += v2errString(err)
	case "update-long": // tunnelled (query longer than the threshold) WITH a body: multipart/mixed
		out = v2errString(restli.Update(c, ctx, rp("/items/"+id), &v2ent{Key: id}, v2longQuery(id), v2readOnly))
	case "partial-update-long":
		out = v2errString(restli.PartialUpdate(c, ctx, rp("/items/"+id), &v2ent{Key: id}, v2longQuery(id), nil))
	case "create-long":
		ce, err := restli.Create[string](c, ctx, rp("/items"), &v2ent{Key: id}, v2longQuery(id), v2readOnly)
		if ce != nil {
			out = fmt.Sprintf("id=%s status=%d location=%s ", ce.Id, ce.Status, v2ptr(ce.Location))
		}
		out += v2errString(err)
	case "update":
		out = v2errString(restli.Update(c, ctx, rp("/items/"+id), &v2ent{Key: id}, restli.QueryParamsString("x="+id), v2readOnly))
	case "delete":
		out = v2errString(restli.Delete(c, ctx, rp("/items/"+id), nil))
	case "find", "find-long":
		q := "q=byTag&tag=" + id
		if op == "find-long" {
			q += "&pad=" + strings.Repeat("p", 300)
		}
		r, err := restli.Find[*v2ent](c, ctx, rp("/items"), restli.QueryParamsString(q))
		if r != nil {
			for _, e := range r.Elements {
				out += "[" + e.String() + "]"
			}
		}
		out += " " + v2errString(err)
	case "get-all":
		r, err := restli.GetAll[*v2ent](c, ctx, rp("/items"), nil)
		if r != nil {
			for _, e := range r.Elements {
				out += "[" + e.String() + "]"
			}
		}
		out += " " + v2errString(err)
	case "batch-get":
		r, err := restli.BatchGet[string, *v2ent](c, ctx, rp("/items"), []string{id, "k2"}, nil)
		if r != nil {
			keys := []string{}
			for k, v := range r.Results {
				keys = append(keys, strings.ReplaceAll(k+"="+v.String(), id, "{id}"))
			}
			sort.Strings(keys)
			out = strings.Join(keys, ";")
		}
		out += " " + v2errString(err)
	case "action":
		s, err := restli.DoActionRequestWithResults(c, ctx, rp("/items"), restli.QueryParamsString("action=poke"), common.EmptyRecord{}, restlicodec.UnmarshalRestLi[string])
		out = s + " " + v2errString(err)
	case "fail":
		v, err := restli.Get[*v2ent](c, ctx, rp("/fail/"+id), nil)
		out = v.String() + " " + v2errString(err)
	case "fail-nostatus":
		out = v2errString(restli.Delete(c, ctx, rp("/fail/"+id), nil))
	case "missing":
		v, err := restli.Get[*v2ent](c, ctx, rp("/nosuch/"+id), nil)
		out = v.String() + " " + v2errString(err)
	case "wide-get":
		v, err := restli.Get[*v2wide](c, ctx, rp("/wide/"+id), nil)
		out = v.String() + " " + v2errString(err)
	case "wide-create":
		ce, err := restli.Create[string](c, ctx, rp("/wide"), v2newWide(id), nil, nil)
		if ce != nil {
			out = fmt.Sprintf("id=%s status=%d location=%s ", ce.Id, ce.Status, v2ptr(ce.Location))
		}
		out += v2errString(err)
	case "wide-update":
		out = v2errString(restli.Update(c, ctx, rp("/wide/"+id), v2newWide(id), nil, nil))
	case "wide-find-all", "wide-find-rec": // both queries are longer than the tunnelling threshold
		q := "q=byRec&rec=" + wideRor2(id)
		if op == "wide-find-all" {
			q = "q=byAll&" + wideQuery
		}
		r, err := restli.Find[*v2wide](c, ctx, rp("/wide"), restli.QueryParamsString(q))
		if r != nil {
			for _, e := range r.Elements {
				out += "[" + e.String() + "]"
			}
		}
		out += " " + v2errString(err)
	case "wide-batch-get":
		r, err := restli.BatchGet[string, *v2wide](c, ctx, rp("/wide"), []string{id, "k2"}, nil)
		if r != nil {
			keys := []string{}
			for k, v := range r.Results {
				keys = append(keys, k+"="+v.String())
			}
			sort.Strings(keys)
			out = strings.Join(keys, ";")
		}
		out += " " + v2errString(err)
	case "wide-action":
		s, err := restli.DoActionRequestWithResults(c, ctx, rp("/wide"), restli.QueryParamsString("action=check"), v2newWide(id), restlicodec.UnmarshalRestLi[string])
		out = s + " " + v2errString(err)
	default:
		panic("unknown client op " + op)
	}
	hs := []string{}
	for _, k := range v2echoHeaders {
		hs = append(hs, k+"="+strings.Join(captured[k], ","))
	}
	return out + " | " + strings.Join(hs, " ")
}

var v2echoHeaders = []string{"X-Echo", "X-Post-Req", "X-Post-Method", "X-Echo-Path", "X-Echo-Query", "X-Updated"}

func v2longQuery(id string) restli.QueryParamsString {
	return restli.QueryParamsString("x=" + id + "&pad=" + strings.Repeat("p", 300))
}

// a request built with the exported New*Request functions, to be sent LATER (other requests are built in between)
func v2buildReq(c *restli.Client, cfg *clientCfg, op, id string) (*http.Request, error) {
	ctx := v2ctx(cfg, id)
	rp := func(s string) restli.ResourcePathString { return restli.ResourcePathString(s) }
	switch op {
	case "b-update-long":
		return restli.NewJsonRequest(c, ctx, rp("/items/"+id), v2longQuery(id), http.MethodPut, restli.Method_update, &v2ent{Key: id}, v2readOnly)
	case "b-partial-update-long":
		return restli.NewJsonRequest(c, ctx, rp("/items/"+id), v2longQuery(id), http.MethodPost, restli.Method_partial_update, &v2ent{Key: id}, nil)
	case "b-create-long":
		return restli.NewCreateRequest(c, ctx, rp("/items"), v2longQuery(id), restli.Method_create, &v2ent{Key: id}, v2readOnly)
	case "b-update":
		return restli.NewJsonRequest(c, ctx, rp("/items/"+id), restli.QueryParamsString("x="+id), http.MethodPut, restli.Method_update, &v2ent{Key: id}, v2readOnly)
	case "b-get-long":
		return restli.NewGetRequest(c, ctx, rp("/items/"+id), v2longQuery(id), restli.Method_get)
	case "b-delete":
		return restli.NewDeleteRequest(c, ctx, rp("/items/"+id), nil, restli.Method_delete)
	}
	panic("unknown build op " + op)
}

func v2send(c *restli.Client, req *http.Request) string {
	res, err := restli.DoAndIgnore(c, req)
	if err != nil {
		return v2errString(err)
	}
	hs := []string{fmt.Sprint(res.StatusCode)}
	for _, k := range v2echoHeaders {
		hs = append(hs, k+"="+strings.Join(res.Header[k], ","))
	}
	return strings.Join(hs, " ")
}

var modV2 = srvModule{name: "v2", build: v2build}
