// C17 driver: race-detector runs of the real go-restli code (built with -tags verif AND -race).
//
// The parent process plans runs (scenario x module x GOMAXPROCS x repetition), executes each in a CHILD process (this
// same binary, configured through the environment) so that the race detector's reports (stderr, GORACE=halt_on_error=0
// exitcode=66) and the child's own findings (stdout, JSON) are captured per run, and turns every race report and every
// per-request result mismatch into a failing input (rep.Fail).  Scenarios:
//
//	server  N goroutines x mixed requests (all method kinds, routed / unrouted / malformed, tunnelled, filters that put
//	        per-request values in the context, resources returning objects SHARED between requests) against ONE
//	        Handler() of the real server, while another goroutine keeps registering resources on the live server;
//	        every response must equal the serial run of the same request, shared objects must be unchanged;
//	client  N goroutines through ONE restli.Client (one http.Client, one resolver: simple, then d2 with a concurrent
//	        feeder of URI events), results compared with the serial run;
//	d2      N goroutines resolving / choosing hosts while one goroutine feeds HandleUriUpdate events; every chosen host
//	        must belong to a published snapshot; old snapshots are re-inspected: they must never change;
//	typeref concurrent RegisterCustomTyperef / lookup / marshal / unmarshal (v2 only).
//
// The four scenarios above compare with a serial run made IN THE SAME PROCESS before the storm, which also warms every
// shared object.  FRESH-STATE BURSTS (burst.go: burst-server, burst-client, burst-d2) are the complement: no request is
// served serially in the child before the burst; every round constructs new shared objects (server + Handler() copy,
// client, resolver, the RequiredFields / PathSpec objects of the driver's records, a d2 client and snapshot), and N
// goroutines released by ONE barrier all send the same valid request, so that the first uses of the new objects (and, in
// the first round of a child, of the package-level objects of go-restli) overlap.  The expected answers come from ANOTHER
// child process that serves everything serially (scenario expect).  A child that dies (Go's `fatal error: concurrent map
// writes`, a panic, any exit code other than the race detector's) is a failing input of its own (crash:...).
//
// client.go: the kinds of client (what the caller's ExtraRequestHeaders callback returns), the request as it arrives ON THE
// WIRE as part of every client observation, scenario history-client (serial histories on one client against a brand-new
// client per request).  trhist.go: scenario history-typeref (histories on the custom typeref registry, every step under a
// deadline; a step that does not finish is a failing input hang:...).
//
// The model side (coq/Corr/C17Corr.v) only checks the static table `sharedCells` below against Conc/Footprint.v; THE TIE
// BETWEEN THE MODEL AND THE CODE IS THE RACE DETECTOR.
package main

import (
	"bytes"
	"encoding/json"
	"fmt"
	"io"
	"log"
	"net/http"
	"net/http/httptest"
	"net/url"
	"os"
	"os/exec"
	"regexp"
	"runtime"
	"sort"
	"strings"
	"sync"
	"time"

	"verif/harness/hx"
)

// ------------------------------------------------------------------------------------------------ module interfaces

type srvModule struct {
	name  string
	build func() *srvInst
}

type srvInst struct {
	handler      http.Handler
	shared       func() string
	refresh      func()
	late         func(i int)
	methodHeader string
	tunnel       func(verb, query string, body []byte) ([]byte, http.Header)
	client       func(rt http.RoundTripper, resolver interface{}, threshold int, cfg *clientCfg) *clientFns
}

// ONE restli.Client behind three doors: a whole call; building a request with the exported New*Request functions;
// sending a request built earlier.  The raw doors are the module's (srv_*.go); call / build / send below add what was seen
// ON THE WIRE for the request and the state of the caller's configuration afterwards (client.go).
type clientFns struct {
	callRaw  func(op, id string) string
	buildRaw func(op, id string) (*http.Request, error)
	sendRaw  func(req *http.Request) string
	cfg      *clientCfg
}

type d2Module struct {
	name string
	new  func(service, cluster string, schemes []string) *d2Inst
}

type d2Inst struct {
	urisPath string
	apply    func(path string, data *[]byte)
	current  func() interface{}
	inspect  func(w interface{}) map[string]map[string]float64
	choose   func(w interface{}, schemes []string) *url.URL
	resolve  func(name string) (*url.URL, error)
	resolver interface{}
}

func yield(n int) {
	for i := 0; i < n; i++ {
		runtime.Gosched()
	}
}

// ------------------------------------------------------------------------------------------------ child protocol

type childCfg struct {
	Scenario   string `json:"scenario"`
	Module     string `json:"module"`
	Goroutines int    `json:"goroutines"`
	Per        int    `json:"per"`
	Procs      int    `json:"procs"`
	Seed       uint64 `json:"seed"`
	Rounds     int    `json:"rounds,omitempty"` // fresh-state bursts: rounds per child, each on newly constructed objects
	Expect     string `json:"expect,omitempty"` // fresh-state bursts: file with the answers of the serial child process
}

type mismatch struct {
	Scenario string `json:"scenario"`
	What     string `json:"what"`
	Name     string `json:"name"`
	Want     string `json:"want"`
	Got      string `json:"got"`
	Request  string `json:"request,omitempty"` // bursts: round, phase, goroutine and the request that got the answer
	Class    string `json:"class,omitempty"`   // client requests: what about the client's configuration surface differs (client.go clientConfigClass)
}

func newMismatch(scenario, what, name, want, got, request string) mismatch {
	return mismatch{Scenario: scenario, What: what, Name: name, Want: clip(want), Got: clip(got), Request: request, Class: clientConfigClass(want, got)}
}

type childOut struct {
	Ops        int               `json:"ops"`
	Kinds      map[string]int    `json:"kinds"`
	Nontrivial []string          `json:"nontrivial"`
	Mismatches []mismatch        `json:"mismatches"`
	Samples    []string          `json:"samples"`
	Statuses   map[string]string `json:"statuses,omitempty"` // serial result (status / outcome) per request template or client operation
	Expect     map[string]string `json:"expect,omitempty"`   // scenario expect: the full serial answer per template / operation
	Hangs      []hang            `json:"hangs,omitempty"`    // history scenarios: a step that did not finish within its deadline
}

func (o *childOut) mismatch(scenario, what, name, want, got string) {
	if len(o.Mismatches) < 40 {
		o.Mismatches = append(o.Mismatches, newMismatch(scenario, what, name, want, got, ""))
	}
}

func clip(s string) string {
	if len(s) > 1600 {
		return s[:1600] + "..."
	}
	return s
}

// ------------------------------------------------------------------------------------------------ scenario: server

type tmpl struct {
	Name, Verb, Path, Query, Method, Body, Fail string
	Tunnel                                      bool
}

const entBody = `{"key":"{id}"}`

var templates = []tmpl{
	{Name: "get", Verb: "GET", Path: "/items/{id}"},
	{Name: "get-header", Verb: "GET", Path: "/items/{id}", Method: "get"},
	{Name: "get-shared-value", Verb: "GET", Path: "/items/shared"},
	{Name: "get-query", Verb: "GET", Path: "/items/{id}", Query: "x={id}&y=(a:{id})"},
	{Name: "get-sub", Verb: "GET", Path: "/items/{id}/meta"},
	{Name: "create", Verb: "POST", Path: "/items", Method: "create", Body: entBody},
	{Name: "create-shared-value", Verb: "POST", Path: "/items", Method: "create", Body: `{"key":"shared"}`},
	{Name: "create-read-only-field", Verb: "POST", Path: "/items", Method: "create", Body: `{"key":"{id}","method":"m"}`},
	{Name: "update-read-only-field", Verb: "PUT", Path: "/items/{id}", Body: `{"key":"{id}","query":"q"}`},
	{Name: "delete", Verb: "DELETE", Path: "/items/{id}"},
	{Name: "update", Verb: "PUT", Path: "/items/{id}", Body: entBody},
	{Name: "partial-update", Verb: "POST", Path: "/items/{id}", Method: "partial_update", Body: entBody},
	{Name: "batch-get", Verb: "GET", Path: "/items", Query: "ids=List({id},k2)"},
	{Name: "batch-get-shared-value", Verb: "GET", Path: "/items", Query: "ids=List(shared)"},
	{Name: "batch-create", Verb: "POST", Path: "/items", Method: "batch_create", Body: `{"elements":[{"key":"{id}"},{"key":"two"}]}`},
	{Name: "batch-delete", Verb: "DELETE", Path: "/items", Query: "ids=List({id})"},
	{Name: "batch-update", Verb: "PUT", Path: "/items", Query: "ids=List({id})", Body: `{"entities":{"{id}":{"key":"v"}}}`},
	{Name: "batch-partial-update", Verb: "POST", Path: "/items", Query: "ids=List({id})", Method: "batch_partial_update", Body: `{"entities":{"{id}":{"key":"v"}}}`},
	{Name: "get-all", Verb: "GET", Path: "/items"},
	{Name: "finder", Verb: "GET", Path: "/items", Query: "q=byTag&tag={id}"},
	{Name: "finder-tunnelled", Verb: "GET", Path: "/items", Query: "q=byTag&tag={id}", Tunnel: true},
	{Name: "action", Verb: "POST", Path: "/items", Query: "action=poke", Method: "action"},
	{Name: "sub-update", Verb: "PUT", Path: "/items/{id}/meta", Body: entBody},
	{Name: "sub-delete-shared-error", Verb: "DELETE", Path: "/items/{id}/meta"},
	{Name: "sub-action", Verb: "POST", Path: "/items/{id}/meta", Query: "action=reset"},
	{Name: "shared-error-nil-message", Verb: "GET", Path: "/fail/{id}"},
	{Name: "shared-error-nil-status", Verb: "DELETE", Path: "/fail/{id}"},
	{Name: "shared-error-with-message", Verb: "PUT", Path: "/fail/{id}", Body: entBody},
	{Name: "plain-error", Verb: "GET", Path: "/fail"},
	{Name: "finder-shared-error", Verb: "GET", Path: "/fail", Query: "q=boom"},
	{Name: "resource-panics", Verb: "GET", Path: "/fail", Query: "q=panic"},
	{Name: "simple-get-shared-value", Verb: "GET", Path: "/single"},
	{Name: "simple-update", Verb: "PUT", Path: "/single", Body: entBody},
	{Name: "simple-action-shared-error", Verb: "POST", Path: "/single", Query: "action=ping"},
	{Name: "filter-fails-before", Verb: "GET", Path: "/items/{id}", Fail: "pre"},
	{Name: "filter-fails-after", Verb: "GET", Path: "/items/{id}", Fail: "post"},
	{Name: "unrouted-root", Verb: "GET", Path: "/nosuch/{id}"},
	{Name: "unrouted-sub", Verb: "GET", Path: "/items/{id}/nosub"},
	{Name: "unrouted-late-root", Verb: "GET", Path: "/late0/{id}"},
	{Name: "unrouted-late-finder", Verb: "GET", Path: "/items", Query: "q=late0"},
	{Name: "unrouted-late-sub", Verb: "DELETE", Path: "/single/late1/{id}"},
	{Name: "bad-key", Verb: "GET", Path: "/items/){id}"},
	{Name: "bad-query", Verb: "GET", Path: "/items/{id}", Query: "x=){id}"},
	{Name: "post-without-header", Verb: "POST", Path: "/items", Body: entBody},
	{Name: "body-on-get", Verb: "GET", Path: "/items/{id}", Body: entBody},
	{Name: "bad-body", Verb: "PUT", Path: "/items/{id}", Body: "not json {id}"},
	{Name: "unknown-finder", Verb: "GET", Path: "/items", Query: "q=zz{id}"},
	{Name: "get-without-entity", Verb: "GET", Path: "/items", Method: "get"},
}

// The wide record of the driver's resources (srv_*.go: v2wide / rootwide): wideN required int fields f000.. (field i has
// value i) and one optional string.  Everything here is written once by package initialisation and only read afterwards.
const wideN = 320
const wideSum = wideN * (wideN - 1) / 2

var wideNames, wideIndex = func() ([]string, map[string]int) {
	names, index := make([]string, wideN), make(map[string]int, wideN)
	for i := range names {
		names[i] = fmt.Sprintf("f%03d", i)
		index[names[i]] = i
	}
	return names, index
}()

func wideDoc(open, sep, kv, close, note string, skip int) string {
	var sb strings.Builder
	sb.WriteString(open)
	for i, n := range wideNames {
		if i != skip {
			sb.WriteString(fmt.Sprintf(kv, n, i) + sep)
		}
	}
	sb.WriteString(note + close)
	return sb.String()
}

func wideJSON(note string) string { return wideDoc("{", ",", "%q:%d", "}", `"note":"`+note+`"`, -1) }
func wideRor2(note string) string { return wideDoc("(", ",", "%s:%d", ")", "note:"+note, -1) }

var wideQuery = wideDoc("", "&", "%s=%d", "", "note=x", -1)

func init() {
	templates = append(templates,
		tmpl{Name: "wide-get", Verb: "GET", Path: "/wide/{id}"},
		tmpl{Name: "wide-create", Verb: "POST", Path: "/wide", Method: "create", Body: wideJSON("{id}")},
		tmpl{Name: "wide-update", Verb: "PUT", Path: "/wide/{id}", Body: wideJSON("{id}")},
		tmpl{Name: "wide-batch-get", Verb: "GET", Path: "/wide", Query: "ids=List({id},k2)"},
		tmpl{Name: "wide-batch-update", Verb: "PUT", Path: "/wide", Query: "ids=List({id})", Body: `{"entities":{"{id}":` + wideJSON("{id}") + `}}`},
		tmpl{Name: "wide-action", Verb: "POST", Path: "/wide", Query: "action=check", Method: "action", Body: wideJSON("{id}")},
		tmpl{Name: "wide-finder-query-params", Verb: "GET", Path: "/wide", Query: "q=byAll&" + wideQuery},
		tmpl{Name: "wide-finder-query-params-tunnelled", Verb: "GET", Path: "/wide", Query: "q=byAll&" + wideQuery, Tunnel: true},
		tmpl{Name: "wide-finder-record-param", Verb: "GET", Path: "/wide", Query: "q=byRec&rec=" + wideRor2("{id}")},
		// one required field absent: the expected answer is the 400 naming it
		tmpl{Name: "wide-action-field-missing", Verb: "POST", Path: "/wide", Query: "action=check", Method: "action",
			Body: wideDoc("{", ",", "%q:%d", "}", `"note":"{id}"`, 7)},
		tmpl{Name: "wide-finder-param-missing", Verb: "GET", Path: "/wide", Query: "q=byAll&" + wideDoc("", "&", "%s=%d", "", "note=x", wideN-1)})
}

var reStack = regexp.MustCompile(`"stackTrace":"(\\.|[^"\\])*"`)

func subst(s, id string) string { return strings.ReplaceAll(s, "{id}", id) }

// request ids: all of one length (Content-Length must not depend on the id) and all sorting before "k2" (map keys are
// written in sorted order)
const idSerialA, idSerialB, idAfter = "g90q0000za", "g91q0000zb", "g92q0000zc"

func reqID(g, i int) string { return fmt.Sprintf("g%02dq%04dzz", g, i) }

// one request through the handler; the canonical observation has the request's own id replaced by {id}, so that it can
// be compared with the serial run of the same template under another id - and so that ANOTHER request's id stands out
func (t tmpl) run(inst *srvInst, id string) string {
	req, bad := t.prepare(inst, id)
	if req == nil {
		return bad
	}
	return serve(inst, req, id)
}

// the *http.Request of template t for request id (touches nothing shared but EncodeTunnelledQuery's package)
func (t tmpl) prepare(inst *srvInst, id string) (*http.Request, string) {
	target := subst(t.Path, id)
	query := subst(t.Query, id)
	var body []byte
	if t.Body != "" {
		body = []byte(subst(t.Body, id))
	}
	verb := t.Verb
	hdr := http.Header{}
	if t.Tunnel {
		var th http.Header
		body, th = inst.tunnel(verb, query, body)
		for k := range th {
			hdr.Set(k, th.Get(k))
		}
		verb, query = "POST", ""
	}
	u, err := url.Parse("http://server.test" + target)
	if err != nil {
		return nil, "bad-url:" + err.Error()
	}
	u.RawQuery = query
	var rd io.Reader
	if body != nil {
		rd = bytes.NewReader(body)
	}
	req := httptest.NewRequest(verb, "http://server.test/", rd)
	req.URL = u
	req.RequestURI = u.RequestURI()
	for k, v := range hdr {
		req.Header[k] = v
	}
	req.Header.Set("X-Req", id)
	if t.Method != "" {
		req.Header.Set(inst.methodHeader, t.Method)
	}
	if t.Fail != "" {
		req.Header.Set("X-Fail", t.Fail)
	}
	return req, ""
}

func serve(inst *srvInst, req *http.Request, id string) string {
	rec := httptest.NewRecorder()
	inst.handler.ServeHTTP(rec, req)
	body2 := rec.Body.String()
	stack := strings.Contains(body2, `"stackTrace"`) // recover(): the stack text differs from goroutine to goroutine
	if stack {
		body2 = reStack.ReplaceAllString(body2, `"stackTrace":"<elided>"`)
	}
	keys := []string{}
	for k, v := range rec.Header() {
		if stack && k == "Content-Length" {
			continue
		}
		keys = append(keys, k+": "+strings.Join(v, ","))
	}
	sort.Strings(keys)
	out := fmt.Sprintf("%d\n%s\n%s", rec.Code, strings.Join(keys, "\n"), body2)
	return strings.ReplaceAll(out, id, "{id}")
}

// serial expectations (twice: a template whose serial result is not a function of the request is not compared)
func serialServer(inst *srvInst, out *childOut, tag string) map[string]string {
	expect := map[string]string{}
	for _, t := range templates {
		a, b := t.run(inst, idSerialA), t.run(inst, idSerialB)
		if a != b {
			out.mismatch(tag, "serial-run-not-deterministic", t.Name, a, b)
			continue
		}
		expect[t.Name] = a
	}
	return expect
}

func runServer(cc childCfg, mod srvModule) childOut {
	out := childOut{Kinds: map[string]int{}}
	inst := mod.build()
	before := inst.shared()
	expect := serialServer(inst, &out, "server:"+mod.name)
	if s := inst.shared(); s != before {
		out.mismatch("server:"+mod.name, "shared-object-mutated-serially", "shared", before, s)
	}
	inst.refresh() // the concurrent requests are the first ones to be handed these error objects
	var wg sync.WaitGroup
	var mu sync.Mutex
	start := make(chan struct{})
	stop := make(chan struct{})
	lateDone := make(chan struct{})
	go func() { // registrations on the live server while its Handler() copy serves
		defer close(lateDone)
		<-start
		for i := 0; ; i++ {
			select {
			case <-stop:
				return
			default:
			}
			inst.late(i)
			yield(3)
			if i > 400 {
				<-stop
				return
			}
		}
	}()
	counts := make([]map[string]int, cc.Goroutines)
	for g := 0; g < cc.Goroutines; g++ {
		wg.Add(1)
		counts[g] = map[string]int{}
		go func(g int) {
			defer wg.Done()
			r := hx.NewRand(cc.Seed*1000003 + uint64(g))
			<-start
			for i := 0; i < cc.Per; i++ {
				t := templates[r.Intn(len(templates))]
				want, ok := expect[t.Name]
				if !ok {
					continue
				}
				id := reqID(g, i)
				got := t.run(inst, id)
				counts[g][t.Name]++
				if got != want {
					mu.Lock()
					out.mismatch("server:"+mod.name, "result-differs-from-serial-run", t.Name, want, got)
					mu.Unlock()
				}
				if r.Intn(4) == 0 {
					yield(1 + r.Intn(3))
				}
			}
		}(g)
	}
	close(start)
	wg.Wait()
	close(stop)
	<-lateDone
	if s := inst.shared(); s != before {
		out.mismatch("server:"+mod.name, "shared-object-mutated", "shared", before, s)
	}
	for _, t := range templates { // the handler still answers as before the storm (late registrations invisible)
		if want, ok := expect[t.Name]; ok {
			if got := t.run(inst, idAfter); got != want {
				out.mismatch("server:"+mod.name, "result-differs-after-the-run", t.Name, want, got)
			}
		}
	}
	for _, c := range counts {
		for k, n := range c {
			out.Kinds["server:"+k] += n
			out.Ops += n
		}
	}
	for _, t := range templates {
		if e := expect[t.Name]; strings.HasPrefix(e, "2") {
			out.Nontrivial = append(out.Nontrivial, fmt.Sprintf("server:%s:%s:procs%d", mod.name, t.Name, cc.Procs))
		}
	}
	out.Statuses = map[string]string{}
	for k, e := range expect {
		out.Statuses["server:"+k] = strings.SplitN(e, "\n", 2)[0]
	}
	out.Samples = append(out.Samples, "server:"+mod.name+" shared-error-nil-message => "+strings.ReplaceAll(expect["shared-error-nil-message"], "\n", " | "))
	return out
}

// ------------------------------------------------------------------------------------------------ scenario: client

// the shared http.Client's transport: the request is served in-process by the handler (no sockets in the sandbox)
type handlerTransport struct{ h http.Handler }

func (t handlerTransport) RoundTrip(req *http.Request) (*http.Response, error) {
	rec := httptest.NewRecorder()
	body := recordWire(req) // the request as it arrives on the wire, filed under the id its caller put in the context
	r2 := req.Clone(req.Context())
	r2.RequestURI = req.URL.RequestURI()
	r2.Body = http.NoBody
	if body != nil {
		r2.Body = io.NopCloser(bytes.NewReader(body))
	}
	yield(1)
	t.h.ServeHTTP(rec, r2)
	res := rec.Result()
	res.Request = req
	return res, nil
}

var clientOps = []string{"get", "get-shared", "get-sub", "create", "delete", "find", "find-long", "get-all", "batch-get", "action",
	"fail", "fail-nostatus", "missing", "update", "update-long", "partial-update-long", "create-long",
	"wide-get", "wide-create", "wide-update", "wide-find-all", "wide-find-rec", "wide-batch-get", "wide-action"}

// per kind of client (client.go clientKindCfg: resolver and ExtraRequestHeaders configuration): the operations driven through it
var opsFor = map[string][]string{"simple": clientOps, "shared": clientOps,
	"d2":     {"get", "create", "delete", "find", "get-all", "batch-get", "action", "update-long", "create-long", "find-long"}, // "items" is the one d2 service
	"nilmap": {"get", "create", "delete", "find-long", "update", "update-long", "wide-get"},
	"bare":   {"get", "create", "delete", "find-long", "update", "update-long", "wide-get"}}

var clientKinds = []string{"simple", "d2", "shared", "nilmap", "bare"}

// requests built now and sent later go through the simple client (built:) or the one with the shared header set (built-shared:)
var builtKinds = map[string]string{"built": "simple", "built-shared": "shared"}
var builtKindNames = []string{"built", "built-shared"}

// requests built with NewJsonRequest / NewCreateRequest / NewGetRequest / NewDeleteRequest and sent later; the -long ones
// are tunnelled (query above the threshold), three of them with a body (multipart/mixed)
var buildOps = []string{"b-update-long", "b-partial-update-long", "b-create-long", "b-update", "b-get-long", "b-delete"}

// build now, send later: the observation of one request
func buildSend(c *clientFns, op, id string) (*http.Request, string) {
	req, err := c.build(op, id)
	if err != nil {
		return nil, "build-error:" + fmt.Sprintf("%T", err)
	}
	return req, ""
}

func canon(s, id string) string { return strings.ReplaceAll(s, id, "{id}") }

// serial expectations of the client operations (each twice, as serialServer).  get() hands out the clients for the next
// request: the same ones every time (a serial HISTORY on one client per kind), or brand-new ones (scenario expect)
func serialClient(get func() map[string]*clientFns, out *childOut, tag string) map[string]string {
	expect := map[string]string{}
	for _, bk := range builtKindNames {
		for _, op := range buildOps { // serial: build one, send it, build the next
			obs := [2]string{}
			for k, id := range []string{idSerialA, idSerialB} {
				c := get()[builtKinds[bk]]
				req, e := buildSend(c, op, id)
				if req != nil {
					e = c.send(req)
				}
				obs[k] = canon(e, id)
			}
			if hasConfigMarker(obs[0]) { // even alone on its client the request touched what belongs to the caller
				out.mismatch(tag, "client-config", bk+":"+op, "<the caller's header set and the built request untouched>", obs[0])
				obs[0], obs[1] = stripConfigMarkers(obs[0]), stripConfigMarkers(obs[1])
			}
			if obs[0] != obs[1] {
				out.mismatch(tag, "serial-run-not-deterministic", bk+":"+op, obs[0], obs[1])
				continue
			}
			expect[bk+":"+op] = obs[0]
		}
	}
	for _, kind := range clientKinds {
		call := func(op, id string) string { return get()[kind].call(op, id) }
		for _, op := range opsFor[kind] {
			a := canon(call(op, idSerialA), idSerialA)
			b := canon(call(op, idSerialB), idSerialB)
			if hasConfigMarker(a) {
				out.mismatch(tag, "client-config", kind+":"+op, "<the caller's header set untouched>", a)
				a, b = stripConfigMarkers(a), stripConfigMarkers(b)
			}
			if a != b {
				out.mismatch(tag, "serial-run-not-deterministic", kind+":"+op, a, b)
				continue
			}
			expect[kind+":"+op] = a
		}
	}
	return expect
}

func runClient(cc childCfg, mod srvModule, dm d2Module) childOut {
	out := childOut{Kinds: map[string]int{}}
	inst := mod.build()
	before := inst.shared()
	d := dm.new("items", "clusterA", []string{"https", "http"})
	// the d2 resolver needs the other root resources as services too: one client per resolver kind, each shared by all goroutines
	announce := func(node string, hosts map[string]float64) {
		b, _ := json.Marshal(map[string]interface{}{"weights": hosts})
		d.apply(d.urisPath+"/"+node, &b)
	}
	announce("n1", map[string]float64{"http://h1.test:80/": 1, "http://h2.test:80/": 2})
	clients := newClients(inst, d)
	// a serial HISTORY on one client per kind; every answer (the request as it went over the wire included) must be the one a
	// brand-new client gives (the serial child process, when its answers were handed over)
	expect := serialClient(func() map[string]*clientFns { return clients }, &out, "client:"+mod.name)
	for k, want := range loadExpect(cc.Expect) {
		if got, ok := expect[strings.TrimPrefix(k, "client:")]; ok && strings.HasPrefix(k, "client:") && got != want {
			out.Mismatches = append(out.Mismatches, newMismatch("client:"+mod.name, "client-config", k[len("client:"):], want, got,
				"the serial phase of the client scenario: every operation in turn, twice, on ONE client per kind, compared with a brand-new client per request"))
		}
	}
	if s := inst.shared(); s != before {
		out.mismatch("client:"+mod.name, "shared-object-mutated-serially", "shared", before, s)
	}
	inst.refresh()
	var wg sync.WaitGroup
	var mu sync.Mutex
	start := make(chan struct{})
	stop := make(chan struct{})
	feederDone := make(chan struct{})
	go func() { // URI events for the cluster while the d2-resolved client is in use
		defer close(feederDone)
		<-start
		for i := 0; ; i++ {
			select {
			case <-stop:
				return
			default:
			}
			announce(fmt.Sprintf("n%d", 2+i%3), map[string]float64{fmt.Sprintf("http://h%d.test:80/", 3+i%4): float64(1 + i%3)})
			if i%5 == 4 {
				d.apply(d.urisPath+"/"+fmt.Sprintf("n%d", 2+i%3), nil)
			}
			yield(2)
			if i > 2000 {
				<-stop
				return
			}
		}
	}()
	counts := make([]map[string]int, cc.Goroutines)
	for g := 0; g < cc.Goroutines; g++ {
		wg.Add(1)
		counts[g] = map[string]int{}
		go func(g int) {
			defer wg.Done()
			r := hx.NewRand(cc.Seed*7000003 + uint64(g))
			<-start
			for i := 0; i < cc.Per; i++ {
				kind := []string{"simple", "simple", "shared", "shared", "d2", "d2", "nilmap", "bare"}[r.Intn(8)]
				ops := opsFor[kind]
				op := ops[r.Intn(len(ops))]
				want, ok := expect[kind+":"+op]
				if !ok {
					continue
				}
				id := reqID(g, i)
				got := strings.ReplaceAll(clients[kind].call(op, id), id, "{id}")
				counts[g][kind+":"+op]++
				if got != want {
					mu.Lock()
					out.mismatch("client:"+mod.name, "result-differs-from-serial-run", kind+":"+op, want, got)
					mu.Unlock()
				}
				if i%4 == 3 { // a burst: three requests built back to back, then sent in reverse order
					type built struct {
						op, id string
						req    *http.Request
						err    string
					}
					var bs []built
					bk := builtKindNames[r.Intn(2)]
					bc := clients[builtKinds[bk]]
					for j := 0; j < 3; j++ {
						bop, bid := buildOps[r.Intn(len(buildOps))], reqID(g, 5000+i*4+j)
						req, e := buildSend(bc, bop, bid)
						bs = append(bs, built{bop, bid, req, e})
					}
					for j := len(bs) - 1; j >= 0; j-- {
						b := bs[j]
						w, ok := expect[bk+":"+b.op]
						if !ok {
							continue
						}
						got := b.err
						if b.req != nil {
							got = bc.send(b.req)
						}
						counts[g][bk+":"+b.op]++
						if got = canon(got, b.id); got != w {
							mu.Lock()
							out.mismatch("client:"+mod.name, "built-request-differs-from-serial-run", bk+":"+b.op, w, got)
							mu.Unlock()
						}
					}
				}
			}
		}(g)
	}
	// one goroutine builds requests while another sends the ones built earlier (up to 8 are pending at any time)
	type pending struct {
		op, id string
		req    *http.Request
		err    string
	}
	pipe := make(chan pending, 8)
	pipeCount := map[string]int{}
	wg.Add(2)
	go func() {
		defer wg.Done()
		defer close(pipe)
		r := hx.NewRand(cc.Seed*911 + 17)
		<-start
		for i := 0; i < cc.Per*2; i++ {
			op, id := buildOps[r.Intn(len(buildOps))], reqID(80, i)
			req, e := buildSend(clients["shared"], op, id) // the client whose ExtraRequestHeaders callback returns ONE shared header set
			pipe <- pending{op, id, req, e}
		}
	}()
	go func() {
		defer wg.Done()
		<-start
		for p := range pipe {
			w, ok := expect["built-shared:"+p.op]
			if !ok {
				continue
			}
			got := p.err
			if p.req != nil {
				got = clients["shared"].send(p.req)
			}
			pipeCount["built-shared:"+p.op]++
			if got = canon(got, p.id); got != w {
				mu.Lock()
				out.mismatch("client:"+mod.name, "built-request-differs-from-serial-run", "pipelined:"+p.op, w, got)
				mu.Unlock()
			}
		}
	}()
	close(start)
	wg.Wait()
	close(stop)
	<-feederDone
	counts = append(counts, pipeCount)
	if s := inst.shared(); s != before {
		out.mismatch("client:"+mod.name, "shared-object-mutated", "shared", before, s)
	}
	for _, c := range counts {
		for k, n := range c {
			out.Kinds["client:"+k] += n
			out.Ops += n
		}
	}
	for k, e := range expect {
		if strings.Contains(e, " ok |") || strings.HasPrefix(e, "ok |") || (strings.HasPrefix(k, "built:") && strings.HasPrefix(e, "2")) {
			out.Nontrivial = append(out.Nontrivial, fmt.Sprintf("client:%s:%s:procs%d", mod.name, k, cc.Procs))
		}
	}
	out.Statuses = map[string]string{}
	for k, e := range expect {
		i := strings.Index(e, " | ")
		if i < 0 { // a request built earlier and sent later: "<status> <echo headers>"
			out.Statuses["client:"+k] = strings.SplitN(e, " ", 2)[0]
			continue
		}
		f := strings.Fields(e[:i])
		st := strings.Join(f, " ")
		if j := strings.LastIndex(st, " ok"); j >= 0 && strings.HasSuffix(st, " ok") || st == "ok" {
			st = "ok"
		} else if j := strings.Index(st, "restli-error"); j >= 0 {
			st = st[j:]
		}
		out.Statuses["client:"+k] = st
	}
	out.Samples = append(out.Samples, "client:"+mod.name+" simple:fail => "+expect["simple:fail"])
	return out
}

// ------------------------------------------------------------------------------------------------ scenario: d2

type published struct {
	w    interface{}
	copy map[string]map[string]float64
}

func snapEqual(a, b map[string]map[string]float64) bool {
	x, _ := json.Marshal(a)
	y, _ := json.Marshal(b)
	return string(x) == string(y)
}

// the hosts chooseHost may return for a snapshot: those of the first prioritized scheme that has a host with... any
// host of that scheme (weights are all positive here); with no priorities, any host
func eligible(snap map[string]map[string]float64, schemes []string) map[string]bool {
	all := map[string]bool{}
	for _, hs := range snap {
		for h := range hs {
			all[h] = true
		}
	}
	if len(schemes) == 0 {
		return all
	}
	for _, s := range schemes {
		out := map[string]bool{}
		for h := range all {
			if strings.HasPrefix(h, s+"://") {
				out[h] = true
			}
		}
		if len(out) > 0 {
			return out
		}
	}
	return map[string]bool{}
}

func runD2(cc childCfg, dm d2Module) childOut {
	out := childOut{Kinds: map[string]int{}}
	schemes := []string{"https", "http"}
	d := dm.new("svc", "clusterA", schemes)
	payload := func(hosts map[string]float64) *[]byte {
		b, _ := json.Marshal(map[string]interface{}{"weights": hosts})
		return &b
	}
	var mu sync.Mutex
	pubs := []published{}
	record := func() {
		w := d.current()
		mu.Lock()
		pubs = append(pubs, published{w, d.inspect(w)})
		mu.Unlock()
	}
	d.apply(d.urisPath+"/n0", payload(map[string]float64{"http://a.test:1/": 1, "http://b.test:1/": 3}))
	record()
	d.apply(d.urisPath+"/n1", payload(map[string]float64{"https://c.test:2/": 2}))
	record()
	events := cc.Per * 2
	var wg sync.WaitGroup
	start := make(chan struct{})
	feederDone := make(chan struct{})
	note := func(what, name, want, got string) {
		mu.Lock()
		out.mismatch("d2:"+dm.name, what, name, want, got)
		mu.Unlock()
	}
	go func() { // the one updater goroutine of the cluster (client.go waitForUriUpdates)
		defer close(feederDone)
		r := hx.NewRand(cc.Seed*31 + 5)
		<-start
		for i := 0; i < events; i++ {
			node := fmt.Sprintf("/n%d", r.Intn(5))
			switch r.Intn(6) {
			case 0:
				d.apply(d.urisPath+node, nil) // removed
			case 1:
				bad := []byte("{not json")
				d.apply(d.urisPath+node, &bad) // malformed: ignored
			case 2:
				d.apply(d.urisPath+node, payload(map[string]float64{})) // no weights: ignored
			default:
				sc := []string{"http", "https"}[r.Intn(2)]
				d.apply(d.urisPath+node, payload(map[string]float64{
					fmt.Sprintf("%s://h%d.test:%d/", sc, r.Intn(6), 1+r.Intn(3)): float64(1 + r.Intn(4)),
					fmt.Sprintf("http://k%d.test:9/", r.Intn(3)):                 float64(1 + r.Intn(2))}))
			}
			record()
			yield(1 + r.Intn(2))
		}
	}()
	ops := make([]int, cc.Goroutines)
	for g := 0; g < cc.Goroutines; g++ {
		wg.Add(1)
		go func(g int) {
			defer wg.Done()
			r := hx.NewRand(cc.Seed*977 + uint64(g))
			<-start
			for i := 0; i < cc.Per; i++ {
				// (1) a resolution through the client: the host must be announced in SOME published snapshot or the current one
				u, err := d.resolve("svc")
				ops[g]++
				if err == nil && u != nil {
					cur := d.current()
					ok := eligibleAny(d.inspect(cur), u.String())
					mu.Lock()
					for k := len(pubs) - 1; k >= 0 && !ok; k-- {
						ok = eligibleAny(pubs[k].copy, u.String())
					}
					mu.Unlock()
					if !ok {
						note("resolved-host-never-announced", "resolve", "a host of a published snapshot", u.String())
					}
				}
				// (2) host selection on an OLD snapshot, which must also still be what it was when published
				mu.Lock()
				p := pubs[r.Intn(len(pubs))]
				mu.Unlock()
				sch := schemes
				if r.Intn(3) == 0 {
					sch = nil
				}
				h := d.choose(p.w, sch)
				ops[g]++
				el := eligible(p.copy, sch)
				if h == nil {
					if len(el) != 0 {
						note("no-host-chosen-although-eligible", "chooseHost", fmt.Sprint(el), "nil")
					}
				} else if !el[h.String()] {
					note("chosen-host-not-eligible-in-its-snapshot", "chooseHost", fmt.Sprint(el), h.String())
				}
				if now := d.inspect(p.w); !snapEqual(now, p.copy) {
					j1, _ := json.Marshal(p.copy)
					j2, _ := json.Marshal(now)
					note("published-snapshot-changed", "snapshot", string(j1), string(j2))
				}
				ops[g]++
			}
		}(g)
	}
	close(start)
	wg.Wait()
	<-feederDone
	for _, p := range pubs {
		if now := d.inspect(p.w); !snapEqual(now, p.copy) {
			j1, _ := json.Marshal(p.copy)
			j2, _ := json.Marshal(now)
			note("published-snapshot-changed", "snapshot-after-run", string(j1), string(j2))
		}
	}
	n := 0
	for _, k := range ops {
		n += k
	}
	out.Ops = n + events
	out.Kinds["d2:resolve+chooseHost+reinspect"] = n
	out.Kinds["d2:uri-event"] = events
	out.Nontrivial = append(out.Nontrivial, fmt.Sprintf("d2:%s:procs%d:snapshots%d", dm.name, cc.Procs, len(pubs)/8))
	out.Samples = append(out.Samples, fmt.Sprintf("d2:%s %d snapshots published during the run, all unchanged at the end", dm.name, len(pubs)))
	return out
}

func eligibleAny(snap map[string]map[string]float64, host string) bool {
	for _, hs := range snap {
		if _, ok := hs[host]; ok {
			return true
		}
	}
	return false
}

// ------------------------------------------------------------------------------------------------ child entry

func childMain(raw string) {
	var cc childCfg
	if err := json.Unmarshal([]byte(raw), &cc); err != nil {
		fmt.Fprintln(os.Stderr, "bad child config:", err)
		os.Exit(3)
	}
	runtime.GOMAXPROCS(cc.Procs)
	log.SetOutput(io.Discard) // the server logs recovered panics
	mods := map[string]srvModule{"v2": modV2, "root": modRoot}
	d2s := map[string]d2Module{"v2": d2V2, "root": d2Root}
	var out childOut
	switch cc.Scenario {
	case "server":
		out = runServer(cc, mods[cc.Module])
	case "client":
		out = runClient(cc, mods[cc.Module], d2s[cc.Module])
	case "d2":
		out = runD2(cc, d2s[cc.Module])
	case "typeref":
		out = runTyperef(cc)
	case "burst-server":
		out = runBurstServer(cc, mods[cc.Module])
	case "burst-client":
		out = runBurstClient(cc, mods[cc.Module], d2s[cc.Module])
	case "burst-d2":
		out = runBurstD2(cc, d2s[cc.Module])
	case "expect":
		out = runExpect(cc, mods[cc.Module], d2s[cc.Module])
	case "history-client":
		out = runHistoryClient(cc, mods[cc.Module], d2s[cc.Module])
	case "history-typeref":
		out = runHistoryTyperef(cc, func(o childOut) { // a step hangs: report and leave (its goroutine cannot be cancelled)
			b, _ := json.Marshal(o)
			os.Stdout.Write(b)
			os.Exit(0)
		})
	default:
		fmt.Fprintln(os.Stderr, "unknown scenario", cc.Scenario)
		os.Exit(3)
	}
	b, _ := json.Marshal(out)
	os.Stdout.Write(b)
}

// ------------------------------------------------------------------------------------------------ race reports

type frame struct{ Fn, File string }

type raceReport struct {
	Sig   string   `json:"sig"`
	Sites []string `json:"sites"`
	Text  string   `json:"text"`
	Phase string   `json:"phase,omitempty"` // fresh-state bursts: the last phase marker (burst.go marker) before the report
}

// the last phase marker of a burst child before position pos of its stderr
func lastPhase(stderr string, pos int) string {
	if pos > len(stderr) {
		pos = len(stderr)
	}
	i := strings.LastIndex(stderr[:pos], "C17-PHASE ")
	if i < 0 {
		return ""
	}
	l := stderr[i+len("C17-PHASE "):]
	if j := strings.IndexByte(l, '\n'); j >= 0 {
		l = l[:j]
	}
	return clipN(l, 400)
}

var reFile = regexp.MustCompile(`^\s+(\S+\.go):(\d+)`)

func trimPath(p, repo string) string {
	if repo != "" && strings.HasPrefix(p, repo+"/") {
		return p[len(repo)+1:]
	}
	for _, m := range []string{"/go-restli/", "/repo/"} {
		if i := strings.LastIndex(p, m); i >= 0 {
			return p[i+len(m):]
		}
	}
	if i := strings.Index(p, "/harness/"); i >= 0 {
		return "harness/" + p[i+len("/harness/"):]
	}
	if i := strings.Index(p, "/src/"); i >= 0 {
		return "go/" + p[i+len("/src/"):]
	}
	return p
}

func trimFn(f string) string {
	f = strings.TrimSuffix(strings.TrimSpace(f), "()")
	f = strings.ReplaceAll(f, "github.com/PapaCharlie/go-restli/", "")
	if i := strings.Index(f, "[...]"); i >= 0 {
		f = f[:i] + f[i+5:]
	}
	return f
}

// the access site of one stack of a report: the first frame inside go-restli if there is one (the top frames are often
// runtime.mapaccess / math/rand), else the top frame
func site(stack []frame, repo string) (string, string) {
	for _, f := range stack {
		if strings.HasPrefix(f.File, repo) && !strings.Contains(f.File, "/harness/") {
			return trimFn(f.Fn), trimPath(f.File, repo)
		}
	}
	if len(stack) == 0 {
		return "?", "?"
	}
	return trimFn(stack[0].Fn), trimPath(stack[0].File, repo)
}

func parseRaces(stderr, repo string) []raceReport {
	var out []raceReport
	pos := 0
	for _, block := range strings.Split(stderr, "==================") {
		at := pos
		pos += len(block) + len("==================")
		if !strings.Contains(block, "WARNING: DATA RACE") {
			continue
		}
		lines := strings.Split(block, "\n")
		var stacks [][]frame
		var cur []frame
		in := false
		for i := 0; i < len(lines); i++ {
			l := lines[i]
			lower := strings.ToLower(l)
			switch {
			case strings.HasPrefix(l, "Read at") || strings.HasPrefix(l, "Write at") || strings.HasPrefix(lower, "previous ") ||
				strings.HasPrefix(l, "Atomic ") || strings.HasPrefix(lower, "previous atomic"):
				if in {
					stacks = append(stacks, cur)
				}
				cur, in = nil, true
			case strings.HasPrefix(l, "Goroutine ") || strings.HasPrefix(l, "Found "):
				if in {
					stacks = append(stacks, cur)
				}
				cur, in = nil, false
			case in && strings.HasPrefix(l, "  ") && !strings.HasPrefix(l, "   ") && i+1 < len(lines):
				if m := reFile.FindStringSubmatch(lines[i+1]); m != nil {
					cur = append(cur, frame{strings.TrimSpace(l), m[1] + ":" + m[2]})
					i++
				}
			}
		}
		if in {
			stacks = append(stacks, cur)
		}
		var fns, sites []string
		for _, st := range stacks {
			if len(fns) == 2 {
				break
			}
			fn, file := site(st, repo)
			fns = append(fns, fn)
			sites = append(sites, fn+" @ "+file)
		}
		sort.Strings(fns)
		out = append(out, raceReport{Sig: "race:" + strings.Join(fns, "|"), Sites: sites, Text: clip(strings.TrimSpace(block)), Phase: lastPhase(stderr, at)})
	}
	return out
}

// ------------------------------------------------------------------------------------------------ the static table (mirrors Conc/Footprint.v)

// For each kind of operation driven above: the SHARED cells it can touch, as (class, write, sync) with the numbering of
// coq/Corr/C17Corr.v: classes 1 tree of the handler copy, 2 rootNode (prefix, filters), 3 MethodNameMapping, 4 error
// object of the resource, 5 success value of the resource, 6 restli.Client struct, 7 the resolver's *url.URL, 8
// http.Client, 9 d2 services map, 10 d2 uris map, 11 serviceUris snapshot, 12 rand state, 13 typeref registry, 17 the
// RequiredFields objects of the records being read; sync 0 plain, 1 atomic (sync.Map / net/http), 2 under rngLock.
// Written from the Go sources:
//
//	serve    handler.go:78-165, 182-353: reads r.prefix, r.subNodes, r.filters, p.methods/finders/actions/subNodes,
//	         MethodNameMapping, the returned error / value, the RequiredFields of the records it decodes
//	         (restlicodec/reader.go:125-127, 212-222: copied into a map of the reader's own); writes nothing shared
//	call     http.go:69-127, 163-230, 298-345: reads the Client's fields and the resolver's URL (copied before edit), the
//	         RequiredFields of the response record
//	resolve  d2/client.go:249-259, serviceUris.go:16-76: sync.Map loads, reads the snapshot, rng under rngLock
//	update   d2/client.go:163-200, serviceUris.go:78-89: sync.Map load/store, reads the old snapshot, writes the new one
//	registry restlicodec/custom_typerefs.go:20-47: one sync.Map operation
var sharedCells = [][][3]int{
	0: {{1, 0, 0}, {2, 0, 0}, {3, 0, 0}, {4, 0, 0}, {5, 0, 0}, {17, 0, 0}},
	1: {{6, 0, 0}, {7, 0, 0}, {8, 1, 1}, {17, 0, 0}},
	2: {{9, 0, 1}, {10, 0, 1}, {11, 0, 0}, {12, 1, 2}},
	3: {{10, 0, 1}, {10, 1, 1}, {11, 0, 0}, {11, 1, 0}},
	4: {{13, 0, 1}},
	5: {{13, 1, 1}},
	6: {{6, 0, 0}, {8, 1, 1}, {9, 0, 1}, {10, 0, 1}, {11, 0, 0}, {12, 1, 2}, {17, 0, 0}},
}

var kindNames = []string{"serve", "client-call(simple resolver)", "resolve/chooseHost", "handleUriUpdate+publish", "registry lookup",
	"registry registration", "client-call(d2 resolver)"}

// ------------------------------------------------------------------------------------------------ parent

type plan struct {
	cfg childCfg
	rep int
}

type runResult struct {
	p      plan
	out    childOut
	races  []raceReport
	rc     int
	stderr string
	err    string
	crash  *crashReport
	dur    time.Duration
}

// A child that died: neither a result nor the race detector's exit code.  The runtime's fatal errors (`concurrent map
// writes`, `concurrent map read and map write`, `all goroutines are asleep`), an unrecovered panic, a signal.
type crashReport struct {
	Kind  string `json:"kind"`
	Text  string `json:"text"`            // the child's stderr from the fatal line on (head)
	Phase string `json:"phase,omitempty"` // fresh-state bursts: the requests in flight
	Exit  int    `json:"exit"`
}

var reSlug = regexp.MustCompile(`[^a-z0-9]+`)

func classifyCrash(stderr string, rc int) *crashReport {
	at, kind := -1, fmt.Sprintf("exit%d", rc)
	if i := strings.Index(stderr, "fatal error: "); i >= 0 {
		at = i
		msg := stderr[i+len("fatal error: "):]
		if j := strings.IndexByte(msg, '\n'); j >= 0 {
			msg = msg[:j]
		}
		if strings.HasPrefix(msg, "concurrent map") {
			kind = "concurrent-map"
		} else {
			kind = "fatal-" + strings.Trim(reSlug.ReplaceAllString(strings.ToLower(clipN(msg, 40)), "-"), "-")
		}
	} else if i := strings.Index(stderr, "\npanic: "); i >= 0 || strings.HasPrefix(stderr, "panic: ") {
		at, kind = i+1, "panic"
	} else if i := strings.Index(stderr, "SIG"); i >= 0 && rc < 0 {
		at, kind = i, "signal"
	}
	text := stderr
	if at >= 0 {
		text = stderr[at:]
	} else {
		text = lastLines(stderr, 40)
	}
	l := strings.Split(text, "\n")
	if len(l) > 45 {
		l = l[:45]
	}
	if at < 0 {
		at = len(stderr)
	}
	return &crashReport{Kind: kind, Text: strings.Join(l, "\n"), Phase: lastPhase(stderr, at), Exit: rc}
}

func runChild(p plan, repo string) runResult {
	b, _ := json.Marshal(p.cfg)
	cmd := exec.Command(os.Args[0])
	cmd.Env = append(os.Environ(), "C17_CHILD="+string(b), "GORACE=halt_on_error=0 exitcode=66 history_size=3")
	var so, se bytes.Buffer
	cmd.Stdout, cmd.Stderr = &so, &se
	t0 := time.Now()
	done := make(chan error, 1)
	if err := cmd.Start(); err != nil {
		return runResult{p: p, err: "cannot start child: " + err.Error()}
	}
	go func() { done <- cmd.Wait() }()
	var werr error
	select {
	case werr = <-done:
	case <-time.After(10 * time.Minute):
		cmd.Process.Kill()
		<-done
		return runResult{p: p, err: "child timed out (deadlock?)", stderr: clip(se.String()), dur: time.Since(t0)}
	}
	res := runResult{p: p, stderr: se.String(), dur: time.Since(t0)}
	if werr != nil {
		if ee, ok := werr.(*exec.ExitError); ok {
			res.rc = ee.ExitCode()
		} else {
			res.err = werr.Error()
		}
	}
	res.races = parseRaces(res.stderr, repo)
	if err := json.Unmarshal(so.Bytes(), &res.out); err != nil {
		if res.err == "" && res.rc != 0 && res.rc != 3 {
			res.crash = classifyCrash(res.stderr, res.rc) // the child died under the operations it was driving: a failing input
		} else {
			res.err = fmt.Sprintf("child produced no result (exit %d): %s", res.rc, clip(lastLines(res.stderr, 25)))
		}
	} else if res.rc != 0 && res.rc != 66 {
		res.crash = classifyCrash(res.stderr, res.rc)
	}
	return res
}

func firstLine(s string) string {
	if i := strings.IndexByte(s, '\n'); i >= 0 {
		s = s[:i]
	}
	return clipN(s, 200)
}

func lastLines(s string, n int) string {
	l := strings.Split(strings.TrimSpace(s), "\n")
	if len(l) > n {
		l = l[len(l)-n:]
	}
	return strings.Join(l, "\n")
}

func main() {
	if raw := os.Getenv("C17_CHILD"); raw != "" {
		childMain(raw)
		return
	}
	cfg := hx.ParseFlags()
	repo := os.Getenv("VERIF_REPO")
	if repo == "" {
		repo = "/repo"
	}
	rep := hx.NewReport("one evaluation = one concurrent operation on the real code under the race detector (a request through the shared " +
		"Handler(), a call through the shared restli.Client, a resolution / chooseHost / snapshot re-inspection, a URI event, a registry " +
		"operation); distinct non-trivial = distinct (scenario, module, request template or client operation, GOMAXPROCS) whose serial " +
		"result is a success (2xx / ok) and that ran concurrently with others")

	goroutines, per, reps := 16, 24, 3
	procs := []int{1, 2, 8}
	// fresh-state bursts: goroutines per phase, rounds per child (each on newly constructed objects), children per
	// (scenario, module, GOMAXPROCS)
	burstG, burstRounds, burstReps, burstProcs := 8, 12, 1, []int{1, 2, 8}
	if cfg.Thorough() {
		goroutines, per, reps = 32, 300, 8
		procs = []int{1, 2, 3, 4, 8, 16}
		burstG, burstRounds, burstReps, burstProcs = 16, 60, 4, []int{1, 2, 4, 8, 16}
	}
	type sc struct{ scenario, module string }
	scenarios := []sc{{"server", "v2"}, {"server", "root"}, {"client", "v2"}, {"client", "root"}, {"d2", "v2"}, {"d2", "root"}, {"typeref", "v2"}}
	bursts := []sc{{"burst-server", "v2"}, {"burst-server", "root"}, {"burst-client", "v2"}, {"burst-client", "root"}, {"burst-d2", "v2"}, {"burst-d2", "root"}}
	isBurst := func(scenario string) bool { return strings.HasPrefix(scenario, "burst-") }
	// serial HISTORIES with their own oracles: on one client (client.go), on the custom typeref registry with per-step deadlines (trhist.go)
	histories := []sc{{"history-client", "v2"}, {"history-client", "root"}, {"history-typeref", "v2"}}
	histRounds, histProcs := 16, []int{2, 8}
	if cfg.Thorough() {
		histRounds, histProcs = 80, []int{1, 2, 4, 8, 16}
	}
	// the scenarios that compare with the answers of the serial child process (scenario expect)
	needsExpect := func(scenario string) bool {
		return scenario == "burst-server" || scenario == "burst-client" || scenario == "history-client" || scenario == "client"
	}
	var plans []plan
	if cfg.Replay != "" {
		// a replay file names the run that failed; it is re-run 5 times under the same configuration
		var rf struct {
			Case struct {
				Run childCfg `json:"run"`
			} `json:"case"`
		}
		b, err := os.ReadFile(cfg.Replay)
		if err == nil {
			err = json.Unmarshal(b, &rf)
		}
		if err != nil || rf.Case.Run.Scenario == "" {
			fmt.Fprintln(os.Stderr, "cannot read replay file:", err)
			os.Exit(2)
		}
		for r := 0; r < 5; r++ {
			c := rf.Case.Run
			c.Seed += uint64(r)
			plans = append(plans, plan{c, r})
		}
	} else {
		seed := cfg.Seed
		for _, s := range scenarios {
			for _, p := range procs {
				for r := 0; r < reps; r++ {
					seed++
					g, n := goroutines, per
					if s.scenario == "d2" || s.scenario == "typeref" {
						n = per * 3
					}
					plans = append(plans, plan{childCfg{Scenario: s.scenario, Module: s.module, Goroutines: g, Per: n, Procs: p, Seed: seed}, r})
				}
			}
		}
		for _, s := range bursts {
			for _, p := range burstProcs {
				for r := 0; r < burstReps; r++ {
					seed++
					c := childCfg{Scenario: s.scenario, Module: s.module, Goroutines: burstG, Procs: p, Seed: seed, Rounds: burstRounds}
					if s.scenario == "burst-d2" {
						c.Per, c.Rounds = 2, burstRounds*3
					}
					plans = append(plans, plan{c, r})
				}
			}
		}
		for _, s := range histories {
			for _, p := range histProcs {
				seed++
				c := childCfg{Scenario: s.scenario, Module: s.module, Goroutines: burstG, Procs: p, Seed: seed, Rounds: histRounds, Per: histRounds * 4}
				plans = append(plans, plan{c, 0})
			}
		}
	}

	// the answers the bursts are compared with: one SERIAL child process per module; handed to the burst children as a file
	scratch, err := os.MkdirTemp("", "c17-expect-")
	if err != nil {
		fmt.Fprintln(os.Stderr, "cannot create a scratch directory:", err)
		os.Exit(2)
	}
	defer os.RemoveAll(scratch)
	expectFile := map[string]string{}
	var expectMods []string
	for _, m := range []string{"v2", "root"} {
		for _, pl := range plans {
			if pl.cfg.Module == m && needsExpect(pl.cfg.Scenario) {
				expectMods = append(expectMods, m)
				break
			}
		}
	}
	expectRuns := make([]runResult, len(expectMods))
	var ewg sync.WaitGroup
	for k, m := range expectMods {
		ewg.Add(1)
		go func(k int, m string) {
			defer ewg.Done()
			expectRuns[k] = runChild(plan{childCfg{Scenario: "expect", Module: m, Procs: 2, Seed: cfg.Seed}, 0}, repo)
		}(k, m)
	}
	ewg.Wait()
	for _, res := range expectRuns {
		m := res.p.cfg.Module
		if len(res.out.Expect) > 0 && len(res.races) == 0 {
			b, _ := json.Marshal(res.out.Expect)
			f := scratch + "/expect_" + m + ".json"
			if err := os.WriteFile(f, b, 0o644); err == nil {
				expectFile[m] = f
			}
		}
	}
	runnable := plans[:0:0]
	for _, pl := range plans {
		if needsExpect(pl.cfg.Scenario) {
			pl.cfg.Expect = expectFile[pl.cfg.Module]
			if pl.cfg.Expect == "" && pl.cfg.Scenario != "client" {
				continue // the serial child failed: reported below (expectRuns); nothing to compare a burst / history with
			}
		}
		runnable = append(runnable, pl)
	}
	plans = runnable

	// children run 4 at a time (each sets its own GOMAXPROCS)
	results := make([]runResult, len(plans))
	sem := make(chan struct{}, 4)
	var wg sync.WaitGroup
	for i := range plans {
		wg.Add(1)
		sem <- struct{}{}
		go func(i int) {
			defer wg.Done()
			results[i] = runChild(plans[i], repo)
			<-sem
		}(i)
	}
	wg.Wait()

	nRaces, nCrashes, nBurstChildren := 0, 0, 0
	serial := map[string]string{}
	results = append(expectRuns, results...)
	for _, r := range results {
		tag := fmt.Sprintf("%s:%s", r.p.cfg.Scenario, r.p.cfg.Module)
		if isBurst(r.p.cfg.Scenario) {
			nBurstChildren++
		}
		r.p.cfg.Expect = "" // a scratch path: of no use in a replay file (the replay makes its own serial child)
		rep.Count(fmt.Sprintf("runs:%s:procs%d", tag, r.p.cfg.Procs))
		rep.Evaluations += r.out.Ops
		for k, n := range r.out.Kinds {
			rep.CountN(k, n)
		}
		for _, k := range r.out.Nontrivial {
			rep.Distinct(k, true)
		}
		for k, v := range r.out.Statuses {
			serial[k+" ("+r.p.cfg.Module+")"] = v
		}
		for _, s := range r.out.Samples {
			if r.p.rep == 0 && (r.p.cfg.Procs == procs[len(procs)-1] || isBurst(r.p.cfg.Scenario)) {
				rep.Sample(s)
			}
		}
		c := map[string]interface{}{"run": r.p.cfg}
		if r.err != "" {
			rep.Fail("run-failed:"+tag, "the concurrent run did not complete: "+r.err, tag, c, r.err)
		}
		if r.crash != nil {
			nCrashes++
			what := fmt.Sprintf("the child process of scenario %s DIED (exit %d) while serving concurrent requests: %s", tag, r.crash.Exit, firstLine(r.crash.Text))
			if r.crash.Phase != "" {
				what += "; in flight: " + r.crash.Phase
			}
			rep.Fail("crash:"+r.crash.Kind+":"+tag, what, tag, map[string]interface{}{"run": r.p.cfg, "in_flight": r.crash.Phase}, r.crash)
		}
		for _, rr := range r.races {
			nRaces++
			rc := c
			what := "DATA RACE reported by the Go race detector in scenario " + tag + ": " + strings.Join(rr.Sites, "  <->  ")
			if rr.Phase != "" {
				rc = map[string]interface{}{"run": r.p.cfg, "in_flight": rr.Phase}
				what += "; in flight: " + rr.Phase
			}
			rep.Fail(rr.Sig, what, strings.Join(rr.Sites, " | "), rc, rr.Text)
		}
		if r.rc == 66 && len(r.races) == 0 {
			rep.Fail("race:unparsed:"+tag, "the race detector exited with its error code but no report could be parsed", tag, c, clip(lastLines(r.stderr, 40)))
		}
		for _, h := range r.out.Hangs {
			rep.Fail("hang:"+h.Scenario+":"+h.Kind, h.What, tag, map[string]interface{}{"run": r.p.cfg, "history": h.History, "stuck_step": h.Index, "step_kind": h.Kind}, h.What)
		}
		for _, m := range r.out.Mismatches {
			mc := map[string]interface{}{"run": r.p.cfg, "name": m.Name, "want": m.Want, "got": m.Got}
			if m.Class != "" { // a client request that differs in what the client's configuration surface is about (client.go)
				if m.Request != "" {
					mc["request"] = m.Request
				}
				for _, class := range strings.Split(m.Class, "+") {
					sig := "client-config:" + class + ":" + m.Scenario
					if class == "header-leak" || class == "wire-differs" { // per kind of client (shared, built-shared, simple ...)
						sig += ":" + strings.SplitN(m.Name, ":", 2)[0]
					}
					rep.Fail(sig, fmt.Sprintf("%s (%s, %s): %s; expected %q, got %q; %s", class, m.Scenario, m.What, m.Name, clipN(m.Want, 500), clipN(m.Got, 900), m.Request),
						m.Scenario, mc, map[string]string{"want": m.Want, "got": m.Got})
				}
				continue
			}
			if strings.HasPrefix(m.What, "burst:") { // a request of a fresh-state burst answered otherwise than in the serial process
				mc["request"] = m.Request
				rep.Fail(m.What+":"+m.Scenario+":"+m.Name, fmt.Sprintf("%s (%s): a valid request whose serial answer is %q was answered %q; %s",
					m.What, m.Scenario, firstLine(m.Want), firstLine(m.Got), m.Request), m.Scenario, mc, map[string]string{"want": m.Want, "got": m.Got})
				continue
			}
			if m.Request != "" {
				mc["request"] = m.Request
			}
			rep.Fail("mismatch:"+m.Scenario+":"+m.What+":"+m.Name, m.What+" ("+m.Scenario+", "+m.Name+")", m.Scenario, mc,
				map[string]string{"want": m.Want, "got": m.Got})
		}
	}
	rep.Extra["runs"] = len(plans)
	rep.Extra["serial_outcome_per_template"] = serial
	rep.Extra["race_reports"] = nRaces
	rep.Extra["crashed_children"] = nCrashes
	rep.Extra["fresh_state_bursts"] = map[string]interface{}{"children": nBurstChildren, "goroutines_per_phase": burstG, "rounds_per_child": burstRounds,
		"gomaxprocs": burstProcs, "wide_record_required_fields": wideN,
		"shape": "no request is served serially in the child before the burst; every round constructs its shared objects anew; in a phase all " +
			"goroutines wait on one barrier and then send one valid request each (lead phase: all the same template; round 0: one lead phase " +
			"per template / client operation); answers are compared with those of a serial child process"}
	rep.Extra["gomaxprocs"] = procs
	rep.Extra["goroutines_per_run"] = goroutines
	rep.Extra["tie"] = "race detector (go build -race) + per-request comparison with the serial run; the Coq cases only compare the static shared-cell table"

	// the model side: the static table against Conc/Footprint.v
	sh := hx.NewShards(cfg.Out, "From Coq Require Import List Bool Arith.\nFrom GR Require Import Corr.C17Corr.\nImport ListNotations.\n", "C17Corr", 50)
	for k, cells := range sharedCells {
		items := []string{}
		for _, c := range cells {
			items = append(items, fmt.Sprintf("(%d, %s, %d)", c[0], hx.CoqBool(c[1] == 1), c[2]))
		}
		sh.Add(fmt.Sprintf("{| c_kind := %d; c_shared := [%s] |}", k, strings.Join(items, "; ")),
			map[string]interface{}{"kind": kindNames[k], "shared_cells": cells})
	}
	sh.Close()
	rep.Shards = sh.Files
	rep.Write(cfg.Out)
}
