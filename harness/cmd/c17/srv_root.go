package main

// The root module behind the driver's srvModule interface: ONE real server with three filters and resources whose methods
// echo what they were given (path keys, query, the per-request value a filter put in the context) and hand back objects
// SHARED between all requests (error responses with and without a Message, success values).  srv_root.go is this file for
// the root module (generated with the sed command in checks/c17.py; import paths and identifiers only).

import (
	"context"
	"errors"
	"fmt"
	"net/http"
	"net/url"
	"runtime"
	"sort"
	"strings"

	restli "github.com/PapaCharlie/go-restli/restli"
	"github.com/PapaCharlie/go-restli/restlicodec"
	"github.com/PapaCharlie/go-restli/restlidata"
)

// ---- resource path / query / entity stubs

type rootrp struct{ keys []string }

func (*rootrp) NewInstance() *rootrp { return &rootrp{} }
func (r *rootrp) UnmarshalResourcePath(segs []restlicodec.Reader) error {
	r.keys = []string{}
	for _, s := range segs {
		r.keys = append(r.keys, s.String())
	}
	return nil
}

type rootqp struct{}

func (*rootqp) NewInstance() *rootqp                                  { return &rootqp{} }
func (*rootqp) DecodeQueryParams(restlicodec.QueryParamsReader) error { return nil }

type rootent struct{ Key, Ctx, Method, Query string }

func (*rootent) NewInstance() *rootent { return &rootent{} }
func (e *rootent) MarshalRestLi(w restlicodec.Writer) error {
	return w.WriteMap(func(kw func(string) restlicodec.Writer) error {
		kw("ctx").WriteString(e.Ctx)
		kw("key").WriteString(e.Key)
		kw("method").WriteString(e.Method)
		kw("query").WriteString(e.Query)
		return nil
	})
}
func (e *rootent) UnmarshalRestLi(r restlicodec.Reader) error {
	return r.ReadMap(func(r restlicodec.Reader, k string) error {
		s, err := r.ReadString()
		if err != nil {
			return err
		}
		switch k {
		case "ctx":
			e.Ctx = s
		case "key":
			e.Key = s
		case "method":
			e.Method = s
		case "query":
			e.Query = s
		}
		return nil
	})
}
func (e *rootent) String() string {
	if e == nil {
		return "<nil>"
	}
	return fmt.Sprintf("key=%s ctx=%s method=%s query=%s", e.Key, e.Ctx, e.Method, e.Query)
}

// ---- objects the resource implementation shares between ALL requests

type rootshared struct {
	errNilMsg   *restlidata.ErrorResponse // Status 418, Message nil: the server must default the message without touching this
	errNoStatus *restlidata.ErrorResponse // Status nil, Message nil: 500 + defaulted message
	errMsg      *restlidata.ErrorResponse // Status 409, Message set
	ent         *rootent
	elems       *restlidata.Elements[*rootent]
	batch       *restlidata.BatchResponse[string, *rootent]
	created     *restlidata.CreatedEntity[string]
	updates     *restlidata.BatchResponse[string, *restlidata.BatchEntityUpdateResponse]
}

func rootnewShared() *rootshared {
	e := &rootent{Key: "shared", Ctx: "none", Method: "get", Query: ""}
	return &rootshared{
		errNilMsg:   &restlidata.ErrorResponse{Status: restli.Int32Pointer(418), ExceptionClass: restli.StringPointer("TEAPOT")},
		errNoStatus: &restlidata.ErrorResponse{},
		errMsg:      &restlidata.ErrorResponse{Status: restli.Int32Pointer(409), Message: restli.StringPointer("conflict")},
		ent:         e,
		elems:       &restlidata.Elements[*rootent]{Elements: []*rootent{e, {Key: "second"}}},
		batch: &restlidata.BatchResponse[string, *rootent]{
			Results: map[string]*rootent{"a": e, "b": {Key: "bee"}}, Statuses: map[string]int{"a": 200},
			Errors: map[string]*restlidata.ErrorResponse{"z": {Status: restli.Int32Pointer(404)}}},
		created: &restlidata.CreatedEntity[string]{Id: "sharedid"},
		updates: &restlidata.BatchResponse[string, *restlidata.BatchEntityUpdateResponse]{
			Results: map[string]*restlidata.BatchEntityUpdateResponse{"a": {Status: 204}}},
	}
}

func rootptr[T any](p *T) string {
	if p == nil {
		return "nil"
	}
	return fmt.Sprint(*p)
}

func rooterrDump(e *restlidata.ErrorResponse) string {
	return fmt.Sprintf("{status=%s message=%s class=%s stack=%s}", rootptr(e.Status), rootptr(e.Message), rootptr(e.ExceptionClass),
		rootptr(e.StackTrace))
}

// canonical dump of every shared object: must be the same before and after the storm
func (s *rootshared) dump() string {
	var sb strings.Builder
	sb.WriteString("errNilMsg=" + rooterrDump(s.errNilMsg) + " errNoStatus=" + rooterrDump(s.errNoStatus) + " errMsg=" + rooterrDump(s.errMsg))
	sb.WriteString(" ent=" + s.ent.String())
	for _, e := range s.elems.Elements {
		sb.WriteString(" elem=" + e.String())
	}
	sb.WriteString(fmt.Sprintf(" paging=%v", s.elems.Paging))
	keys := []string{}
	for k, v := range s.batch.Results {
		keys = append(keys, "r:"+k+"="+v.String())
	}
	for k, v := range s.batch.Statuses {
		keys = append(keys, fmt.Sprintf("s:%s=%d", k, v))
	}
	for k, v := range s.batch.Errors {
		keys = append(keys, "e:"+k+"="+rooterrDump(v))
	}
	for k, v := range s.updates.Results {
		keys = append(keys, fmt.Sprintf("u:%s=%d", k, v.Status))
	}
	sort.Strings(keys)
	sb.WriteString(" batch=" + strings.Join(keys, ","))
	sb.WriteString(fmt.Sprintf(" created={id=%s status=%d location=%s}", s.created.Id, s.created.Status, rootptr(s.created.Location)))
	return sb.String()
}

var rootreadOnly = restlicodec.NewPathSpec("method", "query")

// ---- filters

type rootkey int

const (
	rootkeyReq rootkey = iota
	rootkeyMethod
)

func rootyield(n int) {
	for i := 0; i < n; i++ {
		runtime.Gosched()
	}
}

// filter 0: puts the request's own id (header X-Req) in the context; afterwards copies it to a response header
type rootfilterReq struct{}

func (rootfilterReq) PreRequest(req *http.Request) (context.Context, error) {
	rootyield(1)
	if req.Header.Get("X-Fail") == "pre" {
		return nil, errors.New("filter refuses " + req.Header.Get("X-Req"))
	}
	return context.WithValue(req.Context(), rootkeyReq, req.Header.Get("X-Req")), nil
}
func (rootfilterReq) PostRequest(ctx context.Context, h http.Header) error {
	rootyield(1)
	id, _ := ctx.Value(rootkeyReq).(string)
	h.Set("X-Post-Req", id)
	return nil
}

// filter 1: changes nothing, yields
type rootfilterPass struct{}

func (rootfilterPass) PreRequest(*http.Request) (context.Context, error) {
	rootyield(2)
	return nil, nil
}
func (rootfilterPass) PostRequest(context.Context, http.Header) error { rootyield(2); return nil }

// filter 2: records the routed method in the context, must still see filter 0's value; can fail afterwards
type rootfilterMethod struct{}

func (rootfilterMethod) PreRequest(req *http.Request) (context.Context, error) {
	m := restli.GetMethodFromContext(req.Context())
	id, _ := req.Context().Value(rootkeyReq).(string)
	v := m.String() + "/" + id
	if req.Header.Get("X-Fail") == "post" {
		v += "!failpost"
	}
	return context.WithValue(req.Context(), rootkeyMethod, v), nil
}
func (rootfilterMethod) PostRequest(ctx context.Context, h http.Header) error {
	mv, _ := ctx.Value(rootkeyMethod).(string)
	h.Set("X-Post-Method", mv)
	if strings.HasSuffix(mv, "!failpost") {
		return errors.New("post filter refuses")
	}
	return nil
}

// ---- the server

func rootecho(ctx *restli.RequestContext, rp *rootrp) *rootent {
	c := ctx.Request.Context()
	id, _ := c.Value(rootkeyReq).(string)
	mv, _ := c.Value(rootkeyMethod).(string)
	rootyield(1)
	ctx.ResponseHeaders.Set("X-Echo", id)
	ctx.ResponseHeaders.Set("X-Echo-Path", ctx.RequestPath())
	ctx.ResponseHeaders.Set("X-Echo-Query", ctx.Request.URL.RawQuery) // after DecodeTunnelledQuery
	return &rootent{Key: strings.Join(rp.keys, ","), Ctx: id, Method: mv, Query: ctx.Request.URL.RawQuery}
}

func rootsegs(s string) []restli.ResourcePathSegment {
	out := []restli.ResourcePathSegment{}
	for _, p := range strings.Split(s, "/") {
		out = append(out, restli.NewResourcePathSegment(p[:len(p)-1], p[len(p)-1] == '+'))
	}
	return out
}

func rootbuild() *srvInst {
	sh := rootnewShared()
	srv := restli.NewServer(rootfilterReq{}, rootfilterPass{}, rootfilterMethod{})
	type RC = *restli.RequestContext
	none := restlicodec.PathSpec(nil)
	ro := rootreadOnly // ONE PathSpec object consulted by every create / update request (and by every client create call)
	items, meta, fail, single := rootsegs("items+"), rootsegs("items+/meta-"), rootsegs("fail+"), rootsegs("single-")

	restli.RegisterGet(srv, items, func(ctx RC, rp *rootrp, _ *rootqp) (*rootent, error) {
		e := rootecho(ctx, rp)
		if e.Key == "shared" {
			return sh.ent, nil
		}
		return e, nil
	})
	restli.RegisterCreate(srv, items, ro, func(ctx RC, rp *rootrp, v *rootent, _ *rootqp) (*restlidata.CreatedEntity[string], error) {
		e := rootecho(ctx, rp)
		if v.Key == "shared" {
			return sh.created, nil
		}
		ctx.ResponseHeaders.Set("X-Updated", v.Key)
		return &restlidata.CreatedEntity[string]{Id: "new-" + v.Key + "-" + e.Ctx}, nil
	})
	restli.RegisterDelete(srv, items, func(ctx RC, rp *rootrp, _ *rootqp) error { rootecho(ctx, rp); return nil })
	restli.RegisterUpdate(srv, items, ro, func(ctx RC, rp *rootrp, v *rootent, _ *rootqp) error {
		rootecho(ctx, rp)
		ctx.ResponseHeaders.Set("X-Updated", v.Key)
		return nil
	})
	restli.RegisterPartialUpdate(srv, items, none, func(ctx RC, rp *rootrp, v *rootent, _ *rootqp) error {
		rootecho(ctx, rp)
		ctx.ResponseHeaders.Set("X-Updated", v.Key)
		ctx.ResponseStatus = http.StatusAccepted // a status chosen by this request only
		return nil
	})
	restli.RegisterBatchGet(srv, items, func(ctx RC, rp *rootrp, keys []string, _ *restli.SliceBatchQueryParams[string]) (*restlidata.BatchResponse[string, *rootent], error) {
		e := rootecho(ctx, rp)
		if len(keys) > 0 && keys[0] == "shared" {
			return sh.batch, nil
		}
		r := &restlidata.BatchResponse[string, *rootent]{}
		for _, k := range keys {
			r.AddResult(k, &rootent{Key: k, Ctx: e.Ctx})
		}
		return r, nil
	})
	restli.RegisterBatchCreate(srv, items, none, func(ctx RC, rp *rootrp, vs []*rootent, _ *rootqp) ([]*restlidata.CreatedEntity[string], error) {
		e := rootecho(ctx, rp)
		out := []*restlidata.CreatedEntity[string]{sh.created}
		for _, v := range vs {
			out = append(out, &restlidata.CreatedEntity[string]{Id: v.Key + "-" + e.Ctx, Status: 201})
		}
		return out, nil
	})
	restli.RegisterBatchDelete(srv, items, func(ctx RC, rp *rootrp, _ []string, _ *restli.SliceBatchQueryParams[string]) (*restlidata.BatchResponse[string, *restlidata.BatchEntityUpdateResponse], error) {
		rootecho(ctx, rp)
		return sh.updates, nil
	})
	restli.RegisterBatchUpdate(srv, items, none, func(ctx RC, rp *rootrp, vs map[string]*rootent, _ *restli.SliceBatchQueryParams[string]) (*restlidata.BatchResponse[string, *restlidata.BatchEntityUpdateResponse], error) {
		e := rootecho(ctx, rp)
		r := &restlidata.BatchResponse[string, *restlidata.BatchEntityUpdateResponse]{}
		for k := range vs {
			r.AddResult(k+"-"+e.Ctx, &restlidata.BatchEntityUpdateResponse{Status: 204})
		}
		return r, nil
	})
	restli.RegisterBatchPartialUpdate(srv, items, none, func(ctx RC, rp *rootrp, _ map[string]*rootent, _ *restli.SliceBatchQueryParams[string]) (*restlidata.BatchResponse[string, *restlidata.BatchEntityUpdateResponse], error) {
		rootecho(ctx, rp)
		return sh.updates, nil
	})
	restli.RegisterGetAll(srv, items, func(ctx RC, rp *rootrp, _ *rootqp) (*restlidata.Elements[*rootent], error) {
		rootecho(ctx, rp)
		return sh.elems, nil
	})
	restli.RegisterFinder(srv, items, "byTag", func(ctx RC, rp *rootrp, _ *rootqp) (*restlidata.Elements[*rootent], error) {
		e := rootecho(ctx, rp)
		return &restlidata.Elements[*rootent]{Elements: []*rootent{e, sh.ent}}, nil
	})
	restli.RegisterActionWithResults(srv, items, "poke", restlicodec.MarshalRestLi[string],
		func(ctx RC, rp *rootrp, _ restlidata.EmptyRecord) (string, error) {
			e := rootecho(ctx, rp)
			return "poked:" + e.Ctx, nil
		})

	restli.RegisterGet(srv, meta, func(ctx RC, rp *rootrp, _ *rootqp) (*rootent, error) { return rootecho(ctx, rp), nil })
	restli.RegisterUpdate(srv, meta, none, func(ctx RC, rp *rootrp, _ *rootent, _ *rootqp) error { rootecho(ctx, rp); return nil })
	restli.RegisterDelete(srv, meta, func(ctx RC, rp *rootrp, _ *rootqp) error { rootecho(ctx, rp); return sh.errMsg })
	restli.RegisterAction(srv, meta, "reset", func(ctx RC, rp *rootrp, _ restlidata.EmptyRecord) error { rootecho(ctx, rp); return nil })

	// every method of this collection fails with an object shared by all requests
	restli.RegisterGet(srv, fail, func(ctx RC, rp *rootrp, _ *rootqp) (*rootent, error) { rootecho(ctx, rp); return nil, sh.errNilMsg })
	restli.RegisterDelete(srv, fail, func(ctx RC, rp *rootrp, _ *rootqp) error { rootecho(ctx, rp); return sh.errNoStatus })
	restli.RegisterUpdate(srv, fail, none, func(ctx RC, rp *rootrp, _ *rootent, _ *rootqp) error { rootecho(ctx, rp); return sh.errMsg })
	restli.RegisterGetAll(srv, fail, func(ctx RC, rp *rootrp, _ *rootqp) (*restlidata.Elements[*rootent], error) {
		e := rootecho(ctx, rp)
		return nil, errors.New("plain failure for " + e.Ctx)
	})
	restli.RegisterFinder(srv, fail, "panic", func(ctx RC, rp *rootrp, _ *rootqp) (*restlidata.Elements[*rootent], error) {
		e := rootecho(ctx, rp)
		panic("resource panics for " + e.Ctx)
	})
	restli.RegisterFinder(srv, fail, "boom", func(ctx RC, rp *rootrp, _ *rootqp) (*restlidata.Elements[*rootent], error) {
		rootecho(ctx, rp)
		return nil, sh.errNilMsg
	})

	restli.RegisterGet(srv, single, func(ctx RC, rp *rootrp, _ *rootqp) (*rootent, error) { rootecho(ctx, rp); return sh.ent, nil })
	restli.RegisterUpdate(srv, single, none, func(ctx RC, rp *rootrp, _ *rootent, _ *rootqp) error { rootecho(ctx, rp); return nil })
	restli.RegisterAction(srv, single, "ping", func(ctx RC, rp *rootrp, _ restlidata.EmptyRecord) error { rootecho(ctx, rp); return sh.errNilMsg })

	h := srv.Handler() // the ONE handler every request of the run goes through

	return &srvInst{
		handler: h,
		shared:  sh.dump,
		refresh: func() { // new error objects (same contents) that no request has been served with yet
			f := rootnewShared()
			sh.errNilMsg, sh.errNoStatus = f.errNilMsg, f.errNoStatus
		},
		late: func(i int) { // registrations on the LIVE server after Handler(): must neither race with nor show through h
			n := fmt.Sprintf("late%d", i)
			restli.RegisterGet(srv, rootsegs(n+"+"), func(ctx RC, rp *rootrp, _ *rootqp) (*rootent, error) { return rootecho(ctx, rp), nil })
			restli.RegisterFinder(srv, items, n, func(ctx RC, rp *rootrp, _ *rootqp) (*restlidata.Elements[*rootent], error) { return sh.elems, nil })
			restli.RegisterAction(srv, rootsegs("items+/meta-"), n, func(ctx RC, rp *rootrp, _ restlidata.EmptyRecord) error { return nil })
			restli.RegisterDelete(srv, rootsegs("single-"+"/"+n+"+"), func(ctx RC, rp *rootrp, _ *rootqp) error { return nil })
		},
		methodHeader: restli.MethodHeader,
		tunnel: func(verb, query string, body []byte) ([]byte, http.Header) {
			return restli.EncodeTunnelledQuery(verb, query, body)
		},
		client: func(rt http.RoundTripper, resolver interface{}, threshold int) *clientFns {
			var hr restli.HostnameResolver
			if r, ok := resolver.(restli.HostnameResolver); ok {
				hr = r
			} else {
				u, _ := url.Parse("http://server.test/")
				hr = &restli.SimpleHostnameResolver{Hostname: u}
			}
			c := &restli.Client{Client: &http.Client{Transport: rt}, HostnameResolver: hr, QueryTunnellingThreshold: threshold}
			return &clientFns{
				call:  func(op, id string) string { return rootcall(c, op, id) },
				build: func(op, id string) (*http.Request, error) { return rootbuildReq(c, op, id) },
				send:  func(req *http.Request) string { return rootsend(c, req) },
			}
		},
	}
}

func rooterrString(err error) string {
	if err == nil {
		return "ok"
	}
	if e, ok := err.(*restli.Error); ok {
		return fmt.Sprintf("restli-error status=%s message=%s class=%s", rootptr(e.Status), rootptr(e.Message), rootptr(e.ExceptionClass))
	}
	return "error:" + fmt.Sprintf("%T", err)
}

// one call through the shared restli.Client; the observation names everything that came back
func rootcall(c *restli.Client, op, id string) string {
	ctx := restli.ExtraRequestHeaders(context.Background(), func() (http.Header, error) {
		return http.Header{"X-Req": []string{id}}, nil
	})
	ctx, captured := restli.AddResponseHeadersCaptor(ctx)
	rp := func(s string) restli.ResourcePathString { return restli.ResourcePathString(s) }
	var out string
	switch op {
	case "get":
		v, err := restli.Get[*rootent](c, ctx, rp("/items/"+id), nil)
		out = v.String() + " " + rooterrString(err)
	case "get-shared":
		v, err := restli.Get[*rootent](c, ctx, rp("/single"), nil)
		out = v.String() + " " + rooterrString(err)
	case "get-sub":
		v, err := restli.Get[*rootent](c, ctx, rp("/items/"+id+"/meta"), restli.QueryParamsString("x="+id))
		out = v.String() + " " + rooterrString(err)
	case "create":
		ce, err := restli.Create[string](c, ctx, rp("/items"), &rootent{Key: id, Method: "dropped-by-the-writer"}, nil, rootreadOnly)
		if ce != nil {
			out = fmt.Sprintf("id=%s status=%d location=%s ", ce.Id, ce.Status, rootptr(ce.Location))
		}
		out += rooterrString(err)
	case "update-long": // tunnelled (query longer than the threshold) WITH a body: multipart/mixed
		out = rooterrString(restli.Update(c, ctx, rp("/items/"+id), &rootent{Key: id}, rootlongQuery(id), rootreadOnly))
	case "partial-update-long":
		out = rooterrString(restli.PartialUpdate(c, ctx, rp("/items/"+id), &rootent{Key: id}, rootlongQuery(id), nil))
	case "create-long":
		ce, err := restli.Create[string](c, ctx, rp("/items"), &rootent{Key: id}, rootlongQuery(id), rootreadOnly)
		if ce != nil {
			out = fmt.Sprintf("id=%s status=%d location=%s ", ce.Id, ce.Status, rootptr(ce.Location))
		}
		out += rooterrString(err)
	case "update":
		out = rooterrString(restli.Update(c, ctx, rp("/items/"+id), &rootent{Key: id}, restli.QueryParamsString("x="+id), rootreadOnly))
	case "delete":
		out = rooterrString(restli.Delete(c, ctx, rp("/items/"+id), nil))
	case "find", "find-long":
		q := "q=byTag&tag=" + id
		if op == "find-long" {
			q += "&pad=" + strings.Repeat("p", 300)
		}
		r, err := restli.Find[*rootent](c, ctx, rp("/items"), restli.QueryParamsString(q))
		if r != nil {
			for _, e := range r.Elements {
				out += "[" + e.String() + "]"
			}
		}
		out += " " + rooterrString(err)
	case "get-all":
		r, err := restli.GetAll[*rootent](c, ctx, rp("/items"), nil)
		if r != nil {
			for _, e := range r.Elements {
				out += "[" + e.String() + "]"
			}
		}
		out += " " + rooterrString(err)
	case "batch-get":
		r, err := restli.BatchGet[string, *rootent](c, ctx, rp("/items"), []string{id, "k2"}, nil)
		if r != nil {
			keys := []string{}
			for k, v := range r.Results {
				keys = append(keys, strings.ReplaceAll(k+"="+v.String(), id, "{id}"))
			}
			sort.Strings(keys)
			out = strings.Join(keys, ";")
		}
		out += " " + rooterrString(err)
	case "action":
		s, err := restli.DoActionRequestWithResults(c, ctx, rp("/items"), restli.QueryParamsString("action=poke"), restlidata.EmptyRecord{}, restlicodec.UnmarshalRestLi[string])
		out = s + " " + rooterrString(err)
	case "fail":
		v, err := restli.Get[*rootent](c, ctx, rp("/fail/"+id), nil)
		out = v.String() + " " + rooterrString(err)
	case "fail-nostatus":
		out = rooterrString(restli.Delete(c, ctx, rp("/fail/"+id), nil))
	case "missing":
		v, err := restli.Get[*rootent](c, ctx, rp("/nosuch/"+id), nil)
		out = v.String() + " " + rooterrString(err)
	default:
		panic("unknown client op " + op)
	}
	hs := []string{}
	for _, k := range rootechoHeaders {
		hs = append(hs, k+"="+strings.Join(captured[k], ","))
	}
	return out + " | " + strings.Join(hs, " ")
}

var rootechoHeaders = []string{"X-Echo", "X-Post-Req", "X-Post-Method", "X-Echo-Path", "X-Echo-Query", "X-Updated"}

func rootlongQuery(id string) restli.QueryParamsString {
	return restli.QueryParamsString("x=" + id + "&pad=" + strings.Repeat("p", 300))
}

// a request built with the exported New*Request functions, to be sent LATER (other requests are built in between)
func rootbuildReq(c *restli.Client, op, id string) (*http.Request, error) {
	ctx := restli.ExtraRequestHeaders(context.Background(), func() (http.Header, error) {
		return http.Header{"X-Req": []string{id}}, nil
	})
	rp := func(s string) restli.ResourcePathString { return restli.ResourcePathString(s) }
	switch op {
	case "b-update-long":
		return restli.NewJsonRequest(c, ctx, rp("/items/"+id), rootlongQuery(id), http.MethodPut, restli.Method_update, &rootent{Key: id}, rootreadOnly)
	case "b-partial-update-long":
		return restli.NewJsonRequest(c, ctx, rp("/items/"+id), rootlongQuery(id), http.MethodPost, restli.Method_partial_update, &rootent{Key: id}, nil)
	case "b-create-long":
		return restli.NewCreateRequest(c, ctx, rp("/items"), rootlongQuery(id), restli.Method_create, &rootent{Key: id}, rootreadOnly)
	case "b-update":
		return restli.NewJsonRequest(c, ctx, rp("/items/"+id), restli.QueryParamsString("x="+id), http.MethodPut, restli.Method_update, &rootent{Key: id}, rootreadOnly)
	case "b-get-long":
		return restli.NewGetRequest(c, ctx, rp("/items/"+id), rootlongQuery(id), restli.Method_get)
	case "b-delete":
		return restli.NewDeleteRequest(c, ctx, rp("/items/"+id), nil, restli.Method_delete)
	}
	panic("unknown build op " + op)
}

func rootsend(c *restli.Client, req *http.Request) string {
	res, err := restli.DoAndIgnore(c, req)
	if err != nil {
		return rooterrString(err)
	}
	hs := []string{fmt.Sprint(res.StatusCode)}
	for _, k := range rootechoHeaders {
		hs = append(hs, k+"="+strings.Join(res.Header[k], ","))
	}
	return strings.Join(hs, " ")
}

var modRoot = srvModule{name: "root", build: rootbuild}
