package main

// The root module behind the driver's srvModule interface: ONE real server with three filters and resources whose methods
// echo what they were given (path keys, query, the per-request value a filter put in the context) and hand back objects
// SHARED between all requests (error responses with and without a Message, success values).  srv_root.go is this file for
// the root module (generated with the sed command in checks/c17.py; import paths and identifiers only).  What differs between
// the modules beyond names (how a RequiredFields object is constructed) is in the hand-written req_*.go (one per module).

import (
	"context"
	"errors"
	"fmt"
	"net/http"
	"net/url"
	"runtime"
	"sort"
	"strings"

	restli "github.com/PapaCharlie/go-restli/restli"
	"github.com/PapaCharlie/go-restli/restlicodec"
	"github.com/PapaCharlie/go-restli/restlidata"
)

// ---- resource path / query / entity stubs

type rootrp struct{ keys []string }

func (*rootrp) NewInstance() *rootrp { return &rootrp{} }
func (r *rootrp) UnmarshalResourcePath(segs []restlicodec.Reader) error {
	r.keys = []string{}
	for _, s := range segs {
		r.keys = append(r.keys, s.String())
	}
	return nil
}

type rootqp struct{}

func (*rootqp) NewInstance() *rootqp                                  { return &rootqp{} }
func (*rootqp) DecodeQueryParams(restlicodec.QueryParamsReader) error { return nil }

type rootent struct{ Key, Ctx, Method, Query string }

func (*rootent) NewInstance() *rootent { return &rootent{} }
func (e *rootent) MarshalRestLi(w restlicodec.Writer) error {
	return w.WriteMap(func(kw func(string) restlicodec.Writer) error {
		kw("ctx").WriteString(e.Ctx)
		kw("key").WriteString(e.Key)
		kw("method").WriteString(e.Method)
		kw("query").WriteString(e.Query)
		return nil
	})
}
func (e *rootent) UnmarshalRestLi(r restlicodec.Reader) error {
	return r.ReadMap(func(r restlicodec.Reader, k string) error {
		s, err := r.ReadString()
		if err != nil {
			return err
		}
		switch k {
		case "ctx":
			e.Ctx = s
		case "key":
			e.Key = s
		case "method":
			e.Method = s
		case "query":
			e.Query = s
		}
		return nil
	})
}
func (e *rootent) String() string {
	if e == nil {
		return "<nil>"
	}
	return fmt.Sprintf("key=%s ctx=%s method=%s query=%s", e.Key, e.Ctx, e.Method, e.Query)
}

// ---- a WIDE record in the style of the generated ones: wideN required int fields (two included records + its own) and
// one optional string.  Field names and documents come from main.go (wideNames, wideIndex, wideJSON, wideRor2).

// What a generated package keeps at package level for its records and what every request decoding them shares: the
// XxxRequiredFields objects (and a read-only PathSpec).  rootfreshSchema replaces all of them with newly constructed ones; it
// is only called while no request is in flight (rootbuild), so that the requests that follow are the FIRST users of the new
// objects.
var (
	rootwideRequired  rootrequired // the record: NewRequiredFields(<included records>...).Add(<own fields>...)
	rootqueryRequired rootrequired // the query parameters of finder byAll: the same names as query parameters
	rootrecRequired   rootrequired // the query parameters of finder byRec: one record-valued parameter
)

func rootfreshSchema() {
	a, b := wideN/4, wideN/2
	rootwideRequired = rootnewRequired([][]string{wideNames[:a], wideNames[a:b]}, wideNames[b:])
	rootqueryRequired = rootnewRequired(nil, wideNames)
	rootrecRequired = rootnewRequired(nil, []string{"rec"})
	rootreadOnly = restlicodec.NewPathSpec("method", "query")
}

type rootwide struct {
	Vals []int32 // Vals[i] is field wideNames[i]
	Got  int     // how many of them were decoded
	Note string
}

func (*rootwide) NewInstance() *rootwide { return &rootwide{} }
func (e *rootwide) MarshalRestLi(w restlicodec.Writer) error {
	return w.WriteMap(func(kw func(string) restlicodec.Writer) error {
		for i, n := range wideNames {
			v := int32(0)
			if i < len(e.Vals) {
				v = e.Vals[i]
			}
			kw(n).WriteInt32(v)
		}
		if e.Note != "" {
			kw("note").WriteString(e.Note)
		}
		return nil
	})
}
func (e *rootwide) unmarshalField(r restlicodec.Reader, field string) (err error) {
	if i, ok := wideIndex[field]; ok {
		e.Vals[i], err = r.ReadInt32()
		e.Got++
		return err
	}
	if field == "note" {
		e.Note, err = r.ReadString()
		return err
	}
	return r.Skip()
}
func (e *rootwide) UnmarshalRestLi(r restlicodec.Reader) error {
	e.Vals = make([]int32, wideN)
	return r.ReadRecord(rootwideRequired, e.unmarshalField)
}
func (e *rootwide) sum() (s int64) {
	for _, v := range e.Vals {
		s += int64(v)
	}
	return s
}
func (e *rootwide) String() string {
	if e == nil {
		return "<nil>"
	}
	return fmt.Sprintf("wide got=%d sum=%d note=%s", e.Got, e.sum(), e.Note)
}
func rootnewWide(note string) *rootwide {
	e := &rootwide{Vals: make([]int32, wideN), Got: wideN, Note: note}
	for i := range e.Vals {
		e.Vals[i] = int32(i)
	}
	return e
}

// the resource refuses what the decoder should never have let through: a record that is not complete
func (e *rootwide) check() error {
	if e == nil || e.Got != wideN || e.sum() != wideSum {
		return fmt.Errorf("incomplete wide record reached the resource: %s", e.String())
	}
	return nil
}

// query parameters of the finders of /wide: byAll takes every field of the record as a query parameter
// (QueryParamsReader.ReadRecord), byRec takes the whole record as ONE parameter in the URL encoding (the ROR2 reader's
// ReadRecord)
type rootwideQuery struct{ all rootwide }

func (*rootwideQuery) NewInstance() *rootwideQuery { return &rootwideQuery{} }
func (q *rootwideQuery) DecodeQueryParams(reader restlicodec.QueryParamsReader) error {
	q.all.Vals = make([]int32, wideN)
	return reader.ReadRecord(rootqueryRequired, q.all.unmarshalField)
}

type rootrecQuery struct{ rec *rootwide }

func (*rootrecQuery) NewInstance() *rootrecQuery { return &rootrecQuery{} }
func (q *rootrecQuery) DecodeQueryParams(reader restlicodec.QueryParamsReader) error {
	return reader.ReadRecord(rootrecRequired, func(r restlicodec.Reader, field string) error {
		if field == "rec" {
			q.rec = &rootwide{}
			return q.rec.UnmarshalRestLi(r)
		}
		return r.Skip()
	})
}

// ---- objects the resource implementation shares between ALL requests

type rootshared struct {
	errNilMsg   *restlidata.ErrorResponse // Status 418, Message nil: the server must default the message without touching this
	errNoStatus *restlidata.ErrorResponse // Status nil, Message nil: 500 + defaulted message
	errMsg      *restlidata.ErrorResponse // Status 409, Message set
	ent         *rootent
	elems       *restlidata.Elements[*rootent]
	batch       *restlidata.BatchResponse[string, *rootent]
	created     *restlidata.CreatedEntity[string]
	updates     *restlidata.BatchResponse[string, *restlidata.BatchEntityUpdateResponse]
}

func rootnewShared() *rootshared {
	e := &rootent{Key: "shared", Ctx: "none", Method: "get", Query: ""}
	return &rootshared{
		errNilMsg:   &restlidata.ErrorResponse{Status: restli.Int32Pointer(418), ExceptionClass: restli.StringPointer("TEAPOT")},
		errNoStatus: &restlidata.ErrorResponse{},
		errMsg:      &restlidata.ErrorResponse{Status: restli.Int32Pointer(409), Message: restli.StringPointer("conflict")},
		ent:         e,
		elems:       &restlidata.Elements[*rootent]{Elements: []*rootent{e, {Key: "second"}}},
		batch: &restlidata.BatchResponse[string, *rootent]{
			Results: map[string]*rootent{"a": e, "b": {Key: "bee"}}, Statuses: map[string]int{"a": 200},
			Errors: map[string]*restlidata.ErrorResponse{"z": {Status: restli.Int32Pointer(404)}}},
		created: &restlidata.CreatedEntity[string]{Id: "sharedid"},
		updates: &restlidata.BatchResponse[string, *restlidata.BatchEntityUpdateResponse]{
			Results: map[string]*restlidata.BatchEntityUpdateResponse{"a": {Status: 204}}},
	}
}

func rootptr[T any](p *T) string {
	if p == nil {
		return "nil"
	}
	return fmt.Sprint(*p)
}

func rooterrDump(e *restlidata.ErrorResponse) string {
	return fmt.Sprintf("{status=%s message=%s class=%s stack=%s}", rootptr(e.Status), rootptr(e.Message), rootptr(e.ExceptionClass),
		rootptr(e.StackTrace))
}

// canonical dump of every shared object: must be the same before and after the storm
func (s *rootshared) dump() string {
	var sb strings.Builder
	sb.WriteString("errNilMsg=" + rooterrDump(s.errNilMsg) + " errNoStatus=" + rooterrDump(s.errNoStatus) + " errMsg=" + rooterrDump(s.errMsg))
	sb.WriteString(" ent=" + s.ent.String())
	for _, e := range s.elems.Elements {
		sb.WriteString(" elem=" + e.String())
	}
	sb.WriteString(fmt.Sprintf(" paging=%v", s.elems.Paging))
	keys := []string{}
	for k, v := range s.batch.Results {
		keys = append(keys, "r:"+k+"="+v.String())
	}
	for k, v := range s.batch.Statuses {
		keys = append(keys, fmt.Sprintf("s:%s=%d", k, v))
	}
	for k, v := range s.batch.Errors {
		keys = append(keys, "e:"+k+"="+rooterrDump(v))
	}
	for k, v := range s.updates.Results {
		keys = append(keys, fmt.Sprintf("u:%s=%d", k, v.Status))
	}
	sort.Strings(keys)
	sb.WriteString(" batch=" + strings.Join(keys, ","))
	sb.WriteString(fmt.Sprintf(" created={id=%s status=%d location=%s}", s.created.Id, s.created.Status, rootptr(s.created.Location)))
	return sb.String()
}

var rootreadOnly = restlicodec.NewPathSpec("method", "query")

// ---- filters

type rootkey int

const (
	rootkeyReq rootkey = iota
	rootkeyMethod
)

func rootyield(n int) {
	for i := 0; i < n; i++ {
		runtime.Gosched()
	}
}

// filter 0: puts the request's own id (header X-Req) in the context; afterwards copies it to a response header
type rootfilterReq struct{}

func (rootfilterReq) PreRequest(req *http.Request) (context.Context, error) {
	rootyield(1)
	if req.Header.Get("X-Fail") == "pre" {
		return nil, errors.New("filter refuses " + req.Header.Get("X-Req"))
	}
	return context.WithValue(req.Context(), rootkeyReq, req.Header.Get("X-Req")), nil
}
func (rootfilterReq) PostRequest(ctx context.Context, h http.Header) error {
	rootyield(1)
	id, _ := ctx.Value(rootkeyReq).(string)
	h.Set("X-Post-Req", id)
	return nil
}

// filter 1: changes nothing, yields
type rootfilterPass struct{}

func (rootfilterPass) PreRequest(*http.Request) (context.Context, error) {
	rootyield(2)
	return nil, nil
}
func (rootfilterPass) PostRequest(context.Context, http.Header) error { rootyield(2); return nil }

// filter 2: records the routed method in the context, must still see filter 0's value; can fail afterwards
type rootfilterMethod struct{}

func (rootfilterMethod) PreRequest(req *http.Request) (context.Context, error) {
	m := restli.GetMethodFromContext(req.Context())
	id, _ := req.Context().Value(rootkeyReq).(string)
	v := m.String() + "/" + id
	if req.Header.Get("X-Fail") == "post" {
		v += "!failpost"
	}
	return context.WithValue(req.Context(), rootkeyMethod, v), nil
}
func (rootfilterMethod) PostRequest(ctx context.Context, h http.Header) error {
	mv, _ := ctx.Value(rootkeyMethod).(string)
	h.Set("X-Post-Method", mv)
	if strings.HasSuffix(mv, "!failpost") {
		return errors.New("post filter refuses")
	}
	return nil
}

// ---- the server

func rootecho(ctx *restli.RequestContext, rp *rootrp) *rootent {
	c := ctx.Request.Context()
	id, _ := c.Value(rootkeyReq).(string)
	mv, _ := c.Value(rootkeyMethod).(string)
	rootyield(1)
	ctx.ResponseHeaders.Set("X-Echo", id)
	ctx.ResponseHeaders.Set("X-Echo-Path", ctx.RequestPath())
	ctx.ResponseHeaders.Set("X-Echo-Query", ctx.Request.URL.RawQuery) // after DecodeTunnelledQuery
	return &rootent{Key: strings.Join(rp.keys, ","), Ctx: id, Method: mv, Query: ctx.Request.URL.RawQuery}
}

func rootsegs(s string) []restli.ResourcePathSegment {
	out := []restli.ResourcePathSegment{}
	for _, p := range strings.Split(s, "/") {
		out = append(out, restli.NewResourcePathSegment(p[:len(p)-1], p[len(p)-1] == '+'))
	}
	return out
}

func rootbuild() *srvInst {
	rootfreshSchema() // no request is in flight: the requests through the new server are the first users of the new objects
	sh := rootnewShared()
	srv := restli.NewServer(rootfilterReq{}, rootfilterPass{}, rootfilterMethod{})
	type RC = *restli.RequestContext
	none := restlicodec.PathSpec(nil)
	ro := rootreadOnly // ONE PathSpec object consulted by every create / update request (and by every client create call)
	items, meta, fail, single := rootsegs("items+"), rootsegs("items+/meta-"), rootsegs("fail+"), rootsegs("single-")

	restli.RegisterGet(srv, items, func(ctx RC, rp *rootrp, _ *rootqp) (*rootent, error) {
		e := rootecho(ctx, rp)
		if e.Key == "shared" {
			return sh.ent, nil
		}
		return e, nil
	})
	restli.RegisterCreate(srv, items, ro, func(ctx RC, rp *rootrp, v *rootent, _ *rootqp) (*restlidata.CreatedEntity[string], error) {
		e := rootecho(ctx, rp)
		if v.Key == "shared" {
			return sh.created, nil
		}
		ctx.ResponseHeaders.Set("X-Updated", v.Key)
		return &restlidata.CreatedEntity[string]{Id: "new-" + v.Key + "-" + e.Ctx}, nil
	})
	restli.RegisterDelete(srv, items, func(ctx RC, rp *rootrp, _ *rootqp) error { rootecho(ctx, rp); return nil })
	restli.RegisterUpdate(srv, items, ro, func(ctx RC, rp *rootrp, v *rootent, _ *rootqp) error {
		rootecho(ctx, rp)
		ctx.ResponseHeaders.Set("X-Updated", v.Key)
		return nil
	})
	restli.RegisterPartialUpdate(srv, items, none, func(ctx RC, rp *rootrp, v *rootent, _ *rootqp) error {
		rootecho(ctx, rp)
		ctx.ResponseHeaders.Set("X-Updated", v.Key)
		ctx.ResponseStatus = http.StatusAccepted // a status chosen by this request only
		return nil
	})
	restli.RegisterBatchGet(srv, items, func(ctx RC, rp *rootrp, keys []string, _ *restli.SliceBatchQueryParams[string]) (*restlidata.BatchResponse[string, *rootent], error) {
		e := rootecho(ctx, rp)
		if len(keys) > 0 && keys[0] == "shared" {
			return sh.batch, nil
		}
		r := &restlidata.BatchResponse[string, *rootent]{}
		for _, k := range keys {
			r.AddResult(k, &rootent{Key: k, Ctx: e.Ctx})
		}
		return r, nil
	})
	restli.RegisterBatchCreate(srv, items, none, func(ctx RC, rp *rootrp, vs []*rootent, _ *rootqp) ([]*restlidata.CreatedEntity[string], error) {
		e := rootecho(ctx, rp)
		out := []*restlidata.CreatedEntity[string]{sh.created}
		for _, v := range vs {
			out = append(out, &restlidata.CreatedEntity[string]{Id: v.Key + "-" + e.Ctx, Status: 201})
		}
		return out, nil
	})
	restli.RegisterBatchDelete(srv, items, func(ctx RC, rp *rootrp, _ []string, _ *restli.SliceBatchQueryParams[string]) (*restlidata.BatchResponse[string, *restlidata.BatchEntityUpdateResponse], error) {
		rootecho(ctx, rp)
		return sh.updates, nil
	})
	restli.RegisterBatchUpdate(srv, items, none, func(ctx RC, rp *rootrp, vs map[string]*rootent, _ *restli.SliceBatchQueryParams[string]) (*restlidata.BatchResponse[string, *restlidata.BatchEntityUpdateResponse], error) {
		e := rootecho(ctx, rp)
		r := &restlidata.BatchResponse[string, *restlidata.BatchEntityUpdateResponse]{}
		for k := range vs {
			r.AddResult(k+"-"+e.Ctx, &restlidata.BatchEntityUpdateResponse{Status: 204})
		}
		return r, nil
	})
	restli.RegisterBatchPartialUpdate(srv, items, none, func(ctx RC, rp *rootrp, _ map[string]*rootent, _ *restli.SliceBatchQueryParams[string]) (*restlidata.BatchResponse[string, *restlidata.BatchEntityUpdateResponse], error) {
		rootecho(ctx, rp)
		return sh.updates, nil
	})
	restli.RegisterGetAll(srv, items, func(ctx RC, rp *rootrp, _ *rootqp) (*restlidata.Elements[*rootent], error) {
		rootecho(ctx, rp)
		return sh.elems, nil
	})
	restli.RegisterFinder(srv, items, "byTag", func(ctx RC, rp *rootrp, _ *rootqp) (*restlidata.Elements[*rootent], error) {
		e := rootecho(ctx, rp)
		return &restlidata.Elements[*rootent]{Elements: []*rootent{e, sh.ent}}, nil
	})
	restli.RegisterActionWithResults(srv, items, "poke", restlicodec.MarshalRestLi[string],
		func(ctx RC, rp *rootrp, _ restlidata.EmptyRecord) (string, error) {
			e := rootecho(ctx, rp)
			return "poked:" + e.Ctx, nil
		})

	restli.RegisterGet(srv, meta, func(ctx RC, rp *rootrp, _ *rootqp) (*rootent, error) { return rootecho(ctx, rp), nil })
	restli.RegisterUpdate(srv, meta, none, func(ctx RC, rp *rootrp, _ *rootent, _ *rootqp) error { rootecho(ctx, rp); return nil })
	restli.RegisterDelete(srv, meta, func(ctx RC, rp *rootrp, _ *rootqp) error { rootecho(ctx, rp); return sh.errMsg })
	restli.RegisterAction(srv, meta, "reset", func(ctx RC, rp *rootrp, _ restlidata.EmptyRecord) error { rootecho(ctx, rp); return nil })

	// every method of this collection fails with an object shared by all requests
	restli.RegisterGet(srv, fail, func(ctx RC, rp *rootrp, _ *rootqp) (*rootent, error) { rootecho(ctx, rp); return nil, sh.errNilMsg })
	restli.RegisterDelete(srv, fail, func(ctx RC, rp *rootrp, _ *rootqp) error { rootecho(ctx, rp); return sh.errNoStatus })
	restli.RegisterUpdate(srv, fail, none, func(ctx RC, rp *rootrp, _ *rootent, _ *rootqp) error { rootecho(ctx, rp); return sh.errMsg })
	restli.RegisterGetAll(srv, fail, func(ctx RC, rp *rootrp, _ *rootqp) (*restlidata.Elements[*rootent], error) {
		e := rootecho(ctx, rp)
		return nil, errors.New("plain failure for " + e.Ctx)
	})
	restli.RegisterFinder(srv, fail, "panic", func(ctx RC, rp *rootrp, _ *rootqp) (*restlidata.Elements[*rootent], error) {
		e := rootecho(ctx, rp)
		panic("resource panics for " + e.Ctx)
	})
	restli.RegisterFinder(srv, fail, "boom", func(ctx RC, rp *rootrp, _ *rootqp) (*restlidata.Elements[*rootent], error) {
		rootecho(ctx, rp)
		return nil, sh.errNilMsg
	})

	restli.RegisterGet(srv, single, func(ctx RC, rp *rootrp, _ *rootqp) (*rootent, error) { rootecho(ctx, rp); return sh.ent, nil })
	restli.RegisterUpdate(srv, single, none, func(ctx RC, rp *rootrp, _ *rootent, _ *rootqp) error { rootecho(ctx, rp); return nil })
	restli.RegisterAction(srv, single, "ping", func(ctx RC, rp *rootrp, _ restlidata.EmptyRecord) error { rootecho(ctx, rp); return sh.errNilMsg })

	// the wide record: the server decodes it from JSON bodies (create, update, batch update, action parameters), from query
	// parameters (finder byAll) and from the URL encoding (finder byRec); the client decodes it from every response
	wide := rootsegs("wide+")
	type updates = restlidata.BatchResponse[string, *restlidata.BatchEntityUpdateResponse]
	restli.RegisterGet(srv, wide, func(ctx RC, rp *rootrp, _ *rootqp) (*rootwide, error) { return rootnewWide(rootecho(ctx, rp).Ctx), nil })
	restli.RegisterCreate(srv, wide, none, func(ctx RC, rp *rootrp, v *rootwide, _ *rootqp) (*restlidata.CreatedEntity[string], error) {
		e := rootecho(ctx, rp)
		if err := v.check(); err != nil {
			return nil, err
		}
		return &restlidata.CreatedEntity[string]{Id: "wide-" + v.Note + "-" + e.Ctx}, nil
	})
	restli.RegisterUpdate(srv, wide, none, func(ctx RC, rp *rootrp, v *rootwide, _ *rootqp) error {
		rootecho(ctx, rp)
		if err := v.check(); err != nil {
			return err
		}
		ctx.ResponseHeaders.Set("X-Updated", v.Note)
		return nil
	})
	restli.RegisterBatchGet(srv, wide, func(ctx RC, rp *rootrp, keys []string, _ *restli.SliceBatchQueryParams[string]) (*restlidata.BatchResponse[string, *rootwide], error) {
		e := rootecho(ctx, rp)
		r := &restlidata.BatchResponse[string, *rootwide]{}
		for _, k := range keys {
			r.AddResult(k, rootnewWide(e.Ctx))
		}
		return r, nil
	})
	restli.RegisterBatchUpdate(srv, wide, none, func(ctx RC, rp *rootrp, vs map[string]*rootwide, _ *restli.SliceBatchQueryParams[string]) (*updates, error) {
		e := rootecho(ctx, rp)
		r := &updates{}
		for k, v := range vs {
			if err := v.check(); err != nil {
				return nil, err
			}
			r.AddResult(k+"-"+e.Ctx, &restlidata.BatchEntityUpdateResponse{Status: 204})
		}
		return r, nil
	})
	restli.RegisterFinder(srv, wide, "byAll", func(ctx RC, rp *rootrp, q *rootwideQuery) (*restlidata.Elements[*rootwide], error) {
		e := rootecho(ctx, rp)
		q.all.Note = e.Ctx
		if err := q.all.check(); err != nil {
			return nil, err
		}
		return &restlidata.Elements[*rootwide]{Elements: []*rootwide{&q.all}}, nil
	})
	restli.RegisterFinder(srv, wide, "byRec", func(ctx RC, rp *rootrp, q *rootrecQuery) (*restlidata.Elements[*rootwide], error) {
		rootecho(ctx, rp)
		if err := q.rec.check(); err != nil {
			return nil, err
		}
		return &restlidata.Elements[*rootwide]{Elements: []*rootwide{q.rec}}, nil
	})
	restli.RegisterActionWithResults(srv, wide, "check", restlicodec.MarshalRestLi[string],
		func(ctx RC, rp *rootrp, p *rootwide) (string, error) {
			e := rootecho(ctx, rp)
			if err := p.check(); err != nil {
				return "", err
			}
			return "checked:" + p.Note + ":" + e.Ctx, nil
		})

	h := srv.Handler() // the ONE handler every request of the run goes through

	return &srvInst{
		handler: h,
		shared:  sh.dump,
		refresh: func() { // new error objects (same contents) that no request has been served with yet
			f := rootnewShared()
			sh.errNilMsg, sh.errNoStatus = f.errNilMsg, f.errNoStatus
		},
		late: func(i int) { // registrations on the LIVE server after Handler(): must neither race with nor show through h
			n := fmt.Sprintf("late%d", i)
			restli.RegisterGet(srv, rootsegs(n+"+"), func(ctx RC, rp *rootrp, _ *rootqp) (*rootent, error) { return rootecho(ctx, rp), nil })
			restli.RegisterFinder(srv, items, n, func(ctx RC, rp *rootrp, _ *rootqp) (*restlidata.Elements[*rootent], error) { return sh.elems, nil })
			restli.RegisterAction(srv, rootsegs("items+/meta-"), n, func(ctx RC, rp *rootrp, _ restlidata.EmptyRecord) error { return nil })
			restli.RegisterDelete(srv, rootsegs("single-"+"/"+n+"+"), func(ctx RC, rp *rootrp, _ *rootqp) error { return nil })
		},
		methodHeader: restli.MethodHeader,
		tunnel: func(verb, query string, body []byte) ([]byte, http.Header) {
			return restli.EncodeTunnelledQuery(verb, query, body)
		},
		client: func(rt http.RoundTripper, resolver interface{}, threshold int, cfg *clientCfg) *clientFns {
			var hr restli.HostnameResolver
			if r, ok := resolver.(restli.HostnameResolver); ok {
				hr = r
			} else {
				u, _ := url.Parse("http://server.test/")
				hr = &restli.SimpleHostnameResolver{Hostname: u}
			}
			c := &restli.Client{Client: &http.Client{Transport: rt}, HostnameResolver: hr, QueryTunnellingThreshold: threshold}
			return &clientFns{
				callRaw:  func(op, id string) string { return rootcall(c, cfg, op, id) },
				buildRaw: func(op, id string) (*http.Request, error) { return rootbuildReq(c, cfg, op, id) },
				sendRaw:  func(req *http.Request) string { return rootsend(c, req) },
				cfg:      cfg,
			}
		},
	}
}

func rooterrString(err error) string {
	if err == nil {
		return "ok"
	}
	if e, ok := err.(*restli.Error); ok {
		return fmt.Sprintf("restli-error status=%s message=%s class=%s", rootptr(e.Status), rootptr(e.Message), rootptr(e.ExceptionClass))
	}
	return "error:" + fmt.Sprintf("%T", err)
}

// the context of request id: the driver's id for the transport (client.go) and the ExtraRequestHeaders callback the client's
// configuration calls for (one shared static header set, a new map per call, a nil map, none)
func rootctx(cfg *clientCfg, id string) context.Context {
	ctx := context.WithValue(context.Background(), reqIDKey{}, id)
	if extras := cfg.extras(id); extras != nil {
		ctx = restli.ExtraRequestHeaders(ctx, extras)
	}
	return ctx
}

// one call through the shared restli.Client; the observation names everything that came back
func rootcall(c *restli.Client, cfg *clientCfg, op, id string) string {
	ctx := rootctx(cfg, id)
	ctx, captured := restli.AddResponseHeadersCaptor(ctx)
	rp := func(s string) restli.ResourcePathString { return restli.ResourcePathString(s) }
	var out string
	switch op {
	case "get":
		v, err := restli.Get[*rootent](c, ctx, rp("/items/"+id), nil)
		out = v.String() + " " + rooterrString(err)
	case "get-shared":
		v, err := restli.Get[*rootent](c, ctx, rp("/single"), nil)
		out = v.String() + " " + rooterrString(err)
	case "get-sub":
		v, err := restli.Get[*rootent](c, ctx, rp("/items/"+id+"/meta"), restli.QueryParamsString("x="+id))
		out = v.String() + " " + rooterrString(err)
	case "create":
		ce, err := restli.Create[string](c, ctx, rp("/items"), &rootent{Key: id, Method: "dropped-by-the-writer"}, nil, rootreadOnly)
		if ce != nil {
			out = fmt.Sprintf("id=%s status=%d location=%s ", ce.Id, ce.Status, rootptr(ce.Location))
		}
		out += rooterrString(err)
	case "update-long": // tunnelled (query longer than the threshold) WITH a body: multipart/mixed
		out = rooterrString(restli.Update(c, ctx, rp("/items/"+id), &rootent{Key: id}, rootlongQuery(id), rootreadOnly))
	case "partial-update-long":
		out = rooterrString(restli.PartialUpdate(c, ctx, rp("/items/"+id), &rootent{Key: id}, rootlongQuery(id), nil))
	case "create-long":
		ce, err := restli.Create[string](c, ctx, rp("/items"), &rootent{Key: id}, rootlongQuery(id), rootreadOnly)
		if ce != nil {
			out = fmt.Sprintf("id=%s status=%d location=%s ", ce.Id, ce.Status, rootptr(ce.Location))
		}
		out += rooterrString(err)
	case "update":
		out = rooterrString(restli.Update(c, ctx, rp("/items/"+id), &rootent{Key: id}, restli.QueryParamsString("x="+id), rootreadOnly))
	case "delete":
		out = rooterrString(restli.Delete(c, ctx, rp("/items/"+id), nil))
	case "find", "find-long":
		q := "q=byTag&tag=" + id
		if op == "find-long" {
			q += "&pad=" + strings.Repeat("p", 300)
		}
		r, err := restli.Find[*rootent](c, ctx, rp("/items"), restli.QueryParamsString(q))
		if r != nil {
			for _, e := range r.Elements {
				out += "[" + e.String() + "]"
			}
		}
		out += " " + rooterrString(err)
	case "get-all":
		r, err := restli.GetAll[*rootent](c, ctx, rp("/items"), nil)
		if r != nil {
			for _, e := range r.Elements {
				out += "[" + e.String() + "]"
			}
		}
		out += " " + rooterrString(err)
	case "batch-get":
		r, err := restli.BatchGet[string, *rootent](c, ctx, rp("/items"), []string{id, "k2"}, nil)
		if r != nil {
			keys := []string{}
			for k, v := range r.Results {
				keys = append(keys, strings.ReplaceAll(k+"="+v.String(), id, "{id}"))
			}
			sort.Strings(keys)
			out = strings.Join(keys, ";")
		}
		out += " " + rooterrString(err)
	case "action":
		s, err := restli.DoActionRequestWithResults(c, ctx, rp("/items"), restli.QueryParamsString("action=poke"), restlidata.EmptyRecord{}, restlicodec.UnmarshalRestLi[string])
		out = s + " " + rooterrString(err)
	case "fail":
		v, err := restli.Get[*rootent](c, ctx, rp("/fail/"+id), nil)
		out = v.String() + " " + rooterrString(err)
	case "fail-nostatus":
		out = rooterrString(restli.Delete(c, ctx, rp("/fail/"+id), nil))
	case "missing":
		v, err := restli.Get[*rootent](c, ctx, rp("/nosuch/"+id), nil)
		out = v.String() + " " + rooterrString(err)
	case "wide-get":
		v, err := restli.Get[*rootwide](c, ctx, rp("/wide/"+id), nil)
		out = v.String() + " " + rooterrString(err)
	case "wide-create":
		ce, err := restli.Create[string](c, ctx, rp("/wide"), rootnewWide(id), nil, nil)
		if ce != nil {
			out = fmt.Sprintf("id=%s status=%d location=%s ", ce.Id, ce.Status, rootptr(ce.Location))
		}
		out += rooterrString(err)
	case "wide-update":
		out = rooterrString(restli.Update(c, ctx, rp("/wide/"+id), rootnewWide(id), nil, nil))
	case "wide-find-all", "wide-find-rec": // both queries are longer than the tunnelling threshold
		q := "q=byRec&rec=" + wideRor2(id)
		if op == "wide-find-all" {
			q = "q=byAll&" + wideQuery
		}
		r, err := restli.Find[*rootwide](c, ctx, rp("/wide"), restli.QueryParamsString(q))
		if r != nil {
			for _, e := range r.Elements {
				out += "[" + e.String() + "]"
			}
		}
		out += " " + rooterrString(err)
	case "wide-batch-get":
		r, err := restli.BatchGet[string, *rootwide](c, ctx, rp("/wide"), []string{id, "k2"}, nil)
		if r != nil {
			keys := []string{}
			for k, v := range r.Results {
				keys = append(keys, k+"="+v.String())
			}
			sort.Strings(keys)
			out = strings.Join(keys, ";")
		}
		out += " " + rooterrString(err)
	case "wide-action":
		s, err := restli.DoActionRequestWithResults(c, ctx, rp("/wide"), restli.QueryParamsString("action=check"), rootnewWide(id), restlicodec.UnmarshalRestLi[string])
		out = s + " " + rooterrString(err)
	default:
		panic("unknown client op " + op)
	}
	hs := []string{}
	for _, k := range rootechoHeaders {
		hs = append(hs, k+"="+strings.Join(captured[k], ","))
	}
	return out + " | " + strings.Join(hs, " ")
}

var rootechoHeaders = []string{"X-Echo", "X-Post-Req", "X-Post-Method", "X-Echo-Path", "X-Echo-Query", "X-Updated"}

func rootlongQuery(id string) restli.QueryParamsString {
	return restli.QueryParamsString("x=" + id + "&pad=" + strings.Repeat("p", 300))
}

// a request built with the exported New*Request functions, to be sent LATER (other requests are built in between)
func rootbuildReq(c *restli.Client, cfg *clientCfg, op, id string) (*http.Request, error) {
	ctx := rootctx(cfg, id)
	rp := func(s string) restli.ResourcePathString { return restli.ResourcePathString(s) }
	switch op {
	case "b-update-long":
		return restli.NewJsonRequest(c, ctx, rp("/items/"+id), rootlongQuery(id), http.MethodPut, restli.Method_update, &rootent{Key: id}, rootreadOnly)
	case "b-partial-update-long":
		return restli.NewJsonRequest(c, ctx, rp("/items/"+id), rootlongQuery(id), http.MethodPost, restli.Method_partial_update, &rootent{Key: id}, nil)
	case "b-create-long":
		return restli.NewCreateRequest(c, ctx, rp("/items"), rootlongQuery(id), restli.Method_create, &rootent{Key: id}, rootreadOnly)
	case "b-update":
		return restli.NewJsonRequest(c, ctx, rp("/items/"+id), restli.QueryParamsString("x="+id), http.MethodPut, restli.Method_update, &rootent{Key: id}, rootreadOnly)
	case "b-get-long":
		return restli.NewGetRequest(c, ctx, rp("/items/"+id), rootlongQuery(id), restli.Method_get)
	case "b-delete":
		return restli.NewDeleteRequest(c, ctx, rp("/items/"+id), nil, restli.Method_delete)
	}
	panic("unknown build op " + op)
}

func rootsend(c *restli.Client, req *http.Request) string {
	res, err := restli.DoAndIgnore(c, req)
	if err != nil {
		return rooterrString(err)
	}
	hs := []string{fmt.Sprint(res.StatusCode)}
	for _, k := range rootechoHeaders {
		hs = append(hs, k+"="+strings.Join(res.Header[k], ","))
	}
	return strings.Join(hs, " ")
}

var modRoot = srvModule{name: "root", build: rootbuild}
