// The property's own predicates, evaluated directly on what the implementation did under the forced schedule.
package main

import "fmt"

type specMap [2]struct {
	has bool
	v   int
}

// Wing-Gong style brute force: is there a total order of the calls that respects real time (a before b when a's last
// step precedes b's first step), is a legal run of a plain map with compute-if-absent reproducing every returned
// value, and (finished runs) ends in the map the final Loads saw?  Pending calls may take effect or not.
func linearizable(calls []hcall, fin bool, final []obsv) bool {
	n := len(calls)
	var rec func(done uint, m specMap) bool
	rec = func(done uint, m specMap) bool {
		all := true
		for i := 0; i < n; i++ {
			if done&(1<<uint(i)) == 0 && calls[i].Done {
				all = false
			}
		}
		if all {
			// every completed call is placed; pending ones left over are dropped
			if !fin {
				return true
			}
			okf := len(final) == 2
			for k := 0; k < 2 && okf; k++ {
				if m[k].has {
					okf = final[k] == obsv{oVal, m[k].v}
				} else {
					okf = final[k] == obsv{oAbsent, 0}
				}
			}
			if okf {
				return true
			}
			// (a pending call could still change the map; fall through and try to place more)
		}
		for i := 0; i < n; i++ {
			if done&(1<<uint(i)) != 0 {
				continue
			}
			c := calls[i]
			minimal := true
			for j := 0; j < n; j++ {
				if j != i && done&(1<<uint(j)) == 0 && calls[j].Done && calls[j].Last < c.First {
					minimal = false
				}
			}
			if !minimal {
				continue
			}
			m2 := m
			var r obsv
			k := c.o.K
			switch c.o.Kind {
			case kLos:
				if m[k].has {
					r = obsv{oVal, m[k].v}
				} else {
					m2[k].has, m2[k].v = true, int(c.o.V)
					r = obsv{oVal, int(c.o.V)}
				}
			case kLoad:
				if m[k].has {
					r = obsv{oVal, m[k].v}
				} else {
					r = obsv{oAbsent, 0}
				}
			case kStore:
				m2[k].has, m2[k].v = true, int(c.o.V)
				r = obsv{oUnit, 0}
			}
			if c.Done && r != c.ret {
				continue
			}
			if rec(done|1<<uint(i), m2) {
				return true
			}
		}
		return false
	}
	return rec(0, specMap{})
}

// oracle returns the failures of the property on one observed run (controller-level failures are already in o.fails)
func oracle(prog program, o *outcome) []failure {
	fs := oracle2(prog, o, false)
	if o.dr != nil {
		// value-based predicates on the final observations after the free-running completion (no step intervals there: no linearizability check)
		for _, f := range oracle2(prog, o.dr, true) {
			fs = append(fs, failure{f.sig, o.drWhy + f.what})
		}
	}
	return fs
}

func oracle2(prog program, o *outcome, valuesOnly bool) []failure {
	var fs []failure
	add := func(sig, what string) { fs = append(fs, failure{sig, what}) }
	narrow := false
	// compute-twice
	for k := 0; k < 2; k++ {
		if o.computes[k] > 1 {
			add("compute-twice", fmt.Sprintf("the compute function ran %d times for key %d", o.computes[k], k))
			narrow = true
		}
	}
	// placeholder-returned
	for t, rs := range o.rets {
		for i, r := range rs {
			if r.K == oPlaceholder || (r.K == oNil && prog[t][i].Kind != kStore) {
				add("placeholder-returned", fmt.Sprintf("goroutine %d call %d (%s) returned %s", t, i, prog[t][i], r))
				narrow = true
			}
		}
	}
	for k, r := range o.final {
		if r.K == oPlaceholder || r.K == oNil {
			add("placeholder-returned", fmt.Sprintf("Load(%d) on the quiescent map returned %s", k, r))
			narrow = true
		}
	}
	// per key: which values were stored / returned
	for k := 0; k < 2; k++ {
		type st struct {
			v           int
			first, last int
			done        bool // completed, with a known interval of schedule steps
			t, i        int
			returned    bool // the call returned (known even without step intervals: free-running completion)
		}
		var stores []st
		for t, ops := range prog {
			for i, p := range ops {
				if p.Kind == kStore && int(p.K) == k {
					s := st{v: int(p.V), first: -1, last: -1, t: t, i: i, returned: t < len(o.rets) && i < len(o.rets[t])}
					for _, c := range o.calls {
						if c.T == t && c.Idx == i {
							s.first, s.last, s.done = c.First, c.Last, c.Done
						}
					}
					stores = append(stores, s)
				}
			}
		}
		if len(stores) == 0 {
			// callers-disagree: without a Store every non-absent result for the key is the one computed value
			seen, have := 0, false
			for t, rs := range o.rets {
				for i, r := range rs {
					if int(prog[t][i].K) != k || r.K != oVal {
						continue
					}
					if have && r.V != seen {
						add("callers-disagree", fmt.Sprintf("key %d is never stored to, yet calls returned %d and %d", k, seen, r.V))
						narrow = true
					}
					seen, have = r.V, true
				}
			}
			if have && o.finished && len(o.final) == 2 && o.final[k] != (obsv{oVal, seen}) {
				add("callers-disagree", fmt.Sprintf("key %d is never stored to; callers got %d but the final Load gave %s", k, seen, o.final[k]))
				narrow = true
			}
			continue
		}
		// store-lost (finished runs only; flagged only when certain)
		if !o.finished || len(o.final) != 2 {
			continue
		}
		f := o.final[k]
		match := -1
		for i, s := range stores {
			if f == (obsv{oVal, s.v}) {
				match = i
			}
		}
		if match < 0 {
			add("store-lost", fmt.Sprintf("key %d: every Store finished, the final Load gave %s which no Store wrote", k, f))
			narrow = true
			continue
		}
		for j, s := range stores {
			w := stores[match]
			// s began after w had returned: by the step intervals, or because one goroutine issued both in this order
			after := (s.done && w.done && w.last < s.first) || (s.t == w.t && w.i < s.i && s.returned)
			if j != match && after {
				add("store-lost", fmt.Sprintf("key %d: Store of %d began after the Store of %d had returned, yet the final Load gave %d", k, s.v, stores[match].v, stores[match].v))
				narrow = true
			}
		}
	}
	if !valuesOnly && !narrow && !linearizable(o.calls, o.finished, o.final) {
		add("not-linearizable", "no linearization of the observed history is a legal run of a map with compute-if-absent")
	}
	return fs
}
