// C18 driver: forces schedules (produced from a Go copy of the Coq model D2/LazyMap.v) on the real LazySyncMap of both
// module generations through the yield hooks (build tag verif), records what every call returned, how often the
// compute functions ran, the final contents and the sequence of yield points, evaluates the property's own predicates
// on these observations (at-most-once computation, no placeholder ever returned, callers agree, no lost Store,
// linearizability w.r.t. a plain map with compute-if-absent) and writes the cases for the Coq model.
//
// Values: the model's values are tokens with identity.  Every (program, schedule) is forced with the tokens represented as
// small ints and, in addition, as Go values of other dynamic types (values.go: pointers, strings, floats including signed
// zeros and NaNs, slices, maps, structs containing those, mixtures), decoded bit-exactly back to tokens; a panic inside a
// map operation is a failing input of its own.
package main

import (
	"crypto/sha256"
	"encoding/json"
	"fmt"
	"hash/fnv"
	"os"
	"runtime"
	"sort"
	"strings"
	"time"

	rootlm "github.com/PapaCharlie/go-restli/d2/lazymap"
	v2lm "github.com/PapaCharlie/go-restli/v2/d2/lazymap"
	"verif/harness/hx"
)

var modules = []module{
	{"v2", "v2/d2/lazymap/lazymap.go", func() lazyMap { return new(v2lm.LazySyncMap) }},
	{"root", "d2/lazymap/lazymap.go", func() lazyMap { return new(rootlm.LazySyncMap) }},
}

// ---- programs: up to 3 goroutines x up to 2 ops over {LoadOrStore, Load, Store} x keys {0,1},
// reduced by goroutine symmetry (sorted multiset of thread programs) and key swap.
type shape []uint8 // per op: kind*2+key

func shapeKey(p []shape) string {
	ss := make([]string, len(p))
	for i, t := range p {
		ss[i] = string(append([]byte{}, t...))
	}
	sort.Strings(ss)
	return strings.Join(ss, "|")
}

func enumeratePrograms() []program {
	var tps []shape
	for a := 0; a < 6; a++ {
		tps = append(tps, shape{uint8(a)})
	}
	for a := 0; a < 6; a++ {
		for b := 0; b < 6; b++ {
			tps = append(tps, shape{uint8(a), uint8(b)})
		}
	}
	seen := map[string]bool{}
	var out []program
	add := func(ts []shape) {
		sw := make([]shape, len(ts))
		for i, t := range ts {
			sw[i] = make(shape, len(t))
			for j, x := range t {
				sw[i][j] = x ^ 1
			}
		}
		k1, k2 := shapeKey(ts), shapeKey(sw)
		if k2 < k1 {
			k1 = k2
			ts = sw
		}
		if seen[k1] {
			return
		}
		seen[k1] = true
		sorted := append([]shape{}, ts...)
		sort.Slice(sorted, func(i, j int) bool { return string(sorted[i]) < string(sorted[j]) })
		out = append(out, mkProgram(sorted))
	}
	for i := range tps {
		add([]shape{tps[i]})
		for j := i; j < len(tps); j++ {
			add([]shape{tps[i], tps[j]})
			for k := j; k < len(tps); k++ {
				add([]shape{tps[i], tps[j], tps[k]})
			}
		}
	}
	// goroutines without operations (they finish at the start gate)
	add([]shape{{}})
	add([]shape{{}, {0, 2}})
	add([]shape{{4}, {}, {2}})
	return out
}

// every LoadOrStore / Store gets a distinct value: 10*(goroutine+1)+(index+1)
func mkProgram(ts []shape) program {
	p := make(program, len(ts))
	for g, t := range ts {
		p[g] = make([]op, len(t))
		for i, x := range t {
			o := op{Kind: x / 2, K: x % 2}
			if o.Kind != kLoad {
				o.V = uint8(10*(g+1) + i + 1)
			}
			p[g][i] = o
		}
	}
	return p
}

// ---- cases
type tcase struct {
	prog  program
	sched []uint8
	probe int // goroutine to probe after the schedule (-1: none)
	kind  string
	comp  bool   // complete schedule
	vk    *vkind // nil: intKind
}

type obsDesc struct {
	Rets     [][]string `json:"rets"`
	Computes []int      `json:"computes"`
	Final    []string   `json:"final"`
	Points   []int      `json:"points"`
	Finished bool       `json:"finished"`
}

type caseDesc struct {
	Module   string     `json:"module"`
	Program  [][]string `json:"program"`
	Schedule []int      `json:"schedule"`
	Probe    *int       `json:"probe,omitempty"`
	Kind     string     `json:"kind,omitempty"`
	// how the value tokens of the program were represented as Go values ("" in old replay files: int), and the table
	VKind  string            `json:"vkind,omitempty"`
	Values map[string]string `json:"values,omitempty"`
	Obs    *obsDesc          `json:"obs,omitempty"`
}

func strs(l []obsv) []string {
	out := make([]string, len(l))
	for i, o := range l {
		out[i] = o.String()
	}
	return out
}
func coqObs(l []obsv) string {
	out := make([]string, len(l))
	for i, o := range l {
		out[i] = o.Coq()
	}
	return "[" + strings.Join(out, "; ") + "]"
}
func coqNats(l []int) string {
	out := make([]string, len(l))
	for i, x := range l {
		out[i] = coqNat(x)
	}
	return "[" + strings.Join(out, ";") + "]"
}

type runner struct {
	rep     *hx.Report
	sh      *hx.Shards
	blocked map[string]int
	samples int
	// model cases already written (hash of the Coq term): a run with another value kind whose observations, decoded to
	// tokens, are identical to an emitted case is the same model computation and is not evaluated a second time
	emitted  map[[sha256.Size]byte]bool
	nsampled [2]int // samples taken: int kind, other kinds
}

func bucket(n int) string {
	switch {
	case n == 0:
		return "0"
	case n <= 5:
		return "1-5"
	case n <= 10:
		return "6-10"
	case n <= 15:
		return "11-15"
	case n <= 20:
		return "16-20"
	}
	return "21-30"
}

// run one case on one module: force, observe, judge, emit
func (rn *runner) run(m *module, tc *tcase) *outcome {
	rep := rn.rep
	sched := make([]int, len(tc.sched))
	for i, t := range tc.sched {
		sched[i] = int(t)
	}
	vk := tc.vk
	if vk == nil {
		vk = intKind
	}
	o := runCase(m, tc.prog, sched, tc.probe, vk)
	rep.Evaluations++
	d := &caseDesc{Module: m.name, Program: tc.prog.Strings(), Schedule: sched, Kind: tc.kind, VKind: vk.name}
	if vk != intKind {
		d.Values = vk.valuesOf(tc.prog)
	}
	if tc.probe >= 0 {
		p := tc.probe
		d.Probe = &p
	}
	rets := make([][]string, len(o.rets))
	coqRets := make([]string, len(o.rets))
	for t := range o.rets {
		rets[t] = strs(o.rets[t])
		coqRets[t] = coqObs(o.rets[t])
	}
	pts := o.points
	if pts == nil {
		pts = []int{}
	}
	d.Obs = &obsDesc{Rets: rets, Computes: o.computes[:], Final: strs(o.final), Points: pts, Finished: o.finished}
	// ---- oracle
	fails := append([]failure{}, o.fails...)
	fails = append(fails, oracle(tc.prog, o)...)
	for _, f := range fails {
		rep.Fail(f.sig, f.what, m.site, d, map[string]interface{}{"calls": o.calls})
	}
	if o.abandoned {
		rn.blocked[m.name]++
	}
	// ---- statistics
	h := fnv.New64a()
	fmt.Fprint(h, tc.prog.Coq(), tc.sched, tc.probe)
	ngor := 0
	for _, t := range tc.prog {
		if len(t) > 0 {
			ngor++
		}
	}
	contended := o.waiter || o.overwrite
	rep.Distinct(fmt.Sprintf("%x", h.Sum64()), ngor >= 2 && contended)
	rep.Count("module=" + m.name)
	rep.Count(fmt.Sprintf("goroutines=%d", ngor))
	rep.Count("schedule-length=" + bucket(len(sched)))
	rep.Count("kind=" + tc.kind)
	rep.Count("value-kind=" + vk.name)
	rep.Count(fmt.Sprintf("finished=%v", o.finished))
	if o.waiter {
		rep.Count("runs-with-waiter")
	}
	if o.overwrite {
		rep.Count("runs-with-overwrite")
	}
	if !o.agrees {
		rep.Count("go-model-copy-disagrees")
	}
	if m.name == "v2" {
		for _, t := range tc.prog {
			for _, p := range t {
				rep.Count("op=" + []string{"LoadOrStore", "Load", "Store"}[p.Kind])
			}
		}
		seen := map[int]bool{}
		for _, p := range o.points {
			if !seen[p] {
				seen[p] = true
				rep.Count(fmt.Sprintf("point:%d", p))
			}
		}
	}
	if ngor == 3 && o.waiter && o.overwrite && len(fails) == 0 && rn.samples%97 == 0 {
		si, lim := 0, 5
		if vk != intKind {
			si, lim = 1, 3
		}
		if rn.nsampled[si] < lim {
			rn.nsampled[si]++
			rep.Sample(d)
		}
	}
	if ngor == 3 && o.waiter && o.overwrite {
		rn.samples++
	}
	// ---- model case
	term := "{| c_prog := " + tc.prog.Coq() + "; c_sched := " + coqNats(sched) +
		"; c_obs := {| o_rets := [" + strings.Join(coqRets, ";") + "]; o_computes := " + coqNats(o.computes[:]) +
		"; o_final := " + coqObs(o.final) + "; o_points := " + coqNats(pts) + "; o_finished := " + hx.CoqBool(o.finished) + " |} |}"
	th := sha256.Sum256([]byte(term))
	if vk != intKind && rn.emitted[th] {
		rep.Count("model-case=shared (same program, schedule and token-level observations as a case already written)")
		return o
	}
	rn.emitted[th] = true
	rep.Count("model-case=written")
	b, err := json.Marshal(d)
	if err != nil {
		panic(err)
	}
	rn.sh.Add(term, json.RawMessage(b))
	return o
}

// Number literals dominate the time coqc needs to read a shard (each goes through the number notation), so the small
// numbers are named once in the header; the terms are otherwise plain C18Corr.case records.
var header = func() string {
	var sb strings.Builder
	sb.WriteString("From Coq Require Import List.\nImport ListNotations.\nFrom GR Require Import D2.LazyMap Corr.C18Corr.\n")
	for i := 0; i <= 40; i++ {
		fmt.Fprintf(&sb, "Definition n%d : nat := %d.\n", i, i)
	}
	sb.WriteString("Definition n100 : nat := 100.\n")
	return sb.String()
}()

func coqNat(n int) string {
	if (n >= 0 && n <= 40) || n == 100 {
		return fmt.Sprintf("n%d", n)
	}
	return fmt.Sprint(n)
}

type budget struct {
	exhLimit  uint64 // programs with at most this many complete schedules: all of them
	bigSample int    // percentage of the other programs that are explored (seeded sample)
	covCap    int    // transition-coverage schedules per sampled program
	rnd       int    // uniformly drawn complete schedules per sampled program
	prefixPct int    // incomplete schedules (prefixes), in percent of the complete ones
	probes    int    // wait probes
	// value kinds: every case above runs with int values; in addition
	extraKinds int  // ... each of them runs with this many of the other value kinds (a seeded rotation)
	exhAll     bool // ... the cases of the exhaustively scheduled programs run with every value kind
	seqOps     int  // sequential histories: one goroutine, up to this many operations, every value kind
}

func budgetOf(cfg *hx.Config) budget {
	if cfg.Thorough() {
		return budget{exhLimit: 300, bigSample: 100, covCap: 14, rnd: 4, prefixPct: 5, probes: 400, extraKinds: 2, exhAll: true, seqOps: 5}
	}
	return budget{exhLimit: 80, bigSample: 6, covCap: 10, rnd: 3, prefixPct: 5, probes: 120, extraKinds: 3, seqOps: 4}
}

// widen adds the value-kind dimension.  It uses its own PRNG stream so that the int-valued cases of generate are exactly
// what they were before value kinds existed.
func widen(cfg *hx.Config, cases []*tcase, rep *hx.Report) []*tcase {
	b := budgetOf(cfg)
	r := hx.NewRand(cfg.Seed ^ 0xC18C18C18)
	others := kinds[1:]
	var out, extra []*tcase
	nextra := 0
	for _, tc := range cases {
		n := b.extraKinds
		if b.exhAll && tc.kind == "exhaustive" {
			n = len(others)
		}
		if n > len(others) {
			n = len(others)
		}
		k0 := r.Intn(len(others))
		for j := 0; j < n; j++ {
			c := *tc
			c.vk = others[(k0+j)%len(others)]
			extra = append(extra, &c)
			nextra++
		}
	}
	// sequential histories: one goroutine, 1..seqOps operations over {LoadOrStore, Load, Store} x keys {0,1}, the first
	// operation on key 0 (key swap), values 11, 12, ... in program order; the only schedule; every value kind.  They run
	// first: the first failing input reported for a signature is then the simplest one.
	nseq := 0
	level := []shape{{}}
	for n := 1; n <= b.seqOps; n++ { // shortest histories first
		var next []shape
		for _, t := range level {
			for a := 0; a < 6; a++ {
				if len(t) == 0 && a%2 == 1 {
					continue
				}
				next = append(next, append(append(shape{}, t...), uint8(a)))
			}
		}
		level = next
		for _, t := range level {
			p := mkProgram([]shape{t})
			explore(p).allSchedules(func(s []uint8) {
				for _, k := range kinds {
					out = append(out, &tcase{prog: p, sched: s, probe: -1, kind: "sequential", comp: true, vk: k})
				}
				nseq++
			})
		}
	}
	out = append(append(out, cases...), extra...)
	names := make([]string, len(kinds))
	for i, k := range kinds {
		names[i] = k.name
	}
	rep.Extra["value_kinds"] = names
	rep.Extra["cases_with_other_value_kinds"] = nextra
	rep.Extra["sequential_histories"] = fmt.Sprintf("%d (up to %d operations) x %d value kinds", nseq, b.seqOps, len(kinds))
	return out
}

func generate(cfg *hx.Config, r *hx.Rand, rep *hx.Report) []*tcase {
	b := budgetOf(cfg)
	progs := enumeratePrograms()
	var cases []*tcase
	var probeCands []*tcase
	states, trans, nexh, nbig, nbigRun, covered, coverable := 0, 0, 0, 0, 0, 0, 0
	stats := os.Getenv("C18_STATS") != ""
	hist := map[string]int{}
	for _, p := range progs {
		g := explore(p)
		states += len(g.states)
		trans += g.ntrans
		if g.deadlock >= 0 {
			sc := g.path(g.deadlock)
			is := make([]int, len(sc))
			for i, t := range sc {
				is[i] = int(t)
			}
			rep.Fail("model-deadlock", "the model reaches a state that is not final and in which no goroutine can move", "coq/D2/LazyMap.v",
				&caseDesc{Module: "model", Program: p.Strings(), Schedule: is}, nil)
		}
		n := g.nsched(0)
		if stats {
			hist[fmt.Sprintf("threads=%d ops=%d nsched<=1e%d", len(p), p.nops(), len(fmt.Sprint(n)))]++
		}
		var mine []*tcase
		if n <= b.exhLimit {
			nexh++
			g.allSchedules(func(s []uint8) {
				mine = append(mine, &tcase{prog: p, sched: s, probe: -1, kind: "exhaustive", comp: true})
			})
		} else {
			nbig++
			if !r.Chance(b.bigSample) {
				continue
			}
			nbigRun++
			cov := make([][maxThreads]bool, len(g.states))
			type tr struct {
				s int32
				t int
			}
			var trs []tr
			for i := range g.states {
				for t, j := range g.succ[i] {
					if j >= 0 {
						trs = append(trs, tr{int32(i), t})
					}
				}
			}
			for i := len(trs) - 1; i > 0; i-- {
				j := r.Intn(i + 1)
				trs[i], trs[j] = trs[j], trs[i]
			}
			made := 0
			for _, x := range trs {
				if made >= b.covCap {
					break
				}
				if cov[x.s][x.t] {
					continue
				}
				// shortest path to the state, the transition, then a completion that prefers uncovered transitions
				pre := g.path(x.s)
				at := int32(0)
				for _, t := range pre {
					cov[at][t] = true
					at = g.succ[at][t]
				}
				cov[x.s][x.t] = true
				s := append(append([]uint8{}, pre...), uint8(x.t))
				s = append(s, g.greedyCompletion(g.succ[x.s][x.t], r, cov)...)
				mine = append(mine, &tcase{prog: p, sched: s, probe: -1, kind: "coverage", comp: true})
				made++
			}
			for i := 0; i < b.rnd; i++ {
				s := g.uniformCompletion(0, r, func(s int32, t int) { cov[s][t] = true })
				mine = append(mine, &tcase{prog: p, sched: s, probe: -1, kind: "random", comp: true})
			}
			for i := range cov {
				for t := range cov[i] {
					if cov[i][t] {
						covered++
					}
				}
			}
			coverable += len(trs)
		}
		// incomplete schedules: strict prefixes
		for _, c := range mine {
			if len(c.sched) > 0 && r.Chance(b.prefixPct) {
				cut := r.Intn(len(c.sched))
				cases = append(cases, &tcase{prog: p, sched: c.sched[:cut], probe: -1, kind: "prefix"})
			}
		}
		cases = append(cases, mine...)
		// wait probes: a goroutine parked before a Wait whose Done has not run must block when released
		for _, w := range g.blockedWaiters() {
			if r.Intn(16) == 0 {
				probeCands = append(probeCands, &tcase{prog: p, sched: g.path(w[0]), probe: int(w[1]), kind: "wait-probe"})
			}
		}
	}
	for i := len(probeCands) - 1; i > 0; i-- {
		j := r.Intn(i + 1)
		probeCands[i], probeCands[j] = probeCands[j], probeCands[i]
	}
	if len(probeCands) > b.probes {
		probeCands = probeCands[:b.probes]
	}
	cases = append(cases, probeCands...)
	rep.Extra["programs"] = len(progs)
	rep.Extra["programs_exhaustive"] = nexh
	rep.Extra["programs_sampled_of_large"] = fmt.Sprintf("%d of %d", nbigRun, nbig)
	rep.Extra["states"] = states
	rep.Extra["transitions"] = trans
	rep.Extra["transitions_covered_in_sampled_large_programs"] = fmt.Sprintf("%d of %d", covered, coverable)
	if stats {
		keys := []string{}
		for k := range hist {
			keys = append(keys, k)
		}
		sort.Strings(keys)
		for _, k := range keys {
			fmt.Fprintln(os.Stderr, k, hist[k])
		}
		fmt.Fprintln(os.Stderr, "programs", len(progs), "exh", nexh, "big", nbig, "bigRun", nbigRun, "states", states, "trans", trans, "cases", len(cases))
	}
	return cases
}

func main() {
	for _, a := range os.Args[1:] {
		if a == "--selftest" || a == "-selftest" {
			os.Exit(selftest())
		}
	}
	cfg := hx.ParseFlags()
	// one P: the controller serialises the goroutines anyway, and hand-overs are direct goroutine switches
	if os.Getenv("GOMAXPROCS") == "" {
		runtime.GOMAXPROCS(1)
	}
	singleP = runtime.GOMAXPROCS(0) == 1
	v2lm.Hook = hook
	rootlm.Hook = hook
	rep := hx.NewReport("programs: up to 3 goroutines x up to 2 operations over {LoadOrStore(k,f), Load(k), Store(k,v)}, keys {0,1}, " +
		"reduced by goroutine symmetry and key swap; schedules from the Go copy of the model: all complete schedules of the programs " +
		"with few schedules, transition-coverage + uniformly drawn complete schedules for (a seeded sample of) the others, ~5% strict prefixes, " +
		"and wait probes; every schedule is forced on both module generations. VALUES: the model's value tokens are represented " +
		"as ints in every case and additionally (a seeded rotation per case; every kind for the sequential histories) as pointer, string, " +
		"float64 (+0/-0, NaN payloads, infinities), complex128, slice, map, struct with a slice field, struct with float fields, " +
		"a mixture of dynamic types incl. typed nils, and the mixture inside struct{V interface{}}; returned values are decoded " +
		"bit-exactly (Float64bits, identity of allocations); sequential histories: one goroutine, up to 4 (thorough 5) operations, " +
		"every value kind. distinct by (program, schedule), module- and value-kind-independent; " +
		"non-trivial = at least two goroutines with operations AND a contended step (a goroutine found a placeholder in the map: " +
		"yield point 2 or 7, or a Store that did not win: yield point 9)")
	rep.Exhaustive = false
	t0 := time.Now()

	if cfg.Replay != "" {
		b, err := os.ReadFile(cfg.Replay)
		if err != nil {
			panic(err)
		}
		var rp struct {
			Case caseDesc `json:"case"`
		}
		if err := json.Unmarshal(b, &rp); err != nil {
			panic(err)
		}
		tc := &tcase{probe: -1, kind: "replay"}
		if rp.Case.VKind != "" {
			if tc.vk = kindByName(rp.Case.VKind); tc.vk == nil {
				panic("replay: unknown value kind " + rp.Case.VKind)
			}
		}
		for _, t := range rp.Case.Program {
			var ops []op
			for _, s := range t {
				o, err := parseOp(s)
				if err != nil {
					panic(err)
				}
				ops = append(ops, o)
			}
			tc.prog = append(tc.prog, ops)
		}
		if len(tc.prog) > maxThreads || tc.prog.nops() > maxCells {
			panic("replay: program too large")
		}
		for _, t := range rp.Case.Schedule {
			tc.sched = append(tc.sched, uint8(t))
		}
		if rp.Case.Probe != nil {
			tc.probe = *rp.Case.Probe
		}
		rn := &runner{rep: rep, sh: hx.NewShards(cfg.Out, header, "C18Corr", 100), blocked: map[string]int{}, emitted: map[[sha256.Size]byte]bool{}}
		found := false
		for i := range modules {
			if modules[i].name == rp.Case.Module {
				found = true
				rn.run(&modules[i], tc)
			}
		}
		if !found {
			fmt.Fprintf(os.Stderr, "replay: unknown module %q (a model-only case): nothing to run on the implementation\n", rp.Case.Module)
		}
		rn.sh.Close()
		rep.Shards = rn.sh.Files
		rep.Write(cfg.Out)
		return
	}

	r := hx.NewRand(cfg.Seed)
	cases := generate(cfg, r, rep)
	nint := len(cases)
	cases = widen(cfg, cases, rep)
	tgen := time.Since(t0)
	// shards are sized for the model cases that will be written: the int-valued ones and the sequential histories; runs
	// of other value kinds only add a model case when their observations differ
	total := (nint + (len(cases)-nint)/len(kinds)) * len(modules)
	nsh := (total + 2499) / 2500
	if nsh < 16 {
		nsh = 16
	}
	per := (total + nsh - 1) / nsh
	if per < 1 {
		per = 1
	}
	rn := &runner{rep: rep, sh: hx.NewShards(cfg.Out, header, "C18Corr", per), blocked: map[string]int{}, emitted: map[[sha256.Size]byte]bool{}}
	for i := range modules {
		m := &modules[i]
		for _, tc := range cases {
			if rn.blocked[m.name] >= 10 {
				rep.Count("module-stopped-after-10-blocked-cases=" + m.name)
				break
			}
			rn.run(m, tc)
		}
	}
	fmt.Fprintf(os.Stderr, "c18: %d cases x %d modules; generate %.2fs, total %.2fs, GOMAXPROCS=%d\n", len(cases), len(modules), tgen.Seconds(), time.Since(t0).Seconds(), runtime.GOMAXPROCS(0))
	rep.Extra["local_transition_kinds_forced"] = fmt.Sprintf("%d of %d possible in the model (kind = operation kind and index, pc, map entry for the key, own/foreign placeholder, done flag)", countTrue(&localSeen), countTrue(&localPossible))
	rn.sh.Close()
	rep.Shards = rn.sh.Files
	rep.Write(cfg.Out)
}
