// --selftest: checks the machinery of this driver without touching /repo: the Go copy of the model on a known run,
// the linearizability checker and the oracle on synthetic histories, and the controller + oracle end to end on local
// copies of lazymap.go with seeded defects (each must be reported under the expected signature, the faithful copy
// must be clean).
package main

import (
	"fmt"
	"os"
	"runtime"
	"sort"
	"strings"
	"sync"
	"time"

	"verif/harness/hx"
)

const (
	mutNone = iota
	mutNoWaitLos
	mutNoWaitLoad
	mutLoadRaw
	mutNoDone
	mutNoOverwrite
	mutNoInnerStore
	mutDoneEarly
	mutPanic
)

type inFlight struct {
	wg sync.WaitGroup
	v  interface{}
}

// a transcription of lazymap.go with the same yield points, and switchable defects
type mutMap struct {
	m   sync.Map
	mut int
}

func (m *mutMap) LoadOrStore(key interface{}, f func() interface{}) interface{} {
	value := new(inFlight)
	value.wg.Add(1)
	hook(1)
	if s, loaded := m.m.LoadOrStore(key, value); loaded {
		if v, ok := s.(*inFlight); ok {
			hook(2)
			if m.mut != mutNoWaitLos {
				v.wg.Wait()
			}
			return v.v
		}
		return s
	}
	hook(3)
	if m.mut == mutDoneEarly {
		value.wg.Done()
	}
	value.v = f()
	hook(4)
	if m.mut != mutNoInnerStore {
		m.m.Store(key, value.v)
	}
	hook(5)
	if m.mut == mutPanic {
		panic("seeded")
	}
	if m.mut != mutNoDone && m.mut != mutDoneEarly {
		value.wg.Done()
	}
	return value.v
}

func (m *mutMap) Load(key interface{}) (interface{}, bool) {
	hook(6)
	s, ok := m.m.Load(key)
	if !ok {
		return nil, false
	}
	if m.mut == mutLoadRaw {
		return s, true
	}
	if v, ok := s.(*inFlight); ok {
		hook(7)
		if m.mut != mutNoWaitLoad {
			v.wg.Wait()
		}
		return v.v, true
	}
	return s, true
}

func (m *mutMap) Store(key interface{}, value interface{}) {
	stored := false
	m.LoadOrStore(key, func() interface{} {
		hook(8)
		stored = true
		return value
	})
	if !stored && m.mut != mutNoOverwrite {
		hook(9)
		m.m.Store(key, value)
	}
}

func selftest() int {
	bad := 0
	check := func(ok bool, what string) {
		if !ok {
			bad++
			fmt.Println("SELFTEST FAIL:", what)
		}
	}
	if os.Getenv("GOMAXPROCS") == "" {
		runtime.GOMAXPROCS(1)
	}
	singleP = runtime.GOMAXPROCS(0) == 1
	stepDeadline = 300 * time.Millisecond

	// ---- 1. the Go copy of the model on the run given in the task description
	prog := program{{{kLos, 0, 11}}, {{kStore, 0, 21}, {kLoad, 0, 0}}}
	sched := []int{0, 1, 0, 0, 0, 0, 1, 1, 1}
	var ms mstate
	var pts []int
	rets := make([][]string, 2)
	for _, t := range sched {
		pts = append(pts, pointOf(prog, ms, t))
		ns, ok, resp := step(prog, ms, t)
		check(ok, "model: step enabled")
		if resp != nil {
			rets[t] = append(rets[t], resp.String())
		}
		ms = ns
	}
	check(fmt.Sprint(pts) == "[1 1 3 100 4 5 2 9 6]", "model: points "+fmt.Sprint(pts))
	check(fmt.Sprint(rets) == "[[v11] [unit v21]]", "model: rets "+fmt.Sprint(rets))
	check(isFinal(prog, ms) && ms.computes == [2]uint8{1, 0} && modelFinalLoad(ms, 0) == obsv{oVal, 21} && modelFinalLoad(ms, 1) == obsv{oAbsent, 0}, "model: final state")
	_, en, _ := step(prog, ms, 0)
	check(!en, "model: finished goroutine is not enabled")

	// ---- 2. linearizability checker
	call := func(t, idx int, o op, first, last int, r obsv) hcall {
		return hcall{T: t, Idx: idx, First: first, Last: last, Done: last >= 0, o: o, ret: r}
	}
	V := func(v int) obsv { return obsv{oVal, v} }
	unit, absent := obsv{oUnit, 0}, obsv{oAbsent, 0}
	fin := func(a, b obsv) []obsv { return []obsv{a, b} }
	// sequential: store 5; load -> 5
	check(linearizable([]hcall{call(0, 0, op{kStore, 0, 5}, 0, 1, unit), call(1, 0, op{kLoad, 0, 0}, 2, 2, V(5))}, true, fin(V(5), absent)), "lin: store then load")
	// stale read after a completed store
	check(!linearizable([]hcall{call(0, 0, op{kStore, 0, 5}, 0, 1, unit), call(1, 0, op{kLoad, 0, 0}, 2, 2, absent)}, true, fin(V(5), absent)), "lin: stale load must be rejected")
	// the same load overlapping the store is fine
	check(linearizable([]hcall{call(0, 0, op{kStore, 0, 5}, 0, 3, unit), call(1, 0, op{kLoad, 0, 0}, 2, 2, absent)}, true, fin(V(5), absent)), "lin: overlapping load may miss the store")
	// lost store: both stores done, sequential, final shows the first
	check(!linearizable([]hcall{call(0, 0, op{kStore, 0, 5}, 0, 1, unit), call(1, 0, op{kStore, 0, 6}, 2, 3, unit)}, true, fin(V(5), absent)), "lin: lost store must be rejected")
	check(linearizable([]hcall{call(0, 0, op{kStore, 0, 5}, 0, 2, unit), call(1, 0, op{kStore, 0, 6}, 1, 3, unit)}, true, fin(V(5), absent)), "lin: overlapping stores, either may win")
	// compute-if-absent: two LoadOrStore returning their own values
	check(!linearizable([]hcall{call(0, 0, op{kLos, 0, 5}, 0, 4, V(5)), call(1, 0, op{kLos, 0, 6}, 1, 5, V(6))}, true, fin(V(5), absent)), "lin: two winners must be rejected")
	check(linearizable([]hcall{call(0, 0, op{kLos, 0, 5}, 0, 4, V(5)), call(1, 0, op{kLos, 0, 6}, 1, 5, V(5))}, true, fin(V(5), absent)), "lin: loser returns the winner's value")
	// LoadOrStore after a Store must see the stored value
	check(!linearizable([]hcall{call(0, 0, op{kStore, 0, 5}, 0, 1, unit), call(1, 0, op{kLos, 0, 6}, 2, 6, V(6))}, true, fin(V(6), absent)), "lin: LoadOrStore must not replace a stored value")
	// pending calls: may have taken effect ...
	check(linearizable([]hcall{call(0, 0, op{kStore, 0, 5}, 0, -1, obsv{}), call(1, 0, op{kLoad, 0, 0}, 1, 1, V(5))}, false, nil), "lin: a pending store may be seen")
	// ... or not
	check(linearizable([]hcall{call(0, 0, op{kStore, 0, 5}, 0, -1, obsv{}), call(1, 0, op{kLoad, 0, 0}, 1, 1, absent)}, false, nil), "lin: a pending store may be missed")
	// but a value nobody wrote is rejected
	check(!linearizable([]hcall{call(0, 0, op{kStore, 0, 5}, 0, -1, obsv{}), call(1, 0, op{kLoad, 0, 0}, 1, 1, V(7))}, false, nil), "lin: value out of thin air")
	// a pending call cannot take effect before it began
	check(!linearizable([]hcall{call(1, 0, op{kLoad, 0, 0}, 0, 0, V(5)), call(0, 0, op{kStore, 0, 5}, 1, -1, obsv{})}, false, nil), "lin: pending store seen before it began")
	// final map must match
	check(!linearizable([]hcall{call(0, 0, op{kStore, 1, 5}, 0, 1, unit)}, true, fin(absent, absent)), "lin: final load must show the store")
	// nil / placeholder results never match the specification
	check(!linearizable([]hcall{call(0, 0, op{kLos, 0, 5}, 0, 4, obsv{oNil, 0})}, true, fin(V(5), absent)), "lin: nil result rejected")

	// ---- 3. oracle signatures on synthetic observations
	sigs := func(p program, o *outcome) string {
		m := map[string]bool{}
		for _, f := range oracle(p, o) {
			m[f.sig] = true
		}
		var l []string
		for s := range m {
			l = append(l, s)
		}
		sort.Strings(l)
		return strings.Join(l, ",")
	}
	p2 := program{{{kLos, 0, 11}}, {{kLos, 0, 21}}}
	good := &outcome{rets: [][]obsv{{V(11)}, {V(11)}}, computes: [2]int{1, 0}, final: fin(V(11), absent), finished: true,
		calls: []hcall{call(0, 0, p2[0][0], 0, 5, V(11)), call(1, 0, p2[1][0], 1, 6, V(11))}}
	check(sigs(p2, good) == "", "oracle: a good run is clean, got "+sigs(p2, good))
	twice := *good
	twice.computes = [2]int{2, 0}
	check(sigs(p2, &twice) == "compute-twice", "oracle: compute-twice, got "+sigs(p2, &twice))
	ph := *good
	ph.rets = [][]obsv{{V(11)}, {{oPlaceholder, 0}}}
	check(sigs(p2, &ph) == "placeholder-returned", "oracle: placeholder-returned, got "+sigs(p2, &ph))
	nl := *good
	nl.rets = [][]obsv{{V(11)}, {{oNil, 0}}}
	check(sigs(p2, &nl) == "placeholder-returned", "oracle: nil returned, got "+sigs(p2, &nl))
	dis := *good
	dis.rets = [][]obsv{{V(11)}, {V(21)}}
	check(sigs(p2, &dis) == "callers-disagree", "oracle: callers-disagree, got "+sigs(p2, &dis))
	dis2 := *good
	dis2.final = fin(V(21), absent)
	check(sigs(p2, &dis2) == "callers-disagree", "oracle: callers vs final, got "+sigs(p2, &dis2))
	p3 := program{{{kLos, 0, 11}}, {{kStore, 0, 21}}}
	lost := &outcome{rets: [][]obsv{{V(11)}, {unit}}, computes: [2]int{1, 0}, final: fin(V(11), absent), finished: true,
		calls: []hcall{call(0, 0, p3[0][0], 0, 4, V(11)), call(1, 0, p3[1][0], 5, 6, unit)}}
	check(sigs(p3, lost) == "store-lost", "oracle: store-lost, got "+sigs(p3, lost))
	p4 := program{{{kStore, 0, 11}}, {{kStore, 0, 21}}}
	lost2 := &outcome{rets: [][]obsv{{unit}, {unit}}, computes: [2]int{1, 0}, final: fin(V(11), absent), finished: true,
		calls: []hcall{call(0, 0, p4[0][0], 0, 4, unit), call(1, 0, p4[1][0], 5, 6, unit)}}
	check(sigs(p4, lost2) == "store-lost", "oracle: second store lost, got "+sigs(p4, lost2))
	ovl := *lost2
	ovl.calls = []hcall{call(0, 0, p4[0][0], 0, 5, unit), call(1, 0, p4[1][0], 1, 6, unit)}
	check(sigs(p4, &ovl) == "", "oracle: overlapping stores may end either way, got "+sigs(p4, &ovl))
	p5 := program{{{kStore, 0, 11}}, {{kLoad, 0, 0}}}
	stale := &outcome{rets: [][]obsv{{unit}, {absent}}, computes: [2]int{1, 0}, final: fin(V(11), absent), finished: true,
		calls: []hcall{call(0, 0, p5[0][0], 0, 4, unit), call(1, 0, p5[1][0], 5, 5, absent)}}
	check(sigs(p5, stale) == "not-linearizable", "oracle: stale load is not linearizable, got "+sigs(p5, stale))

	// ---- 4. controller + oracle on seeded defects
	suite := []program{
		mkProgram([]shape{{0}, {0}}),       // los / los
		mkProgram([]shape{{0}, {2}}),       // los / load
		mkProgram([]shape{{4}, {4}}),       // store / store
		mkProgram([]shape{{0}, {4, 2}}),    // los / store;load
		mkProgram([]shape{{4}, {2}, {0}}),  // store / load / los
		mkProgram([]shape{{0, 2}, {4, 0}}), // los;load / store;los
	}
	var cases []*tcase
	r := hx.NewRand(7)
	for _, p := range suite {
		g := explore(p)
		check(g.deadlock < 0, "model deadlock in "+p.Coq())
		if g.nsched(0) <= 400 {
			g.allSchedules(func(s []uint8) { cases = append(cases, &tcase{prog: p, sched: s, probe: -1, comp: true}) })
		} else {
			for i := 0; i < 300; i++ {
				cases = append(cases, &tcase{prog: p, sched: g.uniformCompletion(0, r, nil), probe: -1, comp: true})
			}
		}
		for i, w := range g.blockedWaiters() {
			if i%7 == 0 {
				cases = append(cases, &tcase{prog: p, sched: g.path(w[0]), probe: int(w[1])})
			}
		}
		for i := 0; i < 20; i++ {
			s := g.uniformCompletion(0, r, nil)
			cases = append(cases, &tcase{prog: p, sched: s[:r.Intn(len(s))], probe: -1})
		}
	}
	expect := []struct {
		mut  int
		name string
		want []string // signatures that must show up
		only bool     // and no others
	}{
		{mutNone, "faithful copy", nil, true},
		{mutNoWaitLos, "LoadOrStore does not Wait", []string{"wait-not-blocking"}, true},
		{mutNoWaitLoad, "Load does not Wait", []string{"wait-not-blocking"}, true},
		{mutLoadRaw, "Load returns the raw entry", []string{"placeholder-returned", "step-sequence"}, false},
		{mutNoDone, "Done never called", []string{"blocked"}, false},
		{mutNone, "faithful copy after goroutines were leaked", nil, true},
		{mutNoOverwrite, "Store does not overwrite", []string{"step-sequence", "store-lost"}, false},
		{mutNoInnerStore, "value never published to the map", []string{"step-sequence"}, false},
		{mutDoneEarly, "Done before the value is written", []string{"wait-not-blocking"}, false},
		{mutPanic, "panic inside LoadOrStore", []string{"panic"}, false},
	}
	for _, e := range expect {
		mut := e.mut
		m := &module{name: "selftest", site: "selftest", fresh: func() lazyMap { return &mutMap{mut: mut} }}
		got := map[string]int{}
		nblocked, nrun, nagree := 0, 0, 0
		for _, tc := range cases {
			if nblocked >= 3 {
				break
			}
			sc := make([]int, len(tc.sched))
			for i, t := range tc.sched {
				sc[i] = int(t)
			}
			o := runCase(m, tc.prog, sc, tc.probe)
			nrun++
			if o.agrees {
				nagree++
			}
			if o.abandoned {
				nblocked++
			}
			for _, f := range append(append([]failure{}, o.fails...), oracle(tc.prog, o)...) {
				got[f.sig]++
			}
		}
		for _, w := range e.want {
			check(got[w] > 0, fmt.Sprintf("mutant %q: expected signature %s, got %v", e.name, w, got))
		}
		if e.only {
			for s := range got {
				found := false
				for _, w := range e.want {
					if w == s {
						found = true
					}
				}
				check(found, fmt.Sprintf("mutant %q: unexpected signature %s (%v)", e.name, s, got))
			}
		}
		if e.mut == mutNone {
			check(nagree == nrun, fmt.Sprintf("faithful copy: the Go model predicted %d of %d runs", nagree, nrun))
		}
		fmt.Printf("selftest: %-45s %4d runs  %v\n", e.name, nrun, got)
	}
	if bad == 0 {
		fmt.Println("selftest: ok")
		return 0
	}
	return 1
}
