// --selftest: checks the machinery of this driver without touching /repo: the Go copy of the model on a known run,
// the linearizability checker and the oracle on synthetic histories, and the controller + oracle end to end on local
// copies of lazymap.go with seeded defects (each must be reported under the expected signature, the faithful copy
// must be clean).
package main

import (
	"fmt"
	"math"
	"os"
	"reflect"
	"runtime"
	"sort"
	"strings"
	"sync"
	"time"

	"verif/harness/hx"
)

const (
	mutNone = iota
	mutNoWaitLos
	mutNoWaitLoad
	mutLoadRaw
	mutNoDone
	mutNoOverwrite
	mutNoInnerStore
	mutDoneEarly
	mutPanic
	mutStoreCompare   // Store decides by current != value whether its closure supplied the value
	mutStoreDeepEqual // Store skips the overwrite when the present value is reflect.DeepEqual to the new one
	mutLoadReadEarly  // Load reads the placeholder's result before it waits (e.g. defer v.wg.Wait(); return v.v, true)
	mutLosReadEarly   // the same in the waiter branch of LoadOrStore
)

type inFlight struct {
	wg sync.WaitGroup
	v  interface{}
}

// a transcription of lazymap.go with the same yield points, and switchable defects
type mutMap struct {
	m   sync.Map
	mut int
}

func (m *mutMap) LoadOrStore(key interface{}, f func() interface{}) interface{} {
	value := new(inFlight)
	value.wg.Add(1)
	hook(1)
	if s, loaded := m.m.LoadOrStore(key, value); loaded {
		if v, ok := s.(*inFlight); ok {
			hook(2)
			if m.mut == mutLosReadEarly {
				defer v.wg.Wait()
				return v.v
			}
			if m.mut != mutNoWaitLos {
				v.wg.Wait()
			}
			return v.v
		}
		return s
	}
	hook(3)
	if m.mut == mutDoneEarly {
		value.wg.Done()
	}
	value.v = f()
	hook(4)
	if m.mut != mutNoInnerStore {
		m.m.Store(key, value.v)
	}
	hook(5)
	if m.mut == mutPanic {
		panic("seeded")
	}
	if m.mut != mutNoDone && m.mut != mutDoneEarly {
		value.wg.Done()
	}
	return value.v
}

func (m *mutMap) Load(key interface{}) (interface{}, bool) {
	hook(6)
	s, ok := m.m.Load(key)
	if !ok {
		return nil, false
	}
	if m.mut == mutLoadRaw {
		return s, true
	}
	if v, ok := s.(*inFlight); ok {
		hook(7)
		if m.mut == mutLoadReadEarly {
			defer v.wg.Wait()
			return v.v, true
		}
		if m.mut != mutNoWaitLoad {
			v.wg.Wait()
		}
		return v.v, true
	}
	return s, true
}

func (m *mutMap) Store(key interface{}, value interface{}) {
	stored := false
	cur := m.LoadOrStore(key, func() interface{} {
		hook(8)
		stored = true
		return value
	})
	switch m.mut {
	case mutStoreCompare:
		stored = !(cur != value)
	case mutStoreDeepEqual:
		stored = stored || reflect.DeepEqual(cur, value)
	}
	if !stored && m.mut != mutNoOverwrite {
		hook(9)
		m.m.Store(key, value)
	}
}

func contains(l []string, s string) bool {
	for _, x := range l {
		if x == s {
			return true
		}
	}
	return false
}

func selftest() int {
	bad := 0
	check := func(ok bool, what string) {
		if !ok {
			bad++
			fmt.Println("SELFTEST FAIL:", what)
		}
	}
	if os.Getenv("GOMAXPROCS") == "" {
		runtime.GOMAXPROCS(1)
	}
	singleP = runtime.GOMAXPROCS(0) == 1
	stepDeadline = 300 * time.Millisecond

	// ---- 0. value kinds: injective, decoded bit-exactly, and they contain what they are meant to contain
	for _, k := range kinds {
		okRound := true
		for t := 0; t < maxToken; t++ {
			if k.dec(k.enc(t)) != (obsv{oVal, t}) {
				okRound = false
			}
		}
		check(okRound, "value kind "+k.name+": dec(enc(token)) = token for every token")
		panics := false
		for _, t := range stdTokens {
			if _, p := goEqual(k.enc(t), k.enc(t)); p {
				panics = true
			}
		}
		check(panics == !k.eqTotal, fmt.Sprintf("value kind %s: == panics on some value: %v, declared total: %v", k.name, panics, k.eqTotal))
		check(k.dec(new(inFlight)).K == oPlaceholder && k.dec(nil).K == oNil && k.dec(struct{ a int }{1}).K == oPlaceholder, "value kind "+k.name+": foreign values are placeholders")
	}
	eqDistinct := func(kn string, a, b int) {
		k := kindByName(kn)
		eq, p := goEqual(k.enc(a), k.enc(b))
		check(eq && !p && k.dec(k.enc(a)) != k.dec(k.enc(b)), fmt.Sprintf("value kind %s: tokens %d and %d are Go-== yet different tokens", kn, a, b))
	}
	eqDistinct("float64", 11, 12)
	eqDistinct("float64-x", 11, 21)
	eqDistinct("mixed", 11, 21)
	eqDistinct("boxed", 11, 21)
	for i, a := range stdTokens[:8] {
		for _, b := range stdTokens[:i] {
			eqDistinct("struct-float", a, b)
		}
	}
	for i, a := range stdTokens[:4] {
		for _, b := range stdTokens[:i] {
			eqDistinct("complex128", a, b)
		}
	}
	nanv := kindByName("float64").enc(21).(float64)
	check(nanv != nanv && kindByName("float64").dec(nanv) == obsv{oVal, 21} && kindByName("float64").dec(math.Float64frombits(0x7ff8000000000003)).K == oPlaceholder &&
		kindByName("float64").dec(kindByName("float64").enc(22)) == obsv{oVal, 22}, "value kind float64: a NaN decodes to its own token, another NaN payload does not")
	check(reflect.DeepEqual(kindByName("pointer").enc(11), kindByName("pointer").enc(12)) && kindByName("pointer").enc(11) != kindByName("pointer").enc(12),
		"value kind pointer: distinct allocations with equal contents")
	check(reflect.DeepEqual(kindByName("slice").enc(11), kindByName("slice").enc(12)) && kindByName("slice").dec([]string{"host"}).K == oPlaceholder,
		"value kind slice: equal contents, identity decides")
	check(kindByName("float64").dec(0.0) == obsv{oVal, 11} && kindByName("float64").dec(negZero) == obsv{oVal, 12} && kindByName("int").dec(0.0).K == oPlaceholder,
		"value kind float64: signed zeros are different tokens")

	// ---- 1. the Go copy of the model on the run given in the task description
	prog := program{{{kLos, 0, 11}}, {{kStore, 0, 21}, {kLoad, 0, 0}}}
	sched := []int{0, 1, 0, 0, 0, 0, 1, 1, 1}
	var ms mstate
	var pts []int
	rets := make([][]string, 2)
	for _, t := range sched {
		pts = append(pts, pointOf(prog, ms, t))
		ns, ok, resp := step(prog, ms, t)
		check(ok, "model: step enabled")
		if resp != nil {
			rets[t] = append(rets[t], resp.String())
		}
		ms = ns
	}
	check(fmt.Sprint(pts) == "[1 1 3 100 4 5 2 9 6]", "model: points "+fmt.Sprint(pts))
	check(fmt.Sprint(rets) == "[[v11] [unit v21]]", "model: rets "+fmt.Sprint(rets))
	check(isFinal(prog, ms) && ms.computes == [2]uint8{1, 0} && modelFinalLoad(ms, 0) == obsv{oVal, 21} && modelFinalLoad(ms, 1) == obsv{oAbsent, 0}, "model: final state")
	_, en, _ := step(prog, ms, 0)
	check(!en, "model: finished goroutine is not enabled")

	// ---- 2. linearizability checker
	call := func(t, idx int, o op, first, last int, r obsv) hcall {
		return hcall{T: t, Idx: idx, First: first, Last: last, Done: last >= 0, o: o, ret: r}
	}
	V := func(v int) obsv { return obsv{oVal, v} }
	unit, absent := obsv{oUnit, 0}, obsv{oAbsent, 0}
	fin := func(a, b obsv) []obsv { return []obsv{a, b} }
	// sequential: store 5; load -> 5
	check(linearizable([]hcall{call(0, 0, op{kStore, 0, 5}, 0, 1, unit), call(1, 0, op{kLoad, 0, 0}, 2, 2, V(5))}, true, fin(V(5), absent)), "lin: store then load")
	// stale read after a completed store
	check(!linearizable([]hcall{call(0, 0, op{kStore, 0, 5}, 0, 1, unit), call(1, 0, op{kLoad, 0, 0}, 2, 2, absent)}, true, fin(V(5), absent)), "lin: stale load must be rejected")
	// the same load overlapping the store is fine
	check(linearizable([]hcall{call(0, 0, op{kStore, 0, 5}, 0, 3, unit), call(1, 0, op{kLoad, 0, 0}, 2, 2, absent)}, true, fin(V(5), absent)), "lin: overlapping load may miss the store")
	// lost store: both stores done, sequential, final shows the first
	check(!linearizable([]hcall{call(0, 0, op{kStore, 0, 5}, 0, 1, unit), call(1, 0, op{kStore, 0, 6}, 2, 3, unit)}, true, fin(V(5), absent)), "lin: lost store must be rejected")
	check(linearizable([]hcall{call(0, 0, op{kStore, 0, 5}, 0, 2, unit), call(1, 0, op{kStore, 0, 6}, 1, 3, unit)}, true, fin(V(5), absent)), "lin: overlapping stores, either may win")
	// compute-if-absent: two LoadOrStore returning their own values
	check(!linearizable([]hcall{call(0, 0, op{kLos, 0, 5}, 0, 4, V(5)), call(1, 0, op{kLos, 0, 6}, 1, 5, V(6))}, true, fin(V(5), absent)), "lin: two winners must be rejected")
	check(linearizable([]hcall{call(0, 0, op{kLos, 0, 5}, 0, 4, V(5)), call(1, 0, op{kLos, 0, 6}, 1, 5, V(5))}, true, fin(V(5), absent)), "lin: loser returns the winner's value")
	// LoadOrStore after a Store must see the stored value
	check(!linearizable([]hcall{call(0, 0, op{kStore, 0, 5}, 0, 1, unit), call(1, 0, op{kLos, 0, 6}, 2, 6, V(6))}, true, fin(V(6), absent)), "lin: LoadOrStore must not replace a stored value")
	// pending calls: may have taken effect ...
	check(linearizable([]hcall{call(0, 0, op{kStore, 0, 5}, 0, -1, obsv{}), call(1, 0, op{kLoad, 0, 0}, 1, 1, V(5))}, false, nil), "lin: a pending store may be seen")
	// ... or not
	check(linearizable([]hcall{call(0, 0, op{kStore, 0, 5}, 0, -1, obsv{}), call(1, 0, op{kLoad, 0, 0}, 1, 1, absent)}, false, nil), "lin: a pending store may be missed")
	// but a value nobody wrote is rejected
	check(!linearizable([]hcall{call(0, 0, op{kStore, 0, 5}, 0, -1, obsv{}), call(1, 0, op{kLoad, 0, 0}, 1, 1, V(7))}, false, nil), "lin: value out of thin air")
	// a pending call cannot take effect before it began
	check(!linearizable([]hcall{call(1, 0, op{kLoad, 0, 0}, 0, 0, V(5)), call(0, 0, op{kStore, 0, 5}, 1, -1, obsv{})}, false, nil), "lin: pending store seen before it began")
	// final map must match
	check(!linearizable([]hcall{call(0, 0, op{kStore, 1, 5}, 0, 1, unit)}, true, fin(absent, absent)), "lin: final load must show the store")
	// nil / placeholder results never match the specification
	check(!linearizable([]hcall{call(0, 0, op{kLos, 0, 5}, 0, 4, obsv{oNil, 0})}, true, fin(V(5), absent)), "lin: nil result rejected")

	// ---- 3. oracle signatures on synthetic observations
	sigs := func(p program, o *outcome) string {
		m := map[string]bool{}
		for _, f := range oracle(p, o) {
			m[f.sig] = true
		}
		var l []string
		for s := range m {
			l = append(l, s)
		}
		sort.Strings(l)
		return strings.Join(l, ",")
	}
	p2 := program{{{kLos, 0, 11}}, {{kLos, 0, 21}}}
	good := &outcome{rets: [][]obsv{{V(11)}, {V(11)}}, computes: [2]int{1, 0}, final: fin(V(11), absent), finished: true,
		calls: []hcall{call(0, 0, p2[0][0], 0, 5, V(11)), call(1, 0, p2[1][0], 1, 6, V(11))}}
	check(sigs(p2, good) == "", "oracle: a good run is clean, got "+sigs(p2, good))
	twice := *good
	twice.computes = [2]int{2, 0}
	check(sigs(p2, &twice) == "compute-twice", "oracle: compute-twice, got "+sigs(p2, &twice))
	ph := *good
	ph.rets = [][]obsv{{V(11)}, {{oPlaceholder, 0}}}
	check(sigs(p2, &ph) == "placeholder-returned", "oracle: placeholder-returned, got "+sigs(p2, &ph))
	nl := *good
	nl.rets = [][]obsv{{V(11)}, {{oNil, 0}}}
	check(sigs(p2, &nl) == "placeholder-returned", "oracle: nil returned, got "+sigs(p2, &nl))
	dis := *good
	dis.rets = [][]obsv{{V(11)}, {V(21)}}
	check(sigs(p2, &dis) == "callers-disagree", "oracle: callers-disagree, got "+sigs(p2, &dis))
	dis2 := *good
	dis2.final = fin(V(21), absent)
	check(sigs(p2, &dis2) == "callers-disagree", "oracle: callers vs final, got "+sigs(p2, &dis2))
	p3 := program{{{kLos, 0, 11}}, {{kStore, 0, 21}}}
	lost := &outcome{rets: [][]obsv{{V(11)}, {unit}}, computes: [2]int{1, 0}, final: fin(V(11), absent), finished: true,
		calls: []hcall{call(0, 0, p3[0][0], 0, 4, V(11)), call(1, 0, p3[1][0], 5, 6, unit)}}
	check(sigs(p3, lost) == "store-lost", "oracle: store-lost, got "+sigs(p3, lost))
	p4 := program{{{kStore, 0, 11}}, {{kStore, 0, 21}}}
	lost2 := &outcome{rets: [][]obsv{{unit}, {unit}}, computes: [2]int{1, 0}, final: fin(V(11), absent), finished: true,
		calls: []hcall{call(0, 0, p4[0][0], 0, 4, unit), call(1, 0, p4[1][0], 5, 6, unit)}}
	check(sigs(p4, lost2) == "store-lost", "oracle: second store lost, got "+sigs(p4, lost2))
	ovl := *lost2
	ovl.calls = []hcall{call(0, 0, p4[0][0], 0, 5, unit), call(1, 0, p4[1][0], 1, 6, unit)}
	check(sigs(p4, &ovl) == "", "oracle: overlapping stores may end either way, got "+sigs(p4, &ovl))
	p5 := program{{{kStore, 0, 11}}, {{kLoad, 0, 0}}}
	stale := &outcome{rets: [][]obsv{{unit}, {absent}}, computes: [2]int{1, 0}, final: fin(V(11), absent), finished: true,
		calls: []hcall{call(0, 0, p5[0][0], 0, 4, unit), call(1, 0, p5[1][0], 5, 5, absent)}}
	check(sigs(p5, stale) == "not-linearizable", "oracle: stale load is not linearizable, got "+sigs(p5, stale))

	// ---- 4. controller + oracle on seeded defects
	suite := []program{
		mkProgram([]shape{{0}, {0}}),       // los / los
		mkProgram([]shape{{0}, {2}}),       // los / load
		mkProgram([]shape{{4}, {4}}),       // store / store
		mkProgram([]shape{{0}, {4, 2}}),    // los / store;load
		mkProgram([]shape{{4}, {2}, {0}}),  // store / load / los
		mkProgram([]shape{{0, 2}, {4, 0}}), // los;load / store;los
		mkProgram([]shape{{4, 4, 2}}),      // sequential: store;store;load
		mkProgram([]shape{{2, 4}, {3, 5}}), // load;store / load;store on the other key
	}
	var cases []*tcase
	r := hx.NewRand(7)
	for _, p := range suite {
		g := explore(p)
		check(g.deadlock < 0, "model deadlock in "+p.Coq())
		if g.nsched(0) <= 400 {
			g.allSchedules(func(s []uint8) { cases = append(cases, &tcase{prog: p, sched: s, probe: -1, comp: true}) })
		} else {
			for i := 0; i < 300; i++ {
				cases = append(cases, &tcase{prog: p, sched: g.uniformCompletion(0, r, nil), probe: -1, comp: true})
			}
		}
		for i, w := range g.blockedWaiters() {
			if i%7 == 0 {
				cases = append(cases, &tcase{prog: p, sched: g.path(w[0]), probe: int(w[1])})
			}
		}
		for i := 0; i < 20; i++ {
			s := g.uniformCompletion(0, r, nil)
			cases = append(cases, &tcase{prog: p, sched: s[:r.Intn(len(s))], probe: -1})
		}
	}
	expect := []struct {
		mut  int
		name string
		want []string // signatures that must show up ("sig@kind": in a run with that value kind)
		only bool     // and no others
		all  bool     // run with every value kind (otherwise ints)
	}{
		{mutNone, "faithful copy", nil, true, false},
		{mutNoWaitLos, "LoadOrStore does not Wait", []string{"wait-not-blocking", "placeholder-returned"}, false, false},
		{mutNoWaitLoad, "Load does not Wait", []string{"wait-not-blocking", "placeholder-returned"}, true, false},
		{mutLoadRaw, "Load returns the raw entry", []string{"placeholder-returned", "step-sequence"}, false, false},
		{mutNoDone, "Done never called", []string{"blocked"}, false, false},
		{mutNone, "faithful copy after goroutines were leaked", nil, true, false},
		{mutNoOverwrite, "Store does not overwrite", []string{"step-sequence", "store-lost"}, false, false},
		{mutNoInnerStore, "value never published to the map", []string{"step-sequence"}, false, false},
		{mutDoneEarly, "Done before the value is written", []string{"wait-not-blocking"}, false, false},
		{mutPanic, "panic inside LoadOrStore", []string{"panic:LoadOrStore:int"}, false, false},
		{mutNone, "faithful copy, every value kind", nil, true, true},
		{mutStoreCompare, "Store compares values instead of using its flag", []string{"panic:Store:slice", "panic:Store:map", "panic:Store:struct-slice",
			"panic:Store:mixed", "panic:Store:boxed", "store-lost@float64", "store-lost@float64-x", "store-lost@struct-float", "store-lost@complex128",
			"store-lost@mixed", "step-sequence@float64"}, false, true},
		{mutStoreDeepEqual, "Store skips the overwrite of a deeply equal value", []string{"store-lost@pointer", "store-lost@slice", "store-lost@struct-slice",
			"step-sequence@pointer"}, false, true},
		{mutLoadReadEarly, "Load reads the result before it waits", []string{"waiter-wrong-value", "placeholder-returned", "waiter-wrong-value@int"}, true, true},
		{mutLosReadEarly, "LoadOrStore's waiter reads the result before it waits", []string{"waiter-wrong-value", "placeholder-returned", "waiter-wrong-value@int"}, true, true},
		{mutNone, "faithful copy, every value kind, after panics", nil, true, true},
	}
	for _, e := range expect {
		mut := e.mut
		m := &module{name: "selftest", site: "selftest", fresh: func() lazyMap { return &mutMap{mut: mut} }}
		got := map[string]int{}
		nblocked, nrun, nagree := 0, 0, 0
		ks := kinds[:1]
		if e.all {
			ks = kinds
		}
		for ci, tc := range cases {
			if nblocked >= 3 {
				break
			}
			sc := make([]int, len(tc.sched))
			for i, t := range tc.sched {
				sc[i] = int(t)
			}
			for ki, vk := range ks {
				if e.all && vk != intKind && len(tc.prog) > 1 && (ci+ki)%3 != 0 {
					continue // concurrent programs: a third of the cases for each of the other kinds
				}
				o := runCase(m, tc.prog, sc, tc.probe, vk)
				nrun++
				if o.agrees {
					nagree++
				}
				if o.abandoned {
					nblocked++
				}
				for _, f := range append(append([]failure{}, o.fails...), oracle(tc.prog, o)...) {
					got[f.sig]++
					if e.all {
						got[f.sig+"@"+vk.name]++
					}
				}
			}
		}
		if e.all {
			// per-kind counts are only looked up, not printed
			for s := range got {
				if strings.Contains(s, "@") && !contains(e.want, s) {
					delete(got, s)
				}
			}
		}
		for _, w := range e.want {
			check(got[w] > 0, fmt.Sprintf("mutant %q: expected signature %s, got %v", e.name, w, got))
		}
		if e.only {
			for s := range got {
				found := false
				for _, w := range e.want {
					if w == s {
						found = true
					}
				}
				check(found, fmt.Sprintf("mutant %q: unexpected signature %s (%v)", e.name, s, got))
			}
		}
		if e.mut == mutNone {
			check(nagree == nrun, fmt.Sprintf("faithful copy: the Go model predicted %d of %d runs", nagree, nrun))
		}
		fmt.Printf("selftest: %-45s %4d runs  %v\n", e.name, nrun, got)
	}
	if bad == 0 {
		fmt.Println("selftest: ok")
		return 0
	}
	return 1
}
