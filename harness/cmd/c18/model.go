// Go copy of the Coq model coq/D2/LazyMap.v (step, point_of) and the exploration of its state graph.
// The copy only drives the choice of schedules: every case is re-validated by the Coq model (Corr/C18Corr.v), so an
// error here cannot hide a defect of the implementation, it can only reduce coverage.
package main

import (
	"fmt"
	"strings"

	"verif/harness/hx"
)

const (
	kLos = iota
	kLoad
	kStore
)

type op struct{ Kind, K, V uint8 }

func (o op) String() string {
	switch o.Kind {
	case kLos:
		return fmt.Sprintf("los %d %d", o.K, o.V)
	case kLoad:
		return fmt.Sprintf("load %d", o.K)
	}
	return fmt.Sprintf("store %d %d", o.K, o.V)
}
func (o op) Coq() string {
	switch o.Kind {
	case kLos:
		return fmt.Sprintf("OLos %s %s", coqNat(int(o.K)), coqNat(int(o.V)))
	case kLoad:
		return fmt.Sprintf("OLoad %s", coqNat(int(o.K)))
	}
	return fmt.Sprintf("OStore %s %s", coqNat(int(o.K)), coqNat(int(o.V)))
}

func parseOp(s string) (op, error) {
	var k, v int
	if n, _ := fmt.Sscanf(s, "los %d %d", &k, &v); n == 2 && k >= 0 && k < 2 && v >= 0 && v < 250 {
		return op{kLos, uint8(k), uint8(v)}, nil
	}
	if n, _ := fmt.Sscanf(s, "store %d %d", &k, &v); n == 2 && k >= 0 && k < 2 && v >= 0 && v < 250 {
		return op{kStore, uint8(k), uint8(v)}, nil
	}
	if n, _ := fmt.Sscanf(s, "load %d", &k); n == 1 && k >= 0 && k < 2 {
		return op{kLoad, uint8(k), 0}, nil
	}
	return op{}, fmt.Errorf("bad op %q", s)
}

type program [][]op

func (p program) Strings() [][]string {
	out := make([][]string, len(p))
	for i, t := range p {
		out[i] = make([]string, len(t))
		for j, o := range t {
			out[i][j] = o.String()
		}
	}
	return out
}
func (p program) Coq() string {
	ts := make([]string, len(p))
	for i, t := range p {
		os := make([]string, len(t))
		for j, o := range t {
			os[j] = o.Coq()
		}
		ts[i] = "[" + strings.Join(os, "; ") + "]"
	}
	return "[" + strings.Join(ts, ";") + "]"
}
func (p program) nops() int {
	n := 0
	for _, t := range p {
		n += len(t)
	}
	return n
}

// ---- model state (LazyMap.v: state without hist); a comparable value, used directly as a map key
const (
	maxThreads = 3
	maxCells   = 6
)

const (
	eAbsent = iota
	ePlaceholder
	eVal
)

const (
	pStart = iota
	pWait
	pCall
	pWrite
	pInner
	pDone
	pRaw
)

type mentry struct{ kind, x uint8 }
type mcell struct {
	has  bool
	v    uint8
	done bool
}
type mthr struct{ pc, p, v, ip uint8 }
type mstate struct {
	smap     [2]mentry
	cells    [maxCells]mcell
	ncells   uint8
	thr      [maxThreads]mthr
	computes [2]uint8
}

// what a call returned, as the model / the driver sees it (C18Corr.obs)
const (
	oVal = iota
	oNil
	oAbsent
	oUnit
	oPlaceholder
)

type obsv struct {
	K uint8
	V int
}

func (o obsv) String() string {
	switch o.K {
	case oVal:
		return fmt.Sprintf("v%d", o.V)
	case oNil:
		return "nil"
	case oAbsent:
		return "absent"
	case oUnit:
		return "unit"
	}
	return "placeholder"
}
func (o obsv) Coq() string {
	switch o.K {
	case oVal:
		return fmt.Sprintf("ORet (RVal %s)", coqNat(o.V))
	case oNil:
		return "ORet RNil"
	case oAbsent:
		return "ORet RAbsent"
	case oUnit:
		return "ORet RUnit"
	}
	return "OPlaceholder"
}

// step: LazyMap.v step.  ok=false: t finished or parked before a Wait whose Done has not run.  resp: the call returned.
func step(prog program, s mstate, t int) (ns mstate, ok bool, resp *obsv) {
	if t < 0 || t >= len(prog) || t >= maxThreads {
		return s, false, nil
	}
	th := s.thr[t]
	if int(th.ip) >= len(prog[t]) {
		return s, false, nil
	}
	o := prog[t][th.ip]
	k := o.K
	ns = s
	ret := func(r obsv) (mstate, bool, *obsv) {
		ns.thr[t] = mthr{pc: pStart, ip: th.ip + 1}
		return ns, true, &r
	}
	switch th.pc {
	case pStart:
		e := s.smap[k]
		switch e.kind {
		case ePlaceholder:
			ns.thr[t] = mthr{pc: pWait, p: e.x, ip: th.ip}
			return ns, true, nil
		case eVal:
			if o.Kind == kStore {
				ns.thr[t] = mthr{pc: pRaw, ip: th.ip}
				return ns, true, nil
			}
			return ret(obsv{oVal, int(e.x)})
		default:
			if o.Kind == kLoad {
				return ret(obsv{oAbsent, 0})
			}
			if int(s.ncells) >= maxCells {
				panic("model: too many placeholders")
			}
			p := s.ncells
			ns.cells[p] = mcell{}
			ns.ncells = p + 1
			ns.smap[k] = mentry{ePlaceholder, p}
			ns.thr[t] = mthr{pc: pCall, p: p, ip: th.ip}
			return ns, true, nil
		}
	case pWait:
		c := s.cells[th.p]
		if !c.done {
			return s, false, nil
		}
		if o.Kind == kStore {
			ns.thr[t] = mthr{pc: pRaw, ip: th.ip}
			return ns, true, nil
		}
		if c.has {
			return ret(obsv{oVal, int(c.v)})
		}
		return ret(obsv{oNil, 0})
	case pCall:
		if o.Kind == kLoad {
			return s, false, nil
		}
		ns.computes[k]++
		ns.thr[t] = mthr{pc: pWrite, p: th.p, v: o.V, ip: th.ip}
		return ns, true, nil
	case pWrite:
		ns.cells[th.p].has = true
		ns.cells[th.p].v = th.v
		ns.thr[t] = mthr{pc: pInner, p: th.p, v: th.v, ip: th.ip}
		return ns, true, nil
	case pInner:
		ns.smap[k] = mentry{eVal, th.v}
		ns.thr[t] = mthr{pc: pDone, p: th.p, v: th.v, ip: th.ip}
		return ns, true, nil
	case pDone:
		ns.cells[th.p].done = true
		if o.Kind == kStore {
			return ret(obsv{oUnit, 0})
		}
		return ret(obsv{oVal, int(th.v)})
	case pRaw:
		if o.Kind != kStore {
			return s, false, nil
		}
		ns.smap[k] = mentry{eVal, o.V}
		return ret(obsv{oUnit, 0})
	}
	return s, false, nil
}

// pointOf: LazyMap.v point_of (0: finished)
func pointOf(prog program, s mstate, t int) int {
	if t < 0 || t >= len(prog) || t >= maxThreads {
		return 0
	}
	th := s.thr[t]
	if int(th.ip) >= len(prog[t]) {
		return 0
	}
	o := prog[t][th.ip]
	switch th.pc {
	case pStart:
		if o.Kind == kLoad {
			return 6
		}
		return 1
	case pWait:
		if o.Kind == kLoad {
			return 7
		}
		return 2
	case pCall:
		return 3
	case pWrite:
		if o.Kind == kStore {
			return 8
		}
		return 100
	case pInner:
		return 4
	case pDone:
		return 5
	}
	return 9
}

// localKind classifies a transition by what the moving goroutine can see: its operation kind and index, its pc, what
// the map holds for its key and whether the placeholder it waits for / owns is done.  Coverage statistics only.
func localKind(prog program, s mstate, t int) int {
	th := s.thr[t]
	o := prog[t][th.ip]
	e := s.smap[o.K]
	k := int(o.Kind)
	k = k*8 + int(th.pc)
	k = k*2 + int(th.ip&1)
	k = k*3 + int(e.kind)
	own, done := 0, 0
	if th.pc != pStart && th.pc != pRaw {
		if e.kind == ePlaceholder && e.x == th.p {
			own = 1
		}
		if s.cells[th.p].done {
			done = 1
		}
	}
	return (k*2+own)*2 + done
}

var localPossible, localSeen [1024]bool

func countTrue(a *[1024]bool) int {
	n := 0
	for _, b := range a {
		if b {
			n++
		}
	}
	return n
}

// ownerOf: goroutine t is parked before a Wait (pWait) on a placeholder; the goroutine that owns that placeholder (it
// is between its insertion and its Done) and the value its operation computes.
func ownerOf(prog program, s mstate, t int) (v, owner int, ok bool) {
	if t < 0 || t >= len(prog) || s.thr[t].pc != pWait || int(s.thr[t].ip) >= len(prog[t]) {
		return 0, 0, false
	}
	p := s.thr[t].p
	for u := range prog {
		th := s.thr[u]
		if u == t || int(th.ip) >= len(prog[u]) || th.p != p {
			continue
		}
		switch th.pc {
		case pCall, pWrite, pInner, pDone:
			return int(prog[u][th.ip].V), u, true
		}
	}
	return 0, 0, false
}

func isFinal(prog program, s mstate) bool {
	for t := range prog {
		if int(s.thr[t].ip) < len(prog[t]) {
			return false
		}
	}
	return true
}

// C18Corr.final_load
func modelFinalLoad(s mstate, k int) obsv {
	e := s.smap[k]
	switch e.kind {
	case eAbsent:
		return obsv{oAbsent, 0}
	case eVal:
		return obsv{oVal, int(e.x)}
	}
	c := s.cells[e.x]
	if c.done && c.has {
		return obsv{oVal, int(c.v)}
	}
	return obsv{oNil, 0}
}

// ---- the reachable state graph of one program
type graph struct {
	prog     program
	states   []mstate
	index    map[mstate]int32
	parent   []int32 // BFS tree: a shortest path from the initial state
	ptid     []uint8
	succ     [][maxThreads]int32 // -1: not enabled
	count    []uint64            // number of complete schedules from the state (0 = not computed yet)
	ntrans   int
	deadlock int32 // index of a non-final state without enabled goroutine, or -1
}

func explore(prog program) *graph {
	g := &graph{prog: prog, index: map[mstate]int32{}, deadlock: -1}
	var init mstate
	g.states = append(g.states, init)
	g.index[init] = 0
	g.parent = append(g.parent, -1)
	g.ptid = append(g.ptid, 0)
	for i := 0; i < len(g.states); i++ {
		s := g.states[i]
		sc := [maxThreads]int32{-1, -1, -1}
		any := false
		for t := range prog {
			ns, ok, _ := step(prog, s, t)
			if !ok {
				continue
			}
			any = true
			g.ntrans++
			localPossible[localKind(prog, s, t)] = true
			j, seen := g.index[ns]
			if !seen {
				j = int32(len(g.states))
				g.states = append(g.states, ns)
				g.index[ns] = j
				g.parent = append(g.parent, int32(i))
				g.ptid = append(g.ptid, uint8(t))
			}
			sc[t] = j
		}
		if !any && !isFinal(prog, s) && g.deadlock < 0 {
			g.deadlock = int32(i)
		}
		g.succ = append(g.succ, sc)
	}
	g.count = make([]uint64, len(g.states))
	return g
}

func (g *graph) final(i int32) bool { return isFinal(g.prog, g.states[i]) }

// number of complete schedules from state i (a dead end that is not final counts as one maximal schedule)
func (g *graph) nsched(i int32) uint64 {
	if g.count[i] != 0 {
		return g.count[i]
	}
	var n uint64
	for _, j := range g.succ[i] {
		if j >= 0 {
			n += g.nsched(j)
		}
	}
	if n == 0 {
		n = 1
	}
	g.count[i] = n
	return n
}

func (g *graph) path(i int32) []uint8 {
	var rev []uint8
	for i > 0 {
		rev = append(rev, g.ptid[i])
		i = g.parent[i]
	}
	out := make([]uint8, len(rev))
	for k := range rev {
		out[k] = rev[len(rev)-1-k]
	}
	return out
}

// every complete schedule (DFS to quiescence)
func (g *graph) allSchedules(emit func([]uint8)) {
	var cur []uint8
	var rec func(i int32)
	rec = func(i int32) {
		any := false
		for t, j := range g.succ[i] {
			if j >= 0 {
				any = true
				cur = append(cur, uint8(t))
				rec(j)
				cur = cur[:len(cur)-1]
			}
		}
		if !any {
			cp := make([]uint8, len(cur))
			copy(cp, cur)
			emit(cp)
		}
	}
	rec(0)
}

// a complete schedule drawn uniformly among all complete schedules that extend the path to state i
func (g *graph) uniformCompletion(i int32, r *hx.Rand, visit func(s int32, t int)) []uint8 {
	var out []uint8
	for {
		total := uint64(0)
		for _, j := range g.succ[i] {
			if j >= 0 {
				total += g.nsched(j)
			}
		}
		if total == 0 {
			return out
		}
		x := r.U64() % total
		for t, j := range g.succ[i] {
			if j < 0 {
				continue
			}
			n := g.nsched(j)
			if x < n {
				if visit != nil {
					visit(i, t)
				}
				out = append(out, uint8(t))
				i = j
				break
			}
			x -= n
		}
	}
}

// a completion that prefers transitions not yet covered
func (g *graph) greedyCompletion(i int32, r *hx.Rand, covered [][maxThreads]bool) []uint8 {
	var out []uint8
	for {
		var fresh, all []int
		for t, j := range g.succ[i] {
			if j >= 0 {
				all = append(all, t)
				if !covered[i][t] {
					fresh = append(fresh, t)
				}
			}
		}
		if len(all) == 0 {
			return out
		}
		pick := all
		if len(fresh) > 0 {
			pick = fresh
		}
		t := pick[r.Intn(len(pick))]
		covered[i][t] = true
		out = append(out, uint8(t))
		i = g.succ[i][t]
	}
}

// (state, goroutine) pairs where the goroutine is parked before a Wait on a placeholder whose Done has not run
func (g *graph) blockedWaiters() [][2]int32 {
	var out [][2]int32
	for i, s := range g.states {
		for t := range g.prog {
			th := s.thr[t]
			if int(th.ip) < len(g.prog[t]) && th.pc == pWait && !s.cells[th.p].done {
				out = append(out, [2]int32{int32(i), int32(t)})
			}
		}
	}
	return out
}
