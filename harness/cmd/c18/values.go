// Value kinds: the model's values are abstract tokens with identity (LazyMap.v: val := nat; two tokens are the same value
// iff they are the same number).  LazySyncMap stores interface{} values, so the driver instantiates the tokens with
// several dynamic Go types.  Every kind is an injection enc : token -> Go value together with a BIT-EXACT inverse dec:
// two Go values decode to the same token only if no Go program could tell them apart (floats by math.Float64bits, so +0 and
// -0 and NaNs of different payload are different tokens and a NaN must come back as the same NaN; pointers, slices and
// maps by the identity of their allocation; structs field by field).  Several kinds deliberately map different tokens to
// values that are Go-== (or reflect.DeepEqual) yet distinguishable, or to values whose dynamic type is not comparable at
// all, because the map's specification (a plain map with compute-if-absent) never compares values.
package main

import (
	"fmt"
	"math"
	"reflect"
	"sort"
	"strconv"
	"strings"
)

const maxToken = 250 // parseOp accepts values 0..249

// the values mkProgram hands out, most used first (goroutine g, operation i: 10*(g+1)+i+1)
var stdTokens = []int{11, 12, 21, 22, 31, 32, 13, 14, 15, 16}

type hostSet struct { // a struct with a slice field: == on two hostSets panics
	Hosts []string
	Gen   int
}
type point struct{ X, Y, Z float64 } // a struct with float fields: == is total but coarser than identity (signed zeros)
type box struct{ V interface{} }     // an interface{} inside a struct: == compares the dynamic values

type vkind struct {
	name string
	enc  func(tok int) interface{}
	rev  map[string]int // fingerprint -> token
	// eqTotal: Go's == never panics on two values of this kind
	eqTotal bool
}

// fingerprint is a bit-exact canonical form: equal strings iff no Go program can distinguish the two values.  It contains
// addresses (identity of allocations) and is therefore never written to any output; "" = a type no kind uses.
func fingerprint(x interface{}) string {
	switch v := x.(type) {
	case nil:
		return "nil"
	case int:
		return "int:" + strconv.Itoa(v)
	case string:
		return "string:" + strconv.Quote(v)
	case float64:
		return fmt.Sprintf("float64:%016x", math.Float64bits(v))
	case float32:
		return fmt.Sprintf("float32:%08x", math.Float32bits(v))
	case complex128:
		return fmt.Sprintf("complex128:%016x,%016x", math.Float64bits(real(v)), math.Float64bits(imag(v)))
	case *int64:
		if v == nil {
			return "*int64:nil"
		}
		return fmt.Sprintf("*int64:@%x", reflect.ValueOf(v).Pointer())
	case []string:
		if v == nil {
			return "[]string:nil"
		}
		return fmt.Sprintf("[]string:@%x/%d/%d%q", reflect.ValueOf(v).Pointer(), len(v), cap(v), v)
	case map[string]int:
		if v == nil {
			return "map[string]int:nil"
		}
		keys := make([]string, 0, len(v))
		for k := range v {
			keys = append(keys, k)
		}
		sort.Strings(keys)
		var sb strings.Builder
		fmt.Fprintf(&sb, "map[string]int:@%x", reflect.ValueOf(v).Pointer())
		for _, k := range keys {
			fmt.Fprintf(&sb, ",%q=%d", k, v[k])
		}
		return sb.String()
	case hostSet:
		return "hostSet{" + fingerprint(v.Hosts) + "," + strconv.Itoa(v.Gen) + "}"
	case point:
		return fmt.Sprintf("point{%016x,%016x,%016x}", math.Float64bits(v.X), math.Float64bits(v.Y), math.Float64bits(v.Z))
	case box:
		if f := fingerprint(v.V); f != "" {
			return "box{" + f + "}"
		}
	}
	return ""
}

func showFloat(f float64) string {
	return fmt.Sprintf("%v (bits 0x%016x)", f, math.Float64bits(f))
}

// describe renders a value for replay files and messages: type and bit-exact content, never an address (allocations are
// named by the token they were made for).
func describe(x interface{}, tok int) string {
	switch v := x.(type) {
	case nil:
		return "nil"
	case int:
		return fmt.Sprintf("int %d", v)
	case string:
		return fmt.Sprintf("string %q", v)
	case float64:
		return "float64 " + showFloat(v)
	case float32:
		return fmt.Sprintf("float32 %v (bits 0x%08x)", v, math.Float32bits(v))
	case complex128:
		return "complex128 real " + showFloat(real(v)) + " imag " + showFloat(imag(v))
	case *int64:
		if v == nil {
			return "(*int64)(nil)"
		}
		return fmt.Sprintf("*int64 allocation #%d (every allocation holds %d)", tok, *v)
	case []string:
		if v == nil {
			return "[]string(nil)"
		}
		return fmt.Sprintf("[]string%q with backing array #%d", v, tok)
	case map[string]int:
		return fmt.Sprintf("%v allocation #%d", v, tok)
	case hostSet:
		return fmt.Sprintf("struct{Hosts []string; Gen int}{%s, %d}", describe(v.Hosts, tok), v.Gen)
	case point:
		return fmt.Sprintf("struct{X,Y,Z float64}{%s, %s, %s}", showFloat(v.X), showFloat(v.Y), showFloat(v.Z))
	case box:
		return "struct{V interface{}}{" + describe(v.V, tok) + "}"
	}
	return fmt.Sprintf("%T", x)
}

func stdRank(tok int) int {
	for i, t := range stdTokens {
		if t == tok {
			return i
		}
	}
	return -1
}

var (
	negZero = math.Copysign(0, -1)
	nan1    = math.Float64frombits(0x7ff8000000000001)
	nan2    = math.Float64frombits(0x7ff8000000000002)
	// +0 and -0 are == ; a NaN is != itself; the rest are ordinary
	floatSpecials = []float64{0, negZero, nan1, nan2, 1.5, math.Inf(-1), math.SmallestNonzeroFloat64, -1.5, math.Inf(1), math.MaxFloat64}
)

// floats: the i-th token of order gets the i-th special value; every other token t is t + 0.25
func floatTable(order []int) func(int) interface{} {
	return func(tok int) interface{} {
		for i, t := range order {
			if t == tok && i < len(floatSpecials) {
				return floatSpecials[i]
			}
		}
		return float64(tok) + 0.25
	}
}

var (
	ptrs   [maxToken]*int64
	slices [maxToken][]string
	gomaps [maxToken]map[string]int
	hsets  [maxToken]hostSet
)

func signed(bit int) float64 {
	if bit != 0 {
		return negZero
	}
	return 0
}

func encPoint(tok int) interface{} {
	// the first eight tokens are the eight sign patterns of three zeros: pairwise ==, pairwise distinguishable
	if r := stdRank(tok); r >= 0 && r < 8 {
		return point{signed(r & 1), signed(r & 2), signed(r & 4)}
	}
	return point{float64(tok), 0, nan1}
}

func encComplex(tok int) interface{} {
	switch stdRank(tok) {
	case 0:
		return complex(0, 0)
	case 1:
		return complex(negZero, 0)
	case 2:
		return complex(0, negZero)
	case 3:
		return complex(negZero, negZero)
	case 4:
		return complex(nan1, 0)
	case 5:
		return complex(0, nan2)
	}
	return complex(float64(tok)+0.5, negZero)
}

// one dynamic type per token: what a map of interface{} values may well hold at the same time
func encMixed(tok int) interface{} {
	switch stdRank(tok) {
	case 0:
		return float64(0)
	case 1:
		return slices[tok]
	case 2:
		return negZero
	case 3:
		return gomaps[tok]
	case 4:
		return ptrs[tok]
	case 5:
		return point{negZero, 0, 0}
	case 6:
		return "v" + strconv.Itoa(tok)
	case 7:
		return hsets[tok]
	case 8:
		return (*int64)(nil)
	case 9:
		return []string(nil)
	}
	switch tok % 4 {
	case 0:
		return tok
	case 1:
		return float32(tok)
	case 2:
		return math.Float64frombits(0x7ff8000000000000 | uint64(tok+16)) // a NaN with its own payload
	}
	return complex(float64(tok), 0)
}

var kinds []*vkind
var intKind *vkind

func kindByName(n string) *vkind {
	for _, k := range kinds {
		if k.name == n {
			return k
		}
	}
	return nil
}

func init() {
	for t := 0; t < maxToken; t++ {
		p := new(int64)
		*p = 7
		ptrs[t] = p
		slices[t] = []string{"host"}
		gomaps[t] = map[string]int{"weight": t}
		hsets[t] = hostSet{Hosts: []string{"a", "b"}, Gen: 0}
	}
	kinds = []*vkind{
		{name: "int", eqTotal: true, enc: func(tok int) interface{} { return tok }},
		// distinct allocations with equal contents: identity is the only difference (reflect.DeepEqual cannot see it)
		{name: "pointer", eqTotal: true, enc: func(tok int) interface{} { return ptrs[tok] }},
		{name: "string", eqTotal: true, enc: func(tok int) interface{} {
			if tok == 11 {
				return ""
			}
			return "v" + strconv.Itoa(tok)
		}},
		// +0 / -0 for two consecutive operations of one goroutine, NaNs for the next goroutine
		{name: "float64", eqTotal: true, enc: floatTable(stdTokens)},
		// +0 / -0 for the first operations of two goroutines
		{name: "float64-x", eqTotal: true, enc: floatTable([]int{11, 21, 12, 22, 31, 32, 13, 14, 15, 16})},
		{name: "complex128", eqTotal: true, enc: encComplex},
		{name: "slice", enc: func(tok int) interface{} { return slices[tok] }},
		{name: "map", enc: func(tok int) interface{} { return gomaps[tok] }},
		{name: "struct-slice", enc: func(tok int) interface{} { return hsets[tok] }},
		{name: "struct-float", eqTotal: true, enc: encPoint},
		{name: "mixed", enc: encMixed},
		{name: "boxed", enc: func(tok int) interface{} { return box{encMixed(tok)} }},
	}
	intKind = kinds[0]
	for _, k := range kinds {
		k.rev = map[string]int{}
		for t := 0; t < maxToken; t++ {
			f := fingerprint(k.enc(t))
			if f == "" || f == "nil" {
				panic(fmt.Sprintf("value kind %s: token %d has no fingerprint", k.name, t))
			}
			if o, dup := k.rev[f]; dup {
				panic(fmt.Sprintf("value kind %s: tokens %d and %d are the same Go value", k.name, o, t))
			}
			k.rev[f] = t
		}
	}
}

// dec: what a call returned, as a token of the model.  Anything that is not bit-for-bit one of the kind's values (a
// *inFlightValue, a value of another type, a float with another sign or payload, another allocation) is oPlaceholder.
func (k *vkind) dec(x interface{}) obsv {
	if k == intKind {
		return classify(x)
	}
	if x == nil {
		return obsv{oNil, 0}
	}
	if f := fingerprint(x); f != "" {
		if t, ok := k.rev[f]; ok {
			return obsv{oVal, t}
		}
	}
	return obsv{oPlaceholder, 0}
}

// the token -> Go value table of a program, for replay files
func (k *vkind) valuesOf(p program) map[string]string {
	out := map[string]string{}
	for _, t := range p {
		for _, o := range t {
			if o.Kind != kLoad {
				out[strconv.Itoa(int(o.V))] = describe(k.enc(int(o.V)), int(o.V))
			}
		}
	}
	return out
}

// goEqual: a == b as interface{} values; panicked = the dynamic type is not comparable
func goEqual(a, b interface{}) (eq, panicked bool) {
	defer func() {
		if recover() != nil {
			panicked = true
		}
	}()
	return a == b, false
}
