// The schedule controller: forces one interleaving of goroutines on the real LazySyncMap through the yield hooks.
// Exactly one goroutine of the case runs at any time; all the others are parked inside the hook (or at the start gate).
package main

import (
	"bytes"
	"fmt"
	"runtime"
	"strconv"
	"sync/atomic"
	"time"
)

type lazyMap interface {
	LoadOrStore(key interface{}, f func() interface{}) interface{}
	Load(key interface{}) (interface{}, bool)
	Store(key interface{}, value interface{})
}

type module struct {
	name  string
	site  string
	fresh func() lazyMap
}

type rpt struct {
	id    int
	point int
	fin   bool
	pan   string
	isPan bool
}

// per-case context.  Only the running goroutine (or the controller while all are parked) touches the plain fields.
type caseCtx struct {
	n            int
	rel          []chan struct{} // per goroutine: release from the start gate / a yield point
	rep          chan rpt        // "parked at point P" / "finished" / "panicked"
	current      int             // the goroutine that is running (handed over through rel/rep)
	pass         int32           // 1: hooks are pass-through (final loads, free-running drain)
	computes     [2]int
	freeComputes [2]int32 // invocations of the caller's f while the goroutines run freely (after a divergence)
	curKey       [maxThreads]int
	vk           *vkind // how the model's value tokens are represented as Go values in this case
	rets         [maxThreads][]obsv
	gids         [maxThreads]int64
}

var (
	ctxv  atomic.Value // *caseCtx of the case being forced
	leaky int32        // set once a case was abandoned with a goroutine still running: hooks then check goroutine ids
	// deadlines
	stepDeadline  = 12 * time.Second
	probeDeadline = 3 * time.Millisecond
	// how long the leftover goroutines get to finish once one of them has panicked
	postPanicDeadline = 2 * time.Second
	singleP           bool
)

func curCtx() *caseCtx {
	c, _ := ctxv.Load().(*caseCtx)
	return c
}

func goid() int64 {
	var buf [64]byte
	b := buf[:runtime.Stack(buf[:], false)]
	b = bytes.TrimPrefix(b, []byte("goroutine "))
	if i := bytes.IndexByte(b, ' '); i > 0 {
		n, _ := strconv.ParseInt(string(b[:i]), 10, 64)
		return n
	}
	return -1
}

// hook is installed as lazymap.Hook of both modules.
func hook(point int) {
	c := curCtx()
	if c == nil || atomic.LoadInt32(&c.pass) != 0 {
		return
	}
	id := c.current
	if atomic.LoadInt32(&leaky) != 0 && goid() != c.gids[id] {
		select {} // a goroutine leaked by an abandoned case: it must never touch a later case
	}
	if point == 8 {
		c.computes[c.curKey[id]]++
	}
	c.park(id, point)
}

func (c *caseCtx) park(id, point int) {
	c.rep <- rpt{id: id, point: point}
	<-c.rel[id]
}

func classify(x interface{}) obsv {
	switch v := x.(type) {
	case int:
		if v < 0 || v > 1000 {
			return obsv{oPlaceholder, 0} // not a value any operation of a program carries
		}
		return obsv{oVal, v}
	case nil:
		return obsv{oNil, 0}
	default:
		_ = v
		return obsv{oPlaceholder, 0}
	}
}

func (c *caseCtx) body(id int, lm lazyMap, ops []op) {
	defer func() {
		if r := recover(); r != nil {
			c.rep <- rpt{id: id, isPan: true, pan: fmt.Sprint(r)}
		}
	}()
	<-c.rel[id] // start gate
	if atomic.LoadInt32(&leaky) != 0 {
		c.gids[id] = goid()
	}
	for _, o := range ops {
		c.curKey[id] = int(o.K)
		switch o.Kind {
		case kLos:
			k, v := int(o.K), c.vk.enc(int(o.V))
			r := lm.LoadOrStore(k, func() interface{} {
				if atomic.LoadInt32(&c.pass) == 0 {
					c.computes[k]++
					c.park(id, 100)
				} else {
					atomic.AddInt32(&c.freeComputes[k], 1)
				}
				return v
			})
			c.rets[id] = append(c.rets[id], c.vk.dec(r))
		case kLoad:
			r, ok := lm.Load(int(o.K))
			if !ok {
				c.rets[id] = append(c.rets[id], obsv{oAbsent, 0})
			} else {
				c.rets[id] = append(c.rets[id], c.vk.dec(r))
			}
		case kStore:
			lm.Store(int(o.K), c.vk.enc(int(o.V)))
			c.rets[id] = append(c.rets[id], obsv{oUnit, 0})
		}
	}
	c.rep <- rpt{id: id, fin: true}
}

// wait for the running goroutine to park / finish.  ok=false: nothing within the deadline.
func (c *caseCtx) wait(d time.Duration) (rpt, bool) {
	if singleP {
		// with one P the released goroutine runs as soon as we yield and reports before we are rescheduled
		for i := 0; i < 64; i++ {
			select {
			case r := <-c.rep:
				return r, true
			default:
				runtime.Gosched()
			}
		}
	} else {
		select {
		case r := <-c.rep:
			return r, true
		default:
		}
	}
	t := time.NewTimer(d)
	defer t.Stop()
	select {
	case r := <-c.rep:
		return r, true
	case <-t.C:
		return rpt{}, false
	}
}

// a call of the history, with the interval of schedule steps it spans
type hcall struct {
	T     int    `json:"t"`
	Idx   int    `json:"i"`
	First int    `json:"first"`
	Last  int    `json:"last"` // -1: pending
	Done  bool   `json:"done"`
	Op    string `json:"op"`
	Ret   string `json:"ret,omitempty"`
	o     op
	ret   obsv
}

type failure struct{ sig, what string }

type outcome struct {
	rets      [][]obsv
	computes  [2]int
	final     []obsv
	points    []int
	finished  bool
	calls     []hcall
	fails     []failure // controller-level failures: step-sequence, blocked, panic, wait-not-blocking, bad-schedule
	abandoned bool      // a goroutine neither parked nor finished: goroutines of this case may be leaked
	diverged  bool
	dr        *outcome // unfinished forced run: what was observed once the goroutines had run freely to completion
	drWhy     string
	agrees    bool // the Go copy of the model predicts exactly these observations
	waiter    bool
	overwrite bool
}

const (
	atGate   = -1
	finished = 0
)

var opNames = []string{"LoadOrStore", "Load", "Store"}

// the operation a goroutine was executing (its i-th), with the Go value it carries
func panicOp(prog program, id, i int, vk *vkind) string {
	if id < 0 || id >= len(prog) || i >= len(prog[id]) {
		return "no operation"
	}
	o := prog[id][i]
	if o.Kind == kLoad {
		return fmt.Sprintf("Load(%d)", o.K)
	}
	return fmt.Sprintf("%s(%d, %s)", opNames[o.Kind], o.K, describe(vk.enc(int(o.V)), int(o.V)))
}

// runCase forces sched on a fresh map of module m.  probe >= 0: after the schedule, release goroutine probe (parked
// before a Wait whose Done has not run) and require that it does NOT come back.
func runCase(m *module, prog program, sched []int, probe int, vk *vkind) *outcome {
	n := len(prog)
	c := &caseCtx{n: n, vk: vk, rel: make([]chan struct{}, n), rep: make(chan rpt, 4*maxThreads+4)}
	for i := range c.rel {
		c.rel[i] = make(chan struct{}, 1)
	}
	out := &outcome{}
	lm := m.fresh()
	ctxv.Store(c)
	for id := 0; id < n; id++ {
		go c.body(id, lm, prog[id])
	}
	parked := make([]int, n)
	for i := range parked {
		parked[i] = atGate
	}
	var ms mstate
	started := make([]int, n)
	mrets := make([][]obsv, n) // what the Go copy of the model says the calls return
	// what each goroutine had returned / computed when it last reported (never read while it may be running)
	known := make([][]obsv, n)
	var knownComputes [2]int

	fail := func(sig, what string) { out.fails = append(out.fails, failure{sig, what}) }
	// a panic that escaped a map operation: the goroutine is gone (recovered in body); the signature names the operation
	// it was in and the value kind.  Only called after the goroutine reported, so its rets are stable.
	panicSig := func(id int) string {
		opn := "none"
		if i := len(c.rets[id]); i < len(prog[id]) {
			opn = opNames[prog[id][i].Kind]
		}
		return "panic:" + opn + ":" + vk.name
	}
	panicked := false
	// release goroutine t and wait for it; false: stop forcing
	release := func(t int, where string) bool {
		c.current = t
		c.rel[t] <- struct{}{}
		r, ok := c.wait(stepDeadline)
		if !ok {
			fail("blocked", fmt.Sprintf("goroutine %d released %s neither reached a yield point nor finished within %v", t, where, stepDeadline))
			out.abandoned = true
			return false
		}
		if r.isPan {
			fail(panicSig(r.id), fmt.Sprintf("goroutine %d panicked in %s after being released %s: %s", r.id, panicOp(prog, r.id, len(c.rets[r.id]), vk), where, r.pan))
			parked[r.id] = finished
			panicked = true
			out.diverged = true
			return false
		}
		if r.id != t {
			fail("step-sequence", fmt.Sprintf("released goroutine %d %s but goroutine %d reported", t, where, r.id))
			out.diverged = true
			return false
		}
		if r.fin {
			parked[t] = finished
		} else {
			parked[t] = r.point
		}
		known[t] = c.rets[t]
		knownComputes = c.computes
		return true
	}
	expect := func(t int, when string) bool {
		if e := pointOf(prog, ms, t); e != parked[t] {
			fail("step-sequence", fmt.Sprintf("%s: goroutine %d is at yield point %d, the model expects %d (0 = finished)", when, t, parked[t], e))
			out.diverged = true
			return false
		}
		return true
	}

	ok := true
	for id := 0; id < n && ok; id++ {
		ok = release(id, "from the start gate") && expect(id, "start-up")
	}
	if ok {
		for i, t := range sched {
			if t < 0 || t >= n {
				fail("bad-schedule", fmt.Sprintf("step %d names goroutine %d", i, t))
				break
			}
			ns, en, resp := step(prog, ms, t)
			if !en {
				fail("bad-schedule", fmt.Sprintf("step %d: goroutine %d is not enabled in the model (finished, or before a Wait whose Done has not run)", i, t))
				break
			}
			out.points = append(out.points, parked[t])
			localSeen[localKind(prog, ms, t)] = true
			switch parked[t] {
			case 2, 7:
				out.waiter = true
			case 9:
				out.overwrite = true
			}
			before := len(known[t])
			if started[t] == before {
				out.calls = append(out.calls, hcall{T: t, Idx: before, First: i, Last: -1, o: prog[t][before], Op: prog[t][before].String()})
				started[t]++
			}
			if !release(t, fmt.Sprintf("at step %d from yield point %d", i, parked[t])) {
				break
			}
			if len(known[t]) > before {
				for j := range out.calls {
					if out.calls[j].T == t && out.calls[j].Idx == before {
						out.calls[j].Last, out.calls[j].Done, out.calls[j].ret = i, true, known[t][before]
						out.calls[j].Ret = known[t][before].String()
					}
				}
			}
			ms = ns
			if resp != nil {
				mrets[t] = append(mrets[t], *resp)
			}
			if !expect(t, fmt.Sprintf("after step %d", i)) {
				break
			}
		}
	}
	// ---- snapshot of what was observed under the forced schedule
	out.rets = make([][]obsv, n)
	for t := 0; t < n; t++ {
		out.rets[t] = append([]obsv{}, known[t]...)
	}
	out.computes = knownComputes
	out.finished = true
	for t := 0; t < n; t++ {
		if parked[t] != finished {
			out.finished = false
		}
	}
	if panicked {
		out.finished = false // a goroutine that died in a panic did not run all its operations
	}
	clean := len(out.fails) == 0
	if out.abandoned {
		atomic.StoreInt32(&leaky, 1)
		ctxv.Store((*caseCtx)(nil))
		return out
	}
	probePoint := 0 // != 0: the probed goroutine was released at this yield point and is inside the real Wait
	if probe >= 0 && clean && probe < n && (parked[probe] == 2 || parked[probe] == 7) {
		if _, en, _ := step(prog, ms, probe); !en {
			c.current = probe
			c.rel[probe] <- struct{}{}
			if r, came := c.wait(probeDeadline); came {
				what := fmt.Sprintf("goroutine %d, released at yield point %d while the placeholder's Done has not run, did not block in Wait: ", probe, parked[probe])
				switch {
				case r.isPan:
					what += "it panicked: " + r.pan
				case r.fin:
					what += fmt.Sprintf("it returned %v", c.rets[probe])
				default:
					what += fmt.Sprintf("it reached yield point %d", r.point)
				}
				fail("wait-not-blocking", what)
				if r.fin || r.isPan {
					parked[probe] = finished
				} else {
					parked[probe] = r.point
				}
			} else {
				probePoint = parked[probe]
				parked[probe] = -2 // inside the real Wait
			}
		}
	}
	atomic.StoreInt32(&c.pass, 1)
	if out.finished {
		// quiescent: the controller itself loads both keys (hooks are pass-through); guarded, a broken map may block
		if f, what, sig := finalLoads(lm, vk); sig != "" {
			fail(sig, what)
		} else {
			out.final = f
		}
	} else {
		// let the leftover goroutines run freely to completion so that nothing leaks
		left := 0
		for t := 0; t < n; t++ {
			if parked[t] != finished {
				left++
				if parked[t] != -2 {
					c.rel[t] <- struct{}{}
				}
			}
		}
		// after a panic the goroutines that wait for the dead goroutine's placeholder can never return: do not spend the
		// whole step deadline on them (the run is a failing input already; the extra report is named accordingly)
		dl, blockedSig := stepDeadline, "blocked"
		if panicked && dl > postPanicDeadline {
			dl, blockedSig = postPanicDeadline, "blocked-after-panic"
		}
		t := time.NewTimer(dl)
		for left > 0 {
			select {
			case r := <-c.rep:
				if r.isPan {
					fail(panicSig(r.id), fmt.Sprintf("goroutine %d panicked in %s while running freely after the forced prefix: %s", r.id, panicOp(prog, r.id, len(c.rets[r.id]), vk), r.pan))
					panicked = true
					left--
				} else if r.fin {
					left--
				}
			case <-t.C:
				fail(blockedSig, fmt.Sprintf("%d goroutines did not finish within %v when left to run freely after the forced prefix", left, dl))
				out.abandoned = true
				atomic.StoreInt32(&leaky, 1)
				left = 0
			}
		}
		t.Stop()
		if probePoint != 0 && !out.abandoned {
			// The probed goroutine went past its yield point while the computation it waits for was still in flight, blocked
			// in Wait as it must, and has now returned.  The model (LazyMap.v step, PWait): it returns the placeholder's value,
			// which is what the owner's operation computes - whatever else happened while everybody ran freely.
			i := len(known[probe])
			if ov, owner, ok := ownerOf(prog, ms, probe); ok && i < len(prog[probe]) {
				want := obsv{oVal, ov}
				if prog[probe][i].Kind == kStore {
					want = obsv{oUnit, 0}
				}
				switch {
				case i >= len(c.rets[probe]):
					// it panicked: reported above
				case c.rets[probe][i] != want:
					fail("waiter-wrong-value", fmt.Sprintf("goroutine %d call %d (%s) was released at yield point %d while the computation of key %d was in flight "+
						"(owner: goroutine %d at yield point %d), blocked in Wait until the computation was over and then returned %s; the computation's result "+
						"and the only value this call can return is %s (%s)", probe, i, prog[probe][i], probePoint, prog[probe][i].K, owner, parked[owner],
						c.rets[probe][i], want, describe(vk.enc(ov), ov)))
				}
			}
		}
		if !out.abandoned {
			// Everybody ran freely to completion (after a forced prefix, a wait probe, or because the implementation left the
			// model's step sequence): judge what the calls returned and what the map ends up with by the predicates that hold
			// under every schedule (no step intervals here, so no linearizability check).
			out.drWhy = "left to run freely after the forced prefix: "
			if out.diverged {
				out.drWhy = "left to run freely after leaving the model's step sequence: "
			}
			dr := &outcome{finished: true, rets: make([][]obsv, n)}
			for t := 0; t < n; t++ {
				dr.rets[t] = append([]obsv{}, c.rets[t]...)
			}
			for k := 0; k < 2; k++ {
				dr.computes[k] = c.computes[k] + int(atomic.LoadInt32(&c.freeComputes[k]))
			}
			if f, _, sig := finalLoads(lm, vk); sig == "" {
				dr.final = f
				out.dr = dr
			}
		}
	}
	// ---- does the Go copy of the model predict the same observations?  (diagnostic only; Coq decides)
	out.agrees = clean && out.finished == isFinal(prog, ms) && out.computes == [2]int{int(ms.computes[0]), int(ms.computes[1])}
	for t := 0; t < n && out.agrees; t++ {
		if len(mrets[t]) != len(out.rets[t]) {
			out.agrees = false
			break
		}
		for j := range mrets[t] {
			if mrets[t][j] != out.rets[t][j] {
				out.agrees = false
			}
		}
	}
	if out.agrees && out.finished {
		for k := 0; k < 2; k++ {
			if len(out.final) != 2 || out.final[k] != modelFinalLoad(ms, k) {
				out.agrees = false
			}
		}
	}
	ctxv.Store((*caseCtx)(nil))
	return out
}

// finalLoads: Load(0), Load(1) on a quiescent map, guarded by the step deadline.  sig != "": it panicked / blocked.
func finalLoads(lm lazyMap, vk *vkind) (f []obsv, what, sig string) {
	ch := make(chan []obsv, 1)
	pan := ""
	go func() {
		defer func() {
			if r := recover(); r != nil {
				pan = fmt.Sprint(r)
				ch <- nil
			}
		}()
		var f []obsv
		for k := 0; k < 2; k++ {
			if v, ok := lm.Load(k); !ok {
				f = append(f, obsv{oAbsent, 0})
			} else {
				f = append(f, vk.dec(v))
			}
		}
		ch <- f
	}()
	t := time.NewTimer(stepDeadline)
	defer t.Stop()
	select {
	case f := <-ch:
		if f == nil {
			return nil, "Load on the quiescent map panicked: " + pan, "panic:Load:" + vk.name
		}
		return f, "", ""
	case <-t.C:
		return nil, "Load on the quiescent map (every goroutine finished) blocked", "blocked"
	}
}
