// rootgen: runs the REAL root-module generator (github.com/PapaCharlie/go-restli/cmd.GenerateCode) on a parsed spec
// ({"dataTypes":[...],"Resources":[...]}, the format the root module's spec parser emits), in its own process
// (utils.TypeRegistry and utils.PackagePrefix are process-globals).
// usage: rootgen <package-prefix> <spec.json> <outDir>
package main

import (
	"fmt"
	"os"

	"github.com/PapaCharlie/go-restli/cmd"
	"github.com/PapaCharlie/go-restli/codegen/utils"
)

func main() {
	if len(os.Args) != 4 {
		fmt.Fprintln(os.Stderr, "usage: rootgen <package-prefix> <spec.json> <outDir>")
		os.Exit(2)
	}
	utils.PackagePrefix = os.Args[1]
	b, err := os.ReadFile(os.Args[2])
	if err != nil {
		fmt.Fprintln(os.Stderr, err)
		os.Exit(1)
	}
	if err := cmd.GenerateCode(b, os.Args[3]); err != nil {
		fmt.Fprintf(os.Stderr, "%+v\n", err)
		os.Exit(1)
	}
}
