// Package hx: shared helpers for the correspondence drivers (PRNG, Coq term printing, report files).
package hx

import (
	"encoding/json"
	"flag"
	"fmt"
	"os"
	"path/filepath"
	"sort"
	"strings"
)

// ---- one PRNG per run: splitmix64 seeded from VERIF_SEED
type Rand struct{ s uint64 }

func NewRand(seed uint64) *Rand { return &Rand{s: seed*0x9E3779B97F4A7C15 + 0x1234567} }
func (r *Rand) U64() uint64 {
	r.s += 0x9E3779B97F4A7C15
	z := r.s
	z = (z ^ (z >> 30)) * 0xBF58476D1CE4E5B9
	z = (z ^ (z >> 27)) * 0x94D049BB133111EB
	return z ^ (z >> 31)
}
func (r *Rand) Intn(n int) int {
	if n <= 0 {
		return 0
	}
	return int(r.U64() % uint64(n))
}
func (r *Rand) Bool() bool        { return r.U64()&1 == 1 }
func (r *Rand) Chance(p int) bool { return r.Intn(100) < p }
func (r *Rand) Pick(l []string) string { return l[r.Intn(len(l))] }
func (r *Rand) Fork() *Rand       { return &Rand{s: r.U64()} }

// ---- Coq term printing
func CoqBytes(s string) string {
	var sb strings.Builder
	sb.WriteByte('[')
	for i := 0; i < len(s); i++ {
		if i > 0 {
			sb.WriteByte(';')
		}
		fmt.Fprintf(&sb, "x%02x", s[i])
	}
	sb.WriteByte(']')
	return sb.String()
}
func CoqBool(b bool) string {
	if b {
		return "true"
	}
	return "false"
}
func CoqList(items []string) string { return "[" + strings.Join(items, ";\n ") + "]" }
func CoqOpt(present bool, v string) string {
	if !present {
		return "None"
	}
	return "(Some " + v + ")"
}
func CoqNat(n int) string   { return fmt.Sprintf("%d", n) }
func CoqN(n uint64) string  { return fmt.Sprintf("%d%%N", n) }
func CoqZ(n int64) string   { return fmt.Sprintf("(%d)%%Z", n) }
func CoqBytesList(l []string) string {
	items := make([]string, len(l))
	for i, s := range l {
		items[i] = CoqBytes(s)
	}
	return "[" + strings.Join(items, ";") + "]"
}

// ---- run configuration and report
type Config struct {
	Out    string
	Tier   string
	Seed   uint64
	Replay string
}

func ParseFlags() *Config {
	c := &Config{}
	flag.StringVar(&c.Out, "out", "", "output directory")
	flag.StringVar(&c.Tier, "tier", "quick", "quick|thorough")
	flag.Uint64Var(&c.Seed, "seed", 1, "PRNG seed")
	flag.StringVar(&c.Replay, "replay", "", "replay file")
	flag.Parse()
	if c.Out == "" {
		fmt.Fprintln(os.Stderr, "need --out")
		os.Exit(2)
	}
	os.MkdirAll(c.Out, 0o755)
	return c
}

func (c *Config) Thorough() bool { return c.Tier == "thorough" }

type Failure struct {
	Sig  string      `json:"sig"`
	What string      `json:"what"`
	Site string      `json:"site,omitempty"`
	Case interface{} `json:"case"`
	Impl interface{} `json:"impl,omitempty"`
}

type Report struct {
	Evaluations        int                    `json:"evaluations"`
	DistinctNontrivial int                    `json:"distinct_nontrivial"`
	Rule               string                 `json:"rule"`
	Exhaustive         bool                   `json:"exhaustive"`
	Samples            []interface{}          `json:"samples"`
	Distribution       map[string]int         `json:"distribution"`
	Failures           []Failure              `json:"failures"`
	Extra              map[string]interface{} `json:"extra,omitempty"`
	Shards             []string               `json:"shards"`
	distinct           map[string]bool
}

func NewReport(rule string) *Report {
	return &Report{Rule: rule, Distribution: map[string]int{}, distinct: map[string]bool{}, Extra: map[string]interface{}{}, Failures: []Failure{}, Samples: []interface{}{}, Shards: []string{}}
}
func (r *Report) Count(key string)            { r.Distribution[key]++ }
func (r *Report) CountN(key string, n int)    { r.Distribution[key] += n }
func (r *Report) Distinct(key string, nontrivial bool) {
	if nontrivial && !r.distinct[key] {
		r.distinct[key] = true
		r.DistinctNontrivial++
	}
}
func (r *Report) Sample(v interface{}) {
	if len(r.Samples) < 8 {
		r.Samples = append(r.Samples, v)
	}
}
func (r *Report) Fail(sig, what, site string, c, impl interface{}) {
	// keep at most 5 examples per signature
	n := 0
	for _, f := range r.Failures {
		if f.Sig == sig {
			n++
		}
	}
	r.Count("oracle-failure:" + sig)
	if n < 5 {
		r.Failures = append(r.Failures, Failure{Sig: sig, What: what, Site: site, Case: c, Impl: impl})
	}
}
func (r *Report) Write(dir string) {
	keys := make([]string, 0, len(r.Distribution))
	for k := range r.Distribution {
		keys = append(keys, k)
	}
	sort.Strings(keys)
	b, err := json.MarshalIndent(r, "", " ")
	if err != nil {
		panic(err)
	}
	if err := os.WriteFile(filepath.Join(dir, "report.json"), b, 0o644); err != nil {
		panic(err)
	}
}

// ---- case shards: cases_<k>.v, each with at most per cases; the JSON descriptions go to cases.json
type Shards struct {
	dir, header, caseType, corrModule string
	per                               int
	cur                               []string
	k                                 int
	Files                             []string
	descs                             []interface{}
}

// header: the Require lines; corrModule: e.g. "C20Corr" (must define case, mismatches, select, model_out)
func NewShards(dir, header, corrModule string, per int) *Shards {
	return &Shards{dir: dir, header: header, corrModule: corrModule, per: per}
}
func (s *Shards) Add(coqCase string, desc interface{}) {
	s.cur = append(s.cur, coqCase)
	s.descs = append(s.descs, desc)
	if len(s.cur) >= s.per {
		s.flush()
	}
}
func (s *Shards) flush() {
	if len(s.cur) == 0 {
		return
	}
	name := fmt.Sprintf("cases_%d.v", s.k)
	var sb strings.Builder
	sb.WriteString(s.header)
	sb.WriteString("\nDefinition cases : list " + s.corrModule + ".case := \n" + CoqList(s.cur) + ".\n")
	sb.WriteString("Definition M := Eval vm_compute in " + s.corrModule + ".mismatches cases.\nPrint M.\n")
	sb.WriteString("Definition R := Eval vm_compute in map " + s.corrModule + ".model_out (" + s.corrModule + ".select (firstn 3 M) cases).\nPrint R.\n")
	if err := os.WriteFile(filepath.Join(s.dir, name), []byte(sb.String()), 0o644); err != nil {
		panic(err)
	}
	s.Files = append(s.Files, name)
	s.k++
	s.cur = nil
}
func (s *Shards) Close() {
	s.flush()
	b, _ := json.Marshal(map[string]interface{}{"per": s.per, "cases": s.descs})
	if err := os.WriteFile(filepath.Join(s.dir, "cases.json"), b, 0o644); err != nil {
		panic(err)
	}
}
func (s *Shards) Len() int { return len(s.descs) }
