package main

import (
	"reflect"
)

// Abstract value <-> generated ROOT struct.
//
// The abstract value of a record keeps the schema's shape (Incs = one value per included record, nested), exactly as for v2, so that
// generators, reference renderer, oracles and the Coq terms are shared.  The root bindings flatten: the struct of record R embeds
// the struct of every record D that DECLARES an inherited field (at any include depth) directly, and the generated code only ever
// touches R.D.<field>.  So the value of included record D (wherever it sits in the include tree of R) lives in the OWN fields of
// top.FieldByName(D); the embedded structs nested inside D are left zero.

func (s *Schema) toGo(t RType, v *Val, dst reflect.Value) {
	if t.Reference != nil {
		if n := s.Types[t.Reference.Name]; n != nil && n.Kind == "record" && len(n.Includes) > 0 {
			if dst.Kind() == reflect.Ptr {
				if v == nil {
					return
				}
				dst.Set(reflect.New(dst.Type().Elem()))
				dst = dst.Elem()
			}
			s.toGoFlat(n, v, dst, dst)
			return
		}
	}
	s.toGoShared(t, v, dst)
}

// own: the struct holding n's own fields; top: the struct that embeds every declaring record
func (s *Schema) toGoFlat(n *Named, v *Val, own, top reflect.Value) {
	for i, inc := range n.Includes {
		s.toGoFlat(s.Types[inc], v.Incs[i], top.FieldByName(inc), top)
	}
	for i, f := range n.Fields {
		s.toGo(f.Type, v.Fields[i], own.FieldByName(goFieldName(f.Name)))
	}
}

func (s *Schema) fromGo(t RType, src reflect.Value) *Val {
	if t.Reference != nil {
		if n := s.Types[t.Reference.Name]; n != nil && n.Kind == "record" && len(n.Includes) > 0 {
			if src.Kind() == reflect.Ptr {
				if src.IsNil() {
					return nil
				}
				src = src.Elem()
			}
			return s.fromGoFlat(n, src, src)
		}
	}
	return s.fromGoShared(t, src)
}

func (s *Schema) fromGoFlat(n *Named, own, top reflect.Value) *Val {
	v := &Val{K: "rec"}
	for _, inc := range n.Includes {
		v.Incs = append(v.Incs, s.fromGoFlat(s.Types[inc], top.FieldByName(inc), top))
	}
	for _, f := range n.Fields {
		v.Fields = append(v.Fields, s.fromGo(f.Type, own.FieldByName(goFieldName(f.Name))))
	}
	return v
}
