package main

import (
	"encoding/json"
	"fmt"
	"reflect"
	"sort"
	"strings"

	"github.com/PapaCharlie/go-restli/restlicodec"
	"verifgenroot/hx"
)

// Mode c11p of the ROOT driver: partial updates (C11 / C07) through the generated X_PartialUpdate bindings of the root generator
// (codegen/types/record_partial_update.go + restli/partial_update_utils.go).  The root generator's patch code is NOT the v2 code
// (flat Delete_Fields / Set_Fields structs over the flattened fields, Delete_Fields is itself a Marshaler); it has its own Coq
// model, Codec/RootPatch.v, evaluated on the cases this mode writes (Corr/RootPatchCorr.v), and it is decided by an INDEPENDENT
// oracle written from the property text and the Rest.li patch format alone:
//
//   an assignment gives every field of the record a subset of {delete, set v, nested patch}; it is LEGAL iff every field carries at
//   most one operation, only optional / defaulted fields are deleted, nested patches are legal, no touched field is excluded (at any
//   depth) and the set values are valid.  Encoding a legal assignment yields {"$delete":[names],"$set":{name:value},name:{nested}}
//   (members present only when non-empty) and decoding that document yields the assignment back; encoding an illegal assignment and
//   decoding a document that denotes one (including a $delete that names a REQUIRED field, which the Go struct cannot even
//   express, and a $set value that carries an excluded member) must fail.

type patOp struct {
	del    bool
	set    *Val
	nested *pat
}
type pat struct {
	rec      string
	ops      []patOp  // per flattened field
	unknown  []string // extra names in $delete (decode only; tolerated)
	delNames []string // names of REQUIRED fields put into $delete (decode only; illegal)
}

func (s *Schema) flatFieldsOf(rec string) []Field {
	n := s.Types[rec]
	var out []Field
	for _, inc := range n.Includes {
		out = append(out, s.flatFieldsOf(inc)...)
	}
	return append(out, n.Fields...)
}

func (s *Schema) recordOf(t RType) string {
	if t.Reference != nil {
		if n := s.Types[t.Reference.Name]; n != nil && n.Kind == "record" {
			return n.Name
		}
	}
	return ""
}

func patOptional(f Field) bool { return f.IsOptional || f.DefaultValue != nil }

// why an assignment is illegal ("" = legal); directives = the exclusion spec (relative to the outermost record), path = the field
// names from the outermost record down to this one
func (s *Schema) patIllegal(p *pat, directives []string, path []string) string {
	if len(p.delNames) > 0 {
		return "delete-required"
	}
	fs := s.flatFieldsOf(p.rec)
	for i, o := range p.ops {
		k := 0
		if o.del {
			k++
		}
		if o.set != nil {
			k++
		}
		if o.nested != nil {
			k++
		}
		fp := append(append([]string{}, path...), fs[i].Name)
		if k > 0 && specExcludes(directives, fp) {
			return "excluded"
		}
		switch {
		case o.del && o.set != nil:
			return "set+delete"
		case o.set != nil && o.nested != nil:
			return "set+nested"
		case o.del && o.nested != nil:
			return "delete+nested"
		}
		if o.set != nil && !s.validUnder(fs[i].Type, o.set, directives, fp) {
			return "invalid-set-value"
		}
		if o.nested != nil {
			if why := s.patIllegal(o.nested, directives, fp); why != "" {
				return why
			}
		}
	}
	return ""
}

// does a set value carry something at an excluded path strictly below the field itself?  (the writer leaves it out; a reader
// given the full document must refuse it)
func (s *Schema) patCarries(p *pat, directives []string, path []string) bool {
	fs := s.flatFieldsOf(p.rec)
	var walk func(d *Doc, path []string, top bool) bool
	walk = func(d *Doc, path []string, top bool) bool {
		if !top && d.Kind != "null" && path[len(path)-1] != "*" && specExcludes(directives, path) {
			return true
		}
		switch d.Kind {
		case "obj":
			for i, k := range d.Keys {
				if walk(d.Items[i], append(append([]string{}, path...), k), false) {
					return true
				}
			}
		case "arr":
			for _, x := range d.Items {
				if walk(x, append(append([]string{}, path...), "*"), true) {
					return true
				}
			}
		}
		return false
	}
	for i, o := range p.ops {
		fp := append(append([]string{}, path...), fs[i].Name)
		if o.set != nil && s.valid(fs[i].Type, o.set) && walk(s.refEncode(fs[i].Type, o.set), fp, true) {
			return true
		}
		if o.nested != nil && s.patCarries(o.nested, directives, fp) {
			return true
		}
	}
	return false
}

func (s *Schema) patAllValid(p *pat) bool {
	fs := s.flatFieldsOf(p.rec)
	for i, o := range p.ops {
		if o.set != nil && !s.valid(fs[i].Type, o.set) {
			return false
		}
		if o.nested != nil && !s.patAllValid(o.nested) {
			return false
		}
	}
	return true
}

// mode: 0 legal only; 1 may carry one struct-expressible illegality; 2 (documents only) may delete a required field;
// 3 one set value may violate a union / enum constraint
func (s *Schema) genPat(r *hx.Rand, rec string, depth int, mode int, top bool) *pat {
	fs := s.flatFieldsOf(rec)
	p := &pat{rec: rec, ops: make([]patOp, len(fs))}
	bad := -1
	if (mode == 1 || mode == 3) && len(fs) > 0 {
		bad = r.Intn(len(fs))
	}
	for i, f := range fs {
		optional := patOptional(f)
		sub := s.recordOf(f.Type)
		var choices []int // 0 none 1 delete 2 set 3 nested
		choices = append(choices, 0, 0, 2)
		if optional {
			choices = append(choices, 1)
		}
		if sub != "" && depth > 0 {
			choices = append(choices, 3)
		}
		c := choices[r.Intn(len(choices))]
		if mode == 3 && i == bad {
			c = 2
		}
		mk := func(c int) {
			switch c {
			case 1:
				p.ops[i].del = true
			case 2:
				p.ops[i].set = s.gen(r, f.Type, genOpts{utf8: true, depth: 1})
				if mode == 3 && i == bad {
					// a value that violates a union / enum constraint, when the field's type has one
					for try := 0; try < 8; try++ {
						if v := s.gen(r, f.Type, genOpts{utf8: true, invalid: true, depth: 1}); !s.valid(f.Type, v) {
							p.ops[i].set = v
							break
						}
					}
				}
			case 3:
				p.ops[i].nested = s.genPat(r, sub, depth-1, 0, false)
			}
		}
		mk(c)
		if mode == 1 && i == bad {
			// add a second operation on the same field when the struct can express it
			var second []int
			for _, d := range []int{1, 2, 3} {
				if d == c || (d == 1 && !optional) || (d == 3 && (sub == "" || depth <= 0)) {
					continue
				}
				second = append(second, d)
			}
			if c != 0 && len(second) > 0 {
				mk(second[r.Intn(len(second))])
			}
		}
	}
	if mode == 2 {
		var req []string
		for _, f := range fs {
			if !patOptional(f) {
				req = append(req, f.Name)
			}
		}
		if len(req) > 0 {
			p.delNames = []string{req[r.Intn(len(req))]}
			// the same field may also be set (set-and-delete of a required field) or left alone
			if r.Chance(50) {
				for i, f := range fs {
					if f.Name == p.delNames[0] {
						p.ops[i] = patOp{}
					}
				}
			}
		}
	}
	if top && r.Chance(15) {
		p.unknown = []string{"nosuchfield"}
	}
	return p
}

// every combination of the operations the struct can express on every field (records with few fields); nested patches drawn
// from `nested`
func (s *Schema) enumPats(r *hx.Rand, rec string, nested func(sub string) []*pat) []*pat {
	fs := s.flatFieldsOf(rec)
	out := []*pat{{rec: rec, ops: make([]patOp, len(fs))}}
	for i, f := range fs {
		var opts []patOp
		dels := []bool{false}
		if patOptional(f) {
			dels = append(dels, true)
		}
		nps := []*pat{nil}
		if sub := s.recordOf(f.Type); sub != "" {
			nps = append(nps, nested(sub)...)
		}
		sv := s.gen(r, f.Type, genOpts{utf8: true, depth: 1})
		for _, d := range dels {
			for _, st := range []bool{false, true} {
				for _, np := range nps {
					o := patOp{del: d, nested: np}
					if st {
						o.set = sv
					}
					opts = append(opts, o)
				}
			}
		}
		var next []*pat
		for _, base := range out {
			for _, o := range opts {
				c := &pat{rec: rec, ops: append([]patOp{}, base.ops...)}
				c.ops[i] = o
				next = append(next, c)
			}
		}
		out = next
	}
	return out
}

// the document an assignment denotes (independent of the library)
func (s *Schema) patDoc(p *pat, r *hx.Rand) *Doc {
	fs := s.flatFieldsOf(p.rec)
	var dels []*Doc
	set := &Doc{Kind: "obj"}
	d := &Doc{Kind: "obj"}
	for i, o := range p.ops {
		if o.del {
			dels = append(dels, &Doc{Kind: "str", S: fs[i].Name})
		}
		if o.set != nil {
			set.Keys = append(set.Keys, fs[i].Name)
			set.Items = append(set.Items, s.refEncode(fs[i].Type, o.set))
		}
	}
	for _, n := range append(append([]string{}, p.unknown...), p.delNames...) {
		dels = append(dels, &Doc{Kind: "str", S: n})
	}
	if r != nil {
		for i := len(dels) - 1; i > 0; i-- {
			j := r.Intn(i + 1)
			dels[i], dels[j] = dels[j], dels[i]
		}
	}
	if len(dels) > 0 {
		d.Keys = append(d.Keys, "$delete")
		d.Items = append(d.Items, &Doc{Kind: "arr", Items: dels})
	}
	if len(set.Keys) > 0 {
		d.Keys = append(d.Keys, "$set")
		d.Items = append(d.Items, set)
	}
	for i, o := range p.ops {
		if o.nested != nil {
			d.Keys = append(d.Keys, fs[i].Name)
			d.Items = append(d.Items, s.patDoc(o.nested, r))
		}
	}
	if r != nil {
		for i := len(d.Keys) - 1; i > 0; i-- {
			j := r.Intn(i + 1)
			d.Keys[i], d.Keys[j] = d.Keys[j], d.Keys[i]
			d.Items[i], d.Items[j] = d.Items[j], d.Items[i]
		}
	}
	return d
}

// assignment -> generated struct (root layout: Delete_Fields{<F> bool} (deletable fields only), Set_Fields{<F> *T}, <F> *X_PartialUpdate)
func (s *Schema) patToGo(p *pat, dst reflect.Value) {
	fs := s.flatFieldsOf(p.rec)
	for i, o := range p.ops {
		name := goFieldName(fs[i].Name)
		if o.del {
			dst.FieldByName("Delete_Fields").FieldByName(name).SetBool(true)
		}
		if o.set != nil {
			s.toGo(fs[i].Type, o.set, dst.FieldByName("Set_Fields").FieldByName(name))
		}
		if o.nested != nil {
			f := dst.FieldByName(name)
			f.Set(reflect.New(f.Type().Elem()))
			s.patToGo(o.nested, f.Elem())
		}
	}
}

func (s *Schema) patFromGo(rec string, src reflect.Value) *pat {
	fs := s.flatFieldsOf(rec)
	p := &pat{rec: rec, ops: make([]patOp, len(fs))}
	for i, f := range fs {
		name := goFieldName(f.Name)
		if df := src.FieldByName("Delete_Fields"); df.IsValid() {
			if b := df.FieldByName(name); b.IsValid() {
				p.ops[i].del = b.Bool()
			}
		}
		p.ops[i].set = s.fromGo(f.Type, src.FieldByName("Set_Fields").FieldByName(name))
		if sub := s.recordOf(f.Type); sub != "" {
			if n := src.FieldByName(name); n.IsValid() && !n.IsNil() {
				p.ops[i].nested = s.patFromGo(sub, n.Elem())
			}
		}
	}
	return p
}

// got: decoded by the library; want: the assignment (a decoded $set value has the schema defaults filled in, like any decoded value)
func (s *Schema) patEq(got, want *pat) bool {
	if got == nil || want == nil {
		return got == nil && want == nil
	}
	if len(got.ops) != len(want.ops) {
		return false
	}
	fs := s.flatFieldsOf(want.rec)
	for i := range got.ops {
		x, y := got.ops[i], want.ops[i]
		if x.del != y.del || !valEq(x.set, s.fillDefaults(fs[i].Type, y.set)) || !s.patEq(x.nested, y.nested) {
			return false
		}
	}
	return true
}

func (s *Schema) patDescribe(p *pat) interface{} {
	if p == nil {
		return nil
	}
	fs := s.flatFieldsOf(p.rec)
	m := map[string]interface{}{}
	for i, o := range p.ops {
		var ops []interface{}
		if o.del {
			ops = append(ops, "delete")
		}
		if o.set != nil {
			ops = append(ops, map[string]interface{}{"set": o.set.fixJSON()})
		}
		if o.nested != nil {
			ops = append(ops, map[string]interface{}{"patch": s.patDescribe(o.nested)})
		}
		if len(ops) > 0 {
			m[fs[i].Name] = ops
		}
	}
	if len(p.delNames) > 0 {
		m["$delete(required)"] = p.delNames
	}
	if len(p.unknown) > 0 {
		m["$delete(unknown)"] = p.unknown
	}
	return m
}

// ---- the Coq side: Codec.RootPatch.rpatch, one slot per flattened field in generation order; set values in the schema's shape
func (s *Schema) patCoq(p *pat) string {
	ds := make([]string, len(p.ops))
	ss := make([]*Val, len(p.ops))
	ns := make([]string, len(p.ops))
	for i, o := range p.ops {
		ds[i] = hx.CoqBool(o.del)
		ss[i] = o.set
		if o.nested == nil {
			ns[i] = "None"
		} else {
			ns[i] = "(Some " + s.patCoq(o.nested) + ")"
		}
	}
	return "(RPatch [" + strings.Join(ds, ";") + "] " + coqOptVals(ss) + " [" + strings.Join(ns, ";") + "])"
}

func (p *pat) vals(out *[]*Val) {
	if p == nil {
		return
	}
	for _, o := range p.ops {
		if o.set != nil {
			*out = append(*out, o.set)
		}
		o.nested.vals(out)
	}
}

type rpcase struct {
	name  string
	excl  []string
	vals  []*Val
	texts []string
	ops   []string
	dops  []interface{}
}

func newRPCase(name string, excl []string) *rpcase {
	return &rpcase{name: name, excl: excl, texts: append([]string{}, baseTexts...)}
}
func rpenc(oc outcome, out string) string {
	if oc.Class == "ok" {
		return "(RPEncOk " + hx.CoqBytes(out) + ")"
	}
	return "(RPEncFail " + coqClass(oc.Class) + ")"
}
func (c *rpcase) enc(envelope bool, p *pat, oc outcome, out string) {
	p.vals(&c.vals)
	ctor := "RPEncAt "
	if envelope {
		ctor = "RPEnc "
	}
	c.ops = append(c.ops, ctor+schema.patCoq(p)+" "+rpenc(oc, out))
	c.dops = append(c.dops, map[string]interface{}{"op": "enc", "envelope": envelope, "patch": schema.patDescribe(p), "outcome": oc, "out": out})
}
func (c *rpcase) dec(envelope bool, pre []string, ignore int, data string, oc outcome, got *pat) {
	c.texts = append(c.texts, candidateTexts(data, 0)...)
	o := "(RPDecFail " + coqClass(oc.Class) + ")"
	if oc.Class == "ok" && got != nil {
		got.vals(&c.vals)
		o = "(RPDecOk " + schema.patCoq(got) + ")"
	}
	if envelope {
		c.ops = append(c.ops, "RPDec "+hx.CoqBytesList(pre)+" "+fmt.Sprint(ignore)+" "+hx.CoqBytes(data)+" "+o)
	} else {
		c.ops = append(c.ops, "RPDecAt "+fmt.Sprint(ignore)+" "+hx.CoqBytes(data)+" "+o)
	}
	c.dops = append(c.dops, map[string]interface{}{"op": "dec", "envelope": envelope, "pre": pre, "ignore": ignore, "data": data, "outcome": oc,
		"decoded": schema.patDescribe(got)})
}
func (c *rpcase) coq() string {
	var fl []floatEnt
	for _, v := range c.vals {
		v.floats(&fl)
	}
	texts := c.texts
	for _, f := range fl {
		texts = append(texts, f.text)
	}
	return "{| rc_rec := " + fmt.Sprint(schema.EnvIndex[c.name]) + "; rc_floats := " + coqFloats(fl) + "; rc_parse := " + coqParseTable(texts) +
		"; rc_excl := " + hx.CoqBytesList(c.excl) + "; rc_ops := [" + strings.Join(c.ops, ";\n  ") + "] |}"
}
func (c *rpcase) describe() interface{} {
	return map[string]interface{}{"mode": "c11p", "module": "root", "type": c.name, "excl": c.excl, "ops": c.dops}
}

func rpHeader() string {
	return "From Coq Require Import List ZArith NArith. Import ListNotations.\nFrom Coq.Strings Require Import Byte.\n" +
		"From GR Require Import Base.Bytes Base.Res Codec.Schema Codec.Doc Codec.RootPatch Gen.FamEnv Corr.RootPatchCorr.\n"
}

type patchMarshaler interface {
	MarshalRestLiPatch(restlicodec.Writer) error
}
type patchUnmarshaler interface {
	UnmarshalRestLiPatch(restlicodec.Reader) error
}

// ---- running the implementation
// MarshalRestLiPatch directly on a compact JSON writer WithExcludedFields (envelope = false) or MarshalRestLi (the "patch" envelope)
func (s *Schema) encodePat(T reflect.Type, p *pat, spec restlicodec.PathSpec, envelope bool) (string, outcome) {
	ptr := reflect.New(T)
	s.patToGo(p, ptr.Elem())
	if envelope {
		return encode(ptr, 0, spec)
	}
	var out string
	var err error
	var pn interface{}
	func() {
		defer func() { pn = recover() }()
		w := restlicodec.NewCompactJsonWriterWithExcludedFields(spec)
		err = ptr.Interface().(patchMarshaler).MarshalRestLiPatch(w)
		if err == nil {
			out = w.Finalize()
		}
	}()
	return out, classify(err, pn)
}

// f: 0 JSON, 2 ROR2; direct: UnmarshalRestLiPatch on the reader at the start of the input (leadingScopeToIgnore = ignore)
func (s *Schema) decodePatAt(T reflect.Type, rec string, f int, text string, spec restlicodec.PathSpec, ignore int) (outcome, *pat) {
	ptr := reflect.New(T)
	var err error
	var pn interface{}
	func() {
		defer func() { pn = recover() }()
		var rd restlicodec.Reader
		rd, err = newReader(f, text, spec, ignore)
		if err != nil {
			return
		}
		err = ptr.Interface().(patchUnmarshaler).UnmarshalRestLiPatch(rd)
	}()
	oc := classify(err, pn)
	if oc.Class == "ok" {
		return oc, s.patFromGo(rec, ptr.Elem())
	}
	return oc, nil
}

// UnmarshalRestLi (the "patch" envelope); pre = nil: a partial_update body; pre = [entities, key]: inside a batch_partial_update body
func (s *Schema) decodePatEnv(T reflect.Type, rec string, pre []string, data string, spec restlicodec.PathSpec, ignore int) (outcome, *pat) {
	var err error
	var pn interface{}
	ptr := reflect.New(T)
	func() {
		defer func() { pn = recover() }()
		body := data
		for i := len(pre) - 1; i >= 0; i-- {
			body = "{" + jsonString(pre[i], jsonStyle{}) + ":" + body + "}"
		}
		var rd restlicodec.Reader
		rd, err = restlicodec.NewJsonReaderWithExcludedFields([]byte(body), spec, ignore)
		if err != nil {
			return
		}
		um := ptr.Interface().(restlicodec.Unmarshaler)
		var descend func(r restlicodec.Reader, rest []string) error
		descend = func(r restlicodec.Reader, rest []string) error {
			if len(rest) == 0 {
				return um.UnmarshalRestLi(r)
			}
			return r.ReadMap(func(r restlicodec.Reader, key string) error {
				if key == rest[0] {
					return descend(r, rest[1:])
				}
				return r.Skip()
			})
		}
		err = descend(rd, pre)
	}()
	oc := classify(err, pn)
	if oc.Class == "ok" {
		return oc, s.patFromGo(rec, ptr.Elem())
	}
	return oc, nil
}

// generic JSON equality of two texts (object member order and number spelling aside from json.Number text)
func sameJSON(a, b string) bool {
	var x, y interface{}
	da := json.NewDecoder(strings.NewReader(a))
	da.UseNumber()
	db := json.NewDecoder(strings.NewReader(b))
	db.UseNumber()
	if da.Decode(&x) != nil || db.Decode(&y) != nil {
		return false
	}
	return reflect.DeepEqual(normJSON(x), normJSON(y))
}

// $delete lists are sets: sort them
func normJSON(x interface{}) interface{} {
	switch v := x.(type) {
	case map[string]interface{}:
		for k, e := range v {
			if k == "$delete" {
				if l, ok := e.([]interface{}); ok {
					ss := make([]string, 0, len(l))
					for _, i := range l {
						ss = append(ss, fmt.Sprint(i))
					}
					sort.Strings(ss)
					v[k] = strings.Join(ss, ",")
					continue
				}
			}
			v[k] = normJSON(e)
		}
		return v
	case []interface{}:
		for i := range v {
			v[i] = normJSON(v[i])
		}
		return v
	case json.Number:
		return v.String()
	}
	return x
}

func runRootPatch(cfg *hx.Config) {
	rep := hx.NewReport("ROOT bindings, partial updates: for every record type of the family (fields flattened through includes) assignments of a subset of " +
		"{delete, set v, nested patch} to each field (recursively, depth <= 2): exhaustive over the operations of every field for records with at most 3 fields, seeded for all; " +
		"legal ones and ones carrying exactly one illegality (two operations on one field; a touched excluded field - top-level or inside a nested patch; an invalid set value; " +
		"documents only: $delete naming a required field), x exclusion specs (none; one field; a field of a record-typed field) x (a) MarshalRestLiPatch and MarshalRestLi " +
		"(the patch envelope) with the compact JSON writer WithExcludedFields: fail iff illegal, else the output is the patch document of the assignment; (b) the patch document " +
		"(independent renderer, keys permuted, JSON and ROR2) through UnmarshalRestLiPatch, and (JSON) inside the patch envelope through UnmarshalRestLi with leadingScopeToIgnore 1 " +
		"and below entities/key with 3: fail iff illegal or a set value carries an excluded member, else yield the assignment back; (c) the emitted bytes read back; hand-written " +
		"documents (unknown names, operators of the wrong shape, null operators, missing / null patch, extra envelope keys, set-and-delete, excluded set / delete / nested). " +
		"Every JSON operation is also a case for the model Codec/RootPatch.v (Corr/RootPatchCorr.v). non-trivial = the assignment is illegal, has a nested patch, or a spec is present; " +
		"distinct by (type, spec, document)")
	sh := hx.NewShards(cfg.Out, rpHeader(), "RootPatchCorr", 40)
	r := hx.NewRand(cfg.Seed)
	n := 60
	if cfg.Thorough() {
		n = 1200
	}
	var recs []string
	for _, name := range schema.Order {
		if schema.Types[name].Kind == "record" {
			recs = append(recs, name)
		}
	}

	evalPat := func(rec string, T reflect.Type, p *pat, ds []string, full bool) {
		var spec restlicodec.PathSpec
		if len(ds) > 0 {
			spec = restlicodec.NewPathSpec(ds...)
		}
		tds := trimAll(ds)
		why := schema.patIllegal(p, tds, nil)
		valid := schema.patAllValid(p)
		carry := why == "" && schema.patCarries(p, tds, nil)
		c := newRPCase(rec, ds)
		desc := map[string]interface{}{"type": rec, "assignment": schema.patDescribe(p), "excluded": ds, "module": "root"}
		nested := false
		for _, o := range p.ops {
			nested = nested || o.nested != nil
		}
		rep.Count("illegal=" + why)
		rep.Count("type=" + rec)
		if carry {
			rep.Count("set-value-carries-excluded")
		}

		// ---- (a) encode (the struct cannot express $delete of a required field / unknown names)
		var outs []string
		if len(p.delNames) == 0 && len(p.unknown) == 0 {
			for _, envelope := range []bool{false, true} {
				out, oc := schema.encodePat(T, p, spec, envelope)
				c.enc(envelope, p, oc, out)
				rep.Evaluations++
				var want *Doc
				if why == "" && !carry {
					want = schema.patDoc(p, nil)
					if envelope {
						want = &Doc{Kind: "obj", Keys: []string{"patch"}, Items: []*Doc{want}}
					}
				}
				cd := map[string]interface{}{"op": "encode", "envelope": envelope, "case": desc, "out": out}
				site := "codegen/types/record_partial_update.go (root) MarshalRestLiPatch"
				switch {
				case oc.Class == "panic":
					rep.Fail("patch:panic:encode", "MarshalRestLiPatch panicked", site, cd, oc.Text)
				case why != "" && oc.Class == "ok":
					rep.Fail("patch:encode-accepts-illegal:"+why, "an illegal partial update was emitted", site, cd, nil)
				case why == "" && oc.Class != "ok":
					rep.Fail("patch:encode-rejects-legal", "a legal partial update was rejected by the encoder", site, cd, oc.Text)
				case why == "" && !carry && want.jsonOK() && !sameJSON(out, want.render(0, nil, false)):
					rep.Fail("patch:encode-wrong-shape", "the emitted patch is not the $delete / $set / nested shape of the assignment", site, cd, want.render(0, nil, false))
				}
				if why == "" && !carry && oc.Class == "ok" && !envelope {
					outs = append(outs, out)
				}
			}
		}

		// ---- (b) decode the protocol's document (a set value that violates a constraint has no document)
		if valid {
			doc := schema.patDoc(p, r)
			mustReject := why != "" || carry
			judge := func(what string, f int, text string, oc outcome, got *pat, cd map[string]interface{}) {
				site := "codegen/types/record_partial_update.go (root) UnmarshalRestLiPatch"
				reason := why
				if reason == "" && carry {
					reason = "set-value-carries-excluded"
				}
				switch {
				case oc.Class == "panic":
					rep.Fail("patch:panic:decode", "UnmarshalRestLiPatch panicked", site, cd, oc.Text)
				case mustReject && oc.Class == "ok":
					rep.Fail("patch:decode-accepts-illegal:"+reason, "a document denoting an illegal partial update was accepted", site, cd, nil)
				case !mustReject && oc.Class != "ok":
					rep.Fail("patch:decode-rejects-legal", "a document denoting a legal partial update was rejected", site, cd, oc.Text)
				case !mustReject:
					if !schema.patEq(got, p) {
						rep.Fail("patch:decode-wrong-value", "the decoded partial update is not the assignment the document denotes", site, cd, schema.patDescribe(got))
					}
				}
			}
			for _, f := range []int{0, 2} {
				if f == 0 && !doc.jsonOK() {
					continue
				}
				text := doc.render(f, r, false)
				oc, got := schema.decodePatAt(T, rec, f, text, spec, 0)
				rep.Evaluations++
				rep.Distinct(rec+"|"+strings.Join(ds, ",")+"|"+formats[f]+text, why != "" || nested || len(ds) > 0)
				cd := map[string]interface{}{"op": "decode", "format": formats[f], "document": text, "case": desc}
				judge("direct", f, text, oc, got, cd)
				if f == 0 {
					c.dec(false, nil, 0, text, oc, got)
					// the same document inside the envelope: a partial_update body, and one entity of a batch_partial_update body
					env := "{\"patch\":" + text + "}"
					modes := []struct {
						pre    []string
						ignore int
					}{{nil, 1}}
					if full {
						modes = append(modes, struct {
							pre    []string
							ignore int
						}{[]string{"entities", "k1"}, 3})
					}
					for _, m := range modes {
						oc, got := schema.decodePatEnv(T, rec, m.pre, env, spec, m.ignore)
						c.dec(true, m.pre, m.ignore, env, oc, got)
						rep.Evaluations++
						cd := map[string]interface{}{"op": "decode", "format": "json", "envelope": true, "pre": m.pre, "ignore": m.ignore, "document": env, "case": desc}
						judge("envelope", 0, env, oc, got, cd)
					}
				}
				if why != "" && f == 0 {
					rep.Sample(cd)
				}
			}
			// ---- (c) what the encoder emitted is read back
			for _, out := range outs {
				oc, got := schema.decodePatAt(T, rec, 0, out, spec, 0)
				c.dec(false, nil, 0, out, oc, got)
				rep.Evaluations++
				cd := map[string]interface{}{"op": "decode", "format": "json", "document": out, "emitted": true, "case": desc}
				judge("emitted", 0, out, oc, got, cd)
			}
		}
		sh.Add(c.coq(), c.describe())
	}

	// the exclusion specs of one assignment: none; one field (touched or not); a field of a record-typed field
	pickSpec := func(rec string, mode int) []string {
		fs := schema.flatFieldsOf(rec)
		if mode != 0 || len(fs) == 0 || !r.Chance(40) {
			return nil
		}
		f := fs[r.Intn(len(fs))]
		if sub := schema.recordOf(f.Type); sub != "" && r.Chance(60) {
			sfs := schema.flatFieldsOf(sub)
			if len(sfs) > 0 {
				return []string{f.Name + "/" + sfs[r.Intn(len(sfs))].Name}
			}
		}
		return []string{f.Name}
	}

	// ---- exhaustive over the operations of every field: records with at most 3 flattened fields
	for _, rec := range recs {
		T, ok := patchRegistry[rec]
		fs := schema.flatFieldsOf(rec)
		if !ok || len(fs) > 3 {
			continue
		}
		nestedFew := func(sub string) []*pat {
			return []*pat{{rec: sub, ops: make([]patOp, len(schema.flatFieldsOf(sub)))}, schema.genPat(r, sub, 0, 0, false), schema.genPat(r, sub, 0, 1, false)}
		}
		ps := schema.enumPats(r, rec, nestedFew)
		step := 1
		if !cfg.Thorough() && len(ps) > 96 {
			step = len(ps)/96 + 1
		}
		specs := [][]string{nil}
		for _, f := range fs {
			specs = append(specs, []string{f.Name})
			if sub := schema.recordOf(f.Type); sub != "" {
				specs = append(specs, []string{f.Name + "/" + schema.flatFieldsOf(sub)[0].Name})
			}
		}
		cnt := 0
		for si, ds := range specs {
			for i := si % step; i < len(ps); i += step {
				evalPat(rec, T, ps[i], ds, i%4 == 0)
				cnt++
			}
		}
		rep.Count(fmt.Sprintf("exhaustive:%s=%d of %d x %d specs", rec, cnt, len(ps), len(specs)))
	}

	// ---- seeded
	for _, rec := range recs {
		T, ok := patchRegistry[rec]
		if !ok {
			continue
		}
		for i := 0; i < n; i++ {
			mode := []int{0, 0, 0, 1, 2, 3}[r.Intn(6)]
			p := schema.genPat(r, rec, 2, mode, true)
			evalPat(rec, T, p, pickSpec(rec, mode), i%3 == 0)
		}
	}

	// ---- hand-written documents
	type hdoc struct {
		name  string
		ds    []string
		body  *Doc // the value of "patch" (nil: use whole)
		whole *Doc
		must  string // accept | reject
		zero  bool   // for accept: the zero struct must come out
		tag   string
	}
	str := func(s string) *Doc { return &Doc{Kind: "str", S: s} }
	arr := func(items ...*Doc) *Doc { return &Doc{Kind: "arr", Items: items} }
	obj := func(kv ...interface{}) *Doc {
		d := &Doc{Kind: "obj"}
		for i := 0; i < len(kv); i += 2 {
			d.Keys = append(d.Keys, kv[i].(string))
			d.Items = append(d.Items, kv[i+1].(*Doc))
		}
		return d
	}
	num := func(z int64) *Doc { return &Doc{Kind: "int", Z: z} }
	null := &Doc{Kind: "null"}
	var hds []hdoc
	for _, name := range recs {
		if _, ok := patchRegistry[name]; !ok {
			continue
		}
		fs := schema.flatFieldsOf(name)
		if len(fs) > 16 && !cfg.Thorough() {
			continue
		}
		hds = append(hds,
			hdoc{name: name, body: obj("$delete", arr(str("nosuchfield"))), must: "accept", zero: true, tag: "unknown-delete"},
			hdoc{name: name, body: obj("$set", obj("nosuchfield", num(1))), must: "accept", zero: true, tag: "unknown-set"},
			hdoc{name: name, body: obj("nosuchfield", obj("$set", obj("a", num(1)))), must: "accept", zero: true, tag: "unknown-nested"},
			hdoc{name: name, body: obj("$delete", str("x")), must: "reject", tag: "delete-not-array"},
			hdoc{name: name, body: obj("$delete", arr(num(1))), must: "reject", tag: "delete-item-not-string"},
			hdoc{name: name, body: obj("$set", arr()), must: "reject", tag: "set-not-object"},
			hdoc{name: name, body: obj("$set", null, "$delete", null), must: "accept", zero: true, tag: "null-operators"},
			hdoc{name: name, body: arr(), must: "reject", tag: "patch-not-object"},
			hdoc{name: name, body: obj(), must: "accept", zero: true, tag: "empty-patch"},
			hdoc{name: name, whole: obj(), must: "reject", tag: "no-patch"},
			hdoc{name: name, whole: obj("patch", null), must: "reject", tag: "null-patch"},
			hdoc{name: name, whole: obj("other", num(1), "patch", obj(), "more", arr(str("x"))), must: "accept", zero: true, tag: "extra-keys"},
		)
		for _, f := range fs {
			sv := schema.gen(r, f.Type, genOpts{utf8: true, depth: 1})
			if !patOptional(f) {
				hds = append(hds, hdoc{name: name, body: obj("$delete", arr(str(f.Name))), must: "reject", tag: "required-delete"})
				hds = append(hds, hdoc{name: name, body: obj("$delete", arr(str("nosuchfield"), str(f.Name))), must: "reject", tag: "required-delete-after-unknown"})
				hds = append(hds, hdoc{name: name, ds: []string{f.Name}, body: obj("$delete", arr(str(f.Name))), must: "reject", tag: "required-delete:excluded"})
			} else {
				hds = append(hds, hdoc{name: name, body: obj("$delete", arr(str(f.Name)), "$set", obj(f.Name, schema.refEncode(f.Type, sv))), must: "reject", tag: "delete-and-set"})
				hds = append(hds, hdoc{name: name, body: obj("$set", obj(f.Name, schema.refEncode(f.Type, sv)), "$delete", arr(str(f.Name), str(f.Name))), must: "reject", tag: "set-and-delete-twice"})
				hds = append(hds, hdoc{name: name, ds: []string{f.Name}, body: obj("$delete", arr(str(f.Name))), must: "reject", tag: "excluded-delete"})
			}
			hds = append(hds, hdoc{name: name, ds: []string{f.Name}, body: obj("$set", obj(f.Name, schema.refEncode(f.Type, sv))), must: "reject", tag: "excluded-set"})
			if sub := schema.recordOf(f.Type); sub != "" {
				hds = append(hds, hdoc{name: name, ds: []string{f.Name}, body: obj(f.Name, obj()), must: "reject", tag: "excluded-nested"})
				hds = append(hds, hdoc{name: name, body: obj(f.Name, obj(), "$set", obj(f.Name, schema.refEncode(f.Type, sv))), must: "reject", tag: "set-and-nested"})
				hds = append(hds, hdoc{name: name, body: obj(f.Name, obj(), f.Name, obj("$delete", arr(str("nosuchfield")))), must: "accept", tag: "nested-twice"})
			}
		}
	}
	for _, h := range hds {
		T := patchRegistry[h.name]
		whole := h.whole
		if whole == nil {
			whole = obj("patch", h.body)
		}
		if !whole.jsonOK() {
			continue
		}
		text := whole.render(0, nil, false)
		var spec restlicodec.PathSpec
		if len(h.ds) > 0 {
			spec = restlicodec.NewPathSpec(h.ds...)
		}
		c := newRPCase(h.name, h.ds)
		zero := &pat{rec: h.name, ops: make([]patOp, len(schema.flatFieldsOf(h.name)))}
		judge := func(oc outcome, got *pat, dd map[string]interface{}) {
			site := "codegen/types/record_partial_update.go (root) UnmarshalRestLiPatch / Delete_Fields.UnmarshalRestLi"
			switch {
			case oc.Class == "panic":
				rep.Fail("patch:panic:decode", "UnmarshalRestLi of a partial update panicked", site, dd, oc.Text)
			case h.must == "reject" && oc.Class == "ok":
				rep.Fail("patch:hand-document-accepted:"+h.tag, "a document denoting an illegal partial update ("+h.tag+") was accepted", site, dd, nil)
			case h.must == "accept" && oc.Class != "ok":
				rep.Fail("patch:hand-document-rejected:"+h.tag, "a legal partial-update document ("+h.tag+") was rejected", site, dd, oc.Text)
			case h.must == "accept" && h.zero && !schema.patEq(got, zero):
				rep.Fail("patch:hand-document-decoded:"+h.tag, "a legal partial-update document ("+h.tag+") decoded to the wrong struct", site, dd, schema.patDescribe(got))
			}
		}
		for _, mode := range []struct {
			pre    []string
			ignore int
		}{{nil, 1}, {[]string{"entities", "k"}, 3}} {
			if mode.ignore == 3 && (h.tag == "no-patch" || h.tag == "null-patch") {
				continue // the missing "patch" is raised by the reader at the start of the input only
			}
			oc, got := schema.decodePatEnv(T, h.name, mode.pre, text, spec, mode.ignore)
			c.dec(true, mode.pre, mode.ignore, text, oc, got)
			rep.Evaluations++
			judge(oc, got, map[string]interface{}{"type": h.name, "spec": h.ds, "document": text, "pre": mode.pre, "ignore": mode.ignore, "outcome": oc,
				"decoded": schema.patDescribe(got), "case": h.tag, "module": "root"})
		}
		if h.body != nil && h.body.jsonOK() {
			// the body alone through UnmarshalRestLiPatch
			bt := h.body.render(0, nil, false)
			oc, got := schema.decodePatAt(T, h.name, 0, bt, spec, 0)
			c.dec(false, nil, 0, bt, oc, got)
			rep.Evaluations++
			judge(oc, got, map[string]interface{}{"type": h.name, "spec": h.ds, "document": bt, "direct": true, "outcome": oc,
				"decoded": schema.patDescribe(got), "case": h.tag, "module": "root"})
		}
		rep.Distinct(h.name+"|hand|"+strings.Join(h.ds, ",")+"|"+text, true)
		rep.Count("hand:" + h.must)
		sh.Add(c.coq(), c.describe())
	}
	sh.Close()
	rep.Shards = sh.Files
	rep.Write(cfg.Out)
}
