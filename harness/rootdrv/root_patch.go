package main

import (
	"encoding/json"
	"fmt"
	"reflect"
	"sort"
	"strings"

	"github.com/PapaCharlie/go-restli/restlicodec"
	"verifgenroot/hx"
)

// Mode c11p of the ROOT driver: partial updates (C11 / C07) through the generated X_PartialUpdate bindings of the root generator
// (codegen/types/record_partial_update.go + restli/partial_update_utils.go).  The root generator's patch code is NOT the v2 code
// (flat Delete_Fields / Set_Fields structs over the flattened fields, Delete_Fields is itself a Marshaler), so the Coq model
// Codec/Patch.v (a transcription of the v2 generated code) does not apply: this mode is decided by an INDEPENDENT oracle written
// from the property text and the Rest.li patch format alone:
//
//   an assignment gives every field of the record a subset of {delete, set v, nested patch}; it is LEGAL iff every field carries at
//   most one operation, only optional / defaulted fields are deleted, nested patches are legal, and no touched field is excluded.
//   Encoding a legal assignment yields {"$delete":[names],"$set":{name:value},name:{nested}} (members present only when non-empty)
//   and decoding that document yields the assignment back; encoding an illegal assignment and decoding a document that denotes
//   one (including a $delete that names a REQUIRED field, which the Go struct cannot even express) must fail.

type patOp struct {
	del    bool
	set    *Val
	nested *pat
}
type pat struct {
	rec      string
	ops      []patOp  // per flattened field
	unknown  []string // extra names in $delete (decode only; tolerated)
	delNames []string // names of REQUIRED fields put into $delete (decode only; illegal)
}

func (s *Schema) flatFieldsOf(rec string) []Field {
	n := s.Types[rec]
	var out []Field
	for _, inc := range n.Includes {
		out = append(out, s.flatFieldsOf(inc)...)
	}
	return append(out, n.Fields...)
}

func (s *Schema) recordOf(t RType) string {
	if t.Reference != nil {
		if n := s.Types[t.Reference.Name]; n != nil && n.Kind == "record" {
			return n.Name
		}
	}
	return ""
}

// why an assignment is illegal ("" = legal); excl = excluded top-level field names of THIS record
func (s *Schema) patIllegal(p *pat, excl map[string]bool) string {
	if len(p.delNames) > 0 {
		return "delete-required"
	}
	fs := s.flatFieldsOf(p.rec)
	for i, o := range p.ops {
		k := 0
		if o.del {
			k++
		}
		if o.set != nil {
			k++
		}
		if o.nested != nil {
			k++
		}
		if k > 0 && excl[fs[i].Name] {
			return "excluded"
		}
		switch {
		case o.del && o.set != nil:
			return "set+delete"
		case o.set != nil && o.nested != nil:
			return "set+nested"
		case o.del && o.nested != nil:
			return "delete+nested"
		}
		if o.nested != nil {
			if why := s.patIllegal(o.nested, nil); why != "" {
				return why
			}
		}
	}
	return ""
}

// mode: 0 legal only; 1 may carry one struct-expressible illegality; 2 (documents only) may delete a required field
func (s *Schema) genPat(r *hx.Rand, rec string, depth int, mode int, top bool) *pat {
	fs := s.flatFieldsOf(rec)
	p := &pat{rec: rec, ops: make([]patOp, len(fs))}
	bad := -1
	if mode == 1 && len(fs) > 0 {
		bad = r.Intn(len(fs))
	}
	for i, f := range fs {
		optional := f.IsOptional || f.DefaultValue != nil
		sub := s.recordOf(f.Type)
		var choices []int // 0 none 1 delete 2 set 3 nested
		choices = append(choices, 0, 0, 2)
		if optional {
			choices = append(choices, 1)
		}
		if sub != "" && depth > 0 {
			choices = append(choices, 3)
		}
		c := choices[r.Intn(len(choices))]
		mk := func(c int) {
			switch c {
			case 1:
				p.ops[i].del = true
			case 2:
				p.ops[i].set = s.gen(r, f.Type, genOpts{utf8: true, depth: 1})
			case 3:
				p.ops[i].nested = s.genPat(r, sub, depth-1, 0, false)
			}
		}
		mk(c)
		if i == bad {
			// add a second operation on the same field when the struct can express it
			var second []int
			for _, d := range []int{1, 2, 3} {
				if d == c || (d == 1 && !optional) || (d == 3 && (sub == "" || depth <= 0)) {
					continue
				}
				second = append(second, d)
			}
			if c != 0 && len(second) > 0 {
				mk(second[r.Intn(len(second))])
			}
		}
	}
	if mode == 2 {
		var req []string
		for _, f := range fs {
			if !f.IsOptional && f.DefaultValue == nil {
				req = append(req, f.Name)
			}
		}
		if len(req) > 0 {
			p.delNames = []string{req[r.Intn(len(req))]}
			// the same field may also be set (set-and-delete of a required field) or left alone
			if r.Chance(50) {
				for i, f := range fs {
					if f.Name == p.delNames[0] {
						p.ops[i] = patOp{}
					}
				}
			}
		}
	}
	if top && r.Chance(15) {
		p.unknown = []string{"nosuchfield"}
	}
	return p
}

// the document an assignment denotes (independent of the library)
func (s *Schema) patDoc(p *pat, r *hx.Rand) *Doc {
	fs := s.flatFieldsOf(p.rec)
	var dels []*Doc
	set := &Doc{Kind: "obj"}
	d := &Doc{Kind: "obj"}
	for i, o := range p.ops {
		if o.del {
			dels = append(dels, &Doc{Kind: "str", S: fs[i].Name})
		}
		if o.set != nil {
			set.Keys = append(set.Keys, fs[i].Name)
			set.Items = append(set.Items, s.refEncode(fs[i].Type, o.set))
		}
	}
	for _, n := range append(append([]string{}, p.unknown...), p.delNames...) {
		dels = append(dels, &Doc{Kind: "str", S: n})
	}
	if r != nil {
		for i := len(dels) - 1; i > 0; i-- {
			j := r.Intn(i + 1)
			dels[i], dels[j] = dels[j], dels[i]
		}
	}
	if len(dels) > 0 {
		d.Keys = append(d.Keys, "$delete")
		d.Items = append(d.Items, &Doc{Kind: "arr", Items: dels})
	}
	if len(set.Keys) > 0 {
		d.Keys = append(d.Keys, "$set")
		d.Items = append(d.Items, set)
	}
	for i, o := range p.ops {
		if o.nested != nil {
			d.Keys = append(d.Keys, fs[i].Name)
			d.Items = append(d.Items, s.patDoc(o.nested, r))
		}
	}
	if r != nil {
		for i := len(d.Keys) - 1; i > 0; i-- {
			j := r.Intn(i + 1)
			d.Keys[i], d.Keys[j] = d.Keys[j], d.Keys[i]
			d.Items[i], d.Items[j] = d.Items[j], d.Items[i]
		}
	}
	return d
}

// assignment -> generated struct (root layout: Delete_Fields{<F> bool} (absent when nothing is deletable), Set_Fields{<F> *T}, <F> *X_PartialUpdate)
func (s *Schema) patToGo(p *pat, dst reflect.Value) {
	fs := s.flatFieldsOf(p.rec)
	for i, o := range p.ops {
		name := goFieldName(fs[i].Name)
		if o.del {
			dst.FieldByName("Delete_Fields").FieldByName(name).SetBool(true)
		}
		if o.set != nil {
			s.toGo(fs[i].Type, o.set, dst.FieldByName("Set_Fields").FieldByName(name))
		}
		if o.nested != nil {
			f := dst.FieldByName(name)
			f.Set(reflect.New(f.Type().Elem()))
			s.patToGo(o.nested, f.Elem())
		}
	}
}

func (s *Schema) patFromGo(rec string, src reflect.Value) *pat {
	fs := s.flatFieldsOf(rec)
	p := &pat{rec: rec, ops: make([]patOp, len(fs))}
	for i, f := range fs {
		name := goFieldName(f.Name)
		if df := src.FieldByName("Delete_Fields"); df.IsValid() {
			if b := df.FieldByName(name); b.IsValid() {
				p.ops[i].del = b.Bool()
			}
		}
		p.ops[i].set = s.fromGo(f.Type, src.FieldByName("Set_Fields").FieldByName(name))
		if sub := s.recordOf(f.Type); sub != "" {
			if n := src.FieldByName(name); n.IsValid() && !n.IsNil() {
				p.ops[i].nested = s.patFromGo(sub, n.Elem())
			}
		}
	}
	return p
}

// got: decoded by the library; want: the assignment (a decoded $set value has the schema defaults filled in, like any decoded value)
func (s *Schema) patEq(got, want *pat) bool {
	if got == nil || want == nil {
		return got == nil && want == nil
	}
	if len(got.ops) != len(want.ops) {
		return false
	}
	fs := s.flatFieldsOf(want.rec)
	for i := range got.ops {
		x, y := got.ops[i], want.ops[i]
		if x.del != y.del || !valEq(x.set, s.fillDefaults(fs[i].Type, y.set)) || !s.patEq(x.nested, y.nested) {
			return false
		}
	}
	return true
}

func (s *Schema) patDescribe(p *pat) interface{} {
	fs := s.flatFieldsOf(p.rec)
	m := map[string]interface{}{}
	for i, o := range p.ops {
		var ops []interface{}
		if o.del {
			ops = append(ops, "delete")
		}
		if o.set != nil {
			ops = append(ops, map[string]interface{}{"set": o.set.fixJSON()})
		}
		if o.nested != nil {
			ops = append(ops, map[string]interface{}{"patch": s.patDescribe(o.nested)})
		}
		if len(ops) > 0 {
			m[fs[i].Name] = ops
		}
	}
	if len(p.delNames) > 0 {
		m["$delete(required)"] = p.delNames
	}
	if len(p.unknown) > 0 {
		m["$delete(unknown)"] = p.unknown
	}
	return m
}

type patchMarshaler interface {
	MarshalRestLiPatch(restlicodec.Writer) error
}
type patchUnmarshaler interface {
	UnmarshalRestLiPatch(restlicodec.Reader) error
}

// generic JSON equality of two texts (object member order and number spelling aside from json.Number text)
func sameJSON(a, b string) bool {
	var x, y interface{}
	da := json.NewDecoder(strings.NewReader(a))
	da.UseNumber()
	db := json.NewDecoder(strings.NewReader(b))
	db.UseNumber()
	if da.Decode(&x) != nil || db.Decode(&y) != nil {
		return false
	}
	return reflect.DeepEqual(normJSON(x), normJSON(y))
}

// $delete lists are sets: sort them
func normJSON(x interface{}) interface{} {
	switch v := x.(type) {
	case map[string]interface{}:
		for k, e := range v {
			if k == "$delete" {
				if l, ok := e.([]interface{}); ok {
					ss := make([]string, 0, len(l))
					for _, i := range l {
						ss = append(ss, fmt.Sprint(i))
					}
					sort.Strings(ss)
					v[k] = strings.Join(ss, ",")
					continue
				}
			}
			v[k] = normJSON(e)
		}
		return v
	case []interface{}:
		for i := range v {
			v[i] = normJSON(v[i])
		}
		return v
	case json.Number:
		return v.String()
	}
	return x
}

func runRootPatch(cfg *hx.Config) {
	rep := hx.NewReport("ROOT bindings, partial updates: for every record type of the family (fields flattened through includes) seeded assignments of a subset of " +
		"{delete, set v, nested patch} to each field (recursively, depth <= 2), legal ones and ones carrying exactly one illegality (two operations on one field; a touched " +
		"excluded field; documents only: $delete naming a required field), x (a) MarshalRestLiPatch with the compact JSON writer (with / without excluded fields): fails iff " +
		"illegal, else the output is the patch document of the assignment; (b) the patch document (independent renderer, keys permuted, JSON and ROR2) through " +
		"UnmarshalRestLiPatch (with / without excluded fields): fails iff illegal, else yields the assignment back. Oracle only (the v2 patch model does not describe the root " +
		"generator's code). non-trivial = the assignment is illegal or has a nested patch; distinct by (type, document)")
	r := hx.NewRand(cfg.Seed)
	n := 60
	if cfg.Thorough() {
		n = 1200
	}
	var recs []string
	for _, name := range schema.Order {
		if schema.Types[name].Kind == "record" {
			recs = append(recs, name)
		}
	}
	for _, rec := range recs {
		T, ok := patchRegistry[rec]
		if !ok {
			continue
		}
		fs := schema.flatFieldsOf(rec)
		for i := 0; i < n; i++ {
			mode := []int{0, 0, 1, 2}[r.Intn(4)]
			p := schema.genPat(r, rec, 2, mode, true)
			// exclusion: sometimes exclude one top-level field (touched or not)
			excl := map[string]bool{}
			var spec restlicodec.PathSpec
			var exclNames []string
			if mode == 0 && r.Chance(35) && len(fs) > 0 {
				f := fs[r.Intn(len(fs))].Name
				excl[f] = true
				exclNames = []string{f}
				spec = restlicodec.NewPathSpec(f)
			}
			why := schema.patIllegal(p, excl)
			doc := schema.patDoc(p, r)
			desc := map[string]interface{}{"type": rec, "assignment": schema.patDescribe(p), "excluded": exclNames, "module": "root"}
			nested := false
			for _, o := range p.ops {
				nested = nested || o.nested != nil
			}
			rep.Count("illegal=" + why)

			// ---- (a) encode (the struct cannot express $delete of a required field / unknown names)
			if len(p.delNames) == 0 && len(p.unknown) == 0 {
				ptr := reflect.New(T)
				schema.patToGo(p, ptr.Elem())
				var out string
				var err error
				var pn interface{}
				func() {
					defer func() { pn = recover() }()
					w := restlicodec.NewCompactJsonWriterWithExcludedFields(spec)
					err = ptr.Interface().(patchMarshaler).MarshalRestLiPatch(w)
					if err == nil {
						out = w.Finalize()
					}
				}()
				rep.Evaluations++
				want := schema.patDoc(p, nil)
				cd := map[string]interface{}{"op": "encode", "case": desc, "out": out}
				site := "codegen/types/record_partial_update.go (root) MarshalRestLiPatch"
				switch {
				case pn != nil:
					rep.Fail("patch:panic:encode", "MarshalRestLiPatch panicked", site, cd, fmt.Sprint(pn))
				case why != "" && err == nil:
					rep.Fail("patch:encode-accepts-illegal:"+why, "an illegal partial update was emitted", site, cd, nil)
				case why == "" && err != nil:
					rep.Fail("patch:encode-rejects-legal", "a legal partial update was rejected by the encoder", site, cd, err.Error())
				case why == "" && want.jsonOK() && !sameJSON(out, want.render(0, nil, false)):
					rep.Fail("patch:encode-wrong-shape", "the emitted patch is not the $delete / $set / nested shape of the assignment", site, cd, want.render(0, nil, false))
				}
			}

			// ---- (b) decode
			for _, f := range []int{0, 2} {
				if f == 0 && !doc.jsonOK() {
					continue
				}
				text := doc.render(f, r, false)
				ptr := reflect.New(T)
				var err error
				var pn interface{}
				func() {
					defer func() { pn = recover() }()
					var rd restlicodec.Reader
					rd, err = newReader(f, text, spec, 0)
					if err != nil {
						return
					}
					err = ptr.Interface().(patchUnmarshaler).UnmarshalRestLiPatch(rd)
				}()
				rep.Evaluations++
				rep.Distinct(rec+formats[f]+text, why != "" || nested)
				cd := map[string]interface{}{"op": "decode", "format": formats[f], "document": text, "case": desc}
				site := "codegen/types/record_partial_update.go (root) UnmarshalRestLiPatch"
				switch {
				case pn != nil:
					rep.Fail("patch:panic:decode", "UnmarshalRestLiPatch panicked", site, cd, fmt.Sprint(pn))
				case why != "" && err == nil:
					rep.Fail("patch:decode-accepts-illegal:"+why, "a document denoting an illegal partial update was accepted", site, cd, nil)
				case why == "" && err != nil:
					rep.Fail("patch:decode-rejects-legal", "a document denoting a legal partial update was rejected", site, cd, err.Error())
				case why == "":
					got := schema.patFromGo(rec, ptr.Elem())
					if !schema.patEq(got, p) {
						rep.Fail("patch:decode-wrong-value", "the decoded partial update is not the assignment the document denotes", site, cd, schema.patDescribe(got))
					}
				}
				if why != "" && f == 0 {
					rep.Sample(cd)
				}
			}
		}
	}
	rep.Write(cfg.Out)
}
