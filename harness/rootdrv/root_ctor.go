package main

// the correspondence glue the constructor cases of mode c13 are written for (ROOT module): Corr/RootCtorCorr.v evaluates Codec/Ctor.v on
// the flattened family environment of Corr/RootCorr.v (case format of Corr/CtorCorr.v).
func ctorCorr() (header, module string) {
	return "From Coq Require Import List ZArith NArith. Import ListNotations.\nFrom Coq.Strings Require Import Byte.\n" +
		"From GR Require Import Base.Bytes Base.Res Codec.Schema Gen.FamEnv Corr.CtorCorr Corr.RootCtorCorr.\n", "RootCtorCorr"
}
