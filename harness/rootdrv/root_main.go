// rootdrv: the codec driver for the ROOT module generation (github.com/PapaCharlie/go-restli, not .../v2).
//
// This package is never built in place: checks/rootcodec.py assembles it in a scratch module `verifgenroot` from
//   - harness/codecdrv/{main,val,gen,schema,defaults,refdoc,c01,c04,c06,c07,c11,c13}.go, copied with the import paths rewritten to the
//     root module (so the value generators, the independent reference renderer, the property oracles and the case writers are the
//     SAME source as for v2),
//   - the files of this directory (what differs in the root generation), and
//   - root_registry.go, generated from checks/family.py.
// It is compiled against the bindings the REAL root generator (cmd.GenerateCode) just produced from the family.
//
// Differences of the root generation that matter here (found by diffing restlicodec/ and codegen/types/ of both generations):
//   * included records arrive flattened in the spec: the generated struct embeds every DECLARING record directly (Incl2 embeds
//     Inner, Dflt and Incl; the copies nested inside Incl are never read or written), MarshalRestLi writes ALL fields in one
//     WriteMap in name order, UnmarshalRestLi is one switch over all fields, the required-field list and
//     populateLocalDefaultValues range over all flattened fields (so defaults of included records ARE filled: the v2 finding
//     "included-record-defaults-not-filled" does not exist here) -> root_val.go
//   * genericWriter.WriteMap streams the entries in the order supplied (v2 buffers and sorts); the order of members is whatever
//     the generated code supplies (Corr/RootCorr.v compares modulo member order)
//   * Reader.ReadRecord takes RequiredFields ([]string) by value; no NoSuchFieldErr; no custom typerefs; the query writer is a
//     RestLiQueryParamsWriter (also a Writer); partial-update helpers live in restli/ (not used here)
//   * the readers (json_reader.go, ror2_reader.go, query_reader.go, any_reader.go, missing_fields.go, pathspec.go) are the same code
package main

import (
	"fmt"
	"os"
	"regexp"
	"sort"
	"unicode/utf8"

	"verifgenroot/hx"
)

var schema *Schema

// float texts every case may meet: the reserved strings and the numbers of the schema's default literals
var baseTexts = []string{"NaN", "Infinity", "-Infinity"}

func collectDefaultNumbers() {
	re := regexp.MustCompile(`-?[0-9]+(\.[0-9]+)?([eE][+-]?[0-9]+)?`)
	for _, n := range schema.Types {
		for _, f := range n.Fields {
			if f.DefaultValue != nil {
				baseTexts = append(baseTexts, re.FindAllString(*f.DefaultValue, -1)...)
			}
		}
	}
	sort.Strings(baseTexts)
}

// are all STRINGS and map keys valid UTF-8 (bytes and fixed values may hold anything in every format)
func allValidUtf8(v *Val) bool {
	var ss []string
	v.textStrings(&ss)
	for _, s := range ss {
		if !utf8.ValidString(s) {
			return false
		}
	}
	return true
}

func main() {
	cfg := hx.ParseFlags()
	schema = loadSchema(os.Getenv("VERIF_SCHEMA"))
	collectDefaultNumbers()
	mode := os.Getenv("VERIF_MODE")
	switch mode {
	case "c01":
		runC01(cfg)
	case "c04":
		runC04(cfg)
	case "c06":
		runC06(cfg)
	case "c07":
		runC07(cfg)
	case "c11":
		runC11(cfg)
	case "c11p":
		runRootPatch(cfg)
	case "c13":
		runC13(cfg)
	case "c10":
		runC10(cfg)
	case "c16":
		runC16(cfg)
	default:
		fmt.Fprintln(os.Stderr, "unknown VERIF_MODE", mode)
		os.Exit(2)
	}
}
