package main

import (
	"fmt"
	"strings"
)

// Headers of the cases files of modes c10 / c16 for the ROOT bindings (the shared c10Header / c16Header are renamed ...Shared by
// checks/rootcodec.py).  The family is printed in the schema's shape exactly as for v2 (c10Env); what differs is the glue:
// Corr/RootHashCorr.v / Corr/RootKeySetCorr.v flatten the environment and the values (the root generator sees flattened records) and
// need to know which environment entries are complex keys (own field $params BEFORE the key record's fields).
func rootCks() string {
	var idx []string
	for _, name := range schema.Order {
		n := schema.Types[name]
		// c10PatchSchema turned complex keys into records: includes = [Key], fields = [params]
		if n.Kind == "record" && n.Key != "" {
			idx = append(idx, fmt.Sprint(c10EnvIndex[name]))
		}
	}
	return "[" + strings.Join(idx, ";") + "]"
}

func rootHashPrelude(extraImports string) string {
	return "From Coq Require Import List ZArith NArith. Import ListNotations.\nFrom Coq.Strings Require Import Byte.\n" +
		"From GR Require Import Base.Bytes Codec.Schema Hash.Fnv " + extraImports + ".\n" +
		"Definition fam_henv : henv :=\n " + c10Env() + ".\n" +
		"Definition fam_cks : list nat := " + rootCks() + ".\n" +
		"Definition fam_fhenv : henv := Eval vm_compute in RootHashCorr.hflat_env fam_henv fam_cks RootHashCorr.fuel0.\n"
}

func c10Header(corr string) string {
	if corr != "HashCorr" {
		panic("root c10Header: unexpected correspondence module " + corr)
	}
	return rootHashPrelude("Corr.RootHashCorr") +
		"Module HashCorrI.\n Definition case := RootHashCorr.case.\n Definition mismatches := RootHashCorr.mismatches fam_henv fam_cks fam_fhenv.\n" +
		" Definition model_out := RootHashCorr.model_out fam_henv fam_cks fam_fhenv.\n Definition select := @RootHashCorr.select RootHashCorr.case.\nEnd HashCorrI.\n"
}

func c16Header() string {
	// the flattened codec environment: the flattened family (Corr/RootCorr.v) + the complex key as the record the ROOT generator
	// makes of it (complexkey.go: $params first, then the key record's fields)
	inner := schema.EnvIndex["Inner"]
	ck := fmt.Sprintf("Definition ck_fenv : env := RootCorr.fam_env_root ++ [DRecord [] ({| f_name := %s; f_ty := TRef %d; f_opt := Optional |} :: RootCorr.flat_fields fam_env RootCorr.fuel0 %d)].\n",
		coqBytes("$params"), inner, inner)
	// (fam_henv) in parentheses: runC16 patches the v2 header by substring ("KeySetCorr.mismatches fam_henv"), which must not match here
	return rootHashPrelude("Gen.FamEnv Hash.KeySet Corr.RootCorr Corr.RootHashCorr Corr.RootKeySetCorr") + ck +
		"Module KeySetCorrI.\n Definition case := RootKeySetCorr.case.\n Definition mismatches := RootKeySetCorr.mismatches (fam_henv) fam_cks fam_fhenv ck_fenv.\n" +
		" Definition model_out := RootKeySetCorr.model_out (fam_henv) fam_cks fam_fhenv ck_fenv.\n Definition select := @RootKeySetCorr.select RootKeySetCorr.case.\nEnd KeySetCorrI.\n"
}
