module verif/harness

go 1.18

require (
	github.com/PapaCharlie/go-restli v0.0.0
	github.com/PapaCharlie/go-restli/v2 v2.0.0
)

replace github.com/PapaCharlie/go-restli => /repo

replace github.com/PapaCharlie/go-restli/v2 => /repo/v2
