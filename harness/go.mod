module verif/harness

go 1.18

require (
	github.com/PapaCharlie/go-restli v0.0.0
	github.com/PapaCharlie/go-restli/v2 v2.0.0
)

require (
	github.com/dave/jennifer v1.7.0 // indirect
	github.com/pkg/errors v0.9.1 // indirect
)

replace github.com/PapaCharlie/go-restli => /repo

replace github.com/PapaCharlie/go-restli/v2 => /repo/v2
