package main

import (
	"fmt"
	"os"
	"regexp"
	"sort"
	"unicode/utf8"

	"verifgen/hx"
)

var schema *Schema

// float texts every case may meet: the reserved strings and the numbers of the schema's default literals
var baseTexts = []string{"NaN", "Infinity", "-Infinity"}

func collectDefaultNumbers() {
	re := regexp.MustCompile(`-?[0-9]+(\.[0-9]+)?([eE][+-]?[0-9]+)?`)
	for _, n := range schema.Types {
		for _, f := range n.Fields {
			if f.DefaultValue != nil {
				baseTexts = append(baseTexts, re.FindAllString(*f.DefaultValue, -1)...)
			}
		}
	}
	sort.Strings(baseTexts)
}

// are all STRINGS and map keys valid UTF-8 (bytes and fixed values may hold anything in every format)
func allValidUtf8(v *Val) bool {
	var ss []string
	v.textStrings(&ss)
	for _, s := range ss {
		if !utf8.ValidString(s) {
			return false
		}
	}
	return true
}

func main() {
	if os.Getenv("VERIF_MODE") == "canyprobe" {
		// child process of mode cany (any.go): one self-containing value, outcome printed as one JSON line
		schema = loadSchema(os.Getenv("VERIF_SCHEMA"))
		runCAnyProbe()
		return
	}
	cfg := hx.ParseFlags()
	schema = loadSchema(os.Getenv("VERIF_SCHEMA"))
	collectDefaultNumbers()
	mode := os.Getenv("VERIF_MODE")
	switch mode {
	case "c01":
		runC01(cfg)
	case "c03":
		runC03(cfg)
	case "c04":
		runC04(cfg)
	case "c06":
		runC06(cfg)
	case "c07":
		runC07(cfg)
	case "c09":
		runC09(cfg)
	case "c10":
		runC10(cfg)
	case "c11":
		runC11(cfg)
	case "c11p":
		runC11P(cfg)
	case "c13":
		runC13(cfg)
	case "c16":
		runC16(cfg)
	case "cany":
		runCAny(cfg)
	default:
		fmt.Fprintln(os.Stderr, "unknown VERIF_MODE", mode)
		os.Exit(2)
	}
}
