package main

import (
	"encoding/json"
	"math"
	"sort"
	"strings"
)

// expected value of decode(encode(v)): v with the schema default filled into every defaulted field left unset
// (property text of C01/C13: "which decoding always does") - computed independently of the library, from the literal.
func (s *Schema) fillDefaults(t RType, v *Val) *Val { return s.fill(t, v, true) }

// what the generated code does today: populateLocalDefaultValues of an INCLUDED record is never called by the including
// record's UnmarshalRestLi (known finding D28); used only to classify a round-trip difference narrowly
func (s *Schema) fillDefaultsAsGenerated(t RType, v *Val) *Val { return s.fill(t, v, false) }

// New...WithDefaultValues: own defaults, and recursively those of REQUIRED record fields (the property: "direct, nested required
// records, included records")
func (s *Schema) fillDefaultsCtor(t RType, v *Val) *Val {
	out := s.fill(t, v, true)
	n := s.Types[t.Reference.Name]
	if n != nil && n.Kind == "record" {
		for i, inc := range n.Includes {
			out.Incs[i] = s.fillDefaultsCtor(ref(inc), out.Incs[i])
		}
		for i, f := range n.Fields {
			if f.Type.Reference != nil && s.Types[f.Type.Reference.Name].Kind == "record" && !f.IsOptional && f.DefaultValue == nil {
				out.Fields[i] = s.fillDefaultsCtor(f.Type, out.Fields[i])
			}
		}
	}
	return out
}

// what the generated constructor does today, derived from the full expectation `want`: a required record-typed field is
// default-constructed only when ITS record declares a default itself (hasDefaultValue looks at own fields only); otherwise the field
// keeps the zero value and the defaults further down that chain are not reached
func (s *Schema) ctorAsGenerated(t RType, zero, want *Val) *Val {
	if want == nil || zero == nil || t.Reference == nil {
		return want
	}
	n := s.Types[t.Reference.Name]
	if n == nil || n.Kind != "record" {
		return want
	}
	out := *want
	out.Incs = append([]*Val{}, want.Incs...)
	out.Fields = append([]*Val{}, want.Fields...)
	for i, f := range n.Fields {
		if f.Type.Reference != nil && s.Types[f.Type.Reference.Name].Kind == "record" && !f.IsOptional && f.DefaultValue == nil {
			own := false
			for _, g := range s.Types[f.Type.Reference.Name].Fields {
				if g.DefaultValue != nil {
					own = true
				}
			}
			if own {
				out.Fields[i] = s.ctorAsGenerated(f.Type, zero.Fields[i], want.Fields[i])
			} else {
				out.Fields[i] = zero.Fields[i]
			}
		}
	}
	return &out
}

func (s *Schema) fill(t RType, v *Val, intoIncludes bool) *Val {
	return s.fill2(t, v, intoIncludes, true)
}

func (s *Schema) fill2(t RType, v *Val, intoIncludes bool, own bool) *Val {
	if v == nil {
		return nil
	}
	switch {
	case t.Primitive != "":
		return v
	case t.Array != nil:
		out := &Val{K: "arr"}
		for _, x := range v.Items {
			out.Items = append(out.Items, s.fill2(*t.Array, x, intoIncludes, true))
		}
		return out
	case t.Map != nil:
		out := &Val{K: "map", Keys: v.Keys}
		for _, x := range v.Items {
			out.Items = append(out.Items, s.fill2(*t.Map, x, intoIncludes, true))
		}
		return out
	}
	n := s.Types[t.Reference.Name]
	switch n.Kind {
	case "record":
		out := &Val{K: "rec"}
		for i, inc := range n.Includes {
			out.Incs = append(out.Incs, s.fill2(ref(inc), v.Incs[i], intoIncludes, own && intoIncludes))
		}
		for i, f := range n.Fields {
			x := v.Fields[i]
			if x == nil && f.DefaultValue != nil && own {
				var raw interface{}
				dec := json.NewDecoder(bytesReader(*f.DefaultValue))
				dec.UseNumber()
				if err := dec.Decode(&raw); err != nil {
					panic(err)
				}
				x = s.literal(f.Type, raw)
			}
			out.Fields = append(out.Fields, s.fill2(f.Type, x, intoIncludes, true))
		}
		return out
	case "standaloneUnion":
		out := &Val{K: "union"}
		for i, m := range n.Members {
			out.Fields = append(out.Fields, s.fill2(m.Type, v.Fields[i], intoIncludes, true))
		}
		return out
	}
	return v
}

func bytesReader(s string) *strings.Reader { return strings.NewReader(s) }

// a JSON literal as a value of type t (records: absent optional fields are unset; nested defaults are filled by fillDefaults)
func (s *Schema) literal(t RType, raw interface{}) *Val {
	switch {
	case t.Primitive != "":
		return literalPrim(t.Primitive, raw)
	case t.Array != nil:
		out := &Val{K: "arr"}
		for _, x := range raw.([]interface{}) {
			out.Items = append(out.Items, s.literal(*t.Array, x))
		}
		return out
	case t.Map != nil:
		out := &Val{K: "map"}
		m := raw.(map[string]interface{})
		keys := make([]string, 0, len(m))
		for k := range m {
			keys = append(keys, k)
		}
		sort.Strings(keys)
		for _, k := range keys {
			out.Keys = append(out.Keys, k)
			out.Items = append(out.Items, s.literal(*t.Map, m[k]))
		}
		return out
	}
	n := s.Types[t.Reference.Name]
	switch n.Kind {
	case "enum":
		for i, sym := range n.Symbols {
			if sym == raw.(string) {
				return &Val{K: "enum", Z: int64(i + 1)}
			}
		}
		return &Val{K: "enum", Z: 0}
	case "fixed":
		return &Val{K: "fixed", S: latin1(raw.(string))}
	case "typeref":
		return literalPrim(n.Prim, raw)
	case "record":
		m := raw.(map[string]interface{})
		out := &Val{K: "rec"}
		for _, inc := range n.Includes {
			out.Incs = append(out.Incs, s.literal(ref(inc), raw))
		}
		for _, f := range n.Fields {
			x, ok := m[f.Name]
			if !ok || x == nil {
				out.Fields = append(out.Fields, nil)
			} else {
				out.Fields = append(out.Fields, s.literal(f.Type, x))
			}
		}
		return out
	case "standaloneUnion":
		m := raw.(map[string]interface{})
		out := &Val{K: "union"}
		for _, mem := range n.Members {
			x, ok := m[mem.Alias]
			if !ok {
				out.Fields = append(out.Fields, nil)
			} else {
				out.Fields = append(out.Fields, s.literal(mem.Type, x))
			}
		}
		return out
	}
	panic("literal")
}

func latin1(s string) string {
	b := make([]byte, 0, len(s))
	for _, r := range s {
		b = append(b, byte(r))
	}
	return string(b)
}

func literalPrim(p string, raw interface{}) *Val {
	switch p {
	case "int32":
		n, _ := raw.(json.Number).Int64()
		return &Val{K: "int", Z: n}
	case "int64":
		n, _ := raw.(json.Number).Int64()
		return &Val{K: "long", Z: n}
	case "float32":
		f, _ := raw.(json.Number).Float64()
		return &Val{K: "float", Bits: uint64(math.Float32bits(float32(f)))}
	case "float64":
		f, _ := raw.(json.Number).Float64()
		return &Val{K: "double", Bits: math.Float64bits(f)}
	case "bool":
		return &Val{K: "bool", B: raw.(bool)}
	case "string":
		return &Val{K: "str", S: raw.(string)}
	case "bytes":
		return &Val{K: "bytes", S: latin1(raw.(string))}
	}
	panic(p)
}
