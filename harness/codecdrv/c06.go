package main

import (
	"encoding/json"
	"fmt"
	"math"
	"reflect"
	"sort"
	"strings"

	"github.com/PapaCharlie/go-restli/v2/restlicodec"
	"verifgen/hx"
)

var recordTops = []string{"Inner", "Prims", "Opts", "Dflt", "Coll", "WithU", "Incl", "Incl2", "Rec", "Big", "IX", "IY"}

// C06 also reads the record-typed-default family (DEmp) and the WIDE record (70 required fields, 36 through an include)
var c06Tops = append(append([]string{}, recordTops...), "DEmp", "Wide", "Alias", "Alias2", "D1", "ONest")

// delete / null / permute / inject on a conforming document
func mutateDoc(s *Schema, t RType, d *Doc, r *hx.Rand, allowNull bool) (*Doc, string) {
	d = d.clone()
	var objs []objRef
	s.objects(t, d, "", &objs)
	var notes []string
	for _, o := range objs {
		// delete a random subset of entries
		if len(o.d.Keys) > 0 && r.Chance(70) {
			var keys []string
			var items []*Doc
			for i, k := range o.d.Keys {
				switch {
				case r.Chance(25):
					notes = append(notes, "del:"+joinPath(o.path, k))
				case allowNull && r.Chance(10):
					notes = append(notes, "null:"+joinPath(o.path, k))
					keys = append(keys, k)
					items = append(items, &Doc{Kind: "null"})
				default:
					keys = append(keys, k)
					items = append(items, o.d.Items[i])
				}
			}
			o.d.Keys, o.d.Items = keys, items
		}
		// inject unknown fields into records
		if o.rec != "" && r.Chance(40) {
			unk := []*Doc{{Kind: "int", Z: 7}, {Kind: "str", S: "x(y"}, {Kind: "obj", Keys: []string{"a", "b"}, Items: []*Doc{{Kind: "int", Z: 1}, {Kind: "arr", Items: []*Doc{{Kind: "str", S: ""}}}}},
				{Kind: "arr", Items: []*Doc{{Kind: "obj"}, {Kind: "int", Z: 2}}}, {Kind: "arr"}, {Kind: "obj"}}
			k := []string{"zzUnknown", "aUnknown", "unknown_" + fmt.Sprint(r.Intn(9))}[r.Intn(3)]
			if _, known := s.fieldType(o.rec, k); !known {
				pos := r.Intn(len(o.d.Keys) + 1)
				o.d.Keys = append(o.d.Keys[:pos], append([]string{k}, o.d.Keys[pos:]...)...)
				o.d.Items = append(o.d.Items[:pos], append([]*Doc{unk[r.Intn(len(unk))]}, o.d.Items[pos:]...)...)
				notes = append(notes, "inject:"+joinPath(o.path, k))
			}
		}
		// permute
		if r.Chance(60) {
			for i := len(o.d.Keys) - 1; i > 0; i-- {
				j := r.Intn(i + 1)
				o.d.Keys[i], o.d.Keys[j] = o.d.Keys[j], o.d.Keys[i]
				o.d.Items[i], o.d.Items[j] = o.d.Items[j], o.d.Items[i]
			}
		}
	}
	return d, strings.Join(notes, " ")
}

// the untyped reader: the JSON rendering unmarshalled into `any`
func decodeAny(tname string, jsonText string) (oc outcome, v *Val) {
	var x interface{}
	if err := json.Unmarshal([]byte(jsonText), &x); err != nil {
		return outcome{Class: "err", Text: err.Error()}, nil
	}
	return decodeAnyX(tname, x, nil, 0)
}

// NewInterfaceReaderWithExcludedFields(x, spec, ignore) + the generated UnmarshalRestLi of tname
func decodeAnyX(tname string, x interface{}, spec restlicodec.PathSpec, ignore int) (oc outcome, v *Val) {
	var err error
	var p interface{}
	ptr := reflect.New(registry[tname])
	func() {
		defer func() { p = recover() }()
		err = ptr.Interface().(restlicodec.Unmarshaler).UnmarshalRestLi(restlicodec.NewInterfaceReaderWithExcludedFields(x, spec, ignore))
	}()
	oc = classify(err, p)
	if oc.Class == "ok" || oc.Class == "missing" {
		v = schema.fromGo(ref(tname), ptr.Elem())
	}
	return oc, v
}

// ---- exclusion specs (read-only / create-only fields of a create or update request)

// is the path (field names, map keys, union aliases; "*" for array items) excluded for a reader constructed with the
// directives and leadingScopeToIgnore = ignore: the first `ignore` segments are not matched
func pathExcluded(ds []string, ignore int, segs []string) bool {
	return len(segs) > ignore && specExcludes(ds, segs[ignore:])
}

func okDirectiveKey(k string) bool {
	return k != "" && k != "*" && k != "$set" && k != "$delete" && !strings.ContainsAny(k, "/")
}

type fieldPath struct {
	segs     []string
	required bool
}

// the paths of the record fields met along the document (present or not), required ones flagged; array items are "*", map keys are
// the key (sometimes "*")
func (s *Schema) fieldPaths(r *hx.Rand, t RType, d *Doc, segs []string, out *[]fieldPath) {
	sub := func(k string) []string { return append(append([]string{}, segs...), k) }
	switch {
	case t.Primitive != "":
	case t.Array != nil:
		if d == nil || d.Kind != "arr" {
			return
		}
		for _, x := range d.Items {
			s.fieldPaths(r, *t.Array, x, sub("*"), out)
		}
	case t.Map != nil:
		if d == nil || d.Kind != "obj" {
			return
		}
		for i, x := range d.Items {
			if !okDirectiveKey(d.Keys[i]) {
				continue
			}
			k := d.Keys[i]
			if r.Chance(30) {
				k = "*"
			}
			s.fieldPaths(r, *t.Map, x, sub(k), out)
		}
	default:
		n := s.Types[t.Reference.Name]
		switch n.Kind {
		case "record":
			req := map[string]bool{}
			for _, f := range s.requiredOf(n.Name) {
				req[f] = true
			}
			var walk func(rec string)
			walk = func(rec string) {
				m := s.Types[rec]
				for _, inc := range m.Includes {
					walk(inc)
				}
				for _, f := range m.Fields {
					*out = append(*out, fieldPath{sub(f.Name), req[f.Name]})
					if d != nil && d.Kind == "obj" {
						for i, k := range d.Keys {
							if k == f.Name {
								s.fieldPaths(r, f.Type, d.Items[i], sub(k), out)
							}
						}
					}
				}
			}
			walk(n.Name)
		case "standaloneUnion":
			if d == nil || d.Kind != "obj" {
				return
			}
			for i, k := range d.Keys {
				for _, m := range n.Members {
					if m.Alias == k {
						s.fieldPaths(r, m.Type, d.Items[i], sub(k), out)
					}
				}
			}
		}
	}
}

// the document without any member at an excluded path (what a well-behaved peer sends when those fields are read-only)
func pruneExcluded(d *Doc, ds []string, ignore int, segs []string) *Doc {
	c := *d
	c.Keys, c.Items = nil, nil
	switch d.Kind {
	case "obj":
		for i, k := range d.Keys {
			p := append(append([]string{}, segs...), k)
			if pathExcluded(ds, ignore, p) {
				continue
			}
			c.Keys = append(c.Keys, k)
			c.Items = append(c.Items, pruneExcluded(d.Items[i], ds, ignore, p))
		}
	case "arr":
		for _, x := range d.Items {
			c.Items = append(c.Items, pruneExcluded(x, ds, ignore, append(append([]string{}, segs...), "*")))
		}
	}
	return &c
}

// every object with its members in the opposite order
func reverseDoc(d *Doc) *Doc {
	c := *d
	c.Keys, c.Items = nil, nil
	for i := len(d.Items) - 1; i >= 0; i-- {
		if d.Kind == "obj" {
			c.Keys = append(c.Keys, d.Keys[i])
		}
		c.Items = append(c.Items, nil)
	}
	for i, x := range d.Items {
		j := i
		if d.Kind == "obj" {
			j = len(d.Items) - 1 - i
		}
		c.Items[j] = reverseDoc(x)
	}
	return &c
}

// the property's own definition of the expected error under an exclusion spec: every required field, at any depth, that is absent
// or null and whose path is not excluded, by its full path (independent of the library)
func (s *Schema) missingUnder(t RType, d *Doc, path string, segs []string, ds []string, ignore int, out *[]string) {
	sub := func(k string) []string { return append(append([]string{}, segs...), k) }
	switch {
	case t.Primitive != "":
	case t.Array != nil:
		if d == nil || d.Kind != "arr" {
			return
		}
		for i, x := range d.Items {
			s.missingUnder(*t.Array, x, fmt.Sprintf("%s[%d]", path, i), sub("*"), ds, ignore, out)
		}
	case t.Map != nil:
		if d == nil || d.Kind != "obj" {
			return
		}
		for i, x := range d.Items {
			if x.Kind != "null" {
				s.missingUnder(*t.Map, x, joinPath(path, d.Keys[i]), sub(d.Keys[i]), ds, ignore, out)
			}
		}
	default:
		n := s.Types[t.Reference.Name]
		switch n.Kind {
		case "record":
			present := map[string]*Doc{}
			if d != nil && d.Kind == "obj" {
				for i, k := range d.Keys {
					if d.Items[i].Kind != "null" {
						present[k] = d.Items[i]
					}
				}
			}
			for _, f := range s.requiredOf(n.Name) {
				if _, ok := present[f]; !ok && !pathExcluded(ds, ignore, sub(f)) {
					*out = append(*out, joinPath(path, f))
				}
			}
			for k, x := range present {
				if ft, ok := s.fieldType(n.Name, k); ok {
					s.missingUnder(ft, x, joinPath(path, k), sub(k), ds, ignore, out)
				}
			}
		case "standaloneUnion":
			if d == nil || d.Kind != "obj" {
				return
			}
			for i, k := range d.Keys {
				for _, m := range n.Members {
					if m.Alias == k && d.Items[i].Kind != "null" {
						s.missingUnder(m.Type, d.Items[i], joinPath(path, k), sub(k), ds, ignore, out)
					}
				}
			}
		}
	}
	sort.Strings(*out)
}

// ---- maps and slices of CONCRETE element type for the untyped reader (it accepts any map with string keys, any slice)

// the same tree in which a map / slice whose members all have the same dynamic type T becomes a map[string]T / []T (probability p
// per node; integral numbers may become an int type); n counts the converted nodes
func typify(r *hx.Rand, x interface{}, p int, n *int) interface{} {
	switch y := x.(type) {
	case map[string]interface{}:
		keys := make([]string, 0, len(y))
		for k := range y {
			keys = append(keys, k)
		}
		sort.Strings(keys)
		kids := make(map[string]interface{}, len(y))
		vals := make([]interface{}, len(keys))
		for i, k := range keys {
			vals[i] = typify(r, y[k], p, n)
			kids[k] = vals[i]
		}
		if len(keys) > 0 && r.Chance(p) {
			if el, ok := commonType(r, vals); ok {
				m := reflect.MakeMapWithSize(reflect.MapOf(reflect.TypeOf(""), el), len(keys))
				for i, k := range keys {
					m.SetMapIndex(reflect.ValueOf(k), reflect.ValueOf(vals[i]).Convert(el))
				}
				*n++
				return m.Interface()
			}
		}
		return kids
	case []interface{}:
		vals := make([]interface{}, len(y))
		for i := range y {
			vals[i] = typify(r, y[i], p, n)
		}
		if len(vals) > 0 && r.Chance(p) {
			if el, ok := commonType(r, vals); ok {
				sl := reflect.MakeSlice(reflect.SliceOf(el), len(vals), len(vals))
				for i := range vals {
					sl.Index(i).Set(reflect.ValueOf(vals[i]).Convert(el))
				}
				*n++
				return sl.Interface()
			}
		}
		return vals
	}
	return x
}

// the element type for members that all have the same dynamic type (none nil); float64 members that are all integral may be
// given an integer type, those exactly representable float32
func commonType(r *hx.Rand, vals []interface{}) (reflect.Type, bool) {
	if vals[0] == nil {
		return nil, false
	}
	t := reflect.TypeOf(vals[0])
	for _, v := range vals {
		if v == nil || reflect.TypeOf(v) != t {
			return nil, false
		}
	}
	if t.Kind() != reflect.Float64 {
		return t, true
	}
	cands := []reflect.Type{t}
	i32, i53, f32 := true, true, true
	for _, v := range vals {
		f := v.(float64)
		integral := f == math.Trunc(f) && !math.IsInf(f, 0) && !(f == 0 && math.Signbit(f))
		i32 = i32 && integral && f >= math.MinInt32 && f <= math.MaxInt32
		i53 = i53 && integral && math.Abs(f) <= 1<<53
		f32 = f32 && float64(float32(f)) == f
	}
	if i32 {
		cands = append(cands, reflect.TypeOf(int32(0)), reflect.TypeOf(int32(0)), reflect.TypeOf(int(0)))
	}
	if i53 {
		cands = append(cands, reflect.TypeOf(int64(0)), reflect.TypeOf(int(0)))
	}
	if f32 {
		cands = append(cands, reflect.TypeOf(float32(0)))
	}
	return cands[r.Intn(len(cands))], true
}

// the kind a value has in a JSON document
func (v *Val) jsonKind() string {
	switch v.K {
	case "int", "long":
		return "num"
	case "float":
		f := float64(math.Float32frombits(uint32(v.Bits)))
		if math.IsNaN(f) || math.IsInf(f, 0) {
			return "str"
		}
		return "num"
	case "double":
		f := math.Float64frombits(v.Bits)
		if math.IsNaN(f) || math.IsInf(f, 0) {
			return "str"
		}
		return "num"
	case "bool":
		return "bool"
	case "str", "bytes", "fixed", "enum":
		return "str"
	case "arr":
		return "arr"
	}
	return "obj"
}

// the record value restricted to the fields (own and included) whose JSON kind is `kind`: its encoding is an object whose members
// all have the same kind, which a map with a concrete element type can hold
func (s *Schema) projectVal(rec string, v *Val, kind string) *Val {
	n := s.Types[rec]
	out := &Val{K: "rec"}
	for i, inc := range n.Includes {
		out.Incs = append(out.Incs, s.projectVal(inc, v.Incs[i], kind))
	}
	for i := range n.Fields {
		x := v.Fields[i]
		if x != nil && x.jsonKind() != kind {
			x = nil
		}
		out.Fields = append(out.Fields, x)
	}
	return out
}

// primitive leaves become the zero value of their type (0, false, "") with probability p: a zero that is PRESENT is a value
func (s *Schema) zeroSome(r *hx.Rand, v *Val, p int) {
	if v == nil {
		return
	}
	if r.Chance(p) {
		switch v.K {
		case "int", "long":
			v.Z = 0
		case "float", "double":
			v.Bits = 0
		case "bool":
			v.B = false
		case "str":
			v.S = ""
		}
	}
	for _, l := range [][]*Val{v.Incs, v.Fields, v.Items} {
		for _, x := range l {
			s.zeroSome(r, x, p)
		}
	}
}

func runC06(cfg *hx.Config) {
	rep := hx.NewReport("for every record type of the family and seeded valid values: the reference encoding (independent renderer) mutated by deleting random subsets of " +
		"fields at every depth (required or not), nulling fields (JSON), permuting keys in every object and injecting unknown primitive/object/array fields, " +
		"decoded by the JSON reader, the ROR2 reader, the query-parameter reader (aggregate) and the untyped reader; expected missing set computed independently. " +
		"The family includes a record with 70 required fields (36 through an include). EXCLUSION stream: readers constructed WithExcludedFields (JSON, ROR2, untyped; " +
		"leadingScopeToIgnore 0 or 1) with 1-3 directives naming mostly REQUIRED fields met along the document (array items as *, map keys literal or *), on the document " +
		"pruned of every member at an excluded path, then mutated as above, in both member orders (every object as is and reversed): an excluded required field that is absent " +
		"is never reported, every other absent required field is, by its exact path. " +
		"non-trivial = at least one required field deleted or nulled; distinct by (type, format, document)")
	sh := hx.NewShards(cfg.Out, header(), "CodecCorr", 40)
	r := hx.NewRand(cfg.Seed)
	n := 60
	if cfg.Thorough() {
		n = 1500
	}
	for _, tname := range c06Tops {
		t := ref(tname)
		nt := n
		if tname == "Wide" {
			nt = n / 4
		}
		for i := 0; i < nt; i++ {
			v := schema.gen(r, t, genOpts{utf8: true, depth: 1 + r.Intn(3)})
			base := schema.refEncode(t, v)
			c := newCase("c06", tname, schema.coqTy(t))
			c.addVal(v)
			for k := 0; k < 4; k++ {
				f := []int{0, 2, 4, 0}[k]
				d, note := mutateDoc(schema, t, base, r, f == 0)
				if f == 0 && !d.jsonOK() {
					continue
				}
				text := d.render(f, r, r.Chance(30))
				var want []string
				schema.missingSpec(t, d, "", &want)
				if f == 4 {
					for j := range want {
						want[j] = "p." + want[j]
					}
					sort.Strings(want)
				}
				var oc outcome
				var got *Val
				reader := formats[f]
				if k == 3 {
					oc, got = decodeAny(tname, text)
					reader = "any"
				} else {
					oc, got = decodeVal(tname, f, text, nil, 0)
					c.dec(f, text, oc, got)
				}
				rep.Evaluations++
				rep.Count("reader=" + reader)
				rep.Count(fmt.Sprintf("missing=%d", minInt(len(want), 4)))
				rep.Distinct(tname+reader+text, len(want) > 0)
				cd := map[string]interface{}{"type": tname, "reader": reader, "document": text, "mutations": note, "expected_missing": want, "outcome": oc}
				site := "v2/restlicodec " + reader + " reader"
				switch {
				case oc.Class == "panic":
					rep.Fail("missing:panic:"+reader, "decoder panicked on a document with missing fields", site, cd, oc.Text)
				case len(want) == 0 && oc.Class != "ok":
					rep.Fail("missing:spurious-"+oc.Class+":"+reader, "no required field is missing but decoding fails", site, cd, oc.Text)
				case len(want) > 0 && oc.Class != "missing":
					rep.Fail("missing:not-reported:"+reader, "required fields are missing but no missing-required-fields error is returned", site, cd, oc.Text)
				case len(want) > 0 && strings.Join(oc.Fields, "|") != strings.Join(want, "|"):
					rep.Fail("missing:wrong-set:"+reader, "the reported set of missing fields differs from the absent required fields", site, cd, oc.Fields)
				}
				if (oc.Class == "ok" || oc.Class == "missing") && got != nil && !hasDupKeysDoc(d) {
					var lost []string
					schema.presentLost(t, d, got, "", &lost)
					if len(lost) > 0 {
						cd["lost"] = lost
						rep.Fail("missing:present-field-lost:"+reader, "a field that is present in the document is not set in the returned value", site, cd, lost)
					}
				}
				if len(want) > 0 && k < 3 {
					rep.Sample(cd)
				}
			}
			if len(c.ops) > 0 {
				sh.Add(c.coq(), c.describe())
			}
		}
	}
	runC06Excl(cfg, rep, sh, r)
	sh.Close()
	rep.Shards = sh.Files
	rep.Write(cfg.Out)
}

// the value of field k of record `name` in v (own fields first, then through the includes), and whether the record has such a field
func (s *Schema) fieldVal(name string, v *Val, k string) (*Val, bool) {
	n := s.Types[name]
	if v == nil {
		return nil, false
	}
	for i, f := range n.Fields {
		if f.Name == k {
			return v.Fields[i], true
		}
	}
	for i, inc := range n.Includes {
		if i < len(v.Incs) {
			if x, ok := s.fieldVal(inc, v.Incs[i], k); ok {
				return x, true
			}
		}
	}
	return nil, false
}

// "still returns every field that was present": every non-null member of the document that is a field of the record at that
// position must be set in the decoded value (walks records, arrays and maps like missingSpec; independent of the decoders)
func (s *Schema) presentLost(t RType, d *Doc, got *Val, path string, out *[]string) {
	if d == nil || got == nil {
		return
	}
	switch {
	case t.Primitive != "":
		// a present integer / boolean / string member must come back with the document's content (a lost member of a
		// required, value-typed field shows as the zero value, not as nil)
		switch {
		case (got.K == "int" || got.K == "long") && d.Kind == "int" && got.Z != d.Z && d.Z > -(1<<53) && d.Z < 1<<53, // beyond 2^53 the untyped reader goes through encoding/json's float64
			got.K == "bool" && d.Kind == "bool" && got.B != d.B,
			got.K == "str" && d.Kind == "str" && got.S != d.S:
			*out = append(*out, path)
		}
	case t.Array != nil:
		if d.Kind != "arr" || len(got.Items) != len(d.Items) {
			return
		}
		for i, x := range d.Items {
			s.presentLost(*t.Array, x, got.Items[i], fmt.Sprintf("%s[%d]", path, i), out)
		}
	case t.Map != nil:
		if d.Kind != "obj" {
			return
		}
		for i, x := range d.Items {
			for j, k := range got.Keys {
				if k == d.Keys[i] && x.Kind != "null" && j < len(got.Items) {
					s.presentLost(*t.Map, x, got.Items[j], joinPath(path, k), out)
				}
			}
		}
	default:
		n := s.Types[t.Reference.Name]
		if n.Kind != "record" || d.Kind != "obj" {
			return
		}
		seen := map[string]bool{}
		for i, k := range d.Keys {
			if d.Items[i].Kind == "null" || seen[k] {
				continue
			}
			seen[k] = true
			ft, ok := s.fieldType(n.Name, k)
			if !ok {
				continue
			}
			fv, has := s.fieldVal(n.Name, got, k)
			if !has {
				continue
			}
			if fv == nil {
				*out = append(*out, joinPath(path, k))
				continue
			}
			s.presentLost(ft, d.Items[i], fv, joinPath(path, k), out)
		}
	}
}

// readers WITH excluded fields: a required field that is excluded and absent is not reported and does not disturb what is read after it
func runC06Excl(cfg *hx.Config, rep *hx.Report, sh *hx.Shards, r *hx.Rand) {
	n := 20
	if cfg.Thorough() {
		n = 600
	}
	for _, tname := range c06Tops {
		t := ref(tname)
		nt := n
		if tname == "Wide" {
			nt = n / 2
		}
		for i := 0; i < nt; i++ {
			v := schema.gen(r, t, genOpts{utf8: true, depth: 1 + r.Intn(3)})
			base := schema.refEncode(t, v)
			ignore := 0
			if r.Chance(20) {
				ignore = 1
			}
			var fps []fieldPath
			schema.fieldPaths(r, t, base, nil, &fps)
			var cands [][]string
			for _, fp := range fps {
				if len(fp.segs) > ignore && len(fp.segs)-ignore <= 4 && (fp.required || r.Chance(25)) {
					cands = append(cands, fp.segs[ignore:])
				}
			}
			if len(cands) == 0 {
				continue
			}
			var ds []string
			for k := 1 + r.Intn(3); k > 0; k-- {
				d := strings.Join(cands[r.Intn(len(cands))], "/")
				if r.Chance(15) {
					d = "/" + d
				}
				ds = append(ds, d)
			}
			tds := trimAll(ds)
			if !wellFormedDirectives(tds) {
				continue
			}
			spec := restlicodec.NewPathSpec(ds...)
			pruned := pruneExcluded(base, tds, ignore, nil)
			c := newCase("c06", tname, schema.coqTy(t))
			c.desc.Excl, c.desc.Ign, c.desc.Note = ds, ignore, "exclusion"
			c.addVal(v)
			for k := 0; k < 3; k++ {
				f := []int{0, 2, 0}[k]
				d0, note := mutateDoc(schema, t, pruned, r, f == 0)
				if f == 0 && !d0.jsonOK() {
					continue
				}
				for o, d := range []*Doc{d0, reverseDoc(d0)} {
					text := d.render(f, r, false)
					var want []string
					schema.missingUnder(t, d, "", nil, tds, ignore, &want)
					var naive []string
					schema.missingSpec(t, d, "", &naive)
					var oc outcome
					var got *Val
					reader := formats[f]
					if k == 2 {
						var x interface{}
						if err := json.Unmarshal([]byte(text), &x); err != nil {
							continue
						}
						oc, got = decodeAnyX(tname, x, spec, ignore)
						reader = "any"
					} else {
						oc, got = decodeVal(tname, f, text, spec, ignore)
						c.dec(f, text, oc, got)
					}
					rep.Evaluations++
					rep.Count("reader=" + reader + "+excluded-fields")
					rep.Count(fmt.Sprintf("excluded-and-absent=%d", minInt(len(naive)-len(want), 3)))
					rep.Count(fmt.Sprintf("ignore=%d", ignore))
					rep.Distinct(tname+reader+strings.Join(ds, ",")+text, len(want) > 0 || len(naive) > len(want))
					cd := map[string]interface{}{"type": tname, "reader": reader, "excluded_fields": ds, "leading_scope_to_ignore": ignore, "document": text,
						"member_order": []string{"as generated", "reversed"}[o], "mutations": note, "expected_missing": want, "absent_but_excluded": len(naive) - len(want), "outcome": oc}
					site := "v2/restlicodec/missing_fields.go (" + reader + " reader with excluded fields)"
					switch {
					case oc.Class == "panic":
						rep.Fail("missing:panic:"+reader, "decoder panicked on a document with missing fields", site, cd, oc.Text)
					case len(want) == 0 && oc.Class != "ok":
						rep.Fail("missing:spurious-"+oc.Class+":"+reader, "no required field that is not excluded is missing but decoding fails", site, cd, oc.Text)
					case len(want) > 0 && oc.Class != "missing":
						rep.Fail("missing:not-reported:"+reader, "required fields are missing but no missing-required-fields error is returned", site, cd, oc.Text)
					case len(want) > 0 && strings.Join(oc.Fields, "|") != strings.Join(want, "|"):
						rep.Fail("missing:wrong-set:"+reader, "the reported set of missing fields differs from the absent required fields that are not excluded", site, cd, oc.Fields)
					}
					if len(naive) > len(want) && len(want) > 0 && k == 0 && o == 0 {
						rep.Sample(cd)
					}
				}
			}
			if len(c.ops) > 0 {
				sh.Add(c.coq(), c.describe())
			}
		}
	}
}

func hasDupKeysDoc(d *Doc) bool {
	if d == nil {
		return false
	}
	if d.Kind == "obj" {
		seen := map[string]bool{}
		for _, k := range d.Keys {
			if seen[k] {
				return true
			}
			seen[k] = true
		}
	}
	for _, x := range d.Items {
		if hasDupKeysDoc(x) {
			return true
		}
	}
	return false
}
