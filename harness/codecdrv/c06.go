package main

import (
	"encoding/json"
	"fmt"
	"reflect"
	"sort"
	"strings"

	"github.com/PapaCharlie/go-restli/v2/restlicodec"
	"verifgen/hx"
)

var recordTops = []string{"Inner", "Prims", "Opts", "Dflt", "Coll", "WithU", "Incl", "Incl2", "Rec", "Big", "IX", "IY"}

// delete / null / permute / inject on a conforming document
func mutateDoc(s *Schema, t RType, d *Doc, r *hx.Rand, allowNull bool) (*Doc, string) {
	d = d.clone()
	var objs []objRef
	s.objects(t, d, "", &objs)
	var notes []string
	for _, o := range objs {
		// delete a random subset of entries
		if len(o.d.Keys) > 0 && r.Chance(70) {
			var keys []string
			var items []*Doc
			for i, k := range o.d.Keys {
				switch {
				case r.Chance(25):
					notes = append(notes, "del:"+joinPath(o.path, k))
				case allowNull && r.Chance(10):
					notes = append(notes, "null:"+joinPath(o.path, k))
					keys = append(keys, k)
					items = append(items, &Doc{Kind: "null"})
				default:
					keys = append(keys, k)
					items = append(items, o.d.Items[i])
				}
			}
			o.d.Keys, o.d.Items = keys, items
		}
		// inject unknown fields into records
		if o.rec != "" && r.Chance(40) {
			unk := []*Doc{{Kind: "int", Z: 7}, {Kind: "str", S: "x(y"}, {Kind: "obj", Keys: []string{"a", "b"}, Items: []*Doc{{Kind: "int", Z: 1}, {Kind: "arr", Items: []*Doc{{Kind: "str", S: ""}}}}},
				{Kind: "arr", Items: []*Doc{{Kind: "obj"}, {Kind: "int", Z: 2}}}, {Kind: "arr"}, {Kind: "obj"}}
			k := []string{"zzUnknown", "aUnknown", "unknown_" + fmt.Sprint(r.Intn(9))}[r.Intn(3)]
			if _, known := s.fieldType(o.rec, k); !known {
				pos := r.Intn(len(o.d.Keys) + 1)
				o.d.Keys = append(o.d.Keys[:pos], append([]string{k}, o.d.Keys[pos:]...)...)
				o.d.Items = append(o.d.Items[:pos], append([]*Doc{unk[r.Intn(len(unk))]}, o.d.Items[pos:]...)...)
				notes = append(notes, "inject:"+joinPath(o.path, k))
			}
		}
		// permute
		if r.Chance(60) {
			for i := len(o.d.Keys) - 1; i > 0; i-- {
				j := r.Intn(i + 1)
				o.d.Keys[i], o.d.Keys[j] = o.d.Keys[j], o.d.Keys[i]
				o.d.Items[i], o.d.Items[j] = o.d.Items[j], o.d.Items[i]
			}
		}
	}
	return d, strings.Join(notes, " ")
}

// the untyped reader: the JSON rendering unmarshalled into `any`
func decodeAny(tname string, jsonText string) (oc outcome, v *Val) {
	var x interface{}
	if err := json.Unmarshal([]byte(jsonText), &x); err != nil {
		return outcome{Class: "err", Text: err.Error()}, nil
	}
	var err error
	var p interface{}
	ptr := reflect.New(registry[tname])
	func() {
		defer func() { p = recover() }()
		err = ptr.Interface().(restlicodec.Unmarshaler).UnmarshalRestLi(restlicodec.NewInterfaceReader(x))
	}()
	oc = classify(err, p)
	if oc.Class == "ok" || oc.Class == "missing" {
		v = schema.fromGo(ref(tname), ptr.Elem())
	}
	return oc, v
}

func runC06(cfg *hx.Config) {
	rep := hx.NewReport("for every record type of the family and seeded valid values: the reference encoding (independent renderer) mutated by deleting random subsets of " +
		"fields at every depth (required or not), nulling fields (JSON), permuting keys in every object and injecting unknown primitive/object/array fields, " +
		"decoded by the JSON reader, the ROR2 reader, the query-parameter reader (aggregate) and the untyped reader; expected missing set computed independently. " +
		"non-trivial = at least one required field deleted or nulled; distinct by (type, format, document)")
	sh := hx.NewShards(cfg.Out, header(), "CodecCorr", 40)
	r := hx.NewRand(cfg.Seed)
	n := 60
	if cfg.Thorough() {
		n = 1500
	}
	for _, tname := range recordTops {
		t := ref(tname)
		for i := 0; i < n; i++ {
			v := schema.gen(r, t, genOpts{utf8: true, depth: 1 + r.Intn(3)})
			base := schema.refEncode(t, v)
			c := newCase("c06", tname, schema.coqTy(t))
			c.addVal(v)
			for k := 0; k < 4; k++ {
				f := []int{0, 2, 4, 0}[k]
				d, note := mutateDoc(schema, t, base, r, f == 0)
				if f == 0 && !d.jsonOK() {
					continue
				}
				text := d.render(f, r, r.Chance(30))
				var want []string
				schema.missingSpec(t, d, "", &want)
				if f == 4 {
					for j := range want {
						want[j] = "p." + want[j]
					}
					sort.Strings(want)
				}
				var oc outcome
				var got *Val
				reader := formats[f]
				if k == 3 {
					oc, got = decodeAny(tname, text)
					reader = "any"
				} else {
					oc, got = decodeVal(tname, f, text, nil, 0)
					c.dec(f, text, oc, got)
				}
				rep.Evaluations++
				rep.Count("reader=" + reader)
				rep.Count(fmt.Sprintf("missing=%d", minInt(len(want), 4)))
				rep.Distinct(tname+reader+text, len(want) > 0)
				cd := map[string]interface{}{"type": tname, "reader": reader, "document": text, "mutations": note, "expected_missing": want, "outcome": oc}
				site := "v2/restlicodec " + reader + " reader"
				switch {
				case oc.Class == "panic":
					rep.Fail("missing:panic:"+reader, "decoder panicked on a document with missing fields", site, cd, oc.Text)
				case len(want) == 0 && oc.Class != "ok":
					rep.Fail("missing:spurious-"+oc.Class+":"+reader, "no required field is missing but decoding fails", site, cd, oc.Text)
				case len(want) > 0 && oc.Class != "missing":
					rep.Fail("missing:not-reported:"+reader, "required fields are missing but no missing-required-fields error is returned", site, cd, oc.Text)
				case len(want) > 0 && strings.Join(oc.Fields, "|") != strings.Join(want, "|"):
					rep.Fail("missing:wrong-set:"+reader, "the reported set of missing fields differs from the absent required fields", site, cd, oc.Fields)
				}
				if len(want) > 0 && k < 3 {
					rep.Sample(cd)
				}
			}
			if len(c.ops) > 0 {
				sh.Add(c.coq(), c.describe())
			}
		}
	}
	sh.Close()
	rep.Shards = sh.Files
	rep.Write(cfg.Out)
}
