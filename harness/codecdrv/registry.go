package main

import (
	"reflect"

	"verifgen/gen/fam"
)

// the generated Go types of the family, by schema name
var registry = map[string]reflect.Type{
	"Color": reflect.TypeOf(fam.Color(0)),
	"Fx4":   reflect.TypeOf(fam.Fx4{}),
	"Tlong": reflect.TypeOf(fam.Tlong(0)),
	"Tstr":  reflect.TypeOf(fam.Tstr("")),
	"Inner": reflect.TypeOf(fam.Inner{}),
	"Prims": reflect.TypeOf(fam.Prims{}),
	"Opts":  reflect.TypeOf(fam.Opts{}),
	"Dflt":  reflect.TypeOf(fam.Dflt{}),
	"Coll":  reflect.TypeOf(fam.Coll{}),
	"U":     reflect.TypeOf(fam.U{}),
	"UN":    reflect.TypeOf(fam.UN{}),
	"WithU": reflect.TypeOf(fam.WithU{}),
	"Incl":  reflect.TypeOf(fam.Incl{}),
	"Incl2": reflect.TypeOf(fam.Incl2{}),
	"Rec":   reflect.TypeOf(fam.Rec{}),
	"Big":   reflect.TypeOf(fam.Big{}),
	"CK":    reflect.TypeOf(fam.CK{}),
	"DOuter": reflect.TypeOf(fam.DOuter{}),
	"IBase":  reflect.TypeOf(fam.IBase{}),
	"IMid":   reflect.TypeOf(fam.IMid{}),
	"IX":     reflect.TypeOf(fam.IX{}),
	"IY":     reflect.TypeOf(fam.IY{}),
	"DElems": reflect.TypeOf(fam.DElems{}),
	"DIn":    reflect.TypeOf(fam.DIn{}),
	"DEmp":   reflect.TypeOf(fam.DEmp{}),
	"WBase":  reflect.TypeOf(fam.WBase{}),
	"Wide":   reflect.TypeOf(fam.Wide{}),
	"D3":     reflect.TypeOf(fam.D3{}),
	"D2":     reflect.TypeOf(fam.D2{}),
	"D1":     reflect.TypeOf(fam.D1{}),
	"G3":     reflect.TypeOf(fam.G3{}),
	"G2":     reflect.TypeOf(fam.G2{}),
	"G1":     reflect.TypeOf(fam.G1{}),
	"ONest":  reflect.TypeOf(fam.ONest{}),
	"Unit":   reflect.TypeOf(fam.Unit(0)),
	"UHold":  reflect.TypeOf(fam.UHold{}),
	"Alias":  reflect.TypeOf(fam.Alias{}),
	"Alias2": reflect.TypeOf(fam.Alias2{}),
}

// generated New...WithDefaultValues constructors (they exist only for records that declare a default themselves)
var constructors = map[string]interface{}{
	"Dflt":   fam.NewDfltWithDefaultValues,
	"DOuter": fam.NewDOuterWithDefaultValues,
	"DElems": fam.NewDElemsWithDefaultValues,
	"DIn":    fam.NewDInWithDefaultValues,
	"DEmp":   fam.NewDEmpWithDefaultValues,
	"D3":     fam.NewD3WithDefaultValues,
	"D2":     fam.NewD2WithDefaultValues,
	"D1":     fam.NewD1WithDefaultValues,
	"G3":     fam.NewG3WithDefaultValues,
	"G1":     fam.NewG1WithDefaultValues,
}
