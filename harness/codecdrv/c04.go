package main

import (
	"fmt"
	"reflect"
	"strings"

	"verifgen/hx"
)

// C04: hostile input. ROR2: outcome class (and value) compared with the cursor-level model; JSON: property oracle only
// (easyjson's lexer is external and not modelled on ill-formed input).
var c04Types = []string{"Inner", "UN", "Rec", "Opts", "U", "Coll"}

func shapeOf(s string) string {
	if len(s) > 24 {
		s = s[:24] + "..."
	}
	return s
}

func runC04(cfg *hx.Config) {
	rep := hx.NewReport("(a) EXHAUSTIVE: all strings up to a bounded length over the ROR2 delimiter alphabet ( ) , : ' L i s t a 1 % decoded as each of several family types " +
		"with the header/path reader and the query reader; (b) every truncation and seeded single-byte edits of valid encodings (ROR2: compared with the model; " +
		"JSON: no-panic oracle only). non-trivial = input is not a valid encoding and is non-empty; distinct by (type, format, input)")
	sh := hx.NewShards(cfg.Out, header(), "CodecCorr", 1)
	alphabet := "(),:'List a1%"
	alphabet = "(),:'Lista1%"
	maxLen := 3
	if cfg.Thorough() {
		maxLen = 5
	}
	var all []string
	var rec func(prefix string)
	rec = func(prefix string) {
		all = append(all, prefix)
		if len(prefix) >= maxLen {
			return
		}
		for i := 0; i < len(alphabet); i++ {
			rec(prefix + string(alphabet[i]))
		}
	}
	rec("")
	allStrings := all
	types := c04Types
	if cfg.Thorough() {
		types = c04Types[:4]
	}
	const chunk = 400
	for ti, tname := range types {
		// thorough: length 5 (12^5 strings) for the first two types only - the whole product costs ~25 min of model evaluation
		all := all
		if cfg.Thorough() && ti >= 2 {
			all = nil
			for _, s := range allStrings {
				if len(s) <= 4 {
					all = append(all, s)
				}
			}
		}
		for _, f := range []int{2, 4} {
			for lo := 0; lo < len(all); lo += chunk {
				hi := minInt(lo+chunk, len(all))
				c := newCase("c04", tname, schema.coqTy(ref(tname)))
				c.desc.Note = "exhaustive"
				for _, in := range all[lo:hi] {
					hostile(c, tname, f, in, rep)
				}
				sh.Add(c.coq(), c.describe())
			}
		}
	}
	// mutation stream
	r := hx.NewRand(cfg.Seed)
	n := 10
	if cfg.Thorough() {
		n = 300
	}
	for _, tname := range schema.Top {
		for i := 0; i < n; i++ {
			v := schema.gen(r, ref(tname), genOpts{utf8: true, depth: 1 + r.Intn(2)})
			ptr := reflect.New(registry[tname])
			schema.toGo(ref(tname), v, ptr.Elem())
			for _, f := range []int{0, 2, 4} {
				out, oc := encode(ptr, f, nil)
				if oc.Class != "ok" || len(out) > 160 {
					continue
				}
				c := newCase("c04", tname, schema.coqTy(ref(tname)))
				c.desc.Note = "mutation"
				var muts []string
				for k := 0; k < len(out); k += 1 + len(out)/40 {
					muts = append(muts, out[:k])
				}
				for k := 0; k < 12; k++ {
					p := r.Intn(len(out))
					b := []byte(out)
					switch r.Intn(3) {
					case 0:
						b[p] = "(),:'%\"{}[]\\ "[r.Intn(13)]
					case 1:
						b = append(b[:p], b[p+1:]...)
					default:
						b = append(b[:p], append([]byte{"(),:'%\"{}[]"[r.Intn(11)]}, b[p:]...)...)
					}
					muts = append(muts, string(b))
				}
				for _, m := range muts {
					hostile(c, tname, f, m, rep)
				}
				if f != 0 {
					sh.Add(c.coq(), c.describe())
				}
			}
		}
	}
	// integer texts at and beyond the edges of the field's width (a reader returns the value or an error: never a wrapped value)
	{
		c := newCase("c04", "Inner", schema.coqTy(ref("Inner")))
		c.desc.Note = "integer-range"
		for _, z := range []string{"2147483647", "2147483648", "-2147483648", "-2147483649", "4294967296", "4294967297", "-4294967289", "9223372036854775807", "9223372036854775808",
			"18446744073709551617", "99999999999999999999999", "0000000001", "+1", "1.0", "1e3", "0x10", "١"} {
			hostile(c, "Inner", 0, `{"a":`+z+`}`, rep)
			hostile(c, "Inner", 2, "(a:"+z+")", rep)
			hostile(c, "Inner", 4, "(a:"+z+")", rep)
		}
		sh.Add(c.coq(), c.describe())
	}
	// long inputs: valid documents with 63..130 array items / map entries / sibling records, their truncations at a few
	// points and single-byte edits (a reader must not depend on how many items an input has)
	for _, n := range []int{63, 64, 65, 66, 129} {
		strs, maps, inners := []*Val{}, []*Val{}, []*Val{}
		for i := 0; i < n; i++ {
			strs = append(strs, &Val{K: "str", S: fmt.Sprintf("s%d", i)})
			maps = append(maps, &Val{K: "map", Keys: []string{"k"}, Items: []*Val{{K: "long", Z: int64(i)}}})
			inners = append(inners, &Val{K: "rec", Fields: []*Val{{K: "int", Z: int64(i)}, nil}})
		}
		v := &Val{K: "rec", Fields: []*Val{{K: "arr", Items: strs}, {K: "map"}, {K: "map", Keys: []string{"k"}, Items: []*Val{{K: "arr", Items: inners}}}, {K: "arr", Items: maps}, nil, nil}}
		ptr := reflect.New(registry["Coll"])
		schema.toGo(ref("Coll"), v, ptr.Elem())
		for _, f := range []int{0, 2, 4} {
			out, oc := encode(ptr, f, nil)
			if oc.Class != "ok" {
				continue
			}
			c := newCase("c04", "Coll", schema.coqTy(ref("Coll")))
			c.desc.Note = fmt.Sprintf("long-%d", n)
			ins := []string{out, out[:len(out)/2], out[:len(out)-1], out[:len(out)-2], out + ")", out[1:]}
			for k := 0; k < 4; k++ {
				p := r.Intn(len(out))
				b := []byte(out)
				b[p] = "(),:'%"[r.Intn(6)]
				ins = append(ins, string(b))
			}
			for _, in := range ins {
				hostile(c, "Coll", f, in, rep)
			}
			rep.Count("long-inputs")
			if f != 0 {
				sh.Add(c.coq(), c.describe())
			}
		}
	}
	sh.Close()
	rep.Shards = sh.Files
	rep.Write(cfg.Out)
}

func hostile(c *cb, tname string, f int, in string, rep *hx.Report) {
	oc, v := decodeVal(tname, f, in, nil, 0)
	rep.Evaluations++
	rep.Count("format=" + formats[f])
	rep.Count("class=" + oc.Class)
	rep.Distinct(tname+formats[f]+in, oc.Class != "ok" && in != "")
	if oc.Class == "panic" {
		rep.Fail("decode-panic:"+formats[f], "a reader / generated unmarshaler panicked on hostile input",
			"v2/restlicodec "+formats[f]+" reader", map[string]interface{}{"type": tname, "format": formats[f], "input": in}, oc.Text)
	}
	if f >= 2 && !hasDupKeys(in) {
		// the model does not describe a later duplicate key being merged into an already decoded required record/union
		// field (see DESIGN.md): such inputs are checked by the no-panic oracle only
		c.dec(f, in, oc, v)
	}
	if len(in) > 0 && len(in) < 12 && strings.ContainsAny(in, "(") && oc.Class != "ok" {
		rep.Sample(map[string]interface{}{"type": tname, "format": formats[f], "input": in, "outcome": oc.Class})
	}
	_ = fmt.Sprint
}

// does some ROR2 object of the input hold the same (raw) key twice?
func hasDupKeys(in string) bool {
	stack := []map[string]bool{{}}
	start := 0
	for i := 0; i < len(in); i++ {
		switch in[i] {
		case '(':
			stack = append(stack, map[string]bool{})
			start = i + 1
		case ')':
			if len(stack) > 1 {
				stack = stack[:len(stack)-1]
			}
			start = i + 1
		case ',':
			start = i + 1
		case ':':
			k := in[start:i]
			top := stack[len(stack)-1]
			if top[k] {
				return true
			}
			top[k] = true
			start = i + 1
		}
	}
	return false
}
