package main

import (
	"crypto/sha256"
	"encoding/hex"
	"encoding/json"
	"fmt"
	"os"
	"os/exec"
	"reflect"
	"sort"
	"strings"

	"github.com/PapaCharlie/go-restli/v2/restli/batchkeyset"
	"github.com/PapaCharlie/go-restli/v2/restlicodec"
	"github.com/PapaCharlie/go-restli/v2/restlidata"
	"github.com/PapaCharlie/go-restli/v2/restlidata/generated/com/linkedin/restli/common"
	"verifgen/gen/fam"
	"verifgen/hx"
)

// C09: the same value always serializes to the same bytes (map iteration order, insertion order, process)
func c09Values(seed uint64, n int) (names []string, vals []*Val) {
	r := hx.NewRand(seed)
	for _, tname := range []string{"Coll", "Big", "Dflt", "WithU", "Incl2", "Opts"} {
		for i := 0; i < n; i++ {
			names = append(names, tname)
			vals = append(vals, schema.gen(r, ref(tname), genOpts{utf8: r.Chance(85), depth: 2 + r.Intn(2)}))
		}
	}
	return
}

func encodeAllDigest(names []string, vals []*Val) []string {
	out := make([]string, len(vals))
	for i, v := range vals {
		ptr := reflect.New(registry[names[i]])
		schema.toGo(ref(names[i]), v, ptr.Elem())
		h := sha256.New()
		for f := range formats {
			o, oc := encode(ptr, f, nil)
			h.Write([]byte(oc.Class + "\x00" + o + "\x00"))
		}
		out[i] = hex.EncodeToString(h.Sum(nil))
	}
	return out
}

// keys of every JSON object in ascending byte order?
func jsonKeysAscending(text string) bool {
	dec := json.NewDecoder(strings.NewReader(text))
	type frame struct {
		obj  bool
		last *string
		key  bool
	}
	var st []frame
	for {
		tok, err := dec.Token()
		if err != nil {
			return true
		}
		switch x := tok.(type) {
		case json.Delim:
			switch x {
			case '{':
				st = append(st, frame{obj: true, key: true})
				continue
			case '[':
				st = append(st, frame{})
				continue
			default:
				st = st[:len(st)-1]
			}
		case string:
			if len(st) > 0 && st[len(st)-1].obj && st[len(st)-1].key {
				top := &st[len(st)-1]
				if top.last != nil && !(*top.last < x) {
					return false
				}
				k := x
				top.last = &k
				top.key = false
				continue
			}
		}
		if len(st) > 0 && st[len(st)-1].obj {
			st[len(st)-1].key = true
		}
	}
}

func runC09(cfg *hx.Config) {
	n := 25
	procs := 3
	if cfg.Thorough() {
		n, procs = 400, 12
	}
	names, vals := c09Values(cfg.Seed, n)
	if os.Getenv("VERIF_C09_CHILD") != "" {
		// child: print the digests of this process
		for _, d := range encodeAllDigest(names, vals) {
			fmt.Println(d)
		}
		return
	}
	rep := hx.NewReport("values with map-typed fields at several depths (Go randomises map iteration per range statement): each value is encoded in all five formats 8 times in " +
		"this process and once in each of several FRESH processes (different map hash seeds); query parameters and WriteMap entries supplied in shuffled orders. " +
		"All byte strings must be identical and equal to the model's single output. non-trivial = the value holds a map with >= 2 entries; distinct by (type, value)")
	sh := hx.NewShards(cfg.Out, header(), "CodecCorr", 40)
	base := encodeAllDigest(names, vals)
	for k := 0; k < 7; k++ {
		again := encodeAllDigest(names, vals)
		for i := range base {
			if again[i] != base[i] {
				rep.Fail("canon:differs-in-process", "two encodings of the same value in one process differ", "v2/restlicodec/writer.go:WriteMap", map[string]interface{}{"type": names[i], "value": vals[i].fixJSON()}, nil)
			}
		}
	}
	// HISTORY: serializations that FAIL or PANIC half way (an invalid value, a marshaler returning an error or panicking after it
	// wrote some entries, at several depths) must leave no trace: every later encoding equals the first one
	rh := hx.NewRand(cfg.Seed + 4242)
	for round := 0; round < 6; round++ {
		steps := []string{}
		for k := 0; k < 1+rh.Intn(4); k++ {
			f := rh.Intn(len(formats))
			kind := rh.Intn(3)
			depth := 1 + rh.Intn(3)
			func() {
				defer func() { _ = recover() }()
				w := newWriter(f, nil)
				var nest func(w restlicodec.Writer, d int) error
				nest = func(w restlicodec.Writer, d int) error {
					return w.WriteMap(func(kw func(string) restlicodec.Writer) error {
						kw("first").WriteInt32(12345678)
						kw("second").WriteString("LEFTOVER")
						if d > 1 {
							if err := nest(kw("deeper"), d-1); err != nil {
								return err
							}
						}
						switch kind {
						case 0:
							return fmt.Errorf("marshaler failed after writing entries")
						case 1:
							panic("marshaler panicked after writing entries")
						}
						var np *fam.Inner
						return np.MarshalRestLi(kw("typed-nil")) // the generated marshaler on a nil receiver
					})
				}
				_ = nest(w, depth)
			}()
			steps = append(steps, fmt.Sprintf("%s/%s/depth%d", []string{"error", "panic", "typed-nil"}[kind], formats[f], depth))
			if tname, v := c01Invalid(rh); v != nil {
				ptr := reflect.New(registry[tname])
				schema.toGo(ref(tname), v, ptr.Elem())
				_, _ = encode(ptr, rh.Intn(len(formats)), nil)
				steps = append(steps, "invalid-"+tname)
			}
		}
		rep.Count("history-rounds")
		again := encodeAllDigest(names, vals)
		for i := range base {
			if again[i] != base[i] {
				rep.Fail("canon:differs-after-failed-serialization", "the encoding of a value changed after FAILED / PANICKED serializations of unrelated values in the same process", "v2/restlicodec/writer.go:WriteMap",
					map[string]interface{}{"type": names[i], "value": vals[i].fixJSON(), "failed_steps_before": steps}, nil)
				break
			}
		}
	}
	for p := 0; p < procs; p++ {
		cmd := exec.Command(os.Args[0], os.Args[1:]...)
		cmd.Env = append(os.Environ(), "VERIF_C09_CHILD=1")
		outb, err := cmd.Output()
		if err != nil {
			panic(err)
		}
		lines := strings.Fields(string(outb))
		for i := range base {
			if i >= len(lines) || lines[i] != base[i] {
				rep.Fail("canon:differs-across-processes", "the same value encodes differently in a fresh process", "v2/restlicodec/writer.go:WriteMap", map[string]interface{}{"type": names[i], "value": vals[i].fixJSON()}, nil)
			}
		}
	}
	rep.Extra["fresh_processes"] = procs
	rx := hx.NewRand(cfg.Seed + 991)
	for i, v := range vals {
		tname := names[i]
		c := newCase("c09", tname, schema.coqTy(ref(tname)))
		ptr := reflect.New(registry[tname])
		schema.toGo(ref(tname), v, ptr.Elem())
		big := false
		var cnt func(x *Val)
		cnt = func(x *Val) {
			if x == nil {
				return
			}
			if x.K == "map" && len(x.Items) >= 2 {
				big = true
			}
			for _, l := range [][]*Val{x.Incs, x.Fields, x.Items} {
				for _, y := range l {
					cnt(y)
				}
			}
		}
		cnt(v)
		for f := range formats {
			out, oc := encode(ptr, f, nil)
			c.enc(f, v, oc, out)
			if f == 0 && oc.Class == "ok" && allValidUtf8(v) && !jsonKeysAscending(out) {
				rep.Fail("canon:keys-not-ascending", "object keys are not in ascending byte order", "v2/restlicodec/writer.go:WriteMap", map[string]interface{}{"type": tname, "out": out}, nil)
			}
		}
		rep.Evaluations++
		rep.Distinct(tname+valKey(v), big)
		rep.Count("type=" + tname)
		if big {
			rep.Sample(c.describe())
		}
		sh.Add(c.coq(), c.describe())
		// the same with an exclusion spec (an excluded key must not disturb the ordering of its neighbours)
		base := schema.refEncode(ref(tname), v)
		paths := schema.randomPaths(rx, ref(tname), base)
		// single-directive specs: every short path first (an excluded key between two kept keys is the interesting case),
		// then a few random ones
		var specs [][]string
		for _, pth := range paths {
			if strings.Count(pth, "/") <= 1 && !strings.HasSuffix(pth, "*") && len(specs) < 8 {
				specs = append(specs, []string{pth})
			}
		}
		for k := 0; k < 2 && len(paths) > 0; k++ {
			specs = append(specs, []string{paths[rx.Intn(len(paths))], paths[rx.Intn(len(paths))]})
		}
		for _, ds := range specs {
			if !wellFormedDirectives(ds) {
				continue
			}
			ce := newCase("c09", tname, schema.coqTy(ref(tname)))
			ce.desc.Excl = ds
			spec := restlicodec.NewPathSpec(ds...)
			var first []string
			for rep2 := 0; rep2 < 4; rep2++ {
				for _, f := range []int{0, 2} {
					out, oc := encode(ptr, f, spec)
					if rep2 == 0 {
						ce.enc(f, v, oc, out)
						first = append(first, out)
						if f == 0 && oc.Class == "ok" && allValidUtf8(v) && !jsonKeysAscending(out) {
							rep.Fail("canon:keys-not-ascending:with-exclusion", "object keys are not in ascending byte order when an exclusion spec is configured", "v2/restlicodec/writer.go:WriteMap", map[string]interface{}{"type": tname, "spec": ds, "out": out}, nil)
						}
					} else if out != first[f/2] {
						rep.Fail("canon:differs-in-process:with-exclusion", "two encodings of the same value with the same exclusion spec differ", "v2/restlicodec/writer.go:WriteMap", map[string]interface{}{"type": tname, "spec": ds, "a": first[f/2], "b": out}, nil)
					}
				}
			}
			rep.Evaluations++
			rep.Count("with-exclusion")
			sh.Add(ce.coq(), ce.describe())
		}
	}
	batchIdHistories(cfg, rep)
	rawRecords(cfg, rep)
	batchBodies(cfg, rep)
	pathSpecHistory(cfg, rep)
	concurrentBytes(cfg, rep)
	// query parameters supplied in shuffled orders
	r := hx.NewRand(cfg.Seed + 77)
	for k := 0; k < 200; k++ {
		m := 2 + r.Intn(5)
		params := map[string]string{}
		for len(params) < m {
			params[genIdent(r)] = genString(r, true)
		}
		keys := make([]string, 0, m)
		for p := range params {
			keys = append(keys, p)
		}
		var outs []string
		for rep2 := 0; rep2 < 4; rep2++ {
			for i := len(keys) - 1; i > 0; i-- {
				j := r.Intn(i + 1)
				keys[i], keys[j] = keys[j], keys[i]
			}
			out, err := restlicodec.BuildQueryParams(func(kw func(string) restlicodec.Writer) error {
				for _, p := range keys {
					kw(p).WriteString(params[p])
				}
				return nil
			})
			if err != nil {
				panic(err)
			}
			outs = append(outs, out)
		}
		// schedules: the output is a function of the name -> value set, not of WHEN each parameter's writer is requested and
		// used: (a) all writers requested first, values written afterwards in another order; (b) pairwise interleaving
		for sched := 0; sched < 2; sched++ {
			order := append([]string{}, keys...)
			for i := len(order) - 1; i > 0; i-- {
				j := r.Intn(i + 1)
				order[i], order[j] = order[j], order[i]
			}
			out, err := restlicodec.BuildQueryParams(func(kw func(string) restlicodec.Writer) error {
				ws := map[string]restlicodec.Writer{}
				if sched == 0 {
					for _, p := range keys {
						ws[p] = kw(p)
					}
					for _, p := range order {
						ws[p].WriteString(params[p])
					}
					return nil
				}
				for i := 0; i < len(order); i += 2 {
					a := order[i]
					wa := kw(a)
					if i+1 < len(order) {
						b := order[i+1]
						wb := kw(b)
						wb.WriteString(params[b])
					}
					wa.WriteString(params[a])
				}
				return nil
			})
			if err != nil {
				panic(err)
			}
			rep.Count("query-params-schedule")
			if out != outs[0] {
				rep.Fail("canon:query-params-schedule", "BuildQueryParams output depends on when the parameter writers are requested / used (it must be a function of the name -> value set)", "v2/restlicodec/query_writer.go:BuildQueryParams", map[string]interface{}{"params": params, "schedule": []string{"all writers first, values later", "pairwise interleaved"}[sched], "order": order, "immediate": outs[0], "scheduled": out}, nil)
			}
		}
		sorted := append([]string{}, keys...)
		sort.Strings(sorted)
		var names2 []string
		for _, kv := range strings.Split(outs[0], "&") {
			names2 = append(names2, strings.SplitN(kv, "=", 2)[0])
		}
		rep.Evaluations++
		for _, o := range outs[1:] {
			if o != outs[0] {
				rep.Fail("canon:query-params-order", "BuildQueryParams output depends on the order parameters were supplied", "v2/restlicodec/query_writer.go:BuildQueryParams", map[string]interface{}{"params": params, "a": outs[0], "b": o}, nil)
			}
		}
		if strings.Join(names2, ",") != strings.Join(sorted, ",") {
			rep.Fail("canon:query-params-not-sorted", "query parameters are not in ascending order", "v2/restlicodec/query_writer.go:BuildQueryParams", map[string]interface{}{"params": params, "out": outs[0]}, nil)
		}
	}
	sh.Close()
	rep.Shards = sh.Files
	rep.Write(cfg.Out)
}

func genIdent(r *hx.Rand) string {
	n := 1 + r.Intn(5)
	b := make([]byte, n)
	for i := range b {
		b[i] = "abcdeXYZ_09"[r.Intn(11)]
	}
	return string(b)
}

// batch ids: after every AddKey the encoded ids must be the individually encoded keys, each once, in ascending order -
// whatever the history of earlier Encode calls (keys with colliding 32-bit FNV-1a hashes included)
func batchIdHistories(cfg *hx.Config, rep *hx.Report) {
	encodeOne := func(write func(w restlicodec.Writer) error) string {
		w := restlicodec.NewRestLiQueryParamsWriter()
		if err := write(w); err != nil {
			panic(err)
		}
		return w.Finalize()
	}
	check := func(kind string, keys []string, got string, err error) {
		rep.Evaluations++
		want := append([]string{}, keys...)
		sort.Strings(want)
		exp := "ids=List(" + strings.Join(want, ",") + ")"
		if err != nil || got != exp {
			rep.Fail("canon:batch-ids:"+kind, "the ids parameter is not the ascending list of the individually encoded keys (each once)", "v2/restli/batchkeyset", map[string]interface{}{"kind": kind, "encoded_keys_in_insertion_order": keys, "got": got, "want": exp}, fmt.Sprint(err))
		}
	}
	r := hx.NewRand(cfg.Seed + 5)
	pool := []string{"costarring", "liquid", "declinate", "macallums", "altarage", "zinke", "a", "b", "a,b", "(x)", "", "k:1", "é", "z z", "A", "10", "9"}
	rounds := 60
	if cfg.Thorough() {
		rounds = 1500
	}
	for k := 0; k < rounds; k++ {
		perm := append([]string{}, pool...)
		for i := len(perm) - 1; i > 0; i-- {
			j := r.Intn(i + 1)
			perm[i], perm[j] = perm[j], perm[i]
		}
		n := 2 + r.Intn(6)
		// strings (primitive set), bytes (generic set, bucketed by hash), complex keys (generic set on the key part)
		ss := batchkeyset.NewBatchKeySet[string]()
		bs := batchkeyset.NewBytesKeySet()
		cs := batchkeyset.NewComplexKeySet[*fam.CK]()
		var es, eb, ec []string
		for _, key := range perm[:n] {
			key := key
			if err := ss.AddKey(key); err == nil {
				es = append(es, encodeOne(func(w restlicodec.Writer) error { w.WriteString(key); return nil }))
			}
			if err := bs.AddKey([]byte(key)); err == nil {
				eb = append(eb, encodeOne(func(w restlicodec.Writer) error { w.WriteBytes([]byte(key)); return nil }))
			}
			ck := &fam.CK{Inner: fam.Inner{A: int32(len(key)), S: &key}, Params: &fam.Inner{A: int32(k)}}
			if err := cs.AddKey(ck); err == nil {
				ec = append(ec, encodeOne(func(w restlicodec.Writer) error { return ck.MarshalRestLi(w) }))
			}
			if r.Chance(70) { // encode between additions: an earlier Encode must not influence a later one
				g, err := ss.EncodeQueryParams()
				check("string", es, g, err)
				g, err = bs.EncodeQueryParams()
				check("bytes", eb, g, err)
				g, err = cs.EncodeQueryParams()
				check("complex", ec, g, err)
			}
		}
		g, err := ss.EncodeQueryParams()
		check("string", es, g, err)
		g, err = bs.EncodeQueryParams()
		check("bytes", eb, g, err)
		g, err = cs.EncodeQueryParams()
		check("complex", ec, g, err)
	}
}

// RawRecord (restlidata/RawRecord.go): nested Go maps serialise to the same bytes every time, with ascending keys
func rawRecords(cfg *hx.Config, rep *hx.Report) {
	r := hx.NewRand(cfg.Seed + 313)
	var gen func(depth int) interface{}
	gen = func(depth int) interface{} {
		switch k := r.Intn(6); {
		case k == 0 && depth > 0:
			m := map[string]interface{}{}
			for i := 0; i < 2+r.Intn(5); i++ {
				m[genString(r, true)] = gen(depth - 1)
			}
			return m
		case k == 1 && depth > 0:
			var a []interface{}
			for i := 0; i < r.Intn(4); i++ {
				a = append(a, gen(depth-1))
			}
			return a
		case k == 2:
			return int64(r.Intn(1000)) - 500
		case k == 3:
			return float64(r.Intn(100)) / 4
		case k == 4:
			return r.Bool()
		default:
			return genString(r, true)
		}
	}
	n := 150
	if cfg.Thorough() {
		n = 3000
	}
	for i := 0; i < n; i++ {
		rec := restlidata.RawRecord{}
		for k := 0; k < 3+r.Intn(6); k++ {
			rec[genString(r, true)] = gen(3)
		}
		var first string
		for rep2 := 0; rep2 < 5; rep2++ {
			w := restlicodec.NewCompactJsonWriter()
			if err := rec.MarshalRestLi(w); err != nil {
				break
			}
			out := w.Finalize()
			if rep2 == 0 {
				first = out
				if !jsonKeysAscending(out) {
					rep.Fail("canon:raw-record-keys-not-ascending", "RawRecord keys are not in ascending byte order", "v2/restlidata/RawRecord.go:writeInterface", map[string]interface{}{"out": out}, nil)
				}
			} else if out != first {
				rep.Fail("canon:raw-record-differs", "two serialisations of the same RawRecord differ", "v2/restlidata/RawRecord.go:writeInterface", map[string]interface{}{"a": first, "b": out}, nil)
			}
		}
		rep.Evaluations++
	}
}

// batch request bodies written WITH excluded fields (what BatchUpdate / BatchCreate send when the resource has read-only fields):
// {"entities":{key:entity,...}} through a Go map, every entity in its own scope.  The same map must always give the same bytes, and
// every entity must be there with exactly the non-excluded fields, whichever field is excluded (first / last written, none).
func batchBodies(cfg *hx.Config, rep *hx.Report) {
	r := hx.NewRand(cfg.Seed + 313)
	for round := 0; round < 6; round++ {
		n := 2 + r.Intn(5)
		entities := map[int64]*fam.Inner{}
		for len(entities) < n {
			s := genString(r, true)
			entities[int64(r.Intn(1000))] = &fam.Inner{A: int32(r.Intn(100)), S: &s}
		}
		for _, ds := range [][]string{nil, {"s"}, {"a"}, {"a", "s"}} {
			var spec restlicodec.PathSpec
			if ds != nil {
				spec = restlicodec.NewPathSpec(ds...)
			}
			var outs []string
			for k := 0; k < 24; k++ {
				w := restlicodec.NewCompactJsonWriterWithExcludedFields(spec)
				err := w.WriteMap(func(kw func(string) restlicodec.Writer) error {
					return common.MarshalBatchEntities(entities, kw("entities"))
				})
				if err != nil {
					panic(err)
				}
				outs = append(outs, w.Finalize())
			}
			rep.Evaluations++
			rep.Count("batch-body-with-exclusion")
			cd := map[string]interface{}{"entities": entities, "excluded": ds, "out": outs[0]}
			for _, o := range outs[1:] {
				if o != outs[0] {
					cd["other_out"] = o
					rep.Fail("canon:batch-body-differs", "the same batch entities encode to different bodies (with excluded fields)", "v2/restlicodec/writer.go:SetScope / WriteGenericMap", cd, nil)
					break
				}
			}
			var got struct {
				Entities map[string]map[string]interface{} `json:"entities"`
			}
			if err := json.Unmarshal([]byte(outs[0]), &got); err != nil || len(got.Entities) != len(entities) {
				rep.Fail("canon:batch-body-entities-lost", "a batch body written with excluded fields does not hold every entity", "v2/restlicodec/writer.go:SetScope / WriteGenericMap", cd, nil)
				continue
			}
			excl := map[string]bool{}
			for _, d := range ds {
				excl[d] = true
			}
			for k, e := range entities {
				m := got.Entities[fmt.Sprint(k)]
				_, hasA := m["a"]
				_, hasS := m["s"]
				if m == nil || hasA == excl["a"] || hasS == excl["s"] || (hasS && m["s"] != *e.S) {
					rep.Fail("canon:batch-body-wrong-fields", "an entity of a batch body written with excluded fields does not hold exactly its non-excluded fields", "v2/restlicodec/writer.go:SetScope / WriteGenericMap", cd, nil)
					break
				}
			}
		}
	}
}

// building PathSpecs (of any shape: directives that are prefixes of each other, as the generator emits for a read-only `a` next to a
// create-only `a/b`; repeated, empty, wildcard directives) is an unrelated operation: the encodings of other values under other
// specs must be what they were before
func pathSpecHistory(cfg *hx.Config, rep *hx.Report) {
	s1, s2 := "bob", "x"
	vals := []*fam.Inner{{A: 42, S: &s1}, {A: 7, S: &s2}, {A: 1}}
	specs := [][]string{{"a"}, {"s"}, {"a", "s"}, {"nosuch"}}
	digest := func() []string {
		var out []string
		for _, v := range vals {
			for _, ds := range specs {
				for _, f := range []int{0, 2} {
					w := newWriter(f, restlicodec.NewPathSpec(ds...))
					if err := v.MarshalRestLi(w); err != nil {
						panic(err)
					}
					out = append(out, w.Finalize())
				}
			}
		}
		return out
	}
	base := digest()
	for _, unrelated := range [][]string{{"location", "location/latitude"}, {"a/b", "a"}, {"x", "x"}, {"*", "*/y"}, {"p/*/q", "p/*"}, {""}, {"s/deeper", "s"}} {
		func() {
			defer func() { _ = recover() }()
			_ = restlicodec.NewPathSpec(unrelated...)
		}()
		rep.Evaluations++
		rep.Count("pathspec-history")
		again := digest()
		for i := range base {
			if again[i] != base[i] {
				rep.Fail("canon:differs-after-building-a-pathspec", "the encoding of a value under an exclusion spec changed after an UNRELATED PathSpec was built in the same process", "v2/restlicodec/pathspec.go:NewPathSpec",
					map[string]interface{}{"unrelated_spec": unrelated, "before": base[i], "after": again[i]}, nil)
				return
			}
		}
	}
}

// bytes / fixed values serialised from several goroutines at once give what they give sequentially
func concurrentBytes(cfg *hx.Config, rep *hx.Report) {
	r := hx.NewRand(cfg.Seed + 515)
	type job struct {
		v    *fam.Prims
		want [2]string
	}
	var jobs []job
	for i := 0; i < 8; i++ {
		b := make([]byte, 1500+r.Intn(1000))
		for k := range b {
			b[k] = byte(r.Intn(256))
		}
		v := &fam.Prims{S: "s", Y: b}
		var j job
		j.v = v
		for f := 0; f < 2; f++ {
			w := newWriter(f, nil)
			if err := v.MarshalRestLi(w); err != nil {
				panic(err)
			}
			j.want[f] = w.Finalize()
		}
		jobs = append(jobs, j)
	}
	bad := make(chan string, 64)
	done := make(chan bool)
	for g := range jobs {
		go func(j job) {
			defer func() { done <- true }()
			for k := 0; k < 300; k++ {
				f := k % 2
				w := newWriter(f, nil)
				if err := j.v.MarshalRestLi(w); err != nil {
					panic(err)
				}
				if out := w.Finalize(); out != j.want[f] {
					select {
					case bad <- formats[f]:
					default:
					}
					return
				}
			}
		}(jobs[g])
	}
	for range jobs {
		<-done
	}
	rep.Evaluations++
	rep.Count("concurrent-bytes")
	select {
	case f := <-bad:
		rep.Fail("canon:concurrent-bytes-differ", "a bytes value serialised while other goroutines serialise other bytes values differs from its sequential encoding", "v2/restlicodec/json_writer.go:WriteBytes",
			map[string]interface{}{"format": f, "goroutines": len(jobs), "bytes_len": "1500-2500"}, nil)
	default:
	}
}
